#!/usr/bin/env python3
import json,sys
pid=sys.argv[1]
rnd=int(sys.argv[2]) if len(sys.argv)>2 else 1
import os
slots=('a','b') if rnd==1 else ('c','d')
prev=''
if rnd>1:
    items=[]
    for x in ('a','b'):
        mp='/verif/seeded/%s-%s/meta.json'%(pid,x)
        if os.path.exists(mp):
            try: items.append('  - '+json.load(open(mp)).get('summary','')[:420].replace('\n',' '))
            except Exception: pass
    if items: prev='\nTwo changes were already produced for this property by someone else; yours must have DIFFERENT root causes and touch different logic (ideally different functions/files among the anchored code, or a different clause of the property):\n'+'\n'.join(items)+'\n'
for l in open('/verif/properties.jsonl'):
    p=json.loads(l)
    if p['id']==pid: break
print(f"""You are given a scratch git worktree of the rqlite repository (a distributed SQLite database written in Go; module github.com/rqlite/rqlite/v10) at /tmp/seed-{pid}. Work ONLY inside /tmp/seed-{pid} and /tmp/seed-{pid}-out (create it). Do not read or touch /verif or /repo (other than through your worktree), and do not commit anything. Never use `git stash` (the stash is shared between worktrees of this repository and other people are working in sibling worktrees): to switch between patched and clean states use `git diff > file`, `git checkout -- .` and `git apply file`.

Go setup for every shell command (the sandbox is offline): `export GOFLAGS=-mod=mod GOPROXY=off GOSUMDB=off GOTOOLCHAIN=local` and use the `go1.26.8` binary (e.g. `cd /tmp/seed-{pid} && go1.26.8 test -count=1 ./db/...`). The first cgo build takes about a minute. The machine is shared and busy, so tests may be slow; use generous -timeout values.

Here is a semantic property that rqlite is supposed to satisfy:

Property {pid}: {p['title']}
Statement: {p['statement']}
Scope (what it quantifies over): {p['quantifier']['text']}
Code it is anchored in: {', '.join(p['anchors']['files'])}

{prev}
YOUR TASK: produce TWO different, independent, realistic changes to the rqlite source (not to its tests) each of which BREAKS this property while the code still compiles and the EXISTING tests of the affected packages still pass (run them: at least `go1.26.8 test -count=1` for every package you touch, and say which you ran). Think of the kind of bug a competent developer could introduce in a refactoring, optimisation or feature patch and that code review and the existing test-suite would not catch. The changes must need something specific in order to manifest — a particular interleaving, a crash or fault at a particular point, a multi-step sequence of operations, an unusual input, a boundary value, or two cooperating sites that each look fine alone — NOT something that ordinary use would expose at once. Keep each change small (a few lines to a few dozen lines). The two changes should have different root causes in different parts of the relevant code.

For each change deliver, in /tmp/seed-{pid}-out/{slots[0]}/ and /tmp/seed-{pid}-out/{slots[1]}/:
  * patch.diff — `git diff` of the change relative to the worktree HEAD (source files only; must apply with `git apply` to a clean checkout of HEAD);
  * a demonstration — a Go test file (say demo_test.go, with a comment at the top naming the package directory it must be copied into and the `go test -run` command) or a small program, that FAILS with the change applied and PASSES without it; verify both directions yourself;
  * meta.json — {{"property": "{pid}", "summary": "...what the change does...", "needs": "...what is needed for it to manifest...", "packages_tested": [...], "commands_run": [...], "demo": "how to run the demonstration"}}.
When done, restore the worktree to a clean HEAD (`git checkout -- . && git clean -fd`). Your final message: for each change two or three sentences (what, where, what it needs to manifest, which existing tests you ran and that they passed, that the demo fails with / passes without the change).""")
