#!/bin/bash
# usage: tools/seeded.sh <CNN> <a|b|dir> <pkgdir for demo> <-run regex> [checktier]
# Confirms a seeded change (patch.diff + demo test) in scratch copies of /repo and runs ./check against it.
# Steps: (1) demo passes on clean copy, (2) patch applies+builds, demo fails, (3) package's own tests pass with patch,
# (4) ./check CNN with VERIF_REPO=<patched copy>. Prints a summary; never touches /repo.
set -u
ID=$1; VAR=$2; PKG=$3; RUN=$4; TIER=${5:-quick}
SRC=/verif/seeded/$ID-$VAR
[ -d "$SRC" ] || { mkdir -p "$SRC"; cp -r /tmp/seed-$ID-out/$VAR/. "$SRC/"; }
export GOFLAGS=-mod=mod GOPROXY=off GOSUMDB=off GOTOOLCHAIN=local
D=/dev/shm/seeded.$ID.$VAR.$$
rm -rf $D; mkdir -p $D/clean $D/mut
(cd /repo && git ls-files -z | xargs -0 cp --parents -t $D/clean) ; cp -a $D/clean/. $D/mut/
DEMO=$(ls $SRC/*_test.go 2>/dev/null | head -1)
(cd $D/mut && git apply --whitespace=nowarn $SRC/patch.diff 2>/dev/null || patch -p1 -s < $SRC/patch.diff) || { echo "SEEDED $ID-$VAR: patch does not apply"; rm -rf $D; exit 3; }
(cd $D/mut && go1.26.8 build ./... ) || { echo "SEEDED $ID-$VAR: does not build"; rm -rf $D; exit 3; }
res=""
if [ -n "$DEMO" ]; then
  cp $DEMO $D/clean/$PKG/zz_seed_demo_test.go; cp $DEMO $D/mut/$PKG/zz_seed_demo_test.go
  (cd $D/clean && go1.26.8 test -vet=off -count=1 -timeout 20m -run "$RUN" ./$PKG > $D/clean.log 2>&1); c=$?
  (cd $D/mut && go1.26.8 test -vet=off -count=1 -timeout 20m -run "$RUN" ./$PKG > $D/mut.log 2>&1); m=$?
  res="demo(clean)=$c demo(patched)=$m"
  rm -f $D/clean/$PKG/zz_seed_demo_test.go $D/mut/$PKG/zz_seed_demo_test.go
fi
pk=$(cd $D/mut && git -C /repo apply --numstat $SRC/patch.diff 2>/dev/null | awk '{print $3}' | xargs -n1 dirname | sort -u | sed 's#^#./#' | tr '\n' ' ')
(cd $D/mut && go1.26.8 test -vet=off -count=1 -timeout 30m $pk > $D/pkg.log 2>&1); p=$?
res="$res pkgtests($pk)=$p"
cd /verif && VERIF_REPO=$D/mut ./check $ID $TIER > $D/check.log 2>&1; k=$?
echo "SEEDED $ID-$VAR: $res check=$k $(grep -c '^VIOLATION' $D/check.log) violation lines"
grep '^violation:' $D/check.log | head -2 | cut -c1-400
[ $p -ne 0 ] && grep -E '^(--- FAIL|FAIL)' $D/pkg.log | head -5
mkdir -p $SRC/logs; cp $D/*.log $SRC/logs/ 2>/dev/null
rm -rf $D
