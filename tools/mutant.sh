#!/bin/sh
# usage: tools/mutant.sh <CNN> <patch> [tier]   — apply <patch> to a scratch copy of /repo, run the check there,
# print the outcome (expects exit 1 + VIOLATION), remove the copy. Never touches /repo.
set -u
ID=$1; PATCH=$(readlink -f "$2"); TIER=${3:-quick}
D=/dev/shm/mut.$$.$(basename "$PATCH" | tr -c 'A-Za-z0-9' _)
rm -rf "$D"; mkdir -p "$D"
(cd /repo && git ls-files -z | xargs -0 cp --parents -t "$D") || exit 2
# include uncommitted working tree state too
(cd /repo && git diff HEAD) | (cd "$D" && patch -p1 -s >/dev/null 2>&1 || true)
if ! (cd "$D" && patch -p1 -s < "$PATCH"); then echo "MUTANT $ID $(basename $PATCH): patch does not apply"; rm -rf "$D"; exit 3; fi
cd "$(dirname "$0")/.."
VERIF_REPO="$D" ./check "$ID" "$TIER" > "$D.log" 2>&1; rc=$?
if [ $rc -eq 1 ] && grep -q '^VIOLATION property=' "$D.log"; then echo "MUTANT $ID $(basename $PATCH): CAUGHT ($(grep -c '^VIOLATION' "$D.log") violation lines)"; grep '^violation:' "$D.log" | head -2 | cut -c1-300
elif [ $rc -eq 0 ]; then echo "MUTANT $ID $(basename $PATCH): MISSED (exit 0)"
else echo "MUTANT $ID $(basename $PATCH): INCONCLUSIVE (exit $rc)"; tail -5 "$D.log"; fi
rm -rf "$D" "$D.log"
exit 0
