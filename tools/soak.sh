#!/bin/sh
# usage: tools/soak.sh "<ids>" "<seeds>" [tier] — run checks repeatedly on the unchanged tree; any non-zero exit is reported.
cd "$(dirname "$0")/.."
TIER=${3:-quick}
for s in $2; do for id in $1; do
  VERIF_SEED=$s ./check $id $TIER > /dev/shm/soak.$$.log 2>&1; rc=$?
  echo "soak $id seed=$s rc=$rc $(grep '^check ' /dev/shm/soak.$$.log | tail -1)"
  if [ $rc -ne 0 ]; then mkdir -p build/soak; cp /dev/shm/soak.$$.log build/soak/$id.seed$s.log; echo "   log: build/soak/$id.seed$s.log"; fi
done; done; rm -f /dev/shm/soak.$$.log
