#!/usr/bin/env python3
"""Collect SEEDED result lines from the confirmation logs into /verif/seeded/results.json (latest result per change wins)."""
import glob,json,re,os
res={}
p='/verif/seeded/results.json'
if os.path.exists(p): res=json.load(open(p))
for f in sorted(glob.glob('/dev/shm/seedq*.log'),key=os.path.getmtime):
    lines=open(f,errors='replace').read().split('\n')
    for i,l in enumerate(lines):
        m=re.match(r'SEEDED (C\d+)-(\w+): demo\(clean\)=(\d+) demo\(patched\)=(\d+) pkgtests\((.*?)\)=(\d+) check=(\d+)',l)
        if not m: continue
        key=m.group(1)+'-'+m.group(2)
        sig=''
        if i+1<len(lines) and lines[i+1].startswith('violation:'):
            mm=re.search(r'sig=(\S+)',lines[i+1]); sig=mm.group(1) if mm else ''
        old=res.get(key,{})
        res[key]={"property":m.group(1),"demo_passes_on_clean":m.group(3)=='0',"demo_fails_with_patch":m.group(4)!='0',
                  "package_tests":m.group(5).strip(),"package_tests_pass_with_patch":m.group(6)=='0',
                  "check_exit":int(m.group(7)),"caught":m.group(7)=='1',"signature":sig}
        for kk in ("final","also_caught_by"):
            if kk in old: res[key][kk]=old[kk]
json.dump(res,open(p,'w'),indent=1,sort_keys=True)
c=sum(1 for v in res.values() if v['caught']); print(len(res),'changes;',c,'caught;',[k for k,v in res.items() if not v['caught']])
