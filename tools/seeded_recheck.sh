#!/bin/bash
# usage: tools/seeded_recheck.sh <seeded-id e.g. C17-a> [checkid]  — apply seeded/<id>/patch.diff to a scratch copy of /repo and run
# ./check <checkid or property> quick against it; prints RECHECK line. Used for the final sweep after checks were strengthened.
ID=$1; P=${2:-${ID%%-*}}
D=/dev/shm/recheck.$ID.$$; rm -rf $D; mkdir -p $D
(cd /repo && git ls-files -z | xargs -0 cp --parents -t $D)
if ! (cd $D && (git apply --whitespace=nowarn /verif/seeded/$ID/patch.diff 2>/dev/null || patch -p1 -s < /verif/seeded/$ID/patch.diff)); then echo "RECHECK $ID with=$P: patch does not apply to current /repo"; rm -rf $D; exit 0; fi
cd /verif && VERIF_REPO=$D ./check $P quick > $D.log 2>&1; rc=$?
sig=$(grep -m1 '^violation:' $D.log | sed 's/.*sig=\([^ ]*\).*/\1/')
echo "RECHECK $ID with=$P: exit=$rc sig=$sig"
rm -rf $D $D.log
