#!/bin/sh
# usage: tools/applyfix.sh <diff> "<commit message starting with fix:>" <pkg>...   — apply a fix to /repo, run the packages' own tests, commit.
set -e
DIFF=$(readlink -f "$1"); MSG=$2; shift 2
cd /repo
git apply --check "$DIFF"
git apply "$DIFF"
gofmt -l $(git diff --name-only | grep '\.go$') | grep . && { echo "gofmt needed"; exit 1; } || true
go build ./... 
for p in "$@"; do go test -mod=mod -vet=off -count=1 -timeout 25m "$p" 2>&1 | tail -3; done
git commit -qam "$MSG"
git log --oneline | head -1
