#!/usr/bin/env python3
"""Regenerate the as-built per-property table and the seeded-change table in DESIGN.md (between markers)."""
import json,os,glob
V='/verif'
def repl(s,b,e,txt):
    if b in s: return s[:s.index(b)+len(b)]+'\n'+txt+s[s.index(e):]
    return s+'\n'+b+'\n'+txt+e+'\n'
rows=["| ID | level | deciding method | units (package: test, quick cases x shards) | own mutants |","|---|---|---|---|---|"]
for f in sorted(glob.glob(V+'/checks.d/C*.json')):
    s=json.load(open(f)); pid=s['property_id']
    units=[]
    for u in s['units']:
        c=u.get('checks',{}).get('quick','-'); sh=u.get('shards',{}).get('quick',1)
        units.append("%s `%s` %s (%sx%s%s)"%(u['name'],u['pkg'].replace('./',''),u['run'].strip('^$'),c,sh,', race' if u.get('race') else ''))
    nm=len(glob.glob(V+'/mutants/%s/*.patch'%pid))
    rows.append("| %s | %s | %s | %s | %d |"%(pid,s.get('level','exploration'),s['technique'].replace('|','/'),'; '.join(units).replace('|','/'),nm))
tab='\n'.join(rows)+'\n'
sr=[]
rp=V+'/seeded/results.json'
if os.path.exists(rp):
    r=json.load(open(rp))
    sr=["| change | property | first run of the property's own check | final result | caught by (signature) |","|---|---|---|---|---|"]
    for k in sorted(r):
        v=r[k]; fin=v.get('final',{})
        first='caught' if v.get('caught') else ('inconclusive' if v.get('check_exit')==2 else 'MISSED')
        fr=fin.get('result','(not re-run)')
        by=fin.get('by',v['property'] if v.get('caught') else '')
        sig=fin.get('sig',v.get('signature',''))
        sr.append("| %s | %s | %s | %s | %s `%s` |"%(k,v['property'],first,fr,by,sig))
st='\n'.join(sr)+'\n'
p=V+'/DESIGN.md'; s=open(p).read()
s=repl(s,'<!-- BEGIN ASBUILT -->','<!-- END ASBUILT -->',tab)
s=repl(s,'<!-- BEGIN SEEDED -->','<!-- END SEEDED -->',st)
open(p,'w').write(s)
print('ok')
