#!/usr/bin/env python3
"""Regenerate the findings tables in DESIGN.md (between the BEGIN/END FINDINGS markers) from known_findings.json."""
import json,os,re,subprocess
V='/verif'
kf=json.load(open(V+'/known_findings.json'))['findings']
fixed=[f for f in kf if f['status']=='fixed']; opn=[f for f in kf if f['status']=='open']
commits={}
for f in fixed: commits.setdefault(f['commit'],[]).append(f)
subj={}
for c in commits:
    try: subj[c]=subprocess.check_output(['git','-C','/repo','log','-1','--format=%s',c]).decode().strip()
    except Exception: subj[c]='?'
out=[]
out.append("### 9.1 Genuine defects repaired (`fix:` commits in /repo)\n")
out.append("| property | commit | what failed (finding signatures) |\n|---|---|---|")
order=subprocess.check_output(['git','-C','/repo','log','--reverse','--format=%h']).decode().split()
for c in sorted(commits,key=lambda c: order.index(c) if c in order else 999):
    fs=commits[c]
    props=sorted({f['property'] for f in fs})
    sigs=', '.join('`%s`'%f['signature'] for f in fs)
    out.append("| %s | %s `%s` | %s — %s |"%('/'.join(props),c,subj[c].replace('|','/'),fs[0]['what'].replace('|','/'),sigs))
out.append("\n### 9.2 Genuine defects recorded as known findings (status `open`)\n")
out.append("| property | signature | what fails / why not repaired here |\n|---|---|---|")
for f in sorted(opn,key=lambda f:(f['property'],f['signature'])):
    out.append("| %s | `%s` | %s |"%(f['property'],f['signature'],f['what'].replace('|','/')))
txt='\n'.join(out)+'\n'
p=V+'/DESIGN.md'; s=open(p).read()
b,e='<!-- BEGIN FINDINGS -->','<!-- END FINDINGS -->'
if b in s:
    s=s[:s.index(b)+len(b)]+'\n'+txt+s[s.index(e):]
else:
    s+='\n\n---------------------------------------------------------------------------\n\n## 9. Results on the pinned tree\n\n'+b+'\n'+txt+e+'\n'
open(p,'w').write(s)
print(len(fixed),'fixed entries in',len(commits),'commits;',len(opn),'open')
