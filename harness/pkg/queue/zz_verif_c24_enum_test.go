package queue

// C24, bounded-exhaustive part: every op sequence up to a fixed length over a
// five-letter alphabet, for batch sizes 1..3 with the timer disabled (so the
// schedule is fully controlled by the sequence), run in lock-step on the real
// queue and judged by the same invariants O1-O5 as the generated sequences.

import (
	"fmt"
	"testing"
	"time"

	"github.com/rqlite/rqlite/v10/internal/verif/vstat"
)

// alphabet: W write 1 object with completion channel, w write 2 objects
// without, F flush, C consume (waits when something is due, polls otherwise),
// X close the oldest unclosed request.
const c24Alphabet = "WwFCX"

// slabbed: the object slices are sub-slices (len < cap) of one slab, even
// chunks first, then the odd ones, so that the spare capacity of an earlier
// write covers the cells of a later one.
func c24RunEnum(seq string, batchSize int, slabbed bool) (sig, msg string) {
	var slab *c24Slab
	if slabbed {
		slab = c24NewSlab(len(seq)+1, 2)
	}
	nthWrite := 0
	q := New[string](len(seq)+4, batchSize, 0)
	defer c24CloseQueue(q)
	var writes []*c24Write
	var batches []*c24Batch
	pending := 0
	var dueSeq, lastSeq int64
	received := func() int64 {
		if len(batches) == 0 {
			return 0
		}
		return batches[len(batches)-1].req.SequenceNumber
	}
	check := func(complete bool) (string, string) {
		sig, msg, contains := c24Assign(writes, batches, batchSize, complete)
		if sig != "" {
			return sig, msg
		}
		inClosed := map[*c24Write]bool{}
		for bi, b := range batches {
			if b.closed {
				for _, w := range contains[bi] {
					inClosed[w] = true
				}
			}
		}
		for _, w := range writes {
			if w.ch == nil {
				continue
			}
			if c24Closed(w.ch) && !inClosed[w] {
				return "C24/completion-before-release", fmt.Sprintf("completion channel of write #%d closed before its request was closed by the consumer", w.writer)
			}
			if !c24Closed(w.ch) && inClosed[w] {
				return "C24/completion-not-fired", fmt.Sprintf("completion channel of write #%d open after its request was closed", w.writer)
			}
		}
		return "", ""
	}
	recv := func(wait bool) bool {
		if wait {
			select {
			case r := <-q.C:
				batches = append(batches, &c24Batch{req: r})
				return true
			case <-time.After(c24Proceed):
				return false
			}
		}
		select {
		case r := <-q.C:
			batches = append(batches, &c24Batch{req: r})
			return true
		default:
			return false
		}
	}
	for i, c := range seq {
		switch c {
		case 'W', 'w':
			cw := &c24Write{writer: i}
			if c == 'W' {
				cw.objs = []string{fmt.Sprintf("o%d", i)}
				cw.ch = make(FlushChannel)
			} else {
				cw.objs = []string{fmt.Sprintf("o%da", i), fmt.Sprintf("o%db", i)}
			}
			objs := append([]string{}, cw.objs...)
			if slab != nil {
				half := (len(seq) + 2) / 2
				c := 2 * nthWrite
				if nthWrite >= half {
					c = 2*(nthWrite-half) + 1
				}
				objs = slab.take(c, cw.objs)
				nthWrite++
			}
			s, err := q.Write(objs, cw.ch)
			if err != nil {
				return "C24/write-error", err.Error()
			}
			if s <= lastSeq {
				return "C24/write-seq-not-increasing", fmt.Sprintf("seq %d after %d", s, lastSeq)
			}
			cw.seq, lastSeq = s, s
			writes = append(writes, cw)
			pending++
			if pending == batchSize {
				dueSeq, pending = s, 0
			}
		case 'F':
			q.Flush()
			dueSeq, pending = lastSeq, 0
		case 'C':
			if received() < dueSeq {
				if !recv(true) {
					return "C24/write-not-emitted", fmt.Sprintf("writes up to #%d are due but nothing was emitted within %v", dueSeq-writes[0].seq, c24Proceed)
				}
			} else {
				recv(false)
			}
		case 'X':
			for _, b := range batches {
				if !b.closed {
					b.req.Close()
					b.closed = true
					break
				}
			}
		}
		if sig, msg := check(false); sig != "" {
			return sig, msg
		}
	}
	q.Flush()
	for len(writes) > 0 && received() < lastSeq {
		if !recv(true) {
			return "C24/write-not-emitted", fmt.Sprintf("after the final Flush nothing more was emitted within %v", c24Proceed)
		}
		if sig, msg := check(false); sig != "" {
			return sig, msg
		}
	}
	for _, b := range batches {
		if !b.closed {
			b.req.Close()
			b.closed = true
		}
	}
	return check(true)
}

func TestVerif_C24_Enum(t *testing.T) {
	maxLen := vstat.Scale(6, 8)
	rec := vstat.New(t, "C24", "enum",
		fmt.Sprintf("bounded-exhaustive: every sequence of length 1..%d over {W write+channel, w write 2 objects, F flush, C consume, X close oldest request} for batch sizes 1,2,3 with the timer off, in lock-step on the real queue, each once with freshly allocated object slices and (>=3 writes) once with slices carved, len<cap, out of one shared slab with even chunks before odd ones; invariants O1-O5 after every op and after a final flush; non-trivial = at least two writes and one of F/C/X; distinct by batch size + sequence", maxLen))
	failed := false
	var walk func(prefix []byte)
	walk = func(prefix []byte) {
		if failed {
			return
		}
		if len(prefix) > 0 {
			seq := string(prefix)
			nw, other := 0, 0
			for _, c := range seq {
				if c == 'W' || c == 'w' {
					nw++
				} else {
					other++
				}
			}
			for bs := 1; bs <= 3; bs++ {
				canon := fmt.Sprintf("bs=%d %s", bs, seq)
				rec.Case(nw >= 2 && other >= 1, canon)
				if len(seq) == maxLen {
					rec.Sample(canon)
				}
				for _, slabbed := range []bool{false, true} {
					if slabbed && nw < 3 {
						continue // needs three writes to differ from the plain run
					}
					if sig, msg := c24RunEnum(seq, bs, slabbed); sig != "" {
						failed = true
						t.Errorf("%s", rec.Violation(sig, "%s :: %s slab=%v", msg, canon, slabbed))
						return
					}
				}
			}
		}
		if len(prefix) == maxLen {
			return
		}
		for i := 0; i < len(c24Alphabet); i++ {
			walk(append(prefix[:len(prefix):len(prefix)], c24Alphabet[i]))
		}
	}
	walk(nil)
	rec.SetExhaustive(!failed)
}
