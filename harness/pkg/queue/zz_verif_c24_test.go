package queue

// C24: the batching queue is FIFO, lossless and batch-bounded.
//
// Oracle (from the property text, nothing from queue.go):
//   O1 the concatenation of the objects of all emitted requests equals the
//      concatenation of all written slices taken in sequence-number order;
//   O2 a written slice is never split over two requests;
//   O3 a request holds at most batchSize writes;
//   O4 request sequence numbers strictly increase and each equals the largest
//      write sequence number it contains; write sequence numbers strictly
//      increase in issue order;
//   O5 a write's completion channel is not closed before the consumer closes
//      the request that holds the write, and is closed once it did.
// A write with sequence number s belongs to the first request whose sequence
// number is >= s (consequence of O1+O4); O1-O3 are then checked request by
// request against the writes assigned to it.
//
// Timing: emission is required ("must proceed", 10 s) after the batch size was
// reached, after Flush and after waiting longer than the timeout. Early
// emission is never an error (a timer may fire at any time on a loaded
// machine). Completion channels are checked for "not closed" at every step.

import (
	"fmt"
	"runtime"
	"sort"
	"strings"
	"sync"
	"sync/atomic"
	"testing"
	"time"

	"github.com/rqlite/rqlite/v10/internal/verif/vstat"
	"pgregory.net/rapid"
)

const c24Proceed = 10 * time.Second

type c24Write struct {
	seq    int64
	writer int
	objs   []string
	ch     FlushChannel
}

type c24Batch struct {
	req    *Request[string]
	closed bool
}

// c24CloseQueue closes q while draining q.C, so that Close cannot hang on a
// batching loop that is blocked handing over a request.
func c24CloseQueue(q *Queue[string]) {
	done := make(chan struct{})
	fin := make(chan struct{})
	go func() {
		defer close(fin)
		for {
			select {
			case <-q.C:
			case <-done:
				return
			}
		}
	}()
	q.Close()
	close(done)
	<-fin
}

// c24Slab hands out object slices that are sub-slices of one shared backing
// array (len < cap: the capacity runs to the end of the slab), the way a caller
// that carves its writes out of one buffer would. Chunks are taken in a
// generated order, so a write's spare capacity overlaps the cells of writes
// that are still pending. The expected objects are always kept in separate
// copies.
type c24Slab struct {
	cells []string
	chunk int
}

func c24NewSlab(chunks, chunk int) *c24Slab {
	s := &c24Slab{cells: make([]string, chunks*chunk), chunk: chunk}
	for i := range s.cells {
		s.cells[i] = fmt.Sprintf("slab-filler-%d", i)
	}
	return s
}

// take stores objs into chunk c and returns the slab sub-slice holding them.
func (s *c24Slab) take(c int, objs []string) []string {
	off := c * s.chunk
	copy(s.cells[off:], objs)
	return s.cells[off : off+len(objs)]
}

func c24Closed(ch FlushChannel) bool {
	select {
	case <-ch:
		return true
	default:
		return false
	}
}

// c24Assign checks O1-O4 for the emitted requests against the writes (sorted
// by seq) and returns for every request the writes it contains. complete=true
// additionally requires that every write has been emitted.
func c24Assign(writes []*c24Write, batches []*c24Batch, batchSize int, complete bool) (sig, msg string, contains [][]*c24Write) {
	ws := append([]*c24Write{}, writes...)
	sort.Slice(ws, func(i, j int) bool { return ws[i].seq < ws[j].seq })
	for i := 1; i < len(ws); i++ {
		if ws[i].seq == ws[i-1].seq {
			return "C24/duplicate-write-seq", fmt.Sprintf("two writes got sequence number %d", ws[i].seq), nil
		}
	}
	wi := 0
	var prevSeq int64
	for bi, b := range batches {
		if bi > 0 && b.req.SequenceNumber <= prevSeq {
			return "C24/batch-seq-not-increasing", fmt.Sprintf("request #%d has seq %d after %d", bi, b.req.SequenceNumber, prevSeq), nil
		}
		prevSeq = b.req.SequenceNumber
		var in []*c24Write
		var want []string
		for wi < len(ws) && ws[wi].seq <= b.req.SequenceNumber {
			in = append(in, ws[wi])
			want = append(want, ws[wi].objs...)
			wi++
		}
		contains = append(contains, in)
		if len(in) == 0 {
			return "C24/batch-content", fmt.Sprintf("request #%d (seq %d, objects %v) contains no complete write", bi, b.req.SequenceNumber, b.req.Objects), nil
		}
		if in[len(in)-1].seq != b.req.SequenceNumber {
			return "C24/batch-seq-not-max", fmt.Sprintf("request #%d carries seq %d but the largest write seq at or below it is %d", bi, b.req.SequenceNumber, in[len(in)-1].seq), nil
		}
		if strings.Join(want, ",") != strings.Join(b.req.Objects, ",") || len(want) != len(b.req.Objects) {
			return "C24/batch-content", fmt.Sprintf("request #%d (seq %d) objects %v, but the writes up to that seq are %v (lost, duplicated, reordered or split write)", bi, b.req.SequenceNumber, b.req.Objects, want), nil
		}
		if len(in) > batchSize {
			return "C24/batch-too-large", fmt.Sprintf("request #%d holds %d writes, batch size is %d", bi, len(in), batchSize), nil
		}
	}
	if complete && wi != len(ws) {
		return "C24/write-not-emitted", fmt.Sprintf("%d of %d writes were never emitted (first missing seq %d objs %v)", len(ws)-wi, len(ws), ws[wi].seq, ws[wi].objs), nil
	}
	return "", "", contains
}

func c24Ints(n int) []int {
	v := make([]int, n)
	for i := range v {
		v[i] = i
	}
	return v
}

func TestVerif_C24_Lockstep(t *testing.T) {
	rec := vstat.New(t, "C24", "lockstep",
		"lock-step sequences of 6..30 ops on one Queue[string] (batch size 1..5, timeout disabled / 1h / 2-8ms, capacity large enough never to block): Write by writer w of 0..3 unique objects with or without completion channel (in half of the cases the object slices are sub-slices with spare capacity of one shared slab, taken in a generated order), Flush, wait longer than the timeout, consume one request (must arrive within 10s when the batch size was reached, a flush was issued or the timeout was waited out), close a received request; after every op no completion channel of an unclosed request may be closed and O1-O4 must hold for everything received; non-trivial = at least two requests were emitted, one of them by batch-size and one by flush or timer, and some completion channel was observed open after its request was received; distinct by op sequence")
	rapid.Check(t, func(rt *rapid.T) {
		batchSize := rapid.IntRange(1, 5).Draw(rt, "batchSize")
		tmoKind := rapid.SampledFrom([]string{"off", "long", "short", "short"}).Draw(rt, "tmoKind")
		var tmo time.Duration
		switch tmoKind {
		case "long":
			tmo = time.Hour
		case "short":
			tmo = time.Duration(rapid.IntRange(2, 8).Draw(rt, "tmoMs")) * time.Millisecond
		}
		nOps := rapid.IntRange(6, 30).Draw(rt, "nops")
		var slab *c24Slab
		var slabOrder []int
		if rapid.Bool().Draw(rt, "slab") {
			slab = c24NewSlab(nOps, 3)
			slabOrder = rapid.Permutation(c24Ints(nOps)).Draw(rt, "slabOrder")
		}
		q := New[string](4*nOps+8, batchSize, tmo)
		defer c24CloseQueue(q)

		var writes []*c24Write
		var batches []*c24Batch
		var trace []string
		trace = append(trace, fmt.Sprintf("new(bs=%d,tmo=%s)", batchSize, tmoKind))
		pendingModel := 0 // writes since the last model-known cut
		dueSeq := int64(0) // every write with seq <= dueSeq must be emitted
		var lastSeq int64
		perWriter := map[int]int{}
		bySize, byFlushOrTimer, openAfterRecv := 0, 0, 0

		fail := func(sig, f string, a ...any) {
			for _, b := range batches {
				if !b.closed {
					b.req.Close()
				}
			}
			rt.Fatalf("%s", rec.Violation(sig, f+" :: trace=%s", append(a, strings.Join(trace, " "))...))
		}
		receivedSeq := func() int64 {
			if len(batches) == 0 {
				return 0
			}
			return batches[len(batches)-1].req.SequenceNumber
		}
		invariants := func() {
			sig, msg, contains := c24Assign(writes, batches, batchSize, false)
			if sig != "" {
				fail(sig, "%s", msg)
			}
			inClosed := map[*c24Write]bool{}
			for bi, b := range batches {
				for _, w := range contains[bi] {
					if b.closed {
						inClosed[w] = true
					}
				}
			}
			for _, w := range writes {
				if w.ch == nil {
					continue
				}
				if c24Closed(w.ch) && !inClosed[w] {
					fail("C24/completion-before-release", "completion channel of write seq=%d objs=%v is closed but the consumer has not closed a request holding it", w.seq, w.objs)
				}
				if !c24Closed(w.ch) && inClosed[w] {
					fail("C24/completion-not-fired", "completion channel of write seq=%d is still open after its request was closed", w.seq)
				}
			}
		}
		recv := func(d time.Duration) bool {
			select {
			case r := <-q.C:
				if r == nil {
					fail("C24/batch-content", "nil request received")
				}
				batches = append(batches, &c24Batch{req: r})
				trace = append(trace, fmt.Sprintf("[got seq-off=%d n=%d]", r.SequenceNumber-writes[0].seq, len(r.Objects)))
				return true
			case <-time.After(d):
				return false
			}
		}

		for step := 0; step < nOps; step++ {
			kinds := []string{"write", "write", "write", "write", "flush", "consume", "consume"}
			if tmoKind == "short" {
				kinds = append(kinds, "wait")
			}
			for _, b := range batches {
				if !b.closed {
					kinds = append(kinds, "close", "close")
					break
				}
			}
			switch k := rapid.SampledFrom(kinds).Draw(rt, "kind"); k {
			case "write":
				w := rapid.IntRange(0, 3).Draw(rt, "writer")
				n := rapid.SampledFrom([]int{0, 1, 1, 1, 2, 3}).Draw(rt, "n")
				withCh := rapid.Bool().Draw(rt, "ch")
				cw := &c24Write{writer: w}
				for i := 0; i < n; i++ {
					cw.objs = append(cw.objs, fmt.Sprintf("w%d.%d.%d", w, perWriter[w], i))
				}
				perWriter[w]++
				if withCh {
					cw.ch = make(FlushChannel)
				}
				trace = append(trace, fmt.Sprintf("write(w%d,n=%d,ch=%v)", w, n, withCh))
				var objs []string
				if slab != nil {
					objs = slab.take(slabOrder[len(writes)], cw.objs)
				} else if n > 0 || rapid.Bool().Draw(rt, "emptyNotNil") {
					objs = append([]string{}, cw.objs...)
				}
				seq, err := q.Write(objs, cw.ch)
				if err != nil {
					fail("C24/write-error", "Write on an open queue failed: %v", err)
				}
				if len(writes) > 0 && seq <= lastSeq {
					fail("C24/write-seq-not-increasing", "Write returned seq %d after %d", seq, lastSeq)
				}
				lastSeq = seq
				cw.seq = seq
				writes = append(writes, cw)
				pendingModel++
				if pendingModel == batchSize {
					// counted from the last flush/size cut the model knows of: a timer
					// cut in between only makes the real queue emit earlier or later
					// by timer, which the "short" timeout covers below.
					if tmoKind != "short" {
						dueSeq = seq
					}
					pendingModel = 0
				}
			case "flush":
				trace = append(trace, "flush")
				if err := q.Flush(); err != nil {
					fail("C24/flush-error", "Flush failed: %v", err)
				}
				dueSeq = lastSeq
				pendingModel = 0
			case "wait":
				trace = append(trace, "wait")
				time.Sleep(tmo + 3*time.Millisecond)
				dueSeq = lastSeq
				pendingModel = 0
			case "consume":
				trace = append(trace, "consume")
				if len(writes) == 0 {
					break
				}
				if receivedSeq() < dueSeq {
					if !recv(c24Proceed) {
						fail("C24/write-not-emitted", "writes up to seq-off %d are due (batch size reached, flushed or timeout waited out) but nothing was emitted within %v; last received seq-off %d", dueSeq-writes[0].seq, c24Proceed, receivedSeq()-writes[0].seq)
					}
				} else {
					recv(2 * time.Millisecond)
				}
			case "close":
				var open []int
				for i, b := range batches {
					if !b.closed {
						open = append(open, i)
					}
				}
				i := rapid.SampledFrom(open).Draw(rt, "which")
				trace = append(trace, fmt.Sprintf("close(#%d)", i))
				// before closing: its channels must still be open (checked by invariants at the previous step)
				for _, w := range writes {
					if w.ch != nil && !c24Closed(w.ch) && w.seq <= batches[i].req.SequenceNumber && (i == 0 || w.seq > batches[i-1].req.SequenceNumber) {
						openAfterRecv++
					}
				}
				batches[i].req.Close()
				batches[i].closed = true
			}
			invariants()
		}
		// everything written must come out after a final flush
		trace = append(trace, "final-flush")
		q.Flush()
		for len(writes) > 0 && receivedSeq() < lastSeq {
			if !recv(c24Proceed) {
				fail("C24/write-not-emitted", "after the final Flush nothing more was emitted within %v; last received seq-off %d of %d", c24Proceed, receivedSeq()-writes[0].seq, lastSeq-writes[0].seq)
			}
			invariants()
		}
		if recv(20 * time.Millisecond) {
			fail("C24/batch-content", "a request was emitted although every write had already been emitted")
		}
		if sig, msg, _ := c24Assign(writes, batches, batchSize, true); sig != "" {
			fail(sig, "%s", msg)
		}
		for _, b := range batches {
			if !b.closed {
				b.req.Close()
				b.closed = true
			}
		}
		invariants()

		// classification
		_, _, contains := c24Assign(writes, batches, batchSize, true)
		for _, in := range contains {
			if len(in) == batchSize {
				bySize++
			} else {
				byFlushOrTimer++
			}
		}
		rec.Case(len(batches) >= 2 && bySize > 0 && byFlushOrTimer > 0 && openAfterRecv > 0, strings.Join(trace, " "))
		rec.Sample(strings.Join(trace, " "))
		rec.Label("timeout-" + tmoKind)
		if slab != nil {
			rec.Label("objects-carved-from-shared-slab")
		}
		if bySize > 0 {
			rec.Label("full-batch")
		}
		if byFlushOrTimer > 0 {
			rec.Label("partial-batch(flush/timer)")
		}
		if openAfterRecv > 0 {
			rec.Label("channel-open-until-close")
		}
		if len(batches) >= 3 {
			rec.Label(">=3-requests")
		}
	})
}

// Free-running stress: >=4 writers, a flusher and a consumer that closes
// requests late, small capacity (back-pressure), short timeouts.
func TestVerif_C24_Stress(t *testing.T) {
	rec := vstat.New(t, "C24", "stress",
		"free-running: 4-6 writer goroutines each issue 3..12 Writes (0..3 unique objects, most with a completion channel that the writer then waits for; in half of the cases all writers carve their object slices, len<cap, out of one shared slab in a generated chunk order), a flusher goroutine issues 0..6 Flushes, one consumer receives requests and closes them after 0..3 further requests or yields; capacity 1..8 (writers block), batch size 1..6, timeout off/1-3ms; when all writers are done a final Flush is issued; O1-O4 on the full emitted stream, O5 through a closed-up-to watermark the consumer publishes before Request.Close; non-trivial = some request merged writes of at least two writers and some request was partial; distinct by parameters")
	rapid.Check(t, func(rt *rapid.T) {
		nW := rapid.IntRange(4, 6).Draw(rt, "writers")
		batchSize := rapid.IntRange(1, 6).Draw(rt, "batchSize")
		maxSize := rapid.IntRange(1, 8).Draw(rt, "maxSize")
		tmoMs := rapid.SampledFrom([]int{0, 1, 2, 3}).Draw(rt, "tmoMs")
		nFlush := rapid.IntRange(0, 6).Draw(rt, "flushes")
		holdBack := rapid.IntRange(0, 3).Draw(rt, "holdBack")
		type wstep struct {
			N      int
			Ch     bool
			Before int
		}
		progs := make([][]wstep, nW)
		total := 0
		for w := range progs {
			k := rapid.IntRange(3, 12).Draw(rt, "len")
			for i := 0; i < k; i++ {
				progs[w] = append(progs[w], wstep{
					N:      rapid.SampledFrom([]int{0, 1, 1, 2, 3}).Draw(rt, "n"),
					Ch:     rapid.IntRange(0, 3).Draw(rt, "ch") > 0,
					Before: rapid.IntRange(0, 6).Draw(rt, "before"),
				})
				total++
			}
		}
		var slab *c24Slab
		var slabOrder []int
		base := make([]int, nW)
		if rapid.Bool().Draw(rt, "slab") {
			slab = c24NewSlab(total, 3)
			slabOrder = rapid.Permutation(c24Ints(total)).Draw(rt, "slabOrder")
			off := 0
			for w := range progs {
				base[w] = off
				off += len(progs[w])
			}
		}
		canon := fmt.Sprintf("bs=%d max=%d tmo=%dms fl=%d hold=%d slab=%v%v %v", batchSize, maxSize, tmoMs, nFlush, holdBack, slab != nil, slabOrder, progs)
		q := New[string](maxSize, batchSize, time.Duration(tmoMs)*time.Millisecond)
		defer c24CloseQueue(q)

		var mu sync.Mutex
		var writes []*c24Write
		var batches []*c24Batch
		var closedUpTo atomic.Int64
		var early, stuck, nonMono atomic.Int32
		var earlyMsg atomic.Value
		var received atomic.Int64 // seq of the last received request
		stopConsumer := make(chan struct{})
		consumerDone := make(chan struct{})
		go func() {
			defer close(consumerDone)
			var held []*Request[string]
			closeOne := func() {
				r := held[0]
				held = held[1:]
				for { // publish before closing
					cur := closedUpTo.Load()
					if cur >= r.SequenceNumber || closedUpTo.CompareAndSwap(cur, r.SequenceNumber) {
						break
					}
				}
				r.Close()
			}
			for {
				select {
				case r := <-q.C:
					mu.Lock()
					batches = append(batches, &c24Batch{req: r})
					mu.Unlock()
					received.Store(r.SequenceNumber)
					held = append(held, r)
					for len(held) > holdBack {
						closeOne()
					}
				case <-time.After(500 * time.Microsecond):
					// nothing arriving: writers may be waiting for completion
					for len(held) > 0 {
						closeOne()
					}
				case <-stopConsumer:
					for len(held) > 0 {
						closeOne()
					}
					return
				}
			}
		}()

		var wg sync.WaitGroup
		for w := 0; w < nW; w++ {
			wg.Add(1)
			go func(w int) {
				defer wg.Done()
				var last int64
				for i, s := range progs[w] {
					for y := 0; y < s.Before; y++ {
						runtime.Gosched()
					}
					cw := &c24Write{writer: w}
					for j := 0; j < s.N; j++ {
						cw.objs = append(cw.objs, fmt.Sprintf("w%d.%d.%d", w, i, j))
					}
					if s.Ch {
						cw.ch = make(FlushChannel)
					}
					objs := append([]string{}, cw.objs...)
					if slab != nil {
						objs = slab.take(slabOrder[base[w]+i], cw.objs)
					}
					seq, err := q.Write(objs, cw.ch)
					if err != nil {
						stuck.Store(2)
						return
					}
					if seq <= last {
						nonMono.Store(1)
					}
					last = seq
					cw.seq = seq
					mu.Lock()
					writes = append(writes, cw)
					mu.Unlock()
					if s.Ch && i%2 == 0 {
						// canonical use: block until processed
						select {
						case <-cw.ch:
							if closedUpTo.Load() < seq {
								early.Store(1)
								earlyMsg.Store(fmt.Sprintf("write seq %d objs %v completed while the consumer had closed requests only up to seq %d", seq, cw.objs, closedUpTo.Load()))
							}
						case <-time.After(c24Proceed):
							stuck.Store(1)
							return
						}
					}
				}
			}(w)
		}
		flusherDone := make(chan struct{})
		go func() {
			defer close(flusherDone)
			for i := 0; i < nFlush; i++ {
				for y := 0; y < 20; y++ {
					runtime.Gosched()
				}
				q.Flush()
			}
		}()
		// If the timeout is off, a writer waiting on its completion channel
		// needs somebody to flush: keep flushing gently until writers are done.
		writersDone := make(chan struct{})
		go func() { wg.Wait(); close(writersDone) }()
		helper := time.NewTicker(2 * time.Millisecond)
	loop:
		for {
			select {
			case <-writersDone:
				break loop
			case <-helper.C:
				if tmoMs == 0 {
					q.Flush()
				}
			}
		}
		helper.Stop()
		<-flusherDone
		finish := func() {
			close(stopConsumer)
			<-consumerDone
		}
		if stuck.Load() == 2 {
			finish()
			rt.Fatalf("%s", rec.Violation("C24/write-error", "Write on an open queue failed; %s", canon))
		}
		if stuck.Load() == 1 {
			finish()
			rt.Fatalf("%s", rec.Violation("C24/completion-not-fired", "a writer waited %v for its completion channel although the consumer closes every request it receives and the queue is flushed; %s", c24Proceed, canon))
		}
		q.Flush()
		mu.Lock()
		var lastSeq int64
		for _, w := range writes {
			if w.seq > lastSeq {
				lastSeq = w.seq
			}
		}
		mu.Unlock()
		deadline := time.Now().Add(c24Proceed)
		for received.Load() < lastSeq && time.Now().Before(deadline) {
			time.Sleep(200 * time.Microsecond)
		}
		finish()
		if early.Load() != 0 {
			rt.Fatalf("%s", rec.Violation("C24/completion-before-release", "%v; %s", earlyMsg.Load(), canon))
		}
		if nonMono.Load() != 0 {
			rt.Fatalf("%s", rec.Violation("C24/write-seq-not-increasing", "a writer saw a non-increasing sequence number; %s", canon))
		}
		if sig, msg, _ := c24Assign(writes, batches, batchSize, true); sig != "" {
			rt.Fatalf("%s", rec.Violation(sig, "%s; %s", msg, canon))
		}
		for _, w := range writes {
			if w.ch != nil && !c24Closed(w.ch) {
				rt.Fatalf("%s", rec.Violation("C24/completion-not-fired", "completion channel of write seq %d still open after every request was closed; %s", w.seq, canon))
			}
		}
		_, _, contains := c24Assign(writes, batches, batchSize, true)
		mixed, partial, full := 0, 0, 0
		for _, in := range contains {
			ws := map[int]bool{}
			for _, w := range in {
				ws[w.writer] = true
			}
			if len(ws) >= 2 {
				mixed++
			}
			if len(in) < batchSize {
				partial++
			} else {
				full++
			}
		}
		rec.Case(mixed > 0 && partial > 0, canon)
		rec.Sample(canon)
		if mixed > 0 {
			rec.Label("request-mixes-writers")
		}
		if partial > 0 {
			rec.Label("partial-request")
		}
		if full > 0 {
			rec.Label("full-request")
		}
		if maxSize < batchSize {
			rec.Label("capacity-below-batch-size")
		}
		if slab != nil {
			rec.Label("objects-carved-from-shared-slab")
		}
		rec.LabelN("requests", len(batches))
		rec.LabelN("writes", total)
	})
}
