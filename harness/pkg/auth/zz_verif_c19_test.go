package auth

// C19: credential decisions follow the documented rule.
// Oracle: a direct restatement of the rule in the property statement.
// File semantics: each entry defines its user completely (an omitted password
// is the empty password, omitted perms grant nothing); the last entry for a
// username wins.

import (
	"encoding/json"
	"fmt"
	"strings"
	"testing"

	"github.com/rqlite/rqlite/v10/internal/verif/vstat"
	"pgregory.net/rapid"
)

type c19Entry struct {
	User    string
	HasPw   bool
	Pw      string
	HasPerm bool
	Perms   []string
}

func (e c19Entry) json() string {
	m := []string{fmt.Sprintf(`"username":%s`, c19q(e.User))}
	if e.HasPw {
		m = append(m, fmt.Sprintf(`"password":%s`, c19q(e.Pw)))
	}
	if e.HasPerm {
		b, _ := json.Marshal(e.Perms)
		if e.Perms == nil {
			b = []byte("[]")
		}
		m = append(m, `"perms":`+string(b))
	}
	return "{" + strings.Join(m, ",") + "}"
}

func c19q(s string) string { b, _ := json.Marshal(s); return string(b) }

func c19File(es []c19Entry) string {
	parts := make([]string, len(es))
	for i, e := range es {
		parts[i] = e.json()
	}
	return "[" + strings.Join(parts, ",") + "]"
}

type c19Model struct {
	pw    map[string]string
	perms map[string]map[string]bool
}

func c19Build(es []c19Entry) c19Model {
	m := c19Model{map[string]string{}, map[string]map[string]bool{}}
	for _, e := range es {
		pw := ""
		if e.HasPw {
			pw = e.Pw
		}
		m.pw[e.User] = pw
		ps := map[string]bool{}
		if e.HasPerm {
			for _, p := range e.Perms {
				ps[p] = true
			}
		}
		m.perms[e.User] = ps
	}
	return m
}

func (m c19Model) grant(u, p string) bool {
	ps, ok := m.perms[u]
	return ok && (ps[p] || ps["all"])
}

func (m c19Model) aa(u, pw, p string) bool {
	if m.grant("*", p) {
		return true
	}
	if u == "" {
		return false
	}
	stored, ok := m.pw[u]
	if !ok || stored != pw {
		return false
	}
	return m.grant(u, p) || m.grant("*", p)
}

func c19Sig(es []c19Entry) string {
	// classify: does some later entry omit a field?
	for i, e := range es {
		if i > 0 && (!e.HasPw || !e.HasPerm) {
			return "C19/omitted-field-inherited"
		}
	}
	return "C19/decision-mismatch"
}

func c19CheckFile(rec *vstat.Rec, es []c19Entry, users, pws, perms []string) (string, bool) {
	file := c19File(es)
	cs := NewCredentialsStore()
	if err := cs.Load(strings.NewReader(file)); err != nil {
		return rec.Violation("C19/load-error", "valid credentials file rejected: %v file=%s", err, file), false
	}
	m := c19Build(es)
	for _, u := range users {
		for _, pw := range pws {
			for _, p := range perms {
				got, want := cs.AA(u, pw, p), m.aa(u, pw, p)
				if got != want {
					return rec.Violation(c19Sig(es), "AA(%q,%q,%q)=%v want %v for file %s", u, pw, p, got, want, file), false
				}
			}
		}
	}
	return "", true
}

func c19Nontrivial(es []c19Entry) bool {
	// non-trivial: >=2 entries and (a redefinition, an omitted field, or an all-users entry)
	if len(es) < 2 {
		return false
	}
	seen := map[string]bool{}
	for _, e := range es {
		if seen[e.User] || !e.HasPw || !e.HasPerm || e.User == "*" {
			return true
		}
		seen[e.User] = true
	}
	return false
}

// Exhaustive over a small universe.
func TestVerif_C19_Exhaustive(t *testing.T) {
	rec := vstat.New(t, "C19", "exhaustive",
		"every credentials file of 0..N entries (N=2 quick, 3 thorough) over users {a,b,*,\"\"}, password {absent,\"\",p,q}, perms {absent,[],[query],[execute],[all]} x every AA(user in {\"\",a,b,c,*}, pw in {\"\",p,q}, perm in {query,execute,all}); non-trivial = >=2 entries with a redefinition, an omitted field or an all-users entry; distinct by file text")
	users := []string{"a", "b", "*", ""}
	type pwc struct {
		has bool
		pw  string
	}
	pwcs := []pwc{{false, ""}, {true, ""}, {true, "p"}, {true, "q"}}
	type pc struct {
		has   bool
		perms []string
	}
	pcs := []pc{{false, nil}, {true, []string{}}, {true, []string{"query"}}, {true, []string{"execute"}}, {true, []string{"all"}}}
	var all []c19Entry
	for _, u := range users {
		for _, w := range pwcs {
			for _, p := range pcs {
				all = append(all, c19Entry{u, w.has, w.pw, p.has, p.perms})
			}
		}
	}
	qUsers := []string{"", "a", "b", "c", "*"}
	qPws := []string{"", "p", "q"}
	qPerms := []string{"query", "execute", "all"}
	maxN := vstat.Scale(2, 3)
	var walk func(prefix []c19Entry, depth int)
	failed := false
	walk = func(prefix []c19Entry, depth int) {
		if failed {
			return
		}
		rec.Case(c19Nontrivial(prefix), c19File(prefix))
		if len(prefix) == 2 {
			rec.Sample(c19File(prefix))
		}
		if msg, ok := c19CheckFile(rec, prefix, qUsers, qPws, qPerms); !ok {
			if rec.KnownHit(c19Sig(prefix), "credentials entry that omits a field inherits it from the previous entry") {
				// continue the enumeration behind the known class
			} else {
				failed = true
				t.Errorf("%s", msg)
				return
			}
		}
		if depth == maxN {
			return
		}
		for _, e := range all {
			walk(append(prefix[:len(prefix):len(prefix)], e), depth+1)
		}
	}
	walk(nil, 0)
	rec.SetExhaustive(!failed)
}

// Random search over a larger universe (longer files, more perms, odd strings).
func TestVerif_C19_Rapid(t *testing.T) {
	rec := vstat.New(t, "C19", "rapid",
		"rapid: files of 0..8 entries over users {a,b,c,*,\"\",A,'a b',é}, passwords incl. absent/empty/unicode/long, perms subsets of all 15 documented permissions + unknown; all queries over the users/passwords/perms occurring in the file plus fresh ones; non-trivial as in exhaustive")
	uni := []string{"a", "b", "c", "*", "", "A", "a b", "é", "all"}
	pws := []string{"", "p", "q", "P", "p ", "пароль", strings.Repeat("x", 70)}
	perms := []string{PermAll, PermJoin, PermJoinReadOnly, PermJoinReadReplica, PermRemove, PermExecute, PermQuery, PermStatus, PermReady, PermBackup, PermLoad, PermSnapshot, PermLeaderOps, PermUI, "unknown", ""}
	rapid.Check(t, func(rt *rapid.T) {
		n := rapid.IntRange(0, 8).Draw(rt, "n")
		es := make([]c19Entry, n)
		for i := range es {
			es[i] = c19Entry{
				User:    rapid.SampledFrom(uni).Draw(rt, "user"),
				HasPw:   rapid.IntRange(0, 3).Draw(rt, "haspw") > 0,
				Pw:      rapid.SampledFrom(pws).Draw(rt, "pw"),
				HasPerm: rapid.IntRange(0, 3).Draw(rt, "hasperm") > 0,
				Perms:   rapid.SliceOfNDistinct(rapid.SampledFrom(perms), 0, 4, rapid.ID[string]).Draw(rt, "perms"),
			}
		}
		rec.Case(c19Nontrivial(es), c19File(es))
		rec.Sample(c19File(es))
		if msg, ok := c19CheckFile(rec, es, append(uni, "zz"), pws, perms); !ok {
			if rec.KnownHit(c19Sig(es), "credentials entry that omits a field inherits it from the previous entry") {
				return
			}
			rt.Fatalf("%s", msg)
		}
	})
}
