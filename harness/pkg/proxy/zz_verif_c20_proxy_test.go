package proxy

// C20 unit "proxy": proxy.Proxy over recording fakes. For every operation kind
// and generated request / local outcome / leader-address outcome / remote
// outcome / forwarding mode the proxy must follow the contract stated in the
// property and in the package documentation:
//
//   local result (nil error or any error other than ErrNotLeader) -> returned
//        as is, the remote side is never contacted;
//   local ErrNotLeader (also wrapped) and noForward -> ErrNotLeader, no remote call;
//   local ErrNotLeader and forwarding -> leader address looked up; unknown or
//        failing -> ErrLeaderNotFound / that error, no remote call; otherwise
//        EXACTLY ONE remote call to that address carrying the identical request,
//        the caller's credentials, timeout and retries; its results and raft
//        index are returned unchanged together with the leader address; a remote
//        "unauthorized" is reported as ErrUnauthorized, other errors unchanged.
//   The request is never modified and the local store is asked exactly once.

import (
	"context"
	"errors"
	"fmt"
	"io"
	"strings"
	"testing"
	"time"

	clstrPB "github.com/rqlite/rqlite/v10/cluster/proto"
	command "github.com/rqlite/rqlite/v10/command/proto"
	"github.com/rqlite/rqlite/v10/internal/verif/vstat"
	"github.com/rqlite/rqlite/v10/store"
	pb "google.golang.org/protobuf/proto"
	"pgregory.net/rapid"
)

type c20Call struct {
	Side    string // "local" | "remote" | "leaderaddr"
	Op      string
	Req     any
	Addr    string
	Creds   *clstrPB.Credentials
	Timeout time.Duration
	Retries int
	Writer  io.Writer
}

type c20Plan struct {
	localErr  error
	addr      string
	addrErr   error
	remoteErr error
	// what LeaderAddr answers from the second call on (leadership may move while
	// the request is being forwarded); laterSet=false: same as the first answer
	laterSet  bool
	laterAddr string
	laterErr  error
}

type c20Fake struct {
	plan  c20Plan
	calls []c20Call

	// canned results
	lExec, rExec   []*command.ExecuteQueryResponse
	lRows, rRows   []*command.QueryRows
	lIdx, rIdx     uint64
	lSeq, rSeq     uint64
	lBytes, rBytes []byte
}

func (f *c20Fake) Execute(ctx context.Context, er *command.ExecuteRequest) ([]*command.ExecuteQueryResponse, uint64, error) {
	f.calls = append(f.calls, c20Call{Side: "local", Op: "execute", Req: er})
	if f.plan.localErr != nil {
		return nil, 0, f.plan.localErr
	}
	return f.lExec, f.lIdx, nil
}
func (f *c20Fake) Query(ctx context.Context, qr *command.QueryRequest) ([]*command.QueryRows, command.ConsistencyLevel, uint64, error) {
	f.calls = append(f.calls, c20Call{Side: "local", Op: "query", Req: qr})
	if f.plan.localErr != nil {
		return nil, 0, 0, f.plan.localErr
	}
	return f.lRows, qr.GetLevel(), f.lIdx, nil
}
func (f *c20Fake) Request(ctx context.Context, eqr *command.ExecuteQueryRequest) ([]*command.ExecuteQueryResponse, uint64, uint64, error) {
	f.calls = append(f.calls, c20Call{Side: "local", Op: "request", Req: eqr})
	if f.plan.localErr != nil {
		return nil, 0, 0, f.plan.localErr
	}
	return f.lExec, f.lSeq, f.lIdx, nil
}
func (f *c20Fake) Load(ctx context.Context, lr *command.LoadRequest) error {
	f.calls = append(f.calls, c20Call{Side: "local", Op: "load", Req: lr})
	return f.plan.localErr
}
func (f *c20Fake) Backup(ctx context.Context, br *command.BackupRequest, dst io.Writer) error {
	f.calls = append(f.calls, c20Call{Side: "local", Op: "backup", Req: br, Writer: dst})
	if f.plan.localErr != nil {
		return f.plan.localErr
	}
	_, err := dst.Write(f.lBytes)
	return err
}
func (f *c20Fake) Remove(ctx context.Context, rn *command.RemoveNodeRequest) error {
	f.calls = append(f.calls, c20Call{Side: "local", Op: "remove", Req: rn})
	return f.plan.localErr
}
func (f *c20Fake) Stepdown(wait bool, id string) error {
	f.calls = append(f.calls, c20Call{Side: "local", Op: "stepdown", Req: &command.StepdownRequest{Id: id, Wait: wait}})
	return f.plan.localErr
}
func (f *c20Fake) LeaderAddr() (string, error) {
	n := 0
	for _, c := range f.calls {
		if c.Side == "leaderaddr" {
			n++
		}
	}
	f.calls = append(f.calls, c20Call{Side: "leaderaddr"})
	if n > 0 && f.plan.laterSet {
		return f.plan.laterAddr, f.plan.laterErr
	}
	return f.plan.addr, f.plan.addrErr
}

type c20Remote struct{ f *c20Fake }

func (r c20Remote) rec(op string, req any, addr string, creds *clstrPB.Credentials, t time.Duration, retries int, w io.Writer) {
	r.f.calls = append(r.f.calls, c20Call{Side: "remote", Op: op, Req: req, Addr: addr, Creds: creds, Timeout: t, Retries: retries, Writer: w})
}
func (r c20Remote) Execute(ctx context.Context, er *command.ExecuteRequest, nodeAddr string, creds *clstrPB.Credentials, timeout time.Duration, retries int) ([]*command.ExecuteQueryResponse, uint64, error) {
	r.rec("execute", er, nodeAddr, creds, timeout, retries, nil)
	if r.f.plan.remoteErr != nil {
		return nil, 0, r.f.plan.remoteErr
	}
	return r.f.rExec, r.f.rIdx, nil
}
func (r c20Remote) Query(ctx context.Context, qr *command.QueryRequest, nodeAddr string, creds *clstrPB.Credentials, timeout time.Duration, retries int) ([]*command.QueryRows, uint64, error) {
	r.rec("query", qr, nodeAddr, creds, timeout, retries, nil)
	if r.f.plan.remoteErr != nil {
		return nil, 0, r.f.plan.remoteErr
	}
	return r.f.rRows, r.f.rIdx, nil
}
func (r c20Remote) Request(ctx context.Context, eqr *command.ExecuteQueryRequest, nodeAddr string, creds *clstrPB.Credentials, timeout time.Duration, retries int) ([]*command.ExecuteQueryResponse, uint64, uint64, error) {
	r.rec("request", eqr, nodeAddr, creds, timeout, retries, nil)
	if r.f.plan.remoteErr != nil {
		return nil, 0, 0, r.f.plan.remoteErr
	}
	return r.f.rExec, r.f.rSeq, r.f.rIdx, nil
}
func (r c20Remote) Backup(ctx context.Context, br *command.BackupRequest, nodeAddr string, creds *clstrPB.Credentials, timeout time.Duration, w io.Writer) error {
	r.rec("backup", br, nodeAddr, creds, timeout, -1, w)
	if r.f.plan.remoteErr != nil {
		return r.f.plan.remoteErr
	}
	_, err := w.Write(r.f.rBytes)
	return err
}
func (r c20Remote) Load(ctx context.Context, lr *command.LoadRequest, nodeAddr string, creds *clstrPB.Credentials, timeout time.Duration, retries int) error {
	r.rec("load", lr, nodeAddr, creds, timeout, retries, nil)
	return r.f.plan.remoteErr
}
func (r c20Remote) RemoveNode(ctx context.Context, rn *command.RemoveNodeRequest, nodeAddr string, creds *clstrPB.Credentials, timeout time.Duration) error {
	r.rec("remove", rn, nodeAddr, creds, timeout, -1, nil)
	return r.f.plan.remoteErr
}
func (r c20Remote) Stepdown(ctx context.Context, sr *command.StepdownRequest, nodeAddr string, creds *clstrPB.Credentials, timeout time.Duration) error {
	r.rec("stepdown", sr, nodeAddr, creds, timeout, -1, nil)
	return r.f.plan.remoteErr
}

type c20Writer struct{ b []byte }

func (w *c20Writer) Write(p []byte) (int, error) { w.b = append(w.b, p...); return len(p), nil }

func c20GenRequest(rt *rapid.T) *command.Request {
	n := rapid.IntRange(0, 3).Draw(rt, "nstmts")
	r := &command.Request{Transaction: rapid.Bool().Draw(rt, "tx"), DbTimeout: int64(rapid.IntRange(0, 5).Draw(rt, "dbtimeout"))}
	for i := 0; i < n; i++ {
		s := &command.Statement{Sql: rapid.SampledFrom([]string{"INSERT INTO t(x) VALUES(?)", "SELECT * FROM t", "UPDATE t SET x=x+1", "", "garbage ;;"}).Draw(rt, "sql")}
		if rapid.Bool().Draw(rt, "param") {
			s.Parameters = []*command.Parameter{{Value: &command.Parameter_I{I: rapid.Int64().Draw(rt, "pi")}, Name: rapid.SampledFrom([]string{"", "a"}).Draw(rt, "pname")}}
		}
		r.Statements = append(r.Statements, s)
	}
	return r
}

func c20Rows(tag string) []*command.QueryRows {
	return []*command.QueryRows{{Columns: []string{"c", tag}, Types: []string{"text"},
		Values: []*command.Values{{Parameters: []*command.Parameter{{Value: &command.Parameter_S{S: tag}}}}}}}
}
func c20Exec(tag string, n int64) []*command.ExecuteQueryResponse {
	return []*command.ExecuteQueryResponse{
		{Result: &command.ExecuteQueryResponse_E{E: &command.ExecuteResult{LastInsertId: n, RowsAffected: n + 1}}},
		{Result: &command.ExecuteQueryResponse_Error{Error: tag}},
	}
}

func TestVerif_C20_Proxy(t *testing.T) {
	rec := vstat.New(t, "C20", "proxy",
		"rapid: operation kind in {execute, query, request, backup, load, remove, stepdown} x generated request (0-3 statements, parameters, tx, levels, backup formats) x local outcome {ok, ErrNotLeader, wrapped ErrNotLeader, other error, ErrLeaderNotFound} x noForward x leader address {known, empty, error}, from the second lookup on {same, moved to another node, unknown, error} x remote outcome {ok, 'unauthorized', other error, 'not leader' / 'leadership lost while committing log' / 'leader not found' text} x credentials {nil, user/password} x timeout x retries; non-trivial = local store answered ErrNotLeader (forwarding decision exercised); distinct by the whole case")
	rapid.Check(t, func(rt *rapid.T) {
		op := rapid.SampledFrom([]string{"execute", "query", "request", "backup", "load", "remove", "stepdown"}).Draw(rt, "op")
		f := &c20Fake{
			lExec: c20Exec("local", 3), rExec: c20Exec("remote", rapid.Int64Range(0, 1000).Draw(rt, "rid")),
			lRows: c20Rows("local"), rRows: c20Rows("remote-" + rapid.StringMatching(`[a-z]{0,6}`).Draw(rt, "rtag")),
			lIdx: 11, rIdx: rapid.Uint64().Draw(rt, "ridx"), lSeq: 1, rSeq: rapid.Uint64Range(0, 9).Draw(rt, "rseq"),
			lBytes: []byte("LOCAL-BACKUP"), rBytes: []byte("REMOTE-BACKUP-" + rapid.StringMatching(`[a-z]{0,8}`).Draw(rt, "rbytes")),
		}
		localKind := rapid.SampledFrom([]string{"ok", "notleader", "notleader", "notleader", "wrapped-notleader", "other", "leader-not-found"}).Draw(rt, "local")
		switch localKind {
		case "notleader":
			f.plan.localErr = store.ErrNotLeader
		case "wrapped-notleader":
			f.plan.localErr = fmt.Errorf("apply failed: %w", store.ErrNotLeader)
		case "other":
			f.plan.localErr = errors.New(rapid.SampledFrom([]string{"disk full", "not leader", "unauthorized", "leadership lost while committing log"}).Draw(rt, "other-err"))
		case "leader-not-found":
			f.plan.localErr = store.ErrLeaderNotFound
		}
		addrKind := rapid.SampledFrom([]string{"known", "known", "known", "empty", "error"}).Draw(rt, "addr")
		var addrErr error
		switch addrKind {
		case "known":
			f.plan.addr = rapid.SampledFrom([]string{"10.0.0.2:4002", "leader:4002", "[::1]:4002"}).Draw(rt, "leader-addr")
		case "error":
			addrErr = errors.New("store not open")
			f.plan.addrErr = addrErr
		}
		// leadership may move between the first lookup and any later one
		laterKind := rapid.SampledFrom([]string{"same", "same", "moved", "moved", "unknown", "error"}).Draw(rt, "leader-later")
		switch laterKind {
		case "moved":
			f.plan.laterSet, f.plan.laterAddr = true, "10.0.0.9:4002"
		case "unknown":
			f.plan.laterSet, f.plan.laterAddr = true, ""
		case "error":
			f.plan.laterSet, f.plan.laterErr = true, errors.New("store not open")
		}
		remoteKind := rapid.SampledFrom([]string{"ok", "ok", "unauthorized", "other", "not-leader-text", "leadership-lost-text", "leader-not-found-text"}).Draw(rt, "remote")
		switch remoteKind {
		case "unauthorized":
			f.plan.remoteErr = errors.New("unauthorized")
		case "other":
			f.plan.remoteErr = errors.New("remote exploded")
		case "not-leader-text":
			f.plan.remoteErr = errors.New("not leader")
		case "leadership-lost-text":
			f.plan.remoteErr = errors.New("leadership lost while committing log")
		case "leader-not-found-text":
			f.plan.remoteErr = errors.New("leader not found")
		}
		noForward := rapid.Bool().Draw(rt, "noForward")
		var creds *clstrPB.Credentials
		if rapid.Bool().Draw(rt, "creds") {
			creds = &clstrPB.Credentials{Username: rapid.SampledFrom([]string{"u1", "u2", ""}).Draw(rt, "user"), Password: rapid.SampledFrom([]string{"p1", "", "päss"}).Draw(rt, "pw")}
		}
		timeout := time.Duration(rapid.IntRange(0, 60000).Draw(rt, "timeout-ms")) * time.Millisecond
		retries := rapid.IntRange(0, 5).Draw(rt, "retries")
		level := command.ConsistencyLevel(rapid.IntRange(0, 4).Draw(rt, "level"))

		p := New(f, c20Remote{f})
		p.SetAPIAddr("self:4001")
		ctx := context.Background()

		var req pb.Message
		var gotRes any
		var gotIdx, gotSeq uint64
		var gotAddr string
		var gotErr error
		w := &c20Writer{}
		switch op {
		case "execute":
			r := &command.ExecuteRequest{Request: c20GenRequest(rt), Timings: rapid.Bool().Draw(rt, "timings")}
			req = r
			before := pb.Clone(r)
			var res []*command.ExecuteQueryResponse
			res, gotIdx, gotAddr, gotErr = p.Execute(ctx, r, creds, timeout, retries, noForward)
			gotRes = res
			c20CheckUnmodified(rt, rec, before, r)
		case "query":
			r := &command.QueryRequest{Request: c20GenRequest(rt), Level: level, Freshness: int64(rapid.IntRange(0, 3).Draw(rt, "fresh"))}
			req = r
			before := pb.Clone(r)
			var res []*command.QueryRows
			res, gotIdx, gotAddr, gotErr = p.Query(ctx, r, creds, timeout, retries, noForward)
			gotRes = res
			c20CheckUnmodified(rt, rec, before, r)
		case "request":
			r := &command.ExecuteQueryRequest{Request: c20GenRequest(rt), Level: level}
			req = r
			before := pb.Clone(r)
			var res []*command.ExecuteQueryResponse
			res, gotSeq, gotIdx, gotAddr, gotErr = p.Request(ctx, r, creds, timeout, retries, noForward)
			gotRes = res
			c20CheckUnmodified(rt, rec, before, r)
		case "backup":
			r := &command.BackupRequest{Format: command.BackupRequest_Format(rapid.IntRange(0, 2).Draw(rt, "fmt")), Leader: rapid.Bool().Draw(rt, "bleader"), Compress: rapid.Bool().Draw(rt, "compress"), Vacuum: rapid.Bool().Draw(rt, "vacuum")}
			req = r
			before := pb.Clone(r)
			gotAddr, gotErr = p.Backup(ctx, r, w, creds, timeout, noForward)
			c20CheckUnmodified(rt, rec, before, r)
		case "load":
			r := &command.LoadRequest{Data: rapid.SliceOfN(rapid.Byte(), 0, 16).Draw(rt, "data")}
			req = r
			before := pb.Clone(r)
			gotAddr, gotErr = p.Load(ctx, r, creds, timeout, retries, noForward)
			c20CheckUnmodified(rt, rec, before, r)
		case "remove":
			r := &command.RemoveNodeRequest{Id: rapid.SampledFrom([]string{"n1", "n2", ""}).Draw(rt, "id")}
			req = r
			before := pb.Clone(r)
			gotAddr, gotErr = p.Remove(ctx, r, creds, timeout, noForward)
			c20CheckUnmodified(rt, rec, before, r)
		case "stepdown":
			r := &command.StepdownRequest{Id: rapid.SampledFrom([]string{"n1", "n2", ""}).Draw(rt, "id"), Wait: rapid.Bool().Draw(rt, "wait")}
			req = r
			gotAddr, gotErr = p.Stepdown(ctx, r.Wait, r.Id, creds, timeout, noForward)
		}

		notLeader := localKind == "notleader" || localKind == "wrapped-notleader"
		canon := fmt.Sprintf("op=%s local=%s noForward=%v addr=%s/%q leader-later=%s remote=%s creds=%v timeout=%v retries=%d req=%v", op, localKind, noForward, addrKind, f.plan.addr, laterKind, remoteKind, creds, timeout, retries, req)
		rec.Case(notLeader, canon)
		rec.Sample(canon)
		rec.Label("op:" + op)
		rec.Label("local:" + localKind)

		var local, remote, laddr []c20Call
		for _, c := range f.calls {
			switch c.Side {
			case "local":
				local = append(local, c)
			case "remote":
				remote = append(remote, c)
			default:
				laddr = append(laddr, c)
			}
		}
		fail := func(sig, format string, a ...any) {
			msg := fmt.Sprintf(format, a...)
			full := "C20/proxy-" + sig + "{op=" + op + "}"
			if rec.KnownHit(full, msg) {
				return
			}
			rt.Fatalf("%s", rec.Violation(full, "%s :: %s calls=%+v err=%v addr=%q", msg, canon, f.calls, gotErr, gotAddr))
		}

		if len(local) != 1 || local[0].Op != op {
			fail("local-not-asked-once", "local store asked %d times", len(local))
			return
		}
		if op != "stepdown" && local[0].Req != any(req) && !pb.Equal(local[0].Req.(pb.Message), req) {
			fail("local-request-differs", "request given to the local store differs")
			return
		}
		// expected behaviour
		switch {
		case !notLeader:
			rec.Label("path:local")
			if len(remote) != 0 {
				fail("forwarded-without-notleader", "remote side contacted although the local store did not answer ErrNotLeader")
				return
			}
			if !c20SameErr(gotErr, f.plan.localErr) {
				fail("local-error-changed", "local error %v returned as %v", f.plan.localErr, gotErr)
				return
			}
			if gotErr == nil {
				if gotAddr != "self:4001" {
					fail("served-by-wrong", "served-by address %q for a local result", gotAddr)
					return
				}
				if !c20ResultOK(op, gotRes, gotIdx, gotSeq, w.b, f, false) {
					fail("local-result-changed", "local results/index not returned unchanged")
					return
				}
			}
		case noForward:
			rec.Label("path:no-forward")
			if len(remote) != 0 {
				fail("forwarded-despite-noforward", "remote side contacted although forwarding is disabled (redirect requested)")
				return
			}
			if !errors.Is(gotErr, ErrNotLeader) {
				fail("noforward-wrong-error", "error %v, want ErrNotLeader", gotErr)
				return
			}
		case addrKind != "known":
			rec.Label("path:no-leader-address")
			if len(remote) != 0 {
				fail("forwarded-without-address", "remote side contacted without a leader address")
				return
			}
			if addrKind == "empty" && !errors.Is(gotErr, ErrLeaderNotFound) {
				fail("no-leader-wrong-error", "error %v, want ErrLeaderNotFound", gotErr)
				return
			}
			if addrKind == "error" && !c20SameErr(gotErr, addrErr) {
				fail("leader-addr-error-changed", "error %v, want %v", gotErr, addrErr)
				return
			}
		default:
			rec.Label("path:forwarded")
			rec.Label("remote:" + remoteKind)
			rec.Label("leader-later:" + laterKind)
			if len(remote) > 1 {
				// "executed once on the leader": whatever the first forward answered, the
				// request must not be sent a second time -- the first node may well have
				// appended it already (e.g. "leadership lost while committing log").
				fail("forwarded-more-than-once", "request sent to remote nodes %d times (%s then %s) after the first answered %v", len(remote), remote[0].Addr, remote[1].Addr, f.plan.remoteErr)
				return
			}
			if len(remote) != 1 {
				fail("not-forwarded-once", "remote side contacted %d times, want exactly once", len(remote))
				return
			}
			rc := remote[0]
			if rc.Op != op || rc.Addr != f.plan.addr {
				fail("forwarded-wrongly", "forwarded as %s to %q, want %s to %q", rc.Op, rc.Addr, op, f.plan.addr)
				return
			}
			if !pb.Equal(rc.Req.(pb.Message), req) {
				fail("forwarded-request-differs", "forwarded request %v differs from the caller's %v", rc.Req, req)
				return
			}
			if (rc.Creds == nil) != (creds == nil) || (creds != nil && !pb.Equal(rc.Creds, creds)) {
				fail("credentials-not-carried", "forwarded with credentials %v, caller's are %v", rc.Creds, creds)
				return
			}
			if rc.Timeout != timeout || (rc.Retries >= 0 && rc.Retries != retries) {
				fail("timeout-retries-not-carried", "forwarded with timeout %v retries %d, want %v %d", rc.Timeout, rc.Retries, timeout, retries)
				return
			}
			if op == "backup" && rc.Writer != io.Writer(w) {
				fail("backup-writer-differs", "remote backup does not stream into the caller's writer")
				return
			}
			switch remoteKind {
			case "ok":
				if gotErr != nil {
					fail("remote-success-lost", "remote succeeded but error %v returned", gotErr)
					return
				}
				if gotAddr != f.plan.addr {
					fail("served-by-wrong", "served-by address %q, want leader %q", gotAddr, f.plan.addr)
					return
				}
				if !c20ResultOK(op, gotRes, gotIdx, gotSeq, w.b, f, true) {
					fail("remote-result-changed", "leader's results/index not returned unchanged")
					return
				}
			case "unauthorized":
				if !errors.Is(gotErr, ErrUnauthorized) {
					fail("unauthorized-not-reported", "error %v, want ErrUnauthorized", gotErr)
					return
				}
			default:
				if gotErr == nil || !strings.Contains(gotErr.Error(), f.plan.remoteErr.Error()) || errors.Is(gotErr, ErrUnauthorized) {
					fail("remote-error-changed", "remote error %v returned as %v", f.plan.remoteErr, gotErr)
					return
				}
				// ErrNotLeader / ErrLeaderNotFound coming out of the proxy mean "this node
				// is not the leader and nothing was forwarded"; callers (the HTTP handlers)
				// answer them with a redirect or with nothing at all. An error string that
				// came back from the node the request WAS forwarded to must never turn into
				// one of these sentinels.
				if errors.Is(gotErr, ErrNotLeader) || errors.Is(gotErr, ErrLeaderNotFound) {
					fail("remote-error-became-local-sentinel", "remote error %q returned as the local sentinel %v (which means: not forwarded)", f.plan.remoteErr, gotErr)
					return
				}
			}
		}
	})
}

func c20SameErr(got, want error) bool {
	if want == nil {
		return got == nil
	}
	return got != nil && (errors.Is(got, want) || got.Error() == want.Error())
}

func c20CheckUnmodified(rt *rapid.T, rec *vstat.Rec, before, after pb.Message) {
	if !pb.Equal(before, after) {
		rt.Fatalf("%s", rec.Violation("C20/proxy-request-modified", "proxy modified the caller's request: before=%v after=%v", before, after))
	}
}

// c20ResultOK compares what the proxy returned with the canned local / remote
// results (pointer identity of the slices is not required, content is).
func c20ResultOK(op string, res any, idx, seq uint64, backup []byte, f *c20Fake, remote bool) bool {
	wantExec, wantRows, wantIdx, wantSeq, wantBytes := f.lExec, f.lRows, f.lIdx, f.lSeq, f.lBytes
	if remote {
		wantExec, wantRows, wantIdx, wantSeq, wantBytes = f.rExec, f.rRows, f.rIdx, f.rSeq, f.rBytes
	}
	eqExec := func(a, b []*command.ExecuteQueryResponse) bool {
		if len(a) != len(b) {
			return false
		}
		for i := range a {
			if !pb.Equal(a[i], b[i]) {
				return false
			}
		}
		return true
	}
	switch op {
	case "execute":
		return eqExec(res.([]*command.ExecuteQueryResponse), wantExec) && idx == wantIdx
	case "request":
		return eqExec(res.([]*command.ExecuteQueryResponse), wantExec) && idx == wantIdx && seq == wantSeq
	case "query":
		a := res.([]*command.QueryRows)
		if len(a) != len(wantRows) {
			return false
		}
		for i := range a {
			if !pb.Equal(a[i], wantRows[i]) {
				return false
			}
		}
		return idx == wantIdx
	case "backup":
		return string(backup) == string(wantBytes)
	}
	return true
}
