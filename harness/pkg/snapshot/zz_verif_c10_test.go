package snapshot_test

// C10: snapshot transfer installs exactly the source data or nothing.
//
// Source: a generated store shape (vsnap); the stream is what Store.Open(id)
// returns on the source node. Delivery follows the real path piece by piece:
//
//	sender     store/transport.go InstallSnapshot: zstd.NewCompressor(stream, Size) when compression is on
//	wire       the mutation (if any) is applied to the bytes that travel
//	receiver   raft net_transport: io.LimitReader(conn, req.Size);
//	           store/transport.go Consumer: zstd.NewDecompressor(reader) when compression is on;
//	           raft installSnapshot: io.Copy(sink, reader); error => Cancel; n != Size => Cancel; else Close;
//	           then Store.Open(sink.ID()) + snapshot.Restore (what fsmRestore does)
//
// Oracle (from the statement): unmutated => installed and restored database
// dump == dump of the source database at that snapshot. Mutated => install or
// restore fails, or nothing is listed; a listed/restored snapshot with different
// content is never acceptable, and a mutation of file data, sizes or CRCs must
// not go through at all. The same for snapshot.Restore applied directly to the
// mutated stream.

import (
	"bytes"
	"encoding/binary"
	"fmt"
	"io"
	"os"
	"path/filepath"
	"strings"
	"testing"

	"github.com/rqlite/rqlite/v10/internal/verif/vsnap"
	"github.com/rqlite/rqlite/v10/internal/verif/vsql"
	"github.com/rqlite/rqlite/v10/internal/verif/vstat"
	"github.com/rqlite/rqlite/v10/snapshot"
	sproto "github.com/rqlite/rqlite/v10/snapshot/proto"
	pb "google.golang.org/protobuf/proto"
	"pgregory.net/rapid"
)

// c10Source is one snapshot of a source store as it is streamed to a peer.
type c10Source struct {
	snap   vsnap.Snap
	data   []byte // stream bytes from Store.Open
	size   int64  // meta.Size
	hdrEnd int
	hdr    *sproto.SnapshotHeader
	bounds []int // offsets where files start, plus end of stream
	shape  string
}

func c10ReadSource(b *vsnap.Builder, s vsnap.Snap) (*c10Source, error) {
	meta, rc, err := b.Store.Open(s.ID)
	if err != nil {
		return nil, err
	}
	data, err := io.ReadAll(rc)
	rc.Close()
	if err != nil {
		return nil, err
	}
	hdrEnd, h, err := g4SplitStream(data)
	if err != nil {
		return nil, err
	}
	src := &c10Source{snap: s, data: data, size: meta.Size, hdrEnd: hdrEnd, hdr: h}
	off := hdrEnd
	src.bounds = append(src.bounds, off)
	off += int(h.GetFull().GetDbHeader().GetSizeBytes())
	for _, w := range h.GetFull().GetWalHeaders() {
		src.bounds = append(src.bounds, off)
		off += int(w.SizeBytes)
	}
	src.bounds = append(src.bounds, off)
	return src, nil
}

// c10Listed reports whether id is the newest listed snapshot of st.
func c10Listed(st *snapshot.Store, id string) bool {
	l, err := st.List()
	return err == nil && len(l) == 1 && l[0].ID == id
}

// c10SafeRestore runs snapshot.Restore on a byte stream, converting a panic
// into an error (reported separately).
func c10SafeRestore(stream []byte) (dump string, err error, panicked bool) {
	defer func() {
		if r := recover(); r != nil {
			err, panicked = fmt.Errorf("panic: %v", r), true
		}
	}()
	dump, err = vsnap.RestoreStreamDump(bytes.NewReader(stream))
	return
}

// ---------------------------------------------------------------------------
// mutations

type c10Mut struct {
	kind   string // flip drop insert truncate extend hdr-*
	pos    int
	region string // len-prefix | header | data | end
	out    []byte
	// dataAffecting: the mutation changes file bytes, a size or a CRC (or
	// the framing), so the transfer must not go through at all.
	dataAffecting bool
}

func (m c10Mut) String() string { return fmt.Sprintf("%s@%d(%s)", m.kind, m.pos, m.region) }

func c10Region(src *c10Source, pos int) string {
	switch {
	case pos < 4:
		return "len-prefix"
	case pos < src.hdrEnd:
		return "header"
	case pos >= len(src.data):
		return "end"
	default:
		for i := 1; i < len(src.bounds); i++ {
			if pos < src.bounds[i] {
				if i == 1 {
					return "data-db"
				}
				return "data-wal"
			}
		}
		return "data"
	}
}

func c10ByteMut(src *c10Source, kind string, pos int, arg byte) c10Mut {
	d := src.data
	m := c10Mut{kind: kind, pos: pos, region: c10Region(src, pos)}
	switch kind {
	case "flip":
		m.out = append([]byte(nil), d...)
		m.out[pos] ^= arg
	case "drop":
		m.out = append(append([]byte(nil), d[:pos]...), d[pos+1:]...)
	case "insert":
		m.out = append(append(append([]byte(nil), d[:pos]...), arg), d[pos:]...)
	case "truncate":
		m.out = append([]byte(nil), d[:pos]...)
	case "extend":
		m.out = append(append([]byte(nil), d...), bytes.Repeat([]byte{arg}, pos)...)
		m.pos, m.region = len(d), "end"
	}
	// flips inside the protobuf header may hit bytes that carry no data
	// (format_version, field tags that become unknown fields ...): whether
	// they matter is decided by the outcome. Everything else alters data,
	// sizes or framing.
	m.dataAffecting = !(kind == "flip" && m.region == "header")
	return m
}

// c10HeaderMuts returns header-field mutations (re-marshalled headers over the
// unchanged file bytes).
func c10HeaderMut(rt *rapid.T, src *c10Source) c10Mut {
	h := pb.Clone(src.hdr).(*sproto.SnapshotHeader)
	f := h.GetFull()
	body := src.data[src.hdrEnd:]
	nw := len(f.WalHeaders)
	kinds := []string{"hdr-db-size+", "hdr-db-size-", "hdr-db-crc", "hdr-version", "hdr-extra-wal"}
	if nw > 0 {
		kinds = append(kinds, "hdr-wal-size+", "hdr-wal-size-", "hdr-wal-crc", "hdr-drop-last-wal", "hdr-shift-boundary")
	}
	if nw > 1 {
		kinds = append(kinds, "hdr-swap-wals")
	}
	kind := rapid.SampledFrom(kinds).Draw(rt, "hdrmut")
	m := c10Mut{kind: kind, pos: 4, region: "header", dataAffecting: true}
	d := uint64(rapid.SampledFrom([]int{1, 2, 24, 4096}).Draw(rt, "delta"))
	wi := 0
	if nw > 0 {
		wi = rapid.IntRange(0, nw-1).Draw(rt, "wal")
	}
	switch kind {
	case "hdr-db-size+":
		f.DbHeader.SizeBytes += d
	case "hdr-db-size-":
		f.DbHeader.SizeBytes -= d
	case "hdr-db-crc":
		f.DbHeader.Crc32 ^= 1 << uint(rapid.IntRange(0, 31).Draw(rt, "bit"))
	case "hdr-version":
		h.FormatVersion += uint32(d)
		m.dataAffecting = false
	case "hdr-extra-wal":
		f.WalHeaders = append(f.WalHeaders, &sproto.Header{SizeBytes: d, Crc32: 7})
	case "hdr-wal-size+":
		f.WalHeaders[wi].SizeBytes += d
	case "hdr-wal-size-":
		f.WalHeaders[wi].SizeBytes -= d
	case "hdr-wal-crc":
		f.WalHeaders[wi].Crc32 ^= 1 << uint(rapid.IntRange(0, 31).Draw(rt, "bit"))
	case "hdr-drop-last-wal":
		f.WalHeaders = f.WalHeaders[:nw-1]
	case "hdr-shift-boundary":
		// total size unchanged, boundary between the database and the first WAL moved
		f.DbHeader.SizeBytes += d
		if f.WalHeaders[0].SizeBytes > d {
			f.WalHeaders[0].SizeBytes -= d
		}
	case "hdr-swap-wals":
		j := (wi + 1) % nw
		f.WalHeaders[wi], f.WalHeaders[j] = f.WalHeaders[j], f.WalHeaders[wi]
		if pb.Equal(f.WalHeaders[wi], f.WalHeaders[j]) {
			m.dataAffecting = false
		}
	}
	m.out = g4Frame(h, body)
	return m
}

// c10FieldMuts lists the header-field mutations of a stream deterministically
// (re-marshalled header over untouched file bytes, plus the combined class
// "checksum field zeroed/dropped + one flipped byte in that file"). Every one
// of them changes a size or checksum the header announces for the data that
// follows, so install and restore must both fail ("a header that does not
// match the data"). A proto3 field set to 0 is not encoded at all, so crc=0 /
// size=0 also cover "field dropped from the header".
func c10FieldMuts(src *c10Source) []c10Mut {
	var out []c10Mut
	body := src.data[src.hdrEnd:]
	nw := len(src.hdr.GetFull().GetWalHeaders())
	// file i: 0 = database, 1.. = WALs; returns the header entry of a clone
	entry := func(h *sproto.SnapshotHeader, i int) *sproto.Header {
		if i == 0 {
			return h.GetFull().DbHeader
		}
		return h.GetFull().WalHeaders[i-1]
	}
	add := func(kind string, i int, edit func(e *sproto.Header), flipData bool) {
		h := pb.Clone(src.hdr).(*sproto.SnapshotHeader)
		e := entry(h, i)
		before := pb.Clone(e).(*sproto.Header)
		edit(e)
		if pb.Equal(before, e) {
			return // not a change for this stream (e.g. crc already has that value)
		}
		b := body
		if flipData {
			b = append([]byte(nil), body...)
			// a byte in the middle of file i (keeps the SQLite / WAL magic intact)
			start, end := src.bounds[i]-src.hdrEnd, src.bounds[i+1]-src.hdrEnd
			b[start+(end-start)/2+7] ^= 0x10
		}
		name := "db"
		if i > 0 {
			name = fmt.Sprintf("wal%d", i-1)
		}
		out = append(out, c10Mut{kind: "hdr-" + name + "-" + kind, pos: 4, region: "header", out: g4Frame(h, b), dataAffecting: true})
	}
	for i := 0; i <= nw; i++ {
		add("crc=0", i, func(e *sproto.Header) { e.Crc32 = 0 }, false)
		add("crc^1", i, func(e *sproto.Header) { e.Crc32 ^= 1 }, false)
		add("crc^msb", i, func(e *sproto.Header) { e.Crc32 ^= 1 << 31 }, false)
		add("crc=ffffffff", i, func(e *sproto.Header) { e.Crc32 = 0xffffffff }, false)
		add("size+1", i, func(e *sproto.Header) { e.SizeBytes++ }, false)
		add("size-1", i, func(e *sproto.Header) { e.SizeBytes-- }, false)
		add("size=0", i, func(e *sproto.Header) { e.SizeBytes = 0 }, false)
		add("crc=0+dataflip", i, func(e *sproto.Header) { e.Crc32 = 0 }, true)
		add("crc=ffffffff+dataflip", i, func(e *sproto.Header) { e.Crc32 = 0xffffffff }, true)
	}
	return out
}

// c10Judge applies the oracle to one mutated stream. dest must be a store the
// case owns. It returns a violation signature and message, or "".
type c10Verdict struct {
	sig, msg string
	labels   []string
}

func c10CheckMutation(src *c10Source, m c10Mut, dest *snapshot.Store, index uint64, compressedWire bool, declaredSize bool, cuts []int) c10Verdict {
	var v c10Verdict
	wire := m.out
	size := src.size
	if !declaredSize && !compressedWire {
		size = int64(len(wire)) // the request's size field agrees with what is sent: only the store can notice
	}
	// What the receiver can see is cut at the request's size. If that is byte
	// for byte the unmutated stream (an extension, or a byte inserted into a
	// run of equal bytes that reaches the end of the stream), nothing was
	// mutated as far as the store is concerned and the install must succeed.
	invisible := !compressedWire && int64(len(wire)) >= size && bytes.Equal(wire[:size], src.data)
	id, perr := g4Receive(dest, index, 1, wire, size, compressedWire, cuts)
	listed := id != "" && c10Listed(dest, id)
	switch {
	case perr != nil:
		v.labels = append(v.labels, "install:rejected")
		if listed {
			v.sig, v.msg = "C10/failed-install-listed", fmt.Sprintf("install of %v reported %v but the snapshot is listed", m, perr)
			return v
		}
	case !listed:
		v.labels = append(v.labels, "install:nil-but-nothing-listed")
	default:
		got, rerr := vsnap.RestoreDump(dest, id)
		switch {
		case rerr != nil:
			v.labels = append(v.labels, "install:listed-but-restore-fails")
		case got != src.snap.Dump:
			v.sig = "C10/altered-data-installed"
			v.msg = fmt.Sprintf("mutation %v (compressed=%v) was installed and restores to different content:\n--- restored\n%s--- source\n%s", m, compressedWire, g4Short(got), g4Short(src.snap.Dump))
			return v
		case invisible:
			// raft's limit on the connection cut the mutation off before the
			// store could see it: what arrived is the unmutated stream
			v.labels = append(v.labels, "install:mutation-cut-by-size-limit")
		case m.dataAffecting && !compressedWire:
			v.sig = "C10/corrupt-stream-installed"
			v.msg = fmt.Sprintf("mutation %v of file data / sizes / CRCs / framing was installed without error (content happens to be logically identical)", m)
			return v
		default:
			v.labels = append(v.labels, "install:undetected-harmless")
		}
	}
	if compressedWire {
		return v // snapshot.Restore never sees wire bytes of a compressed transfer
	}
	// direct restore of the mutated stream
	if len(m.out) >= 4 {
		if hl := binary.BigEndian.Uint32(m.out[:4]); hl > 16<<20 {
			// Restore allocates the declared header length up front (up to
			// 4 GiB for a corrupt prefix) before it fails on the short read;
			// not run here to keep the check cheap (reported as an observation).
			v.labels = append(v.labels, "restore:skipped-huge-header-length")
			return v
		}
	}
	got, rerr, panicked := c10SafeRestore(m.out)
	switch {
	case panicked:
		v.labels = append(v.labels, "restore:PANIC")
	case rerr != nil:
		v.labels = append(v.labels, "restore:rejected")
	case got != src.snap.Dump:
		v.sig = "C10/altered-data-restored"
		if m.kind == "hdr-drop-last-wal" || (m.kind == "flip" && m.region == "header") {
			v.sig = "C10/restore-ignores-trailing-bytes"
		}
		v.msg = fmt.Sprintf("snapshot.Restore of mutation %v returned nil with different content:\n--- restored\n%s--- source\n%s", m, g4Short(got), g4Short(src.snap.Dump))
	case m.kind == "extend":
		v.sig = "C10/restore-ignores-trailing-bytes"
		v.msg = fmt.Sprintf("snapshot.Restore of a stream extended by %d bytes returned nil (the statement requires an extension to fail)", len(m.out)-len(src.data))
	case m.dataAffecting:
		v.sig = "C10/corrupt-stream-restored"
		v.msg = fmt.Sprintf("snapshot.Restore of mutation %v of file data / sizes / CRCs / framing returned nil", m)
	default:
		v.labels = append(v.labels, "restore:undetected-harmless")
	}
	return v
}

// c10NewDest returns an empty destination store, or one that already holds a
// snapshot of an unrelated small database (a lagging follower).
func c10NewDest(root string, prepopulate bool) (*snapshot.Store, func(), error) {
	if !prepopulate {
		st, err := snapshot.NewStore(filepath.Join(root, "dest"))
		if err != nil {
			return nil, nil, err
		}
		st.SetReapThreshold(1 << 30)
		snapshot.VerifG4QuietStore(st)
		return st, func() { st.Close() }, nil
	}
	b, err := vsnap.New(filepath.Join(root, "destb"))
	if err != nil {
		return nil, nil, err
	}
	snapshot.VerifG4QuietStore(b.Store)
	if err := b.Exec(`CREATE TABLE old (x)`, `INSERT INTO old VALUES(1)`); err != nil {
		b.Close()
		return nil, nil, err
	}
	if _, err := b.Full(1, 1); err != nil {
		b.Close()
		return nil, nil, err
	}
	return b.Store, b.Close, nil
}

func c10BuildSource(rt *rapid.T, root string, o vsnap.Opt) (*vsnap.Builder, *c10Source) {
	sh := vsnap.GenShape(rt, o)
	b, err := vsnap.New(filepath.Join(root, "src"))
	if err != nil {
		rt.Fatalf("harness: %v", err)
	}
	snapshot.VerifG4QuietStore(b.Store)
	if err := b.Apply(sh); err != nil {
		b.Close()
		rt.Fatalf("harness: building shape %s: %v", sh, err)
	}
	// mostly the newest snapshot (what raft sends), sometimes an older one
	i := len(b.Snaps) - 1
	if i > 0 && rapid.IntRange(0, 3).Draw(rt, "older") == 0 {
		i = rapid.IntRange(0, i-1).Draw(rt, "which")
	}
	src, err := c10ReadSource(b, b.Snaps[i])
	if err != nil {
		b.Close()
		rt.Fatalf("harness: reading source snapshot: %v", err)
	}
	src.shape = fmt.Sprintf("%s#%d", sh, i)
	return b, src
}

func c10Fail(rt *rapid.T, rec *vstat.Rec, sig, msg string) {
	if rec.KnownHit(sig, msg) {
		return
	}
	rt.Fatalf("%s", rec.Violation(sig, "%s", msg))
}

// Unmutated transfers: every shape, split and both transports install the
// source content exactly.
func TestVerif_C10_Exact(t *testing.T) {
	vsnap.Quiet()
	rec := vstat.New(t, "C10", "exact",
		"rapid: source shapes of 1..4 snapshots (full / incremental 1..3 WALs / installed db+0..3 WALs, rows up to 6 KB, compressible or pseudo-random), newest or an older snapshot streamed from Store.Open, delivered plain or through the zstd compressor/decompressor pair with raft's Size limit on the wire, in generated write splits (whole, byte-wise prefix, random, at/inside the header, tiny), into an empty or already populated destination store; then Store.Open+Restore on the destination. non-trivial = stream has WAL files or the split cuts inside the header or compression is on; distinct by shape+split+transport")
	rapid.Check(t, func(rt *rapid.T) {
		root, err := os.MkdirTemp("", "c10x")
		if err != nil {
			rt.Skip()
		}
		defer os.RemoveAll(root)
		o := vsnap.Opt{BigRows: true, Incompressible: rapid.Bool().Draw(rt, "incompressible")}
		b, src := c10BuildSource(rt, root, o)
		defer b.Close()
		dest, closeDest, err := c10NewDest(root, rapid.Bool().Draw(rt, "dest-populated"))
		if err != nil {
			rt.Fatalf("harness: dest: %v", err)
		}
		defer closeDest()
		compressed := rapid.Bool().Draw(rt, "compressed")
		cuts, mode := g4Cuts(rt, len(src.data), src.hdrEnd)
		nwal := len(src.hdr.GetFull().GetWalHeaders())
		rec.Case(nwal > 0 || mode == "inside-header" || mode == "near-header" || mode == "bytes-then-rest" || compressed, fmt.Sprintf("%s|%s|%v|%v", src.shape, mode, compressed, cuts))
		rec.Label("split:" + mode)
		rec.Label(fmt.Sprintf("wals:%d", min(nwal, 4)))
		rec.Label(fmt.Sprintf("compressed:%v", compressed))
		rec.Sample(fmt.Sprintf("%s split=%s compressed=%v bytes=%d", src.shape, mode, compressed, len(src.data)))

		if int64(len(src.data)) != src.size {
			c10Fail(rt, rec, "C10/size-mismatch", fmt.Sprintf("Store.Open reports Size=%d but the stream has %d bytes (%s)", src.size, len(src.data), src.shape))
			return
		}
		wire := src.data
		if compressed {
			wire, err = g4Compress(src.data, src.size)
			if err != nil {
				rt.Fatalf("harness: compress: %v", err)
			}
			if int64(len(wire)) > src.size {
				rec.Label("wire-longer-than-size")
			}
		}
		id, perr := g4Receive(dest, 1000, 1, wire, src.size, compressed, cuts)
		if perr != nil {
			sig := "C10/valid-transfer-rejected"
			if compressed && int64(len(wire)) > src.size {
				sig = "C10/compressed-stream-exceeds-size-limit"
			}
			c10Fail(rt, rec, sig, fmt.Sprintf("unmutated transfer of %s (split %s, compressed=%v, %d stream bytes, %d wire bytes) failed: %v", src.shape, mode, compressed, len(src.data), len(wire), perr))
			return
		}
		if !c10Listed(dest, id) {
			c10Fail(rt, rec, "C10/valid-transfer-not-listed", fmt.Sprintf("unmutated transfer of %s closed without error but %s is not the newest listed snapshot", src.shape, id))
			return
		}
		got, rerr := vsnap.RestoreDump(dest, id)
		if rerr != nil {
			c10Fail(rt, rec, "C10/valid-transfer-does-not-restore", fmt.Sprintf("installed copy of %s does not restore: %v", src.shape, rerr))
			return
		}
		if got != src.snap.Dump {
			c10Fail(rt, rec, "C10/valid-transfer-wrong-content", fmt.Sprintf("installed copy of %s (split %s, compressed=%v) differs from the source:\n--- restored\n%s--- source\n%s", src.shape, mode, compressed, g4Short(got), g4Short(src.snap.Dump)))
			return
		}
		// the bytes of the installed database + WAL files are the source's
		_, rc, err := dest.Open(id)
		if err == nil {
			back, _ := io.ReadAll(rc)
			rc.Close()
			if !bytes.Equal(back[src.hdrEnd:], src.data[src.hdrEnd:]) && len(back) == len(src.data) {
				c10Fail(rt, rec, "C10/valid-transfer-wrong-bytes", fmt.Sprintf("installed files of %s differ bytewise from the source files", src.shape))
			}
		}
		// direct restore of the stream
		d2, rerr, _ := c10SafeRestore(src.data)
		if rerr != nil || d2 != src.snap.Dump {
			c10Fail(rt, rec, "C10/valid-stream-restore-wrong", fmt.Sprintf("snapshot.Restore of the unmutated stream of %s: err=%v equal=%v", src.shape, rerr, d2 == src.snap.Dump))
		}
	})
}

// Random single mutations of the travelling bytes.
func TestVerif_C10_Mutate(t *testing.T) {
	vsnap.Quiet()
	rec := vstat.New(t, "C10", "mutate",
		"rapid: source as in 'exact' (1..3 snapshots); one mutation of the travelling bytes: bit flip / byte drop / byte insert at a generated position (biased to the length prefix, the header, file boundaries and the last WAL), truncation, extension, or a re-marshalled header (db/WAL size +-, CRC bit, version, extra/dropped/swapped WAL entries, shifted file boundary), or a field mutation of one file entry (crc32 := 0 / dropped, ^1, ^msb, ffffffff, size +-1, 0, and crc32 := 0 combined with a flipped byte of that file); plain transfers with the request size either as declared by the sender or equal to the mutated length, compressed transfers mutated on the compressed bytes; consumers: install (+Open+Restore) and snapshot.Restore of the mutated stream. non-trivial = mutation lands in file data, a size/CRC field, the length prefix or changes the length; distinct by shape+mutation")
	rapid.Check(t, func(rt *rapid.T) {
		root, err := os.MkdirTemp("", "c10m")
		if err != nil {
			rt.Skip()
		}
		defer os.RemoveAll(root)
		o := vsnap.Opt{MaxSteps: 3, MaxWALs: 2, BigRows: rapid.Bool().Draw(rt, "bigrows")}
		b, src := c10BuildSource(rt, root, o)
		defer b.Close()
		dest, closeDest, err := c10NewDest(root, rapid.Bool().Draw(rt, "dest-populated"))
		if err != nil {
			rt.Fatalf("harness: dest: %v", err)
		}
		defer closeDest()

		compressed := rapid.IntRange(0, 3).Draw(rt, "compressed") == 0
		base := src
		if compressed {
			wire, err := g4Compress(src.data, src.size)
			if err != nil {
				rt.Fatalf("harness: compress: %v", err)
			}
			// mutate the compressed bytes; regions are not meaningful there
			base = &c10Source{snap: src.snap, data: wire, size: src.size, hdrEnd: 8, bounds: []int{8, len(wire)}}
		}
		var m c10Mut
		kind := rapid.SampledFrom([]string{"flip", "flip", "flip", "drop", "insert", "truncate", "extend", "header", "header", "field", "field"}).Draw(rt, "mutation")
		if compressed && (kind == "header" || kind == "field") {
			kind = "flip"
		}
		n := len(base.data)
		pickPos := func() int {
			switch rapid.SampledFrom([]string{"any", "prefix", "header", "boundary", "last-file", "tail"}).Draw(rt, "where") {
			case "prefix":
				return rapid.IntRange(0, 3).Draw(rt, "pos")
			case "header":
				return rapid.IntRange(4, base.hdrEnd-1).Draw(rt, "pos")
			case "boundary":
				bd := rapid.SampledFrom(base.bounds).Draw(rt, "bound")
				p := bd + rapid.IntRange(-2, 2).Draw(rt, "off")
				if p < 0 {
					p = 0
				}
				if p > n-1 {
					p = n - 1
				}
				return p
			case "last-file":
				return rapid.IntRange(base.bounds[len(base.bounds)-2], n-1).Draw(rt, "pos")
			case "tail":
				return rapid.IntRange(max(0, n-64), n-1).Draw(rt, "pos")
			default:
				return rapid.IntRange(0, n-1).Draw(rt, "pos")
			}
		}
		switch kind {
		case "flip":
			m = c10ByteMut(base, "flip", pickPos(), byte(1)<<uint(rapid.IntRange(0, 7).Draw(rt, "bit")))
		case "drop":
			m = c10ByteMut(base, "drop", pickPos(), 0)
		case "insert":
			m = c10ByteMut(base, "insert", pickPos(), rapid.Byte().Draw(rt, "byte"))
		case "truncate":
			m = c10ByteMut(base, "truncate", pickPos(), 0)
		case "extend":
			m = c10ByteMut(base, "extend", rapid.SampledFrom([]int{1, 2, 24, 4096, 5000}).Draw(rt, "extra"), rapid.Byte().Draw(rt, "byte"))
		case "field":
			m = rapid.SampledFrom(c10FieldMuts(src)).Draw(rt, "field")
		default:
			m = c10HeaderMut(rt, src)
		}
		if compressed {
			m.region = "compressed"
			m.dataAffecting = true
		}
		declared := rapid.Bool().Draw(rt, "declared-size")
		cuts, _ := g4Cuts(rt, len(src.data), src.hdrEnd)
		if rapid.Bool().Draw(rt, "nosplit") {
			cuts = nil
		}
		nt := m.dataAffecting || m.region == "len-prefix"
		rec.Case(nt, fmt.Sprintf("%s|%v|%v|%v", src.shape, m, compressed, declared))
		rec.Label("mut:" + m.kind)
		rec.Label("region:" + m.region)
		rec.Sample(fmt.Sprintf("%s %v compressed=%v declared=%v", src.shape, m, compressed, declared))
		v := c10CheckMutation(src, m, dest, 1000, compressed, declared, cuts)
		for _, l := range v.labels {
			rec.Label(l)
		}
		if v.sig != "" {
			c10Fail(rt, rec, v.sig, v.msg+" shape="+src.shape)
		}
	})
}

// Every byte position of a few small streams.
func TestVerif_C10_EveryPos(t *testing.T) {
	vsnap.Quiet()
	rec := vstat.New(t, "C10", "everypos",
		"enumeration over small streams (one-table database; shapes F, F+I1, F+I2, X2; quick: one of them, chosen by the seed; thorough: all, split over the shards by byte position): for every byte position of the length prefix and header all 8 single-bit flips, drop and insert; for file data every position (thorough) or every stride-th position plus the first/last 3 bytes of every file (quick) one bit flip, drop, insert; truncation at the same positions; extensions by 1, 24 and 4096 bytes; every header-field mutation of every file entry (crc32 := 0 [= field dropped], ^1, ^msb, ffffffff; size_bytes +1, -1, 0; crc32 := 0 or ffffffff combined with a flipped data byte of that file); consumers install (size as declared and size = mutated length) and snapshot.Restore. non-trivial = mutation lands in file data, a size/CRC field, the length prefix or changes the length; distinct by stream+mutation")
	root, err := os.MkdirTemp("", "c10e")
	if err != nil {
		t.Skip()
	}
	defer os.RemoveAll(root)
	stride := vstat.Scale(211, 1)
	// the enumeration is split over the driver's shards by byte position
	shardK, shardN := 0, 1
	if _, err := fmt.Sscanf(os.Getenv("VERIF_SHARD"), "%d/%d", &shardK, &shardN); err != nil || shardN < 1 || shardK < 0 || shardK >= shardN {
		shardK, shardN = 0, 1
	}
	type shapeFn func(b *vsnap.Builder) error
	ins := func(k int) string {
		return fmt.Sprintf(`INSERT INTO t(a) VALUES('%s')`, strings.Repeat(string(rune('a'+k)), 30+k))
	}
	shapes := map[string]shapeFn{
		"F": func(b *vsnap.Builder) error { _, err := b.Full(10, 1); return err },
		"F,I1": func(b *vsnap.Builder) error {
			if _, err := b.Full(10, 1); err != nil {
				return err
			}
			b.Exec(ins(1))
			if err := b.StageWAL(); err != nil {
				return err
			}
			_, err := b.Incremental(20, 1)
			return err
		},
		"F,I2": func(b *vsnap.Builder) error {
			if _, err := b.Full(10, 1); err != nil {
				return err
			}
			for k := 1; k <= 2; k++ {
				b.Exec(ins(k))
				if err := b.StageWAL(); err != nil {
					return err
				}
			}
			_, err := b.Incremental(20, 1)
			return err
		},
		"X2": func(b *vsnap.Builder) error {
			_, err := b.Installed(10, 1, [][]string{{ins(1)}, {ins(2), `UPDATE t SET a = a || 'z' WHERE id = 1`}})
			return err
		},
	}
	names := []string{"F", "F,I1", "F,I2", "X2"}
	if !vstat.Thorough() {
		// rotate with the seed so that repeated quick runs cover all of them
		k := int(vstat.Seed() % 4)
		names = []string{names[k]}
	}
	failed := false
	for _, name := range names {
		if failed {
			break
		}
		dir := filepath.Join(root, strings.ReplaceAll(name, ",", "_"))
		b, err := vsnap.New(filepath.Join(dir, "src"))
		if err != nil {
			t.Fatalf("harness: %v", err)
		}
		snapshot.VerifG4QuietStore(b.Store)
		if err := b.Exec(`CREATE TABLE t (id INTEGER PRIMARY KEY, a TEXT)`, ins(0)); err != nil {
			t.Fatalf("harness: %v", err)
		}
		if err := shapes[name](b); err != nil {
			t.Fatalf("harness: shape %s: %v", name, err)
		}
		src, err := c10ReadSource(b, b.Snaps[len(b.Snaps)-1])
		if err != nil {
			t.Fatalf("harness: %v", err)
		}
		src.shape = name
		dest, closeDest, err := c10NewDest(dir, false)
		if err != nil {
			t.Fatalf("harness: %v", err)
		}
		index := uint64(100)
		runs := 0
		try := func(m c10Mut) {
			if failed {
				return
			}
			nt := m.dataAffecting || m.region == "len-prefix"
			rec.Case(nt, fmt.Sprintf("%s|%v|%d|%x", name, m, len(m.out), m.out[min(m.pos, len(m.out)):min(m.pos+1, len(m.out))]))
			rec.Label("mut:" + m.kind)
			rec.Label("region:" + m.region)
			for _, declared := range []bool{true, false} {
				index++
				v := c10CheckMutation(src, m, dest, index, false, declared, nil)
				for _, l := range v.labels {
					rec.Label(l)
				}
				if v.sig != "" {
					if rec.KnownHit(v.sig, v.msg) {
						continue
					}
					failed = true
					t.Errorf("%s", rec.Violation(v.sig, "%s stream=%s", v.msg, name))
					return
				}
			}
			runs++
			if runs%200 == 0 {
				// failed closes leave temporary directories behind; they are
				// not part of the catalog, remove them to keep the scan cheap
				ents, _ := os.ReadDir(dest.Dir())
				for _, e := range ents {
					if strings.HasSuffix(e.Name(), ".tmp") {
						os.RemoveAll(filepath.Join(dest.Dir(), e.Name()))
					}
				}
			}
		}
		n := len(src.data)
		near := func(p int) bool {
			for _, bd := range src.bounds {
				if p >= bd-3 && p < bd+3 {
					return true
				}
			}
			return false
		}
		for p := 0; p < n && !failed; p++ {
			if p%shardN != shardK {
				continue // another shard's position
			}
			if p < src.hdrEnd {
				for bit := 0; bit < 8; bit++ {
					try(c10ByteMut(src, "flip", p, 1<<uint(bit)))
				}
				try(c10ByteMut(src, "drop", p, 0))
				try(c10ByteMut(src, "insert", p, 0x12))
				try(c10ByteMut(src, "truncate", p, 0))
				continue
			}
			if p%stride != 0 && !near(p) {
				continue
			}
			try(c10ByteMut(src, "flip", p, 1<<uint(p%8)))
			try(c10ByteMut(src, "drop", p, 0))
			try(c10ByteMut(src, "insert", p, byte(p)))
			try(c10ByteMut(src, "truncate", p, 0))
		}
		if shardK == 0 {
			for _, fm := range c10FieldMuts(src) {
				try(fm)
			}
		}
		for _, extra := range []int{1, 24, 4096} {
			if shardK != 0 {
				break
			}
			try(c10ByteMut(src, "extend", extra, 0))
			try(c10ByteMut(src, "extend", extra, 0x37))
		}
		rec.Sample(fmt.Sprintf("stream %s: %d bytes, header ends at %d, files at %v", name, n, src.hdrEnd, src.bounds))
		closeDest()
		b.Close()
	}
	rec.SetExhaustive(!failed && vstat.Thorough())
}

// c10IncompressibleDB writes a SQLite file with 512-byte pages holding one
// row whose blob of pseudo-random bytes is sized so that the leaf page and
// every overflow page are full (payload = 477 + 508*k): almost nothing in the
// file compresses. This is a file a node can be booted from.
func c10IncompressibleDB(path string, k int, seed uint64) error {
	db, err := vsql.Open(path)
	if err != nil {
		return err
	}
	defer db.Close()
	if _, err := db.Exec(`PRAGMA page_size=512`); err != nil {
		return err
	}
	if _, err := db.Exec(`CREATE TABLE t(b)`); err != nil {
		return err
	}
	blob := make([]byte, 477+508*k)
	x := seed | 1
	for i := range blob {
		x ^= x << 13
		x ^= x >> 7
		x ^= x << 17
		blob[i] = byte(x >> 29)
	}
	_, err = db.Exec(`INSERT INTO t(b) VALUES(?)`, blob)
	return err
}

// Compressed transfer of databases that do not compress: the wire stream is
// the uncompressed size plus framing, and raft limits the connection to Size.
func TestVerif_C10_Incompressible(t *testing.T) {
	vsnap.Quiet()
	rec := vstat.New(t, "C10", "incompressible",
		"rapid: a node booted from a SQLite file with 512-byte pages and one pseudo-random blob of 0.1..2.5 MB (thorough: ..24 MB) that fills its pages exactly; full snapshot; transfer with transport compression on (real compressor/decompressor, raft's Size limit on the connection), whole-stream writes; must install and restore to the source content. non-trivial = compressed wire stream is longer than the uncompressed Size; distinct by blob size+seed")
	rapid.Check(t, func(rt *rapid.T) {
		root, err := os.MkdirTemp("", "c10i")
		if err != nil {
			rt.Skip()
		}
		defer os.RemoveAll(root)
		ks := []int{200, 2000, 5000}
		if vstat.Thorough() {
			ks = []int{200, 2000, 12000, 30000, 36000, 44000, 48000}
		}
		k := rapid.SampledFrom(ks).Draw(rt, "k") + rapid.IntRange(0, 50).Draw(rt, "dk")
		seed := rapid.Uint64().Draw(rt, "seed")
		file := filepath.Join(root, "boot.db")
		if err := c10IncompressibleDB(file, k, seed); err != nil {
			rt.Fatalf("harness: %v", err)
		}
		b, err := vsnap.NewWithDB(filepath.Join(root, "src"), file)
		if err != nil {
			rt.Fatalf("harness: %v", err)
		}
		defer b.Close()
		snapshot.VerifG4QuietStore(b.Store)
		sn, err := b.Full(10, 1)
		if err != nil {
			rt.Fatalf("harness: full snapshot: %v", err)
		}
		src, err := c10ReadSource(b, sn)
		if err != nil {
			rt.Fatalf("harness: %v", err)
		}
		wire, err := g4Compress(src.data, src.size)
		if err != nil {
			rt.Fatalf("harness: compress: %v", err)
		}
		longer := int64(len(wire)) > src.size
		rec.Case(longer, fmt.Sprintf("%d/%d", k, seed))
		rec.Label(fmt.Sprintf("wire-longer-than-size:%v", longer))
		rec.Sample(fmt.Sprintf("blob=%d stream=%d wire=%d", 477+508*k, len(src.data), len(wire)))
		dest, closeDest, err := c10NewDest(root, false)
		if err != nil {
			rt.Fatalf("harness: %v", err)
		}
		defer closeDest()
		id, perr := g4Receive(dest, 1000, 1, wire, src.size, true, nil)
		if perr != nil {
			sig := "C10/valid-transfer-rejected"
			if longer {
				sig = "C10/compressed-stream-exceeds-size-limit"
			}
			c10Fail(rt, rec, sig, fmt.Sprintf("compressed transfer of a full snapshot (%d stream bytes, %d wire bytes, 512-byte pages, one %d-byte random blob) failed: %v", len(src.data), len(wire), 477+508*k, perr))
			return
		}
		got, rerr := vsnap.RestoreDump(dest, id)
		if rerr != nil || got != sn.Dump {
			c10Fail(rt, rec, "C10/valid-transfer-wrong-content", fmt.Sprintf("compressed transfer of an incompressible database: restore err=%v equal=%v", rerr, got == sn.Dump))
		}
	})
}
