package snapshot

// Shared by the g5-crash checks in this package (C07 reap, C03 sink crash):
// generator of snapshot-store shapes and a builder that produces them with the
// real sinks from a live SQLite database receiving generated writes.

import (
	"fmt"
	"io"
	"os"
	"path/filepath"
	"strings"
	"time"

	"github.com/hashicorp/raft"
	command "github.com/rqlite/rqlite/v10/command/proto"
	"github.com/rqlite/rqlite/v10/db"
	"github.com/rqlite/rqlite/v10/internal/verif/vsql"
	"github.com/rqlite/rqlite/v10/internal/verif/vstat"
	"pgregory.net/rapid"
)

type c07Shape struct {
	OlderFulls int        // full snapshots older than the newest full
	FullWALs   int        // 0: newest full is a plain full; >0: installed full carrying this many WAL files
	Incs       []int      // WAL files per incremental snapshot after the newest full
	NoVerifyDB bool       // plan without the verify_db op
	NestStride int        // crash again during the recovery run of every NestStride-th in-plan state (1 = all)
	NestOff    int        // first in-plan state that is nested
	Batches    [][]string // SQL batches, consumed one per snapshot/WAL
	Seed       int64      // for the partial-checkpoint page subsets
}

func (s c07Shape) canon() string {
	return fmt.Sprintf("older=%d fullwals=%d incs=%v noverify=%v", s.OlderFulls, s.FullWALs, s.Incs, s.NoVerifyDB)
}

func (s c07Shape) nBatches() int {
	n := s.OlderFulls + 1 + s.FullWALs
	for _, w := range s.Incs {
		n += w
	}
	return n
}

func c07GenBatch(rt *rapid.T, next *int) []string {
	n := rapid.IntRange(1, 4).Draw(rt, "nstmt")
	out := make([]string, 0, n+1)
	// always one insert so that every batch produces WAL frames
	*next++
	out = append(out, fmt.Sprintf("INSERT INTO t(id, v, n) VALUES(%d, '%s', %d)", *next, strings.Repeat("x", rapid.IntRange(1, 40).Draw(rt, "len")), *next*7))
	for i := 1; i < n; i++ {
		switch rapid.IntRange(0, 5).Draw(rt, "kind") {
		case 0, 1:
			*next++
			// occasionally a row bigger than a page (overflow pages, several frames)
			l := rapid.SampledFrom([]int{5, 60, 900, 5000, 9000}).Draw(rt, "biglen")
			out = append(out, fmt.Sprintf("INSERT INTO t(id, v, n) VALUES(%d, '%s', %d)", *next, strings.Repeat(string(rune('a'+*next%26)), l), *next))
		case 2:
			out = append(out, fmt.Sprintf("UPDATE t SET n = n + 1, v = v || 'u' WHERE id %% %d = 0", rapid.IntRange(2, 5).Draw(rt, "mod")))
		case 3:
			out = append(out, fmt.Sprintf("DELETE FROM t WHERE id = %d", rapid.IntRange(1, *next).Draw(rt, "del")))
		case 4:
			out = append(out, "CREATE TABLE IF NOT EXISTS u0 (k TEXT PRIMARY KEY, w BLOB) WITHOUT ROWID",
				fmt.Sprintf("INSERT OR REPLACE INTO u0 VALUES('k%d', x'%02x%02x')", rapid.IntRange(0, 6).Draw(rt, "key"), *next%256, (*next*3)%256))
		case 5:
			out = append(out, "CREATE INDEX IF NOT EXISTS t_n ON t(n)")
		}
	}
	return out
}

func c07GenShape(rt *rapid.T) c07Shape {
	s := c07Shape{
		OlderFulls: rapid.SampledFrom([]int{0, 0, 1, 1, 2}).Draw(rt, "olderFulls"),
		FullWALs:   rapid.SampledFrom([]int{0, 0, 0, 1, 2, 3}).Draw(rt, "fullWALs"),
		NoVerifyDB: rapid.IntRange(0, 3).Draw(rt, "noVerify") == 0,
		Seed:       rapid.Int64Range(1, 1<<40).Draw(rt, "seed"),
	}
	nInc := rapid.SampledFrom([]int{0, 1, 1, 2, 2, 3, 4}).Draw(rt, "nInc")
	for i := 0; i < nInc; i++ {
		s.Incs = append(s.Incs, rapid.SampledFrom([]int{1, 1, 1, 2, 3}).Draw(rt, "walsInInc"))
	}
	if vstat.Thorough() {
		s.NestStride = 1
	} else {
		s.NestStride = rapid.IntRange(6, 10).Draw(rt, "nestStride")
		s.NestOff = rapid.IntRange(0, s.NestStride-1).Draw(rt, "nestOff")
	}
	next := 0
	for i := 0; i < s.nBatches(); i++ {
		s.Batches = append(s.Batches, c07GenBatch(rt, &next))
	}
	return s
}

// c07Builder builds a snapshot store from a live database with the real sinks.
type c07Builder struct {
	root  string
	sdb   *db.SwappableDB
	idx   uint64
	term  uint64
	stage string
	batch int
	shape c07Shape

	// Bookkeeping for checks that observe the LAST sink of the main store.
	main     *Store
	persists int                                      // sinks persisted into the main store so far
	finalAt  int                                      // 0: none; else the persist number that is wrapped
	wrap     func(kind string, fn func() error) error // runs the final persist (e.g. under a recorder)
	prevDump string                                   // live database at the previous main-store snapshot
	curDump  string                                   // live database at the newest main-store snapshot
	prevIdx  uint64                                   // index/term of the snapshot before the newest one (0: none)
	prevTerm uint64
	lastIdx  uint64 // index/term of the newest main-store snapshot
	lastTerm uint64
}

func (b *c07Builder) exec(q string) error {
	r, err := b.sdb.Execute(&command.Request{Statements: []*command.Statement{{Sql: q}}}, false)
	if err != nil {
		return err
	}
	for _, x := range r {
		if e := x.GetError(); e != "" {
			return fmt.Errorf("%s: %s", q, e)
		}
	}
	return nil
}

func (b *c07Builder) nextBatch() error {
	for _, q := range b.shape.Batches[b.batch] {
		if err := b.exec(q); err != nil {
			return err
		}
		b.idx++
	}
	b.batch++
	return nil
}

func (b *c07Builder) persist(st *Store, rc io.ReadCloser, kind string) error {
	defer rc.Close()
	do := func() error {
		sink, err := st.Create(1, b.idx, b.term, raft.Configuration{}, 1, nil)
		if err != nil {
			return err
		}
		sink.(*Sink).fatalFn = nil
		if _, err := io.Copy(sink, rc); err != nil {
			sink.Cancel()
			return err
		}
		return sink.Close()
	}
	if st != b.main {
		b.idx++
		return do()
	}
	b.persists++
	if b.finalAt > 0 {
		d, err := vsql.DumpFile(b.sdb.Path())
		if err != nil {
			return err
		}
		b.prevDump, b.curDump = b.curDump, d
		b.prevIdx, b.prevTerm = b.lastIdx, b.lastTerm
	}
	b.idx++
	var err error
	if b.persists == b.finalAt && b.wrap != nil {
		err = b.wrap(kind, do)
	} else {
		err = do()
	}
	if err == nil {
		b.lastIdx, b.lastTerm = b.idx, b.term
	}
	return err
}

func (b *c07Builder) full(st *Store) error {
	if err := b.nextBatch(); err != nil {
		return err
	}
	if _, _, err := b.sdb.Checkpoint(nil, 5*time.Second); err != nil {
		return err
	}
	str, err := NewSnapshotStreamer(b.sdb.Path())
	if err != nil {
		return err
	}
	if err := str.Open(); err != nil {
		return err
	}
	return b.persist(st, str, "full")
}

func (b *c07Builder) inc(st *Store, nWALs int) error {
	if err := os.MkdirAll(b.stage, 0o755); err != nil {
		return err
	}
	sd := NewStagingDir(b.stage)
	for i := 0; i < nWALs; i++ {
		if err := b.nextBatch(); err != nil {
			return err
		}
		w, _, err := sd.CreateWAL()
		if err != nil {
			return err
		}
		if _, _, err := b.sdb.Checkpoint(w, 5*time.Second); err != nil {
			w.Cancel()
			return err
		}
		if err := w.Close(); err != nil {
			return err
		}
	}
	str, err := NewSnapshotPathStreamer(sd.Path())
	if err != nil {
		return err
	}
	return b.persist(st, str, fmt.Sprintf("incremental-%dwal", nWALs))
}

func c07OpenStore(dir string) (*Store, error) {
	st, err := NewStore(dir)
	if err != nil {
		return nil, err
	}
	st.fatalFn = nil
	st.SetReapThreshold(1 << 20) // the background reaper never runs
	return st, nil
}

// c07Build returns the snapshot directory and the dump of the live database
// at the moment of the newest snapshot.
func c07Build(root string, shape c07Shape) (snapDir, liveDump string, err error) {
	snapDir, liveDump, _, err = c07BuildWith(root, shape, nil)
	return
}

// c07BuildWith is c07Build with the last sink of the main store run through
// wrap (nil: plain). The builder is returned for its bookkeeping.
func c07BuildWith(root string, shape c07Shape, wrap func(kind string, fn func() error) error) (snapDir, liveDump string, b *c07Builder, err error) {
	snapDir = filepath.Join(root, "snaps")
	sdb, err := db.OpenSwappable(filepath.Join(root, "live.db"), nil, false, true, 0)
	if err != nil {
		return "", "", nil, err
	}
	defer sdb.Close()
	b = &c07Builder{root: root, sdb: sdb, idx: 1, term: 2, stage: filepath.Join(root, "wal-staging"), shape: shape}
	if wrap != nil {
		b.wrap, b.finalAt = wrap, shape.OlderFulls+1+len(shape.Incs)
	}
	if err := b.exec("CREATE TABLE t (id INTEGER PRIMARY KEY, v TEXT, n INT)"); err != nil {
		return "", "", nil, err
	}
	st, err := c07OpenStore(snapDir)
	if err != nil {
		return "", "", nil, err
	}
	defer st.Close()
	b.main = st
	st.SetNoVerifyDB(shape.NoVerifyDB)
	for i := 0; i < shape.OlderFulls; i++ {
		if err := b.full(st); err != nil {
			return "", "", nil, fmt.Errorf("older full: %w", err)
		}
	}
	if shape.FullWALs == 0 {
		if err := b.full(st); err != nil {
			return "", "", nil, fmt.Errorf("full: %w", err)
		}
	} else {
		// A full snapshot that carries WAL files is what installing a streamed
		// snapshot (full + incrementals of the sender) produces.
		srcDir := filepath.Join(root, "src-snaps")
		src, err := c07OpenStore(srcDir)
		if err != nil {
			return "", "", nil, err
		}
		defer src.Close()
		if err := b.full(src); err != nil {
			return "", "", nil, fmt.Errorf("src full: %w", err)
		}
		for i := 0; i < shape.FullWALs; i++ {
			if err := b.inc(src, 1); err != nil {
				return "", "", nil, fmt.Errorf("src inc: %w", err)
			}
		}
		metas, err := src.List()
		if err != nil || len(metas) == 0 {
			return "", "", nil, fmt.Errorf("src list: %v", err)
		}
		_, rc, err := src.Open(metas[0].ID)
		if err != nil {
			return "", "", nil, fmt.Errorf("src open: %w", err)
		}
		if err := b.persist(st, rc, fmt.Sprintf("install-%dwal", shape.FullWALs)); err != nil {
			return "", "", nil, fmt.Errorf("install: %w", err)
		}
	}
	for _, n := range shape.Incs {
		if shape.OlderFulls > 0 && n > 1 {
			b.term++ // terms may grow along the chain
		}
		if err := b.inc(st, n); err != nil {
			return "", "", nil, fmt.Errorf("inc: %w", err)
		}
	}
	liveDump, err = vsql.DumpFile(sdb.Path())
	return snapDir, liveDump, b, err
}

type c07View struct {
	index, term uint64
	dump        string
	n           int
}

// c07Observe opens the store (running its recovery) and observes the newest
// snapshot. stage names the step that failed.
func c07Observe(snapDir, scratch string, thenReap bool) (v c07View, stage string, err error) {
	st, err := c07OpenStore(snapDir)
	if err != nil {
		return v, "open", err
	}
	defer st.Close()
	look := func() (c07View, string, error) {
		var v c07View
		metas, err := st.ListAll()
		if err != nil {
			return v, "list", err
		}
		if len(metas) == 0 {
			return v, "list", fmt.Errorf("store lists no snapshot")
		}
		v.n = len(metas)
		v.index, v.term = metas[0].Index, metas[0].Term
		if err := st.Verify(); err != nil {
			return v, "verify", err
		}
		_, rc, err := st.Open(metas[0].ID)
		if err != nil {
			return v, "open-snapshot", err
		}
		tmp := filepath.Join(scratch, "restored.db")
		os.Remove(tmp)
		_, err = Restore(rc, tmp)
		rc.Close()
		if err != nil {
			return v, "restore", err
		}
		v.dump, err = vsql.DumpFile(tmp)
		os.Remove(tmp)
		if err != nil {
			return v, "dump", err
		}
		return v, "", nil
	}
	v, stage, err = look()
	if err != nil || !thenReap {
		return v, stage, err
	}
	if _, _, err := st.Reap(); err != nil {
		return v, "later-reap", err
	}
	v2, stage, err := look()
	if err != nil {
		return v, "after-later-reap/" + stage, err
	}
	if v2.index != v.index || v2.term != v.term || v2.dump != v.dump {
		return v, "after-later-reap/changed", fmt.Errorf("later reap changed the newest snapshot: (%d,%d)->(%d,%d) same content=%v",
			v.index, v.term, v2.index, v2.term, v2.dump == v.dump)
	}
	if v2.n != 1 {
		return v, "after-later-reap/count", fmt.Errorf("%d snapshots remain after a complete reap", v2.n)
	}
	return v, "", nil
}
