package snapshot_test

// C11: open snapshot streams never race with reaping.
//
// Unit "lockstep": generated schedules of <= 16 steps over <= 3 streams on a
// real store with a short read timeout T, executed one step at a time by one
// goroutine: create (full / incremental), open, read-some, close, double
// close, read-after-close, wait-past-timeout, close-near-timeout, Reap()
// (manual mode) or the blocking auto-reaper (auto mode, threshold 2).
//
// Model: per stream {id, reference bytes captured at open, position, closed,
// timeout seen, harness clock value taken *before* its last successful read}.
// With now = harness clock *after* the operation under test:
//
//	holds(s)    = !closed && !timeoutSeen && now - start(last read) < T && end(last read) - start(read before it) < T
//	released(s) = closed || timeoutSeen
//
// Both are sound whatever the machine load. The idle timer compares the clock
// with the time stored when the last read *returned*; it may fire while the
// next read is already in flight (that read can still succeed) using the
// older stored value. So a force-close is legitimate iff T elapsed either
// since the start of the last successful read, or between the start of the
// read before it and the end of the last one; the harness clock values used
// never under-estimate those intervals. Anything else is "uncertain" and
// accepts either behaviour.
//
// Oracle: every byte a stream returns equals the reference; a live stream
// (holds) never gets an error or a timeout; Reap() fails while some stream
// holds, and the auto-reaper does not change the catalog; once every stream is
// released a reap succeeds (polled with a generous deadline: no leaked hold);
// a stream left idle is force-closed (zero-length probe reads return
// ErrSnapshotReaderTimeout within 30 s); the full reference restores
// to the content recorded for that snapshot id; nothing panics.
//
// Unit "stress" runs the same actors free-running under the race detector.

import (
	"bytes"
	"errors"
	"fmt"
	"io"
	"math/rand"
	"os"
	"strings"
	"sync"
	"sync/atomic"
	"testing"
	"time"

	"github.com/rqlite/rqlite/v10/internal/verif/vsnap"
	"github.com/rqlite/rqlite/v10/internal/verif/vstat"
	"github.com/rqlite/rqlite/v10/snapshot"
	"pgregory.net/rapid"
)

const (
	c11T        = 150 * time.Millisecond
	c11Generous = 30 * time.Second
)

type c11Stream struct {
	id          string
	rc          io.ReadCloser
	ref         []byte
	pos         int
	lastStart   time.Time     // harness clock before the last successful activity (open or read with n > 0)
	prevGap     time.Duration // end of the last successful activity minus start of the one before it
	closed      bool
	timeoutSeen bool
	eof         bool // a Read returned io.EOF
	openedStep  int
}

func (s *c11Stream) holds(now time.Time) bool {
	return !s.closed && !s.timeoutSeen && now.Sub(s.lastStart) < c11T && s.prevGap < c11T
}
func (s *c11Stream) released() bool { return s.closed || s.timeoutSeen }

type c11Machine struct {
	rt      *rapid.T
	rec     *vstat.Rec
	b       *vsnap.Builder
	auto    bool
	streams []*c11Stream
	dumps   map[string]string // id -> recorded content
	index   uint64
	seq     int
	step    int
	trace   []string
	// non-trivial markers
	ntTimeoutWithPending bool
	checkedRef           map[string]bool
}

func (m *c11Machine) fail(sig, format string, args ...any) {
	msg := fmt.Sprintf(format, args...) + " | schedule: " + strings.Join(m.trace, " ")
	if m.rec.KnownHit(sig, msg) {
		panic(g4Stop{})
	}
	m.rt.Fatalf("%s", m.rec.Violation(sig, "%s", msg))
}

func (m *c11Machine) note(s string) { m.trace = append(m.trace, s) }

func (m *c11Machine) anyHolds(now time.Time, beforeStep int) bool {
	for _, s := range m.streams {
		if s.openedStep < beforeStep && s.holds(now) {
			return true
		}
	}
	return false
}

func (m *c11Machine) allReleased() bool {
	for _, s := range m.streams {
		if !s.released() {
			return false
		}
	}
	return true
}

// c11ReadAll opens snapshot id and reads it to EOF. A stream may legitimately
// be force-closed when this goroutine is descheduled for longer than the
// timeout between two reads (busy machine): such an attempt proves nothing and
// is repeated. Any other failure, or a timeout although less than T passed
// since the previous read started, is returned as an error.
func c11ReadAll(st *snapshot.Store, id string, T time.Duration, waitForReaper bool) ([]byte, error) {
	var lastErr error
	deadline := time.Now().Add(c11Generous)
	for attempt := 0; attempt < 10; attempt++ {
		last := time.Now()
		_, rc, err := st.Open(id)
		if err != nil {
			// Open does not wait for a running reap: a lock conflict is allowed
			// behaviour. Callers that only need the bytes wait for the reaper.
			if waitForReaper && isConflict(err) {
				if time.Now().After(deadline) {
					return nil, fmt.Errorf("gave up: lock conflict for %v: %w", c11Generous, err)
				}
				time.Sleep(2 * time.Millisecond)
				attempt--
				continue
			}
			return nil, fmt.Errorf("open: %w", err)
		}
		var out []byte
		buf := make([]byte, 32*1024)
		prevGap := time.Since(last)
		for {
			t0 := time.Now()
			n, err := rc.Read(buf)
			out = append(out, buf[:n]...)
			if err == io.EOF {
				rc.Close()
				return out, nil
			}
			if err != nil {
				rc.Close()
				if errors.Is(err, snapshot.ErrSnapshotReaderTimeout) && (time.Since(last) >= T || prevGap >= T) {
					lastErr = err
					break // descheduled past the timeout: try again
				}
				return nil, err
			}
			if n > 0 {
				prevGap = time.Since(last)
				last = t0
			}
		}
	}
	return nil, fmt.Errorf("gave up after repeated legitimate timeouts: %w", lastErr)
}

func isConflict(err error) bool {
	return err != nil && strings.Contains(err.Error(), "MSRW conflict")
}

// listRetry lists the catalog, retrying while the (auto) reaper holds the lock.
func (m *c11Machine) listRetry() ([]string, bool) {
	deadline := time.Now().Add(c11Generous)
	for {
		metas, err := m.b.Store.ListAll()
		if err == nil {
			ids := make([]string, len(metas))
			for i, x := range metas {
				ids[len(metas)-1-i] = x.ID // oldest first
			}
			return ids, true
		}
		if !isConflict(err) {
			m.fail("C11/list-error", "ListAll failed: %v", err)
		}
		if !m.auto {
			m.fail("C11/lock-held-without-holder", "ListAll hit a lock conflict although no reap is running: %v", err)
		}
		if time.Now().After(deadline) {
			return nil, false
		}
		time.Sleep(2 * time.Millisecond)
	}
}

// syncCatalog compares the listed catalog with the model; in auto mode it
// accepts a consolidation iff no stream opened before this step still holds.
func (m *c11Machine) syncCatalog() {
	ids, ok := m.listRetry()
	now := time.Now()
	if !ok {
		m.rec.Label("inconclusive:list-conflict-timeout")
		return
	}
	want := m.b.Snaps
	same := len(ids) == len(want)
	if same {
		for i := range ids {
			if ids[i] != want[i].ID {
				same = false
			}
		}
	}
	if same {
		return
	}
	if m.auto && len(ids) >= 1 && len(ids) < len(want) {
		if m.anyHolds(now, m.step) {
			m.fail("C11/reap-ran-with-open-stream", "the auto-reaper changed the catalog (%d -> %d snapshots) while a stream that cannot have timed out is open", len(want), len(ids))
		}
		// adopt: everything up to some snapshot was consolidated into ids[0]
		k := len(want) - len(ids) // want[0..k] merged
		merged := want[k]
		merged.ID, merged.Kind, merged.NWALs = ids[0], vsnap.Full, 0
		m.dumps[ids[0]] = merged.Dump
		m.b.Snaps = append([]vsnap.Snap{merged}, want[k+1:]...)
		for i := range ids {
			if ids[i] != m.b.Snaps[i].ID {
				m.fail("C11/catalog-mismatch", "after auto-reap listed %v, model %v", ids, m.b.Snaps)
			}
		}
		m.note("(auto-reaped)")
		m.rec.Label("auto-reap-observed")
		return
	}
	m.fail("C11/catalog-mismatch", "listed %v differs from model (%d snapshots)", ids, len(want))
}

func (m *c11Machine) create() {
	m.seq++
	m.index += uint64(1 + m.seq%3)
	full := len(m.b.Snaps) == 0 || rapid.IntRange(0, 3).Draw(m.rt, "full") == 0
	batch := []string{fmt.Sprintf(`INSERT INTO t(a) VALUES('%s')`, strings.Repeat("x", 20+m.seq%50)), fmt.Sprintf(`INSERT INTO vlog(n, what) VALUES(%d, 'c11')`, m.seq)}
	if err := m.b.Exec(batch...); err != nil {
		m.rt.Fatalf("harness: exec: %v", err)
	}
	var s vsnap.Snap
	var err error
	if full {
		s, err = m.b.Full(m.index, 1)
		m.note("create-full")
	} else {
		if err = m.b.StageWAL(); err == nil {
			s, err = m.b.Incremental(m.index, 1)
		}
		m.note("create-inc")
	}
	if err != nil {
		m.fail("C11/create-failed", "creating a snapshot failed (open streams must not block creation): %v", err)
	}
	m.dumps[s.ID] = s.Dump
}

func (m *c11Machine) open() {
	if len(m.streams) >= 3 || len(m.b.Snaps) == 0 {
		return
	}
	snaps := m.b.Snaps
	pick := snaps[len(snaps)-1]
	if len(snaps) > 1 && rapid.IntRange(0, 2).Draw(m.rt, "older") == 0 {
		pick = snaps[rapid.IntRange(0, len(snaps)-2).Draw(m.rt, "which")]
	}
	t0 := time.Now()
	_, rc, err := m.b.Store.Open(pick.ID)
	if err != nil {
		if m.auto && (isConflict(err) || errors.Is(err, snapshot.ErrSnapshotNotFound) || strings.Contains(err.Error(), "not found")) {
			m.note("open-raced-with-reap")
			m.rec.Label("open-raced-with-reap")
			return
		}
		m.fail("C11/open-failed", "Open(%s) failed: %v", pick.ID, err)
	}
	s := &c11Stream{id: pick.ID, rc: rc, lastStart: t0, prevGap: time.Since(t0), openedStep: m.step}
	// reference: a second stream of the same snapshot, read right away
	ref, err := c11ReadAll(m.b.Store, pick.ID, c11T, false)
	if err != nil {
		now := time.Now()
		if isConflict(err) || errors.Is(err, snapshot.ErrSnapshotNotFound) {
			// The reaper owns the write lock, or has already consolidated this
			// snapshot away. That is fine if the first stream may have been
			// force-closed meanwhile (descheduled past the timeout); it is a
			// reap running next to an open stream otherwise.
			if s.holds(now) {
				rc.Close()
				m.fail("C11/reap-ran-with-open-stream", "a second Open of %s fails because of the reaper %v after the first stream was opened, which cannot have timed out (timeout %v): %v", pick.ID, now.Sub(t0), c11T, err)
			}
			rc.Close()
			m.rec.Label("second-open-raced-with-reap")
			m.note("open-abandoned(reaper)")
			return
		}
		rc.Close()
		if strings.Contains(err.Error(), "gave up") {
			m.rec.Label("inconclusive:reference-read-starved")
			m.note("open-abandoned(starved)")
			return
		}
		m.fail("C11/read-error-on-live-stream", "reading a second (reference) stream of %s while the first is open failed: %v", pick.ID, err)
	}
	s.ref = ref
	if !m.checkedRef[pick.ID] {
		m.checkedRef[pick.ID] = true
		d, err := vsnap.RestoreStreamDump(bytes.NewReader(ref))
		if err != nil || d != m.dumps[pick.ID] {
			rc.Close()
			m.fail("C11/stream-content-wrong", "stream of %s does not restore to the recorded content (err=%v)", pick.ID, err)
		}
	}
	m.streams = append(m.streams, s)
	m.note(fmt.Sprintf("open#%d", len(m.streams)-1))
}

func (m *c11Machine) pickStream(label string) (*c11Stream, int) {
	if len(m.streams) == 0 {
		return nil, -1
	}
	i := rapid.IntRange(0, len(m.streams)-1).Draw(m.rt, label)
	return m.streams[i], i
}

func (m *c11Machine) read(s *c11Stream, i, want int) {
	if s.closed {
		// read after close: any error is fine, data must still be right, no panic
		buf := make([]byte, want)
		n, _ := s.rc.Read(buf)
		if n > 0 && (s.pos+n > len(s.ref) || !bytes.Equal(buf[:n], s.ref[s.pos:s.pos+n])) {
			m.fail("C11/stream-bytes-changed", "read after close of stream #%d returned bytes that differ from the snapshot", i)
		}
		s.pos += n
		m.note(fmt.Sprintf("read-after-close#%d", i))
		return
	}
	buf := make([]byte, want)
	t0 := time.Now()
	n, err := s.rc.Read(buf)
	t1 := time.Now()
	live := t1.Sub(s.lastStart) < c11T && s.prevGap < c11T && !s.timeoutSeen
	if n > 0 {
		if s.pos+n > len(s.ref) || !bytes.Equal(buf[:n], s.ref[s.pos:s.pos+n]) {
			m.fail("C11/stream-bytes-changed", "stream #%d (%s) returned %d bytes at offset %d that differ from the bytes the snapshot had when it was opened", i, s.id, n, s.pos)
		}
		s.pos += n
	}
	switch {
	case errors.Is(err, snapshot.ErrSnapshotReaderTimeout):
		s.timeoutSeen = true
		if live {
			// On a heavily loaded machine the timer goroutine (or the reader,
			// between taking the time and storing it) can be preempted for
			// longer than T between two adjacent statements, which force-closes
			// an active stream once in a while. A defect reproduces; an artifact
			// of scheduling does not: confirm on fresh streams before reporting.
			if m.confirmPremature(s.id) {
				m.fail("C11/premature-timeout", "stream #%d reported an idle timeout %v after its last read started and with %v between the start of the read before and the end of the last one (timeout %v); reproduced on 3 fresh streams read every T/3", i, t1.Sub(s.lastStart), s.prevGap, c11T)
			}
			m.rec.Label("premature-timeout-not-reproduced")
		}
		m.note(fmt.Sprintf("read#%d=timeout", i))
		return
	case err == io.EOF:
		s.eof = true
		if s.pos != len(s.ref) {
			m.fail("C11/stream-bytes-changed", "stream #%d ended at %d, snapshot had %d bytes", i, s.pos, len(s.ref))
		}
	case err != nil:
		if live {
			m.fail("C11/read-error-on-live-stream", "stream #%d (%s) got %v although it cannot have timed out", i, s.id, err)
		}
		m.rec.Label("read-error-on-possibly-timed-out-stream")
	}
	if n > 0 {
		s.prevGap = t1.Sub(s.lastStart)
		s.lastStart = t0
	}
	m.note(fmt.Sprintf("read#%d", i))
}

// confirmPremature opens 3 fresh streams of snapshot id one after the other and
// reads one byte every T/3 for 2T. It reports true iff every one of them was
// force-closed although, by the two-interval rule, it cannot have been idle.
func (m *c11Machine) confirmPremature(id string) bool {
	for trial := 0; trial < 3; trial++ {
		t0 := time.Now()
		_, rc, err := m.b.Store.Open(id)
		if err != nil {
			return false // reaped meanwhile or reaper running: cannot confirm
		}
		last, prevGap := t0, time.Since(t0)
		reproduced := false
		buf := make([]byte, 1)
		for k := 0; k < 6; k++ {
			time.Sleep(c11T / 3)
			r0 := time.Now()
			n, err := rc.Read(buf)
			if errors.Is(err, snapshot.ErrSnapshotReaderTimeout) {
				reproduced = time.Since(last) < c11T && prevGap < c11T
				break
			}
			if err != nil {
				break
			}
			if n > 0 {
				prevGap = time.Since(last)
				last = r0
			}
		}
		rc.Close()
		if !reproduced {
			return false
		}
	}
	return true
}

// waitTimeout leaves the streams idle until every open one is force-closed.
func (m *c11Machine) waitTimeout() {
	pendingClose := false
	for _, s := range m.streams {
		if !s.released() {
			pendingClose = true
		}
	}
	if !pendingClose {
		return
	}
	time.Sleep(c11T + 20*time.Millisecond)
	deadline := time.Now().Add(c11Generous)
	for _, s := range m.streams {
		if s.released() {
			continue
		}
		for {
			_, err := s.rc.Read(nil) // zero-length probe: does not count as activity
			if errors.Is(err, snapshot.ErrSnapshotReaderTimeout) {
				s.timeoutSeen = true
				break
			}
			if time.Now().After(deadline) {
				m.fail("C11/stalled-stream-not-force-closed", "stream of %s idle for more than %v (timeout %v) was not force-closed", s.id, c11Generous, c11T)
			}
			time.Sleep(5 * time.Millisecond)
		}
	}
	m.note("wait-past-timeout")
}

// reapMustSucceed polls Reap until it succeeds (every stream is released).
func (m *c11Machine) reapMustSucceed(why string) {
	deadline := time.Now().Add(c11Generous)
	for {
		_, _, err := m.b.Store.Reap()
		if err == nil {
			return
		}
		if !isConflict(err) {
			m.fail("C11/reap-error", "Reap failed (%s): %v", why, err)
		}
		if time.Now().After(deadline) {
			m.fail("C11/hold-not-released", "Reap still blocked by a lock conflict %v after every stream ended (%s): %v", c11Generous, why, err)
		}
		time.Sleep(5 * time.Millisecond)
	}
}

func (m *c11Machine) afterManualReap() {
	if len(m.b.Snaps) > 1 {
		ids, _ := m.listRetry()
		if len(ids) != 1 {
			m.fail("C11/catalog-mismatch", "after Reap the store lists %v", ids)
		}
		d := m.b.Snaps[len(m.b.Snaps)-1].Dump
		m.b.NoteReap(ids[0])
		m.dumps[ids[0]] = d
	}
}

func (m *c11Machine) reap() {
	if m.auto {
		return
	}
	if m.allReleased() {
		m.reapMustSucceed("manual reap, all streams released")
		m.afterManualReap()
		m.note("reap=ok")
		return
	}
	_, _, err := m.b.Store.Reap()
	now := time.Now()
	if m.anyHolds(now, m.step+1) {
		if err == nil {
			m.fail("C11/reap-ran-with-open-stream", "Reap() succeeded while a stream that cannot have timed out is open")
		}
		if !isConflict(err) {
			m.fail("C11/reap-error", "Reap with an open stream failed with something else than a lock conflict: %v", err)
		}
		m.note("reap=conflict")
		m.rec.Label("reap-refused-open-stream")
		return
	}
	// uncertain: some stream may have timed out
	if err == nil {
		m.afterManualReap()
		// the uncertain streams must in fact be timed out now
		for _, s := range m.streams {
			if !s.released() {
				if _, perr := s.rc.Read(nil); !errors.Is(perr, snapshot.ErrSnapshotReaderTimeout) {
					m.fail("C11/reap-ran-with-open-stream", "Reap() succeeded although stream of %s is open and not timed out (probe read: %v)", s.id, perr)
				}
				s.timeoutSeen = true
			}
		}
		m.note("reap=ok(uncertain)")
	} else if !isConflict(err) {
		m.fail("C11/reap-error", "Reap failed: %v", err)
	} else {
		m.note("reap=conflict(uncertain)")
	}
}

func TestVerif_C11_Lockstep(t *testing.T) {
	if !c11Supervise(t, "lockstep") {
		return
	}
	vsnap.Quiet()
	rec := vstat.New(t, "C11", "lockstep",
		"rapid: schedules of 6..16 steps over <=3 streams on a real store with read timeout 150 ms, executed in lock-step: create full/incremental, open newest/older (+ reference stream), read-some, drain to EOF then stall without Close, close, double close, read-after-close, wait-past-timeout, close-near-timeout, Reap() (manual mode) or blocking auto-reaper with threshold 2 (auto mode); model = per-stream hold derived from the harness clock (sound under load). non-trivial = a reap (manual or pending auto) is attempted while a stream is open, or a timeout fires; distinct by schedule")
	rapid.Check(t, func(rt *rapid.T) {
		root, err := os.MkdirTemp("", "c11")
		if err != nil {
			rt.Skip()
		}
		defer os.RemoveAll(root)
		defer g4RecoverStop()
		b, err := vsnap.New(root)
		if err != nil {
			rt.Fatalf("harness: %v", err)
		}
		m := &c11Machine{rt: rt, rec: rec, b: b, dumps: map[string]string{}, checkedRef: map[string]bool{}}
		m.index = uint64(rapid.SampledFrom([]int{0, 6, 96, 995}).Draw(rt, "index0")) // chains cross 9->10, 99->100 ...
		defer func() {
			for _, s := range m.streams {
				s.rc.Close()
			}
			m.b.Close()
		}()
		snapshot.VerifG4QuietStore(b.Store)
		b.Store.SetReadTimeout(c11T)
		m.auto = rapid.Bool().Draw(rt, "auto")
		if m.auto {
			b.Store.SetReapThreshold(2)
		}
		if err := b.Exec(`CREATE TABLE t (id INTEGER PRIMARY KEY, a TEXT)`, `CREATE TABLE vlog (n INTEGER PRIMARY KEY, what TEXT)`); err != nil {
			rt.Fatalf("harness: %v", err)
		}
		m.create()
		if rapid.Bool().Draw(rt, "second") {
			m.create()
		}
		m.syncCatalog()
		nsteps := rapid.IntRange(6, 16).Draw(rt, "nsteps")
		reapWhileOpen, timeoutFired := false, false
		for m.step = 1; m.step <= nsteps; m.step++ {
			op := rapid.SampledFrom([]string{"create", "create", "open", "open", "open", "read", "read", "read", "slow-read", "drain-and-stall", "drain-and-stall", "close", "close", "double-close", "wait", "close-near-timeout", "reap", "reap", "reap"}).Draw(rt, "op")
			switch op {
			case "create":
				open := false
				for _, s := range m.streams {
					if !s.released() {
						open = true
					}
				}
				m.create()
				if m.auto && open && len(m.b.Snaps) >= 2 {
					reapWhileOpen = true
				}
			case "open":
				m.open()
			case "read":
				if s, i := m.pickStream("stream"); s != nil {
					want := rapid.SampledFrom([]int{1, 3, 100, 4096, 5000, 100000}).Draw(rt, "n")
					m.read(s, i, want)
				}
			case "drain-and-stall":
				// the consumer reads the stream to the end (including the Read that
				// returns io.EOF), then stalls without closing it: it must still be
				// force-closed so that reaping can proceed
				if s, i := m.pickStream("stream"); s != nil && !s.released() {
					for k := 0; k < 50 && !s.released() && !s.eof; k++ {
						m.read(s, i, 100000)
					}
					if s.eof {
						timeoutFired = true
						m.rec.Label("drained-then-stalled")
						m.note(fmt.Sprintf("drained#%d", i))
						m.waitTimeout()
						if !m.auto && m.allReleased() {
							m.reapMustSucceed("after a drained, never closed stream was left idle")
							m.afterManualReap()
							m.note("reap=ok")
						}
					}
				}
			case "slow-read":
				// keep one stream alive past the timeout by reading a byte every T/3:
				// activity must postpone the force-close
				if s, i := m.pickStream("stream"); s != nil && !s.released() {
					for k := 0; k < 5 && !s.released(); k++ {
						time.Sleep(c11T / 3)
						m.read(s, i, 1)
					}
					m.rec.Label("slow-read")
				}
			case "close", "double-close":
				if s, i := m.pickStream("stream"); s != nil {
					if s.closed && op == "close" {
						break
					}
					if err := s.rc.Close(); err != nil && s.holds(time.Now()) {
						m.fail("C11/close-error", "Close of live stream #%d failed: %v", i, err)
					}
					s.closed = true
					m.note(fmt.Sprintf("%s#%d", op, i))
					if op == "double-close" {
						s.rc.Close()
					}
				}
			case "wait":
				for _, s := range m.streams {
					if !s.released() {
						timeoutFired = true
					}
				}
				m.waitTimeout()
			case "close-near-timeout":
				// Close racing with the idle timer: sleep until just around the deadline of one stream
				if s, i := m.pickStream("stream"); s != nil && !s.released() {
					d := c11T - time.Since(s.lastStart) + time.Duration(rapid.IntRange(-3000, 3000).Draw(rt, "skew-us"))*time.Microsecond
					if d > 0 {
						time.Sleep(d)
					}
					s.rc.Close()
					s.closed = true
					timeoutFired = true
					m.note(fmt.Sprintf("close-near-timeout#%d", i))
				}
			case "reap":
				if !m.auto {
					for _, s := range m.streams {
						if !s.released() {
							reapWhileOpen = true
						}
					}
					m.reap()
				}
			}
			m.syncCatalog()
		}
		// epilogue: end every stream in a generated way, then a reap must go through
		for i, s := range m.streams {
			if s.released() {
				continue
			}
			if rapid.Bool().Draw(rt, "end-by-close") {
				s.rc.Close()
				s.closed = true
				m.note(fmt.Sprintf("close#%d", i))
			}
		}
		m.waitTimeout()
		if m.auto {
			// the pending auto-reap must now go through
			deadline := time.Now().Add(c11Generous)
			for len(m.b.Snaps) > 1 {
				m.syncCatalog()
				if len(m.b.Snaps) <= 1 {
					break
				}
				if snapshot.VerifG4TryWrite(m.b.Store) {
					// the lock is free, so nothing is leaked; the reaper may simply have nothing pending
					// (the threshold is not touched here: the reaper goroutine reads it unsynchronised)
					m.reapMustSucceed("epilogue after auto mode")
					m.afterManualReap()
					break
				}
				if time.Now().After(deadline) {
					m.fail("C11/hold-not-released", "the store's write lock is still unavailable %v after every stream ended", c11Generous)
				}
				time.Sleep(5 * time.Millisecond)
			}
		} else {
			m.reapMustSucceed("epilogue")
			m.afterManualReap()
		}
		m.syncCatalog()
		// whatever is left restores to the recorded content
		if n := len(m.b.Snaps); n > 0 {
			last := m.b.Snaps[n-1]
			data, err := c11ReadAll(m.b.Store, last.ID, c11T, true)
			if err == nil {
				var d string
				d, err = vsnap.RestoreStreamDump(bytes.NewReader(data))
				if err == nil && d != last.Dump {
					err = fmt.Errorf("content differs")
				}
			}
			if err != nil && !strings.Contains(err.Error(), "gave up") {
				m.fail("C11/stream-content-wrong", "after the schedule snapshot %s does not restore to the recorded content (%v)", last.ID, err)
			}
		}
		rec.Case(reapWhileOpen || timeoutFired, strings.Join(m.trace, " "))
		if reapWhileOpen {
			rec.Label("NT:reap-attempted-with-open-stream")
		}
		if timeoutFired {
			rec.Label("NT:timeout-fired")
		}
		if m.auto {
			rec.Label("mode:auto")
		} else {
			rec.Label("mode:manual")
		}
		rec.Sample(strings.Join(m.trace, " "))
	})
}

// Free-running actors under the race detector.
func TestVerif_C11_Stress(t *testing.T) {
	if !c11Supervise(t, "stress") {
		return
	}
	vsnap.Quiet()
	rec := vstat.New(t, "C11", "stress",
		"free-running actors on one store (read timeout 40 ms, auto-reap threshold 3) under -race for a fixed number of operations: 1 creator (full/incremental snapshots), 3 readers (open a known id, read in random chunks with random pauses some of which exceed the timeout, close once or twice), 1 manual reaper; every stream that was read to EOF without error must restore to the content recorded for its id; afterwards all holds must be gone (Reap succeeds). one case = one completed stream; non-trivial = stream overlapped in time with a reap attempt; distinct by (seed, stream ordinal)")
	rounds := vstat.Scale(2, 12)
	for round := 0; round < rounds; round++ {
		c11StressRound(t, rec, int64(vstat.Seed())+int64(round))
		if t.Failed() {
			return
		}
	}
}

func c11StressRound(t *testing.T, rec *vstat.Rec, seed int64) {
	const T = 40 * time.Millisecond
	root, err := os.MkdirTemp("", "c11s")
	if err != nil {
		t.Skip()
	}
	defer os.RemoveAll(root)
	b, err := vsnap.New(root)
	if err != nil {
		t.Fatalf("harness: %v", err)
	}
	defer b.Close()
	snapshot.VerifG4QuietStore(b.Store)
	b.Store.SetReadTimeout(T)
	b.Store.SetReapThreshold(3)
	if err := b.Exec(`CREATE TABLE t (id INTEGER PRIMARY KEY, a TEXT)`, `CREATE TABLE vlog (n INTEGER PRIMARY KEY, what TEXT)`); err != nil {
		t.Fatalf("harness: %v", err)
	}
	var mu sync.Mutex
	dumps := map[string]string{}
	var ids []string
	var reapAttempts, prematureSeen atomic.Int64
	var violated atomic.Bool
	violation := func(sig, format string, args ...any) {
		msg := fmt.Sprintf(format, args...)
		if rec.KnownHit(sig, msg) {
			return
		}
		if violated.CompareAndSwap(false, true) {
			t.Errorf("%s", rec.Violation(sig, "%s seed=%d", msg, seed))
		}
	}
	stop := make(chan struct{})
	var wg sync.WaitGroup
	nCreate := vstat.Scale(40, 120)

	// creator (the only goroutine using the builder's database)
	wg.Add(1)
	go func() {
		defer wg.Done()
		defer close(stop)
		rnd := rand.New(rand.NewSource(seed))
		index := uint64(0)
		haveFull := false
		for i := 0; i < nCreate && !violated.Load(); i++ {
			index += 10
			if err := b.Exec(fmt.Sprintf(`INSERT INTO t(a) VALUES('%s')`, strings.Repeat("y", 10+rnd.Intn(300))), fmt.Sprintf(`INSERT INTO vlog(n, what) VALUES(%d, 's')`, i)); err != nil {
				t.Errorf("harness: exec: %v", err)
				return
			}
			// b.Snaps is only a log here (the reapers change the catalog behind it).
			var sn vsnap.Snap
			var err error
			due, _ := b.Store.DueNext()
			if !haveFull || due == snapshot.Full || rnd.Intn(5) == 0 {
				sn, err = b.Full(index, 1)
				haveFull = err == nil
			} else {
				if e := b.StageWAL(); e != nil {
					t.Errorf("harness: stage: %v", e)
					return
				}
				sn, err = b.Incremental(index, 1)
			}
			if err != nil {
				violation("C11/create-failed", "persisting a snapshot failed while streams/reaps are active: %v", err)
				return
			}
			id, d := sn.ID, sn.Dump
			mu.Lock()
			dumps[id] = d
			ids = append(ids, id)
			if len(ids) > 6 {
				ids = ids[len(ids)-6:]
			}
			mu.Unlock()
			time.Sleep(time.Duration(rnd.Intn(3)) * time.Millisecond)
		}
	}()

	// readers
	var ordinal atomic.Int64
	for r := 0; r < 3; r++ {
		wg.Add(1)
		go func(r int) {
			defer wg.Done()
			rnd := rand.New(rand.NewSource(seed*31 + int64(r)))
			for {
				select {
				case <-stop:
					return
				default:
				}
				mu.Lock()
				if len(ids) == 0 {
					mu.Unlock()
					time.Sleep(time.Millisecond)
					continue
				}
				id := ids[len(ids)-1-rnd.Intn(min(len(ids), 3))]
				mu.Unlock()
				reapsBefore := reapAttempts.Load()
				tOpen := time.Now()
				_, rc, err := b.Store.Open(id)
				if err != nil {
					// reaped meanwhile or the reaper holds the lock: allowed
					time.Sleep(time.Millisecond)
					continue
				}
				var got []byte
				buf := make([]byte, 1+rnd.Intn(9000))
				var rerr error
				stalled := false
				lastStart := tOpen
				prevGap := time.Duration(0)
				for {
					if p := rnd.Intn(40); p == 0 {
						time.Sleep(T + 30*time.Millisecond) // stall past the timeout
						stalled = true
					} else if p < 6 {
						time.Sleep(time.Duration(rnd.Intn(5)) * time.Millisecond)
					} else if p < 9 {
						time.Sleep(T / 3) // slow but alive
					}
					t0 := time.Now()
					n, e := rc.Read(buf)
					got = append(got, buf[:n]...)
					if e != nil {
						rerr = e
						if errors.Is(e, snapshot.ErrSnapshotReaderTimeout) && time.Since(lastStart) < T && prevGap < T {
							// Not reported from the free-running unit: with T = 40 ms
							// a preemption between two adjacent statements of the
							// timer or the reader is enough (seen at load > 150).
							// The lock-step unit confirms and reports this class.
							prematureSeen.Add(1)
						}
						break
					}
					if n > 0 {
						prevGap = time.Since(lastStart)
						lastStart = t0
					}
				}
				rc.Close()
				if rnd.Intn(3) == 0 {
					rc.Close()
				}
				ord := ordinal.Add(1)
				overlapped := reapAttempts.Load() != reapsBefore
				rec.Case(overlapped, fmt.Sprintf("%d/%d", seed, ord))
				switch {
				case rerr == io.EOF:
					rec.Label("stream:complete")
					mu.Lock()
					want, ok := dumps[id]
					mu.Unlock()
					if !ok {
						break
					}
					d, err := vsnap.RestoreStreamDump(bytes.NewReader(got))
					if err != nil {
						violation("C11/stream-bytes-changed", "stream of %s read to EOF without error does not restore: %v", id, err)
					} else if d != want {
						violation("C11/stream-content-wrong", "stream of %s read to EOF restores to content different from the snapshot", id)
					}
				case errors.Is(rerr, snapshot.ErrSnapshotReaderTimeout):
					rec.Label("stream:timeout")
				default:
					// a read error other than the timeout is only explicable by the force-close racing with Read
					if !stalled {
						rec.Label("stream:error-without-harness-stall")
					} else {
						rec.Label("stream:error-after-stall")
					}
				}
			}
		}(r)
	}

	// manual reaper
	wg.Add(1)
	go func() {
		defer wg.Done()
		rnd := rand.New(rand.NewSource(seed * 17))
		for {
			select {
			case <-stop:
				return
			default:
			}
			reapAttempts.Add(1)
			_, _, err := b.Store.Reap()
			if err != nil && !isConflict(err) {
				violation("C11/reap-error", "Reap failed with something else than a lock conflict: %v", err)
				return
			}
			if err == nil {
				rec.Label("manual-reap-ok")
			} else {
				rec.Label("manual-reap-conflict")
			}
			time.Sleep(time.Duration(1+rnd.Intn(8)) * time.Millisecond)
		}
	}()
	wg.Wait()
	rec.LabelN("stream:force-closed-while-active(scheduling?)", int(prematureSeen.Load()))
	if violated.Load() {
		return
	}
	// all streams are closed: no hold may be left
	deadline := time.Now().Add(c11Generous)
	for {
		_, _, err := b.Store.Reap()
		if err == nil {
			break
		}
		if !isConflict(err) {
			violation("C11/reap-error", "final Reap failed: %v", err)
			break
		}
		if time.Now().After(deadline) {
			violation("C11/hold-not-released", "final Reap still hits a lock conflict %v after all streams were closed: %v", c11Generous, err)
			break
		}
		time.Sleep(5 * time.Millisecond)
	}
	// and the newest snapshot is intact
	l, err := b.Store.List()
	if err == nil && len(l) == 1 {
		mu.Lock()
		_ = dumps
		mu.Unlock()
		data, err := c11ReadAll(b.Store, l[0].ID, T, true)
		if err == nil {
			_, err = vsnap.RestoreStreamDump(bytes.NewReader(data))
		}
		if err != nil && !strings.Contains(err.Error(), "gave up") {
			violation("C11/stream-content-wrong", "after the stress round the newest snapshot does not restore: %v", err)
		}
	}
}
