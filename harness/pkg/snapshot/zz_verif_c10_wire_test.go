package snapshot_test

// C10, unit "wire": the same transfer as harness/pkg/snapshot/zz_verif_c10_test.go
// but over the real path: store.NodeTransport on top of raft.NetworkTransport
// over loopback TCP, with and without transport compression. The receiving
// side consumes the RPC from NodeTransport.Consumer() and drives the
// destination store's sink exactly as raft.installSnapshot does (raft v1.7.3
// raft.go:1872-1909: Create, io.Copy, error => Cancel, n != Size => Cancel,
// Close), then Open + Restore (fsmRestore). This cross-checks the piecewise
// emulation used by the other C10 units and carries the incompressible
// database case over the real wire.

import (
	"fmt"
	"io"
	"net"
	"os"
	"path/filepath"
	"strings"
	"testing"
	"time"

	"github.com/hashicorp/raft"
	"github.com/rqlite/rqlite/v10/internal/verif/vsnap"
	"github.com/rqlite/rqlite/v10/internal/verif/vstat"
	"github.com/rqlite/rqlite/v10/snapshot"
	"github.com/rqlite/rqlite/v10/store"
	"pgregory.net/rapid"
)

// c10wLayer is a store.Layer on a loopback listener.
type c10wLayer struct{ net.Listener }

func (l *c10wLayer) Dial(addr string, timeout time.Duration) (net.Conn, error) {
	return net.DialTimeout("tcp", addr, timeout)
}

func c10wNewTransport(compress bool) (*store.NodeTransport, error) {
	ln, err := net.Listen("tcp", "127.0.0.1:0")
	if err != nil {
		return nil, err
	}
	nt := raft.NewNetworkTransport(store.NewTransport(&c10wLayer{ln}), 3, 60*time.Second, io.Discard)
	return store.NewNodeTransport(nt, compress), nil
}

// c10wReceive handles one InstallSnapshot RPC the way raft.installSnapshot does.
func c10wReceive(rpc raft.RPC, dest *snapshot.Store) (id string, err error) {
	req, ok := rpc.Command.(*raft.InstallSnapshotRequest)
	if !ok {
		rpc.Respond(nil, fmt.Errorf("unexpected rpc %T", rpc.Command))
		return "", fmt.Errorf("unexpected rpc %T", rpc.Command)
	}
	resp := &raft.InstallSnapshotResponse{Term: req.Term}
	defer func() {
		io.Copy(io.Discard, rpc.Reader)
		resp.Success = err == nil
		rpc.Respond(resp, err)
	}()
	sink, err := dest.Create(req.SnapshotVersion, req.LastLogIndex, req.LastLogTerm, raft.DecodeConfiguration(req.Configuration), req.ConfigurationIndex, nil)
	if err != nil {
		return "", err
	}
	n, err := io.Copy(sink, rpc.Reader)
	if err != nil {
		sink.Cancel()
		return "", fmt.Errorf("failed to copy snapshot: %w", err)
	}
	if n != req.Size {
		sink.Cancel()
		return "", fmt.Errorf("short read %d / %d", n, req.Size)
	}
	if err := sink.Close(); err != nil {
		return "", err
	}
	return sink.ID(), nil
}

func TestVerif_C10_Wire(t *testing.T) {
	vsnap.Quiet()
	rec := vstat.New(t, "C10", "wire",
		"rapid: source shapes of 1..3 snapshots (or, 1 in 4, a node booted from a 512-byte-page database with one page-filling pseudo-random blob of 0.1..1 MB); newest snapshot sent with NodeTransport.InstallSnapshot over loopback TCP to a second NodeTransport whose Consumer() RPC is handled with raft's installSnapshot protocol on an empty destination store, compression on or off on both ends; then Open+Restore at the destination. non-trivial = compression on or the stream has WAL files; distinct by shape+compression")
	rapid.Check(t, func(rt *rapid.T) {
		root, err := os.MkdirTemp("", "c10w")
		if err != nil {
			rt.Skip()
		}
		defer os.RemoveAll(root)
		compress := rapid.Bool().Draw(rt, "compress")
		incompressible := rapid.IntRange(0, 3).Draw(rt, "incompressible") == 0
		var b *vsnap.Builder
		desc := ""
		if incompressible {
			k := rapid.IntRange(200, 2000).Draw(rt, "k")
			file := filepath.Join(root, "boot.db")
			if err := c10IncompressibleDB(file, k, rapid.Uint64().Draw(rt, "seed")); err != nil {
				rt.Fatalf("harness: %v", err)
			}
			b, err = vsnap.NewWithDB(filepath.Join(root, "src"), file)
			if err == nil {
				_, err = b.Full(10, 1)
			}
			desc = fmt.Sprintf("incompressible-k%d", k)
		} else {
			sh := vsnap.GenShape(rt, vsnap.Opt{MaxSteps: 3, MaxWALs: 2, BigRows: true})
			b, err = vsnap.New(filepath.Join(root, "src"))
			if err == nil {
				err = b.Apply(sh)
			}
			desc = sh.String()
		}
		if err != nil {
			if b != nil {
				b.Close()
			}
			rt.Fatalf("harness: source: %v", err)
		}
		defer b.Close()
		sn := b.Snaps[len(b.Snaps)-1]
		dest, err := snapshot.NewStore(filepath.Join(root, "dest"))
		if err != nil {
			rt.Fatalf("harness: %v", err)
		}
		defer dest.Close()
		dest.SetReapThreshold(1 << 30)

		tx, err := c10wNewTransport(compress)
		if err != nil {
			rt.Skip()
		}
		defer tx.Close()
		rx, err := c10wNewTransport(compress)
		if err != nil {
			rt.Skip()
		}
		defer rx.Close()

		meta, rc, err := b.Store.Open(sn.ID)
		if err != nil {
			rt.Fatalf("harness: open source: %v", err)
		}
		defer rc.Close()
		nwal := sn.NWALs
		rec.Case(compress || nwal > 0 || len(b.Snaps) > 1, fmt.Sprintf("%s|%v", desc, compress))
		rec.Label(fmt.Sprintf("compress:%v", compress))
		if incompressible {
			rec.Label("incompressible")
		}
		rec.Sample(fmt.Sprintf("%s compress=%v size=%d", desc, compress, meta.Size))

		type result struct {
			id  string
			err error
		}
		done := make(chan result, 1)
		go func() {
			select {
			case rpc := <-rx.Consumer():
				id, err := c10wReceive(rpc, dest)
				done <- result{id, err}
			case <-time.After(80 * time.Second):
				done <- result{"", fmt.Errorf("no rpc received")}
			}
		}()
		args := &raft.InstallSnapshotRequest{
			RPCHeader:          raft.RPCHeader{ProtocolVersion: raft.ProtocolVersionMax},
			SnapshotVersion:    meta.Version,
			Term:               meta.Term,
			LastLogIndex:       meta.Index,
			LastLogTerm:        meta.Term,
			Configuration:      raft.EncodeConfiguration(meta.Configuration),
			ConfigurationIndex: meta.ConfigurationIndex,
			Size:               meta.Size,
		}
		var resp raft.InstallSnapshotResponse
		sendErr := tx.InstallSnapshot("dest", rx.LocalAddr(), args, &resp, rc)
		var res result
		select {
		case res = <-done:
		case <-time.After(90 * time.Second):
			rt.Skip() // infrastructure: loopback transfer did not finish
		}
		fail := func(sig, msg string) {
			if rec.KnownHit(sig, msg) {
				return
			}
			rt.Fatalf("%s", rec.Violation(sig, "%s", msg))
		}
		if res.err != nil && res.err.Error() == "no rpc received" {
			rec.Label("inconclusive:no-rpc-received")
			return // infrastructure: the request never arrived within 80 s
		}
		if res.err == nil && sendErr != nil && strings.Contains(sendErr.Error(), "timeout") {
			// the receiver installed the snapshot; only the response did not
			// make it back within the transport's deadline (overloaded machine)
			rec.Label("inconclusive:response-timeout")
			sendErr = nil
		}
		if res.err != nil || sendErr != nil {
			sig := "C10/valid-transfer-rejected"
			if compress && incompressible {
				sig = "C10/compressed-stream-exceeds-size-limit"
			}
			fail(sig, fmt.Sprintf("transfer of %s over the real transport (compress=%v, Size=%d) failed: receiver: %v; sender: %v", desc, compress, meta.Size, res.err, sendErr))
			return
		}
		got, err := vsnap.RestoreDump(dest, res.id)
		if err != nil {
			fail("C10/valid-transfer-does-not-restore", fmt.Sprintf("installed copy of %s does not restore: %v", desc, err))
			return
		}
		if got != sn.Dump {
			fail("C10/valid-transfer-wrong-content", fmt.Sprintf("installed copy of %s (compress=%v) differs from the source", desc, compress))
		}
	})
}
