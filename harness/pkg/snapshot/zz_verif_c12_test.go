package snapshot_test

// C12: corrupt snapshot data is detected before it is used.
//
// A generated store (vsnap shape) is closed and copied; one data file or
// .crc32 sidecar of the copy is corrupted (byte flip at a page/frame-aligned or
// random offset, truncation), either before the store is opened (timing A) or
// after it has been opened and verified once (timing B, "arises while the node
// runs"); then one consuming chain runs on that store:
//
//	start-restore   EnsureVerify (what store.Store.Open does before raft restores) then Open(newest)+Restore
//	restore         Open(newest)+Restore                    (lazy verification inside Open)
//	restore-older   Open(an older id)+Restore
//	install         Open(newest) -> raft receive path -> other store -> Open+Restore there
//	reap-restore    Reap, then Open(newest)+Restore
//	reap-install    Reap, then install into another store and restore there
//
// Oracle (statement): timing A -- the chain must fail if the corrupted file is
// one it uses (a sidecar change that leaves the recorded checksum value the
// same, e.g. hex digit case, is accepted when the content is intact). Timing B
// -- the chain fails or ends with exactly the recorded content; altered
// content restored or installed without error is a violation. Recorded content
// = raw-driver dump of the source database at snapshot time.

import (
	"fmt"
	"io"
	"os"
	"path/filepath"
	"sort"
	"strings"
	"testing"

	"github.com/rqlite/rqlite/v10/internal/verif/vsnap"
	"github.com/rqlite/rqlite/v10/internal/verif/vsql"
	"github.com/rqlite/rqlite/v10/internal/verif/vstat"
	"github.com/rqlite/rqlite/v10/snapshot"
	"github.com/rqlite/rqlite/v10/snapshot/sidecar"
	"pgregory.net/rapid"
)

type c12File struct {
	snapIdx int    // index into Snaps
	rel     string // path relative to the store dir
	sidecar bool
	wal     bool
	size    int64
}

// c12Files lists every data file and sidecar of the store.
func c12Files(storeDir string, snaps []vsnap.Snap) ([]c12File, error) {
	var out []c12File
	for i, s := range snaps {
		ents, err := os.ReadDir(filepath.Join(storeDir, s.ID))
		if err != nil {
			return nil, err
		}
		var names []string
		for _, e := range ents {
			names = append(names, e.Name())
		}
		sort.Strings(names)
		for _, n := range names {
			if n == "meta.json" {
				continue
			}
			fi, err := os.Stat(filepath.Join(storeDir, s.ID, n))
			if err != nil {
				return nil, err
			}
			f := c12File{snapIdx: i, rel: filepath.Join(s.ID, n), size: fi.Size()}
			f.sidecar = strings.HasSuffix(n, ".crc32")
			f.wal = strings.Contains(n, ".wal")
			out = append(out, f)
		}
	}
	return out, nil
}

// c12ChainStart is the index of the snapshot holding the database file that
// snapshot i resolves to.
func c12ChainStart(snaps []vsnap.Snap, i int) int {
	for j := i; j >= 0; j-- {
		if snaps[j].Kind != vsnap.Incremental {
			return j
		}
	}
	return 0
}

// c12RawContent rebuilds the content of snapshot i from the files on disk with
// SQLite alone (raw driver): copy data.db, then apply every WAL of the chain in
// name order by letting SQLite recover and checkpoint it. Used to classify
// whether a corruption matters, and as a harness self-check on clean stores.
func c12RawContent(storeDir string, snaps []vsnap.Snap, i int) (string, error) {
	tmp, err := os.MkdirTemp("", "c12raw")
	if err != nil {
		return "", err
	}
	defer os.RemoveAll(tmp)
	start := c12ChainStart(snaps, i)
	dbp := filepath.Join(tmp, "db")
	if err := vsql.CopyFile(filepath.Join(storeDir, snaps[start].ID, "data.db"), dbp); err != nil {
		return "", err
	}
	for j := start; j <= i; j++ {
		wals, _ := filepath.Glob(filepath.Join(storeDir, snaps[j].ID, "*.wal"))
		sort.Strings(wals)
		for _, w := range wals {
			if err := vsql.CopyFile(w, dbp+"-wal"); err != nil {
				return "", err
			}
			db, err := vsql.Open(dbp)
			if err != nil {
				return "", err
			}
			var a, b, c int
			err = db.QueryRow(`PRAGMA wal_checkpoint(TRUNCATE)`).Scan(&a, &b, &c)
			db.Close()
			if err != nil {
				return "", err
			}
			os.Remove(dbp + "-wal")
			os.Remove(dbp + "-shm")
		}
	}
	return vsql.DumpFile(dbp)
}

type c12Corruption struct {
	file   c12File
	kind   string // flip-aligned flip-random truncate
	offset int64
	bit    uint
	newLen int64
}

func (c c12Corruption) String() string {
	what := "db"
	if c.file.wal {
		what = "wal"
	}
	if c.file.sidecar {
		what += "-sidecar"
	}
	if c.kind == "truncate" {
		return fmt.Sprintf("truncate %s %s %d->%d", what, c.file.rel, c.file.size, c.newLen)
	}
	return fmt.Sprintf("%s %s %s @%d bit %d", c.kind, what, c.file.rel, c.offset, c.bit)
}

func c12GenCorruption(rt *rapid.T, f c12File) c12Corruption {
	c := c12Corruption{file: f}
	kinds := []string{"flip-aligned", "flip-aligned", "flip-random", "flip-random", "truncate"}
	if f.sidecar {
		kinds = []string{"flip-random", "flip-random", "flip-random", "truncate"}
	}
	c.kind = rapid.SampledFrom(kinds).Draw(rt, "ckind")
	c.bit = uint(rapid.IntRange(0, 7).Draw(rt, "bit"))
	switch c.kind {
	case "flip-random":
		c.offset = int64(rapid.IntRange(0, int(f.size-1)).Draw(rt, "off"))
	case "flip-aligned":
		unit, base := int64(4096), int64(0)
		if f.wal {
			unit, base = 4096+24, 32 // frames after the 32-byte WAL header
		}
		n := (f.size - base) / unit
		k := int64(0)
		if n > 1 {
			// prefer the last unit: the newest version of a page
			if rapid.Bool().Draw(rt, "lastunit") {
				k = n - 1
			} else {
				k = int64(rapid.IntRange(0, int(n-1)).Draw(rt, "unit"))
			}
		}
		delta := int64(rapid.SampledFrom([]int{0, 1, 7, 8, 23, 24, 25, 100, 2000, 4095}).Draw(rt, "delta"))
		c.offset = base + k*unit + delta
		if f.wal && rapid.IntRange(0, 5).Draw(rt, "walhdr") == 0 {
			c.offset = int64(rapid.IntRange(0, 31).Draw(rt, "hoff"))
		}
		if c.offset >= f.size {
			c.offset = f.size - 1
		}
	case "truncate":
		c.newLen = int64(rapid.IntRange(0, int(f.size-1)).Draw(rt, "newlen"))
		if !f.sidecar && rapid.Bool().Draw(rt, "pagecut") && f.size > 4096 {
			c.newLen = f.size - 4096
			if f.wal {
				c.newLen = f.size - 4096 - 24
			}
		}
	}
	return c
}

func (c c12Corruption) apply(storeDir string) error {
	p := filepath.Join(storeDir, c.file.rel)
	if c.kind == "truncate" {
		return os.Truncate(p, c.newLen)
	}
	fh, err := os.OpenFile(p, os.O_RDWR, 0)
	if err != nil {
		return err
	}
	defer fh.Close()
	var b [1]byte
	if _, err := fh.ReadAt(b[:], c.offset); err != nil {
		return err
	}
	b[0] ^= 1 << c.bit
	_, err = fh.WriteAt(b[:], c.offset)
	return err
}

// c12SidecarNoop reports whether the sidecar at p still parses to the CRC
// value want (the corruption did not change what the record says).
func c12SidecarNoop(p string, want uint32) bool {
	got, err := sidecar.ReadCRC32File(p)
	if err != nil || got != want {
		return false
	}
	sc, err := sidecar.ReadFile(p)
	return err == nil && !sc.Disabled
}

type c12Outcome struct {
	err   error
	where string
	dump  string
}

// c12Install streams snapshot id of st into a fresh store under root using
// the raft receive path and restores it there.
func c12Install(st *snapshot.Store, id, root string) (string, string, error) {
	meta, rc, err := st.Open(id)
	if err != nil {
		return "", "open", err
	}
	data, err := io.ReadAll(rc)
	rc.Close()
	if err != nil {
		return "", "read", err
	}
	dest, err := snapshot.NewStore(filepath.Join(root, "dest"))
	if err != nil {
		return "", "harness", err
	}
	defer dest.Close()
	dest.SetReapThreshold(1 << 30)
	snapshot.VerifG4QuietStore(dest)
	snapshot.VerifG4SetStoreFatal(dest, nil)
	did, perr := g4Receive(dest, meta.Index, meta.Term, data, meta.Size, false, nil)
	if perr != nil {
		return "", "install", perr
	}
	d, err := vsnap.RestoreDump(dest, did)
	if err != nil {
		return "", "restore-at-destination", err
	}
	return d, "", nil
}

func c12Newest(st *snapshot.Store) (string, error) {
	l, err := st.List()
	if err != nil {
		return "", err
	}
	if len(l) == 0 {
		return "", fmt.Errorf("no snapshot listed")
	}
	return l[0].ID, nil
}

func c12RunConsumer(st *snapshot.Store, consumer, root string, snaps []vsnap.Snap, older int) c12Outcome {
	newestID := snaps[len(snaps)-1].ID
	switch consumer {
	case "start-restore":
		if err := st.EnsureVerify(); err != nil {
			return c12Outcome{err: err, where: "verify"}
		}
		d, err := vsnap.RestoreDump(st, newestID)
		return c12Outcome{err: err, where: "restore", dump: d}
	case "restore":
		d, err := vsnap.RestoreDump(st, newestID)
		return c12Outcome{err: err, where: "restore", dump: d}
	case "restore-older":
		d, err := vsnap.RestoreDump(st, snaps[older].ID)
		return c12Outcome{err: err, where: "restore", dump: d}
	case "install":
		d, where, err := c12Install(st, newestID, root)
		return c12Outcome{err: err, where: where, dump: d}
	case "reap-restore", "reap-install":
		if _, _, err := st.Reap(); err != nil {
			return c12Outcome{err: err, where: "reap"}
		}
		id, err := c12Newest(st)
		if err != nil {
			return c12Outcome{err: err, where: "list-after-reap"}
		}
		if consumer == "reap-restore" {
			d, err := vsnap.RestoreDump(st, id)
			return c12Outcome{err: err, where: "restore-after-reap", dump: d}
		}
		d, where, err := c12Install(st, id, root)
		return c12Outcome{err: err, where: where + "-after-reap", dump: d}
	}
	return c12Outcome{err: fmt.Errorf("unknown consumer"), where: "harness"}
}

func TestVerif_C12_Corrupt(t *testing.T) {
	vsnap.Quiet()
	rec := vstat.New(t, "C12", "corrupt",
		"rapid: store shapes of 1..4 snapshots (full / incremental 1..2 WALs / installed db+0..2 WALs); per shape 6 trials: target file (biased to the newest snapshot's chain and its last WAL; data file or .crc32 sidecar) x corruption (bit flip at page/frame-aligned offset incl. WAL header, random offset, truncation incl. whole pages) x timing (A before NewStore, B after a successful EnsureVerify) x consumer chain (start-restore, restore, restore-older, install, reap-restore, reap-install). non-trivial = the corrupted file belongs to what the consumer resolves and, for timing B, rebuilding the snapshot from the corrupted files with plain SQLite gives different content (the corruption is not masked); distinct by shape+corruption+timing+consumer")
	rapid.Check(t, func(rt *rapid.T) {
		root, err := os.MkdirTemp("", "c12")
		if err != nil {
			rt.Skip()
		}
		defer os.RemoveAll(root)
		sh := vsnap.GenShape(rt, vsnap.Opt{MaxSteps: 4, MaxWALs: 2, BigRows: true})
		b, err := vsnap.New(filepath.Join(root, "src"))
		if err != nil {
			rt.Fatalf("harness: %v", err)
		}
		snapshot.VerifG4QuietStore(b.Store)
		if err := b.Apply(sh); err != nil {
			b.Close()
			rt.Fatalf("harness: building %s: %v", sh, err)
		}
		snaps := append([]vsnap.Snap(nil), b.Snaps...)
		storeDir := b.StoreDir
		b.Close()
		files, err := c12Files(storeDir, snaps)
		if err != nil {
			rt.Fatalf("harness: %v", err)
		}
		newest := len(snaps) - 1
		// harness self-check: plain SQLite rebuilds the recorded content from the clean files
		if d, err := c12RawContent(storeDir, snaps, newest); err != nil || d != snaps[newest].Dump {
			rt.Fatalf("harness: raw rebuild of the clean store differs from the recorded content (err=%v) shape=%s", err, sh)
		}

		for trial := 0; trial < 6; trial++ {
			consumers := []string{"start-restore", "restore", "install", "reap-restore", "reap-restore", "reap-install"}
			older := -1
			if len(snaps) > 1 {
				consumers = append(consumers, "restore-older")
			}
			consumer := rapid.SampledFrom(consumers).Draw(rt, "consumer")
			if consumer == "restore-older" {
				older = rapid.IntRange(0, len(snaps)-2).Draw(rt, "older")
			}
			timing := rapid.SampledFrom([]string{"A", "B"}).Draw(rt, "timing")
			// what the consumer resolves
			target := newest
			if older >= 0 {
				target = older
			}
			start := c12ChainStart(snaps, target)
			var inChain, lastWAL, all []int
			for i, f := range files {
				if f.sidecar {
					continue // reached through its data file below
				}
				all = append(all, i)
				if f.snapIdx >= start && f.snapIdx <= target {
					inChain = append(inChain, i)
					if f.wal {
						lastWAL = []int{i}
					}
				}
			}
			var fi int
			switch w := rapid.IntRange(0, 9).Draw(rt, "aim"); {
			case w < 4 && len(lastWAL) > 0:
				fi = lastWAL[0]
			case w < 9:
				fi = rapid.SampledFrom(inChain).Draw(rt, "file")
			default:
				fi = rapid.SampledFrom(all).Draw(rt, "file")
			}
			f := files[fi]
			if rapid.IntRange(0, 3).Draw(rt, "sidecar") == 0 && !f.sidecar {
				// switch to this file's sidecar
				for j, g := range files {
					if g.rel == f.rel+".crc32" {
						fi, f = j, g
					}
				}
			}
			used := f.snapIdx >= start && f.snapIdx <= target
			cor := c12GenCorruption(rt, f)

			work := filepath.Join(root, fmt.Sprintf("t%d", trial))
			cdir := filepath.Join(work, "snapshots")
			if err := vsql.CopyDir(storeDir, cdir); err != nil {
				rt.Fatalf("harness: copy: %v", err)
			}
			var origCRC uint32
			if f.sidecar {
				origCRC, _ = sidecar.ReadCRC32File(filepath.Join(cdir, f.rel))
			}
			var st *snapshot.Store
			open := func() {
				st, err = snapshot.NewStore(cdir)
				if err == nil {
					st.SetReapThreshold(1 << 30)
					snapshot.VerifG4QuietStore(st)
					snapshot.VerifG4SetStoreFatal(st, nil)
				}
			}
			var out c12Outcome
			if timing == "A" {
				if err := cor.apply(cdir); err != nil {
					rt.Fatalf("harness: corrupt: %v", err)
				}
				open()
				if err != nil {
					out = c12Outcome{err: err, where: "newstore"}
				}
			} else {
				open()
				if err != nil {
					rt.Fatalf("harness: NewStore on a clean copy: %v", err)
				}
				if verr := st.EnsureVerify(); verr != nil {
					st.Close()
					msg := fmt.Sprintf("EnsureVerify on an uncorrupted store failed: %v shape=%s", verr, sh)
					if !rec.KnownHit("C12/clean-store-fails-verification", msg) {
						rt.Fatalf("%s", rec.Violation("C12/clean-store-fails-verification", "%s", msg))
					}
					continue
				}
				if err := cor.apply(cdir); err != nil {
					rt.Fatalf("harness: corrupt: %v", err)
				}
			}
			// does the corruption matter? (classification only)
			matters := true
			if !f.sidecar {
				d, rerr := c12RawContent(cdir, snaps, target)
				matters = rerr != nil || d != snaps[target].Dump
			}
			// a sidecar whose recorded value is unchanged (hex digit case ...)
			noop := f.sidecar && cor.kind != "truncate" && c12SidecarNoop(filepath.Join(cdir, f.rel), origCRC)
			if st != nil {
				out = c12RunConsumer(st, consumer, work, snaps, older)
				st.Close()
			}
			want := snaps[target].Dump
			desc := fmt.Sprintf("shape=%s timing=%s consumer=%s corruption=[%v] used=%v matters=%v", sh, timing, consumer, cor, used, matters)
			nt := used && (timing == "A" || matters)
			rec.Case(nt, desc)
			rec.Label("timing:" + timing)
			rec.Label("consumer:" + consumer)
			kindLabel := cor.kind
			if f.sidecar {
				kindLabel += "-sidecar"
			} else if f.wal {
				kindLabel += "-wal"
			} else {
				kindLabel += "-db"
			}
			rec.Label("corruption:" + kindLabel)
			if !used {
				rec.Label("target-not-used-by-consumer")
			}
			if timing == "B" && !matters {
				rec.Label("B:masked-or-irrelevant")
			}
			rec.Sample(desc)

			var sig, msg string
			switch {
			case out.err != nil:
				rec.Label("detected-at:" + out.where)
			case out.dump != want:
				sig = "C12/altered-data-" + strings.SplitN(consumer, "-", 2)[0] + "-timing" + timing
				if strings.HasPrefix(consumer, "reap") {
					sig = "C12/reap-blesses-corrupt-data-timing" + timing
				}
				msg = fmt.Sprintf("%s: the chain finished without error but the content differs from the snapshot:\n--- got\n%s--- recorded\n%s", desc, g4Short(out.dump), g4Short(want))
			case timing == "A" && used && !noop:
				sig = "C12/startup-corruption-not-detected"
				if strings.HasPrefix(consumer, "reap") {
					sig = "C12/startup-corruption-not-detected-by-reap"
				}
				msg = fmt.Sprintf("%s: corruption present before the store was opened was not detected (content happens to be intact)", desc)
			default:
				rec.Label("undetected-content-intact")
				if noop {
					rec.Label("sidecar-semantic-noop")
				}
			}
			if sig != "" {
				if rec.KnownHit(sig, msg) {
					continue
				}
				rt.Fatalf("%s", rec.Violation(sig, "%s", msg))
			}
		}
	})
}
