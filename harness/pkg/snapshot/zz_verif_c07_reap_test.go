package snapshot

// C07: reaping snapshots is crash-safe.
//
// Generator: snapshot-store shapes (0-2 older fulls; newest full plain or
// installed with 1-3 WALs; 0-4 incrementals of 1-3 WAL files each) built with
// the real sinks from a live SQLite database that receives generated writes.
// One real Reap() runs under the vos filesystem shim; the store directory is
// saved at every filesystem event (pre and post of every mutating os call),
// plus derived states: torn files (file being written when the process died)
// and partial checkpoints (subset of WAL pages already copied into data.db,
// WAL still in place / already truncated). Each saved state is restored INTO
// THE ORIGINAL DIRECTORY (REAP_PLAN holds absolute paths) and recovered with
// NewStore. Nested: the recovery run itself is recorded and every state of it
// is recovered again.
//
// Oracle (from the property text, not from the implementation): NewStore
// succeeds; the newest snapshot has the (index, term) it had before the reap;
// restoring it gives the logical dump (vsql, raw driver) of the live database
// at the time of the newest snapshot; Verify passes; a later Reap succeeds and
// changes none of that.

import (
	"fmt"
	"io"
	"math/rand"
	"os"
	"path/filepath"
	"strings"
	"testing"
	"time"

	"github.com/hashicorp/raft"
	command "github.com/rqlite/rqlite/v10/command/proto"
	"github.com/rqlite/rqlite/v10/db"
	"github.com/rqlite/rqlite/v10/internal/verif/vcrash"
	"github.com/rqlite/rqlite/v10/internal/verif/vos"
	"github.com/rqlite/rqlite/v10/internal/verif/vsql"
	"github.com/rqlite/rqlite/v10/internal/verif/vstat"
	"pgregory.net/rapid"
)

type c07Shape struct {
	OlderFulls int     // full snapshots older than the newest full
	FullWALs   int     // 0: newest full is a plain full; >0: installed full carrying this many WAL files
	Incs       []int   // WAL files per incremental snapshot after the newest full
	NoVerifyDB bool    // plan without the verify_db op
	NestStride int     // crash again during the recovery run of every NestStride-th in-plan state (1 = all)
	NestOff    int     // first in-plan state that is nested
	Batches    [][]string // SQL batches, consumed one per snapshot/WAL
	Seed       int64   // for the partial-checkpoint page subsets
}

func (s c07Shape) canon() string {
	return fmt.Sprintf("older=%d fullwals=%d incs=%v noverify=%v", s.OlderFulls, s.FullWALs, s.Incs, s.NoVerifyDB)
}

func (s c07Shape) nBatches() int {
	n := s.OlderFulls + 1 + s.FullWALs
	for _, w := range s.Incs {
		n += w
	}
	return n
}

func c07GenBatch(rt *rapid.T, next *int) []string {
	n := rapid.IntRange(1, 4).Draw(rt, "nstmt")
	out := make([]string, 0, n+1)
	// always one insert so that every batch produces WAL frames
	*next++
	out = append(out, fmt.Sprintf("INSERT INTO t(id, v, n) VALUES(%d, '%s', %d)", *next, strings.Repeat("x", rapid.IntRange(1, 40).Draw(rt, "len")), *next*7))
	for i := 1; i < n; i++ {
		switch rapid.IntRange(0, 5).Draw(rt, "kind") {
		case 0, 1:
			*next++
			// occasionally a row bigger than a page (overflow pages, several frames)
			l := rapid.SampledFrom([]int{5, 60, 900, 5000, 9000}).Draw(rt, "biglen")
			out = append(out, fmt.Sprintf("INSERT INTO t(id, v, n) VALUES(%d, '%s', %d)", *next, strings.Repeat(string(rune('a'+*next%26)), l), *next))
		case 2:
			out = append(out, fmt.Sprintf("UPDATE t SET n = n + 1, v = v || 'u' WHERE id %% %d = 0", rapid.IntRange(2, 5).Draw(rt, "mod")))
		case 3:
			out = append(out, fmt.Sprintf("DELETE FROM t WHERE id = %d", rapid.IntRange(1, *next).Draw(rt, "del")))
		case 4:
			out = append(out, "CREATE TABLE IF NOT EXISTS u0 (k TEXT PRIMARY KEY, w BLOB) WITHOUT ROWID",
				fmt.Sprintf("INSERT OR REPLACE INTO u0 VALUES('k%d', x'%02x%02x')", rapid.IntRange(0, 6).Draw(rt, "key"), *next%256, (*next*3)%256))
		case 5:
			out = append(out, "CREATE INDEX IF NOT EXISTS t_n ON t(n)")
		}
	}
	return out
}

func c07GenShape(rt *rapid.T) c07Shape {
	s := c07Shape{
		OlderFulls: rapid.SampledFrom([]int{0, 0, 1, 1, 2}).Draw(rt, "olderFulls"),
		FullWALs:   rapid.SampledFrom([]int{0, 0, 0, 1, 2, 3}).Draw(rt, "fullWALs"),
		NoVerifyDB: rapid.IntRange(0, 3).Draw(rt, "noVerify") == 0,
		Seed:       rapid.Int64Range(1, 1<<40).Draw(rt, "seed"),
	}
	nInc := rapid.SampledFrom([]int{0, 1, 1, 2, 2, 3, 4}).Draw(rt, "nInc")
	for i := 0; i < nInc; i++ {
		s.Incs = append(s.Incs, rapid.SampledFrom([]int{1, 1, 1, 2, 3}).Draw(rt, "walsInInc"))
	}
	if vstat.Thorough() {
		s.NestStride = 1
	} else {
		s.NestStride = rapid.IntRange(6, 10).Draw(rt, "nestStride")
		s.NestOff = rapid.IntRange(0, s.NestStride-1).Draw(rt, "nestOff")
	}
	next := 0
	for i := 0; i < s.nBatches(); i++ {
		s.Batches = append(s.Batches, c07GenBatch(rt, &next))
	}
	return s
}

// c07Builder builds a snapshot store from a live database with the real sinks.
type c07Builder struct {
	root  string
	sdb   *db.SwappableDB
	idx   uint64
	term  uint64
	stage string
	batch int
	shape c07Shape
}

func (b *c07Builder) exec(q string) error {
	r, err := b.sdb.Execute(&command.Request{Statements: []*command.Statement{{Sql: q}}}, false)
	if err != nil {
		return err
	}
	for _, x := range r {
		if e := x.GetError(); e != "" {
			return fmt.Errorf("%s: %s", q, e)
		}
	}
	return nil
}

func (b *c07Builder) nextBatch() error {
	for _, q := range b.shape.Batches[b.batch] {
		if err := b.exec(q); err != nil {
			return err
		}
		b.idx++
	}
	b.batch++
	return nil
}

func (b *c07Builder) persist(st *Store, rc io.ReadCloser) error {
	defer rc.Close()
	b.idx++
	sink, err := st.Create(1, b.idx, b.term, raft.Configuration{}, 1, nil)
	if err != nil {
		return err
	}
	sink.(*Sink).fatalFn = nil
	if _, err := io.Copy(sink, rc); err != nil {
		sink.Cancel()
		return err
	}
	return sink.Close()
}

func (b *c07Builder) full(st *Store) error {
	if err := b.nextBatch(); err != nil {
		return err
	}
	if _, _, err := b.sdb.Checkpoint(nil, 5*time.Second); err != nil {
		return err
	}
	str, err := NewSnapshotStreamer(b.sdb.Path())
	if err != nil {
		return err
	}
	if err := str.Open(); err != nil {
		return err
	}
	return b.persist(st, str)
}

func (b *c07Builder) inc(st *Store, nWALs int) error {
	if err := os.MkdirAll(b.stage, 0o755); err != nil {
		return err
	}
	sd := NewStagingDir(b.stage)
	for i := 0; i < nWALs; i++ {
		if err := b.nextBatch(); err != nil {
			return err
		}
		w, _, err := sd.CreateWAL()
		if err != nil {
			return err
		}
		if _, _, err := b.sdb.Checkpoint(w, 5*time.Second); err != nil {
			w.Cancel()
			return err
		}
		if err := w.Close(); err != nil {
			return err
		}
	}
	str, err := NewSnapshotPathStreamer(sd.Path())
	if err != nil {
		return err
	}
	return b.persist(st, str)
}

func c07OpenStore(dir string) (*Store, error) {
	st, err := NewStore(dir)
	if err != nil {
		return nil, err
	}
	st.fatalFn = nil
	st.SetReapThreshold(1 << 20) // the background reaper never runs
	return st, nil
}

// c07Build returns the snapshot directory and the dump of the live database
// at the moment of the newest snapshot.
func c07Build(root string, shape c07Shape) (snapDir, liveDump string, err error) {
	snapDir = filepath.Join(root, "snaps")
	sdb, err := db.OpenSwappable(filepath.Join(root, "live.db"), nil, false, true, 0)
	if err != nil {
		return "", "", err
	}
	defer sdb.Close()
	b := &c07Builder{root: root, sdb: sdb, idx: 1, term: 2, stage: filepath.Join(root, "wal-staging"), shape: shape}
	if err := b.exec("CREATE TABLE t (id INTEGER PRIMARY KEY, v TEXT, n INT)"); err != nil {
		return "", "", err
	}
	st, err := c07OpenStore(snapDir)
	if err != nil {
		return "", "", err
	}
	defer st.Close()
	st.SetNoVerifyDB(shape.NoVerifyDB)
	for i := 0; i < shape.OlderFulls; i++ {
		if err := b.full(st); err != nil {
			return "", "", fmt.Errorf("older full: %w", err)
		}
	}
	if shape.FullWALs == 0 {
		if err := b.full(st); err != nil {
			return "", "", fmt.Errorf("full: %w", err)
		}
	} else {
		// A full snapshot that carries WAL files is what installing a streamed
		// snapshot (full + incrementals of the sender) produces.
		srcDir := filepath.Join(root, "src-snaps")
		src, err := c07OpenStore(srcDir)
		if err != nil {
			return "", "", err
		}
		defer src.Close()
		if err := b.full(src); err != nil {
			return "", "", fmt.Errorf("src full: %w", err)
		}
		for i := 0; i < shape.FullWALs; i++ {
			if err := b.inc(src, 1); err != nil {
				return "", "", fmt.Errorf("src inc: %w", err)
			}
		}
		metas, err := src.List()
		if err != nil || len(metas) == 0 {
			return "", "", fmt.Errorf("src list: %v", err)
		}
		_, rc, err := src.Open(metas[0].ID)
		if err != nil {
			return "", "", fmt.Errorf("src open: %w", err)
		}
		if err := b.persist(st, rc); err != nil {
			return "", "", fmt.Errorf("install: %w", err)
		}
	}
	for _, n := range shape.Incs {
		if shape.OlderFulls > 0 && n > 1 {
			b.term++ // terms may grow along the chain
		}
		if err := b.inc(st, n); err != nil {
			return "", "", fmt.Errorf("inc: %w", err)
		}
	}
	liveDump, err = vsql.DumpFile(sdb.Path())
	return snapDir, liveDump, err
}

type c07View struct {
	index, term uint64
	dump        string
	n           int
}

// c07Observe opens the store (running its recovery) and observes the newest
// snapshot. stage names the step that failed.
func c07Observe(snapDir, scratch string, thenReap bool) (v c07View, stage string, err error) {
	st, err := c07OpenStore(snapDir)
	if err != nil {
		return v, "open", err
	}
	defer st.Close()
	look := func() (c07View, string, error) {
		var v c07View
		metas, err := st.ListAll()
		if err != nil {
			return v, "list", err
		}
		if len(metas) == 0 {
			return v, "list", fmt.Errorf("store lists no snapshot")
		}
		v.n = len(metas)
		v.index, v.term = metas[0].Index, metas[0].Term
		if err := st.Verify(); err != nil {
			return v, "verify", err
		}
		_, rc, err := st.Open(metas[0].ID)
		if err != nil {
			return v, "open-snapshot", err
		}
		tmp := filepath.Join(scratch, "restored.db")
		os.Remove(tmp)
		_, err = Restore(rc, tmp)
		rc.Close()
		if err != nil {
			return v, "restore", err
		}
		v.dump, err = vsql.DumpFile(tmp)
		os.Remove(tmp)
		if err != nil {
			return v, "dump", err
		}
		return v, "", nil
	}
	v, stage, err = look()
	if err != nil || !thenReap {
		return v, stage, err
	}
	if _, _, err := st.Reap(); err != nil {
		return v, "later-reap", err
	}
	v2, stage, err := look()
	if err != nil {
		return v, "after-later-reap/" + stage, err
	}
	if v2.index != v.index || v2.term != v.term || v2.dump != v.dump {
		return v, "after-later-reap/changed", fmt.Errorf("later reap changed the newest snapshot: (%d,%d)->(%d,%d) same content=%v",
			v.index, v.term, v2.index, v2.term, v2.dump == v.dump)
	}
	if v2.n != 1 {
		return v, "after-later-reap/count", fmt.Errorf("%d snapshots remain after a complete reap", v2.n)
	}
	return v, "", nil
}

// c07Where names the plan step an event belongs to.
func c07Where(ev vos.Event) string {
	base := func(i int) string {
		if i < len(ev.Paths) {
			return filepath.Base(ev.Paths[i])
		}
		return ""
	}
	switch {
	case ev.Op == "WriteFile" && base(0) == reapPlanFile+".tmp":
		return "plan-write"
	case ev.Op == "Rename" && base(1) == reapPlanFile:
		return "plan-publish"
	case ev.Op == "Remove" && base(0) == reapPlanFile:
		return "plan-remove"
	case ev.Op == "Remove" && base(0) == reapPlanFile+".tmp":
		return "open-cleanup"
	case ev.Op == "Rename" && strings.HasSuffix(base(1), "-wal"):
		return "checkpoint"
	case ev.Op == "Create" && strings.HasSuffix(base(0), crcSuffix):
		return "crc"
	case ev.Op == "RemoveAll":
		return "remove-dir"
	case ev.Op == "WriteFile" && base(0) == metaFileName:
		return "meta"
	case ev.Op == "Rename":
		return "final-rename"
	case ev.Op == "MkdirAll":
		return "open-mkdir"
	}
	return "other-" + ev.Op
}

type c07State struct {
	dir   string
	kind  string // event | torn-half | torn-zero | rm-* | ckpt-subset | ckpt-prefix | ckpt-all | ckpt-wal-truncated
	where string
	label string
	plan  bool // plan file present in the state
}

func c07HasPlan(dir string) bool {
	_, err := os.Stat(filepath.Join(dir, reapPlanFile))
	return err == nil
}

// c07Record runs fn under a recorder rooted at snapDir and returns the saved
// states including the synthesised partial-checkpoint states.
func c07Record(snapDir, saveDir string, seed int64, fn func()) ([]c07State, *vcrash.Recorder) {
	r := &vcrash.Recorder{Root: snapDir, SaveDir: saveDir, Torn: true, PartialRemove: true}
	r.Run(fn)
	var out []c07State
	rng := rand.New(rand.NewSource(seed))
	for i, s := range r.States {
		out = append(out, c07State{dir: s.Dir, kind: s.Kind, where: c07Where(s.Ev), label: s.Label, plan: c07HasPlan(s.Dir)})
		// Partial checkpoints: right after rename(<wal> -> data.db-wal) SQLite
		// copies WAL pages into data.db; the WAL is only reset once all pages
		// are written.
		if s.Kind != "event" || s.Ev.Op != "Rename" || s.Ev.Phase != vos.Post || s.Ev.Err != nil || !strings.HasSuffix(s.Ev.Paths[1], "-wal") {
			continue
		}
		relWal, err := filepath.Rel(snapDir, s.Ev.Paths[1])
		if err != nil {
			continue
		}
		relDB := strings.TrimSuffix(relWal, "-wal")
		derive := func(kind string, pick func(i, n int) bool) {
			d := filepath.Join(saveDir, s.Label+"-"+kind)
			if vcrash.CopyTree(s.Dir, d) != nil {
				return
			}
			if _, err := vcrash.PartialCheckpoint(filepath.Join(d, relDB), filepath.Join(d, relWal), pick); err != nil {
				os.RemoveAll(d)
				return
			}
			out = append(out, c07State{dir: d, kind: kind, where: "checkpoint", label: s.Label + "-" + kind, plan: true})
		}
		mask := rng.Uint64()
		derive("ckpt-subset", func(i, n int) bool { return mask>>(uint(i)%64)&1 == 1 })
		derive("ckpt-prefix", func(i, n int) bool { return i < (n+1)/2 })
		derive("ckpt-all", func(i, n int) bool { return true })
		// checkpoint finished and WAL truncated to zero, not yet unlinked: the
		// next saved event state plus an empty -wal file.
		for j := i + 1; j < len(r.States); j++ {
			if r.States[j].Kind != "event" {
				continue
			}
			d := filepath.Join(saveDir, s.Label+"-ckpt-wal-truncated")
			if vcrash.CopyTree(r.States[j].Dir, d) == nil {
				if _, err := os.Stat(filepath.Join(d, relDB)); err == nil {
					if _, err := os.Stat(filepath.Join(d, relWal)); os.IsNotExist(err) {
						os.WriteFile(filepath.Join(d, relWal), nil, 0o644)
						out = append(out, c07State{dir: d, kind: "ckpt-wal-truncated", where: "checkpoint", label: s.Label + "-ckpt-wal-truncated", plan: c07HasPlan(d)})
					}
				}
			}
			break
		}
	}
	return out, r
}

func c07Sig(stage string, st c07State, nested bool) string {
	lvl := "first"
	if nested {
		lvl = "nested"
	}
	return fmt.Sprintf("C07/%s/%s/%s/%s", stage, st.kind, st.where, lvl)
}

func TestVerif_C07_Reap(t *testing.T) {
	rec := vstat.New(t, "C07", "reap",
		"one case = (store shape, crash state); shapes: 0-2 older fulls, newest full plain or installed with 1-3 WALs, 0-4 incrementals of 1-3 WALs, generated SQL between snapshots (multi-page rows, updates, deletes, DDL); crash states: the store directory at every pre/post event of every mutating os call of one real Reap(), torn-file and partial-checkpoint derivations, and (nested) the same for the recovery run; non-trivial = REAP_PLAN present in the crash state (crash inside the plan); distinct by shape parameters + crash point label")
	rapid.Check(t, func(rt *rapid.T) {
		shape := c07GenShape(rt)
		root, err := os.MkdirTemp("", "c07-")
		if err != nil {
			rt.Skip("no temp dir")
		}
		defer os.RemoveAll(root)
		snapDir, liveDump, err := c07Build(root, shape)
		if err != nil {
			// the builder only uses documented snapshot APIs in the order the
			// store uses them; a failure here is not a C07 matter
			rec.Label("build-failed")
			rt.Logf("build failed (skipped): %v", err)
			rt.Skip("build failed")
		}
		scratch := filepath.Join(root, "scratch")
		os.MkdirAll(scratch, 0o755)
		pristine := filepath.Join(root, "pristine")
		if err := vcrash.CopyTree(snapDir, pristine); err != nil {
			rt.Skip("copy failed")
		}
		// Reference observation on a pristine copy (restored into place).
		want, stage, err := c07Observe(snapDir, scratch, false)
		if err != nil {
			rec.Label("pre-reap-unreadable")
			rt.Logf("store unreadable before reap at %s (skipped, not a crash matter): %v", stage, err)
			rt.Skip("pre-reap store unreadable")
		}
		if want.dump != liveDump {
			// belongs to C04/C09 (snapshot chain does not resolve to the live
			// database even without any crash); not judged here
			rec.Label("pre-reap-differs-from-live")
			rt.Skip("pre-reap snapshot differs from live database")
		}
		if err := vcrash.ReplaceTree(pristine, snapDir); err != nil {
			rt.Skip("restore failed")
		}

		// The reap under observation.
		var reapErr error
		var nReaped, nCkpt int
		states, r := c07Record(snapDir, filepath.Join(root, "states"), shape.Seed, func() {
			st, err := c07OpenStore(snapDir)
			if err != nil {
				reapErr = err
				return
			}
			st.SetNoVerifyDB(shape.NoVerifyDB)
			nReaped, nCkpt, reapErr = st.Reap()
			st.Close()
		})
		if r.Err != nil {
			rt.Skip("recorder: " + r.Err.Error())
		}
		if reapErr != nil {
			rec.Case(true, shape.canon()+"/uninterrupted")
			rt.Fatalf("%s", rec.Violation("C07/uninterrupted-reap-failed", "Reap without any crash failed: %v shape=%s", reapErr, shape.canon()))
		}
		rec.Label(fmt.Sprintf("shape:older=%d", shape.OlderFulls))
		rec.Label(fmt.Sprintf("shape:fullwals=%d", shape.FullWALs))
		rec.Label(fmt.Sprintf("shape:incs=%d", len(shape.Incs)))
		rec.Label(fmt.Sprintf("reap:checkpointed-wals=%d", min(nCkpt, 5)))
		if nReaped == 0 {
			rec.Label("reap:nothing-to-do")
		}
		rec.Sample(map[string]any{"shape": shape.canon(), "events": len(r.Events), "states": len(states), "trace": r.Trace()})

		check := func(cs c07State, nested bool, parent string) {
			label := cs.label
			if nested {
				label = parent + ">" + cs.label
			}
			rec.Case(cs.plan, shape.canon()+"/"+label)
			lvl := "first"
			if nested {
				lvl = "nested"
			}
			rec.Label(lvl + ":" + cs.kind)
			rec.Label(lvl + ":where=" + cs.where)
			if err := vcrash.ReplaceTree(cs.dir, snapDir); err != nil {
				rt.Skip("restore failed")
			}
			got, stage, err := c07Observe(snapDir, scratch, true)
			listing := vcrash.Listing(cs.dir)
			if err != nil {
				sig := c07Sig("recovery-"+stage+"-failed", cs, nested)
				if rec.KnownHit(sig, "store does not recover from a crash during reap") {
					return
				}
				rt.Fatalf("%s", rec.Violation(sig, "crash state %s of shape {%s}: %s failed: %v; state: %s; reap trace: %s", label, shape.canon(), stage, err, listing, r.Trace()))
			}
			if got.index != want.index || got.term != want.term {
				sig := c07Sig("index-term-changed", cs, nested)
				if rec.KnownHit(sig, "newest snapshot index/term differs after crash recovery") {
					return
				}
				rt.Fatalf("%s", rec.Violation(sig, "crash state %s of shape {%s}: newest snapshot is (%d,%d), was (%d,%d) before the reap; state: %s", label, shape.canon(), got.index, got.term, want.index, want.term, listing))
			}
			if got.dump != liveDump {
				sig := c07Sig("content-changed", cs, nested)
				if rec.KnownHit(sig, "newest snapshot resolves to different content after crash recovery") {
					return
				}
				rt.Fatalf("%s", rec.Violation(sig, "crash state %s of shape {%s}: restored database differs from the database at snapshot time; state: %s\n--- want\n%s--- got\n%s", label, shape.canon(), listing, c07Short(liveDump), c07Short(got.dump)))
			}
		}

		inPlan := 0
		for _, cs := range states {
			if cs.plan {
				inPlan++
			}
			if cs.plan && (inPlan-1)%shape.NestStride == shape.NestOff%shape.NestStride {
				// record the recovery run of this crash state, then judge every state of it
				if err := vcrash.ReplaceTree(cs.dir, snapDir); err != nil {
					rt.Skip("restore failed")
				}
				nestedStates, nr := c07Record(snapDir, filepath.Join(root, "nested"), shape.Seed+1, func() {
					if st, err := NewStore(snapDir); err == nil {
						st.Close()
					}
				})
				for _, ns := range nestedStates {
					check(ns, true, cs.label)
				}
				nr.Cleanup()
			}
			check(cs, false, "")
		}
		r.Cleanup()
	})
}

func c07Short(s string) string {
	if len(s) > 1500 {
		return s[:1500] + "...\n"
	}
	return s
}
