package snapshot

// C07: reaping snapshots is crash-safe.
//
// Generator: snapshot-store shapes (0-2 older fulls; newest full plain or
// installed with 1-3 WALs; 0-4 incrementals of 1-3 WAL files each) built with
// the real sinks from a live SQLite database that receives generated writes.
// One real Reap() runs under the vos filesystem shim; the store directory is
// saved at every filesystem event (pre and post of every mutating os call),
// plus derived states: torn files (file being written when the process died)
// and partial checkpoints (subset of WAL pages already copied into data.db,
// WAL still in place / already truncated). Each saved state is restored INTO
// THE ORIGINAL DIRECTORY (REAP_PLAN holds absolute paths) and recovered with
// NewStore. Nested: the recovery run itself is recorded and every state of it
// is recovered again.
//
// Oracle (from the property text, not from the implementation): NewStore
// succeeds; the newest snapshot has the (index, term) it had before the reap;
// restoring it gives the logical dump (vsql, raw driver) of the live database
// at the time of the newest snapshot; Verify passes; a later Reap succeeds and
// changes none of that.

import (
	"fmt"
	"math/rand"
	"os"
	"path/filepath"
	"strings"
	"testing"

	"github.com/rqlite/rqlite/v10/internal/verif/vcrash"
	"github.com/rqlite/rqlite/v10/internal/verif/vos"
	"github.com/rqlite/rqlite/v10/internal/verif/vstat"
	"pgregory.net/rapid"
)

// c07Where names the plan step an event belongs to.
func c07Where(ev vos.Event) string {
	base := func(i int) string {
		if i < len(ev.Paths) {
			return filepath.Base(ev.Paths[i])
		}
		return ""
	}
	switch {
	case ev.Op == "WriteFile" && base(0) == reapPlanFile+".tmp":
		return "plan-write"
	case ev.Op == "Rename" && base(1) == reapPlanFile:
		return "plan-publish"
	case ev.Op == "Remove" && base(0) == reapPlanFile:
		return "plan-remove"
	case ev.Op == "Remove" && base(0) == reapPlanFile+".tmp":
		return "open-cleanup"
	case ev.Op == "Rename" && strings.HasSuffix(base(1), "-wal"):
		return "checkpoint"
	case ev.Op == "Create" && strings.HasSuffix(base(0), crcSuffix):
		return "crc"
	case ev.Op == "RemoveAll":
		return "remove-dir"
	case ev.Op == "WriteFile" && base(0) == metaFileName:
		return "meta"
	case ev.Op == "Rename":
		return "final-rename"
	case ev.Op == "MkdirAll":
		return "open-mkdir"
	}
	return "other-" + ev.Op
}

type c07State struct {
	dir   string
	kind  string // event | torn-half | torn-zero | rm-* | ckpt-subset | ckpt-prefix | ckpt-all | ckpt-wal-truncated
	where string
	label string
	plan  bool // plan file present in the state
}

func c07HasPlan(dir string) bool {
	_, err := os.Stat(filepath.Join(dir, reapPlanFile))
	return err == nil
}

// c07Record runs fn under a recorder rooted at snapDir and returns the saved
// states including the synthesised partial-checkpoint states.
func c07Record(snapDir, saveDir string, seed int64, fn func()) ([]c07State, *vcrash.Recorder) {
	r := &vcrash.Recorder{Root: snapDir, SaveDir: saveDir, Torn: true, PartialRemove: true}
	r.Run(fn)
	var out []c07State
	rng := rand.New(rand.NewSource(seed))
	for i, s := range r.States {
		out = append(out, c07State{dir: s.Dir, kind: s.Kind, where: c07Where(s.Ev), label: s.Label, plan: c07HasPlan(s.Dir)})
		// Partial checkpoints: right after rename(<wal> -> data.db-wal) SQLite
		// copies WAL pages into data.db; the WAL is only reset once all pages
		// are written.
		if s.Kind != "event" || s.Ev.Op != "Rename" || s.Ev.Phase != vos.Post || s.Ev.Err != nil || !strings.HasSuffix(s.Ev.Paths[1], "-wal") {
			continue
		}
		relWal, err := filepath.Rel(snapDir, s.Ev.Paths[1])
		if err != nil {
			continue
		}
		relDB := strings.TrimSuffix(relWal, "-wal")
		derive := func(kind string, pick func(i, n int) bool) {
			d := filepath.Join(saveDir, s.Label+"-"+kind)
			if vcrash.CopyTree(s.Dir, d) != nil {
				return
			}
			if _, err := vcrash.PartialCheckpoint(filepath.Join(d, relDB), filepath.Join(d, relWal), pick); err != nil {
				os.RemoveAll(d)
				return
			}
			out = append(out, c07State{dir: d, kind: kind, where: "checkpoint", label: s.Label + "-" + kind, plan: true})
		}
		mask := rng.Uint64()
		derive("ckpt-subset", func(i, n int) bool { return mask>>(uint(i)%64)&1 == 1 })
		derive("ckpt-prefix", func(i, n int) bool { return i < (n+1)/2 })
		derive("ckpt-all", func(i, n int) bool { return true })
		// checkpoint finished and WAL truncated to zero, not yet unlinked: the
		// next saved event state plus an empty -wal file.
		for j := i + 1; j < len(r.States); j++ {
			if r.States[j].Kind != "event" {
				continue
			}
			d := filepath.Join(saveDir, s.Label+"-ckpt-wal-truncated")
			if vcrash.CopyTree(r.States[j].Dir, d) == nil {
				if _, err := os.Stat(filepath.Join(d, relDB)); err == nil {
					if _, err := os.Stat(filepath.Join(d, relWal)); os.IsNotExist(err) {
						os.WriteFile(filepath.Join(d, relWal), nil, 0o644)
						out = append(out, c07State{dir: d, kind: "ckpt-wal-truncated", where: "checkpoint", label: s.Label + "-ckpt-wal-truncated", plan: c07HasPlan(d)})
					}
				}
			}
			break
		}
	}
	return out, r
}

func c07Sig(stage string, st c07State, nested bool) string {
	lvl := "first"
	if nested {
		lvl = "nested"
	}
	return fmt.Sprintf("C07/%s/%s/%s/%s", stage, st.kind, st.where, lvl)
}

func TestVerif_C07_Reap(t *testing.T) {
	rec := vstat.New(t, "C07", "reap",
		"one case = (store shape, crash state); shapes: 0-2 older fulls, newest full plain or installed with 1-3 WALs, 0-4 incrementals of 1-3 WALs, generated SQL between snapshots (multi-page rows, updates, deletes, DDL); crash states: the store directory at every pre/post event of every mutating os call of one real Reap(), torn-file and partial-checkpoint derivations, and (nested) the same for the recovery run; non-trivial = REAP_PLAN present in the crash state (crash inside the plan); distinct by shape parameters + crash point label")
	rapid.Check(t, func(rt *rapid.T) {
		shape := c07GenShape(rt)
		root, err := os.MkdirTemp("", "c07-")
		if err != nil {
			rt.Skip("no temp dir")
		}
		defer os.RemoveAll(root)
		snapDir, liveDump, err := c07Build(root, shape)
		if err != nil {
			// the builder only uses documented snapshot APIs in the order the
			// store uses them; a failure here is not a C07 matter
			rec.Label("build-failed")
			rt.Logf("build failed (skipped): %v", err)
			rt.Skip("build failed")
		}
		scratch := filepath.Join(root, "scratch")
		os.MkdirAll(scratch, 0o755)
		pristine := filepath.Join(root, "pristine")
		if err := vcrash.CopyTree(snapDir, pristine); err != nil {
			rt.Skip("copy failed")
		}
		// Reference observation on a pristine copy (restored into place).
		want, stage, err := c07Observe(snapDir, scratch, false)
		if err != nil {
			rec.Label("pre-reap-unreadable")
			rt.Logf("store unreadable before reap at %s (skipped, not a crash matter): %v", stage, err)
			rt.Skip("pre-reap store unreadable")
		}
		if want.dump != liveDump {
			// belongs to C04/C09 (snapshot chain does not resolve to the live
			// database even without any crash); not judged here
			rec.Label("pre-reap-differs-from-live")
			rt.Skip("pre-reap snapshot differs from live database")
		}
		if err := vcrash.ReplaceTree(pristine, snapDir); err != nil {
			rt.Skip("restore failed")
		}

		// The reap under observation.
		var reapErr error
		var nReaped, nCkpt int
		states, r := c07Record(snapDir, filepath.Join(root, "states"), shape.Seed, func() {
			st, err := c07OpenStore(snapDir)
			if err != nil {
				reapErr = err
				return
			}
			st.SetNoVerifyDB(shape.NoVerifyDB)
			nReaped, nCkpt, reapErr = st.Reap()
			st.Close()
		})
		if r.Err != nil {
			rt.Skip("recorder: " + r.Err.Error())
		}
		if reapErr != nil {
			rec.Case(true, shape.canon()+"/uninterrupted")
			rt.Fatalf("%s", rec.Violation("C07/uninterrupted-reap-failed", "Reap without any crash failed: %v shape=%s", reapErr, shape.canon()))
		}
		rec.Label(fmt.Sprintf("shape:older=%d", shape.OlderFulls))
		rec.Label(fmt.Sprintf("shape:fullwals=%d", shape.FullWALs))
		rec.Label(fmt.Sprintf("shape:incs=%d", len(shape.Incs)))
		rec.Label(fmt.Sprintf("reap:checkpointed-wals=%d", min(nCkpt, 5)))
		if nReaped == 0 {
			rec.Label("reap:nothing-to-do")
		}
		rec.Sample(map[string]any{"shape": shape.canon(), "events": len(r.Events), "states": len(states), "trace": r.Trace()})

		check := func(cs c07State, nested bool, parent string) {
			label := cs.label
			if nested {
				label = parent + ">" + cs.label
			}
			rec.Case(cs.plan, shape.canon()+"/"+label)
			lvl := "first"
			if nested {
				lvl = "nested"
			}
			rec.Label(lvl + ":" + cs.kind)
			rec.Label(lvl + ":where=" + cs.where)
			if err := vcrash.ReplaceTree(cs.dir, snapDir); err != nil {
				rt.Skip("restore failed")
			}
			got, stage, err := c07Observe(snapDir, scratch, true)
			listing := vcrash.Listing(cs.dir)
			if err != nil {
				sig := c07Sig("recovery-"+stage+"-failed", cs, nested)
				if rec.KnownHit(sig, "store does not recover from a crash during reap") {
					return
				}
				rt.Fatalf("%s", rec.Violation(sig, "crash state %s of shape {%s}: %s failed: %v; state: %s; reap trace: %s", label, shape.canon(), stage, err, listing, r.Trace()))
			}
			if got.index != want.index || got.term != want.term {
				sig := c07Sig("index-term-changed", cs, nested)
				if rec.KnownHit(sig, "newest snapshot index/term differs after crash recovery") {
					return
				}
				rt.Fatalf("%s", rec.Violation(sig, "crash state %s of shape {%s}: newest snapshot is (%d,%d), was (%d,%d) before the reap; state: %s", label, shape.canon(), got.index, got.term, want.index, want.term, listing))
			}
			if got.dump != liveDump {
				sig := c07Sig("content-changed", cs, nested)
				if rec.KnownHit(sig, "newest snapshot resolves to different content after crash recovery") {
					return
				}
				rt.Fatalf("%s", rec.Violation(sig, "crash state %s of shape {%s}: restored database differs from the database at snapshot time; state: %s\n--- want\n%s--- got\n%s", label, shape.canon(), listing, c07Short(liveDump), c07Short(got.dump)))
			}
		}

		inPlan := 0
		for _, cs := range states {
			if cs.plan {
				inPlan++
			}
			if cs.plan && (inPlan-1)%shape.NestStride == shape.NestOff%shape.NestStride {
				// record the recovery run of this crash state, then judge every state of it
				if err := vcrash.ReplaceTree(cs.dir, snapDir); err != nil {
					rt.Skip("restore failed")
				}
				nestedStates, nr := c07Record(snapDir, filepath.Join(root, "nested"), shape.Seed+1, func() {
					if st, err := NewStore(snapDir); err == nil {
						st.Close()
					}
				})
				for _, ns := range nestedStates {
					check(ns, true, cs.label)
				}
				nr.Cleanup()
			}
			check(cs, false, "")
		}
		r.Cleanup()
	})
}

func c07Short(s string) string {
	if len(s) > 1500 {
		return s[:1500] + "...\n"
	}
	return s
}
