package snapshot

// C08: upgrading old snapshot formats is crash-safe.
//
// Generator: a raft directory holding an old-format snapshot store built from
// scratch databases:
//   v7  snapshots/<id>/{meta.json,state.bin}   state.bin = 8 x 0xff, uint64 LE
//       compressed length, gzip(SQLite file); also the 16-byte header-only
//       form; older snapshots keep only meta.json (as the v7 store left them)
//   v8  rsnapshots/<id>/meta.json + rsnapshots/<id>.db (WAL-mode SQLite file)
// with 1-3 snapshots, optionally a stale *.tmp directory of an earlier
// interrupted attempt. The format is cross-checked against the fixtures in
// snapshot/testdata/upgrade by TestVerif_C08_Fixtures, which runs the same
// crash enumeration on copies of the checked-in directories.
//
// The open sequence is the one Store.Open runs on every start:
// Upgrade7To8(snapshots -> rsnapshots), Upgrade8To10(rsnapshots -> wsnapshots),
// NewStore(wsnapshots). It is run once under the vos shim; the raft directory
// is saved at every filesystem event (+ torn files, interrupted RemoveAll).
// Every state is restored into the original directory and the sequence is run
// again without interruption (nested: that run is recorded and crashed too).
//
// Oracle (property text): the uninterrupted retry succeeds; the store then
// lists exactly one snapshot whose (index, term) are those of the newest
// original snapshot and whose restored database has the logical dump of the
// original database (dump taken with the raw driver from the generator's own
// copy of the database, never from upgraded files).

import (
	"bytes"
	"compress/gzip"
	"encoding/binary"
	"encoding/json"
	"fmt"
	"io"
	"log"
	"os"
	"path/filepath"
	"sort"
	"strings"
	"testing"

	"github.com/hashicorp/raft"
	"github.com/rqlite/rqlite/v10/internal/verif/vcrash"
	"github.com/rqlite/rqlite/v10/internal/verif/vos"
	"github.com/rqlite/rqlite/v10/internal/verif/vsql"
	"github.com/rqlite/rqlite/v10/internal/verif/vstat"
	"pgregory.net/rapid"
)

const (
	c08KnownResume = "C08/upgrade8to10-resume-after-rename"
	c08KnownWhat   = "Upgrade8To10 cannot resume its plan once the plan's rename has happened (node cannot start)"
)

type c08Snap struct {
	Index, Term uint64
	Millis      int64
	HasData     bool // v7: state.bin present (always for the newest)
	HeaderOnly  bool // v7: state.bin is the 16-byte header-only form
	SQL         []string
}

func (s c08Snap) id() string { return fmt.Sprintf("%d-%d-%d", s.Term, s.Index, s.Millis) }

type c08Shape struct {
	Format     int // 7 or 8
	Snaps      []c08Snap
	StaleTmp   bool // a leftover <new>.tmp directory from an earlier interrupted attempt
	NestStride int
	NestOff    int
}

func (s c08Shape) canon() string {
	var parts []string
	for _, sn := range s.Snaps {
		parts = append(parts, fmt.Sprintf("%s:data=%v:hdronly=%v:stmts=%d", sn.id(), sn.HasData, sn.HeaderOnly, len(sn.SQL)))
	}
	return fmt.Sprintf("v%d stale=%v [%s]", s.Format, s.StaleTmp, strings.Join(parts, " "))
}

func c08GenShape(rt *rapid.T) c08Shape {
	s := c08Shape{Format: rapid.SampledFrom([]int{7, 8, 8}).Draw(rt, "format")}
	// A stale rsnapshots.tmp is what an interrupted 7->8 attempt of an older
	// binary leaves behind. (A wsnapshots.tmp without a plan file is NOT
	// reachable: the 8->10 plan is persisted before the directory is made.)
	s.StaleTmp = s.Format == 7 && rapid.IntRange(0, 2).Draw(rt, "stale") == 0
	n := rapid.SampledFrom([]int{1, 1, 2, 2, 3}).Draw(rt, "nsnaps")
	idx, term := uint64(0), uint64(rapid.IntRange(1, 3).Draw(rt, "term0"))
	next := 0
	for i := 0; i < n; i++ {
		idx += uint64(rapid.IntRange(1, 40).Draw(rt, "didx"))
		if rapid.IntRange(0, 3).Draw(rt, "termup") == 0 {
			term++
		}
		sn := c08Snap{Index: idx, Term: term, Millis: 1686659750000 + int64(i)*4321 + int64(rapid.IntRange(0, 999).Draw(rt, "ms")), HasData: true}
		if s.Format == 7 {
			if i < n-1 {
				sn.HasData = rapid.Bool().Draw(rt, "olderHasData")
			} else {
				sn.HeaderOnly = rapid.IntRange(0, 5).Draw(rt, "headerOnly") == 0
			}
		}
		k := rapid.IntRange(1, 5).Draw(rt, "nstmt")
		for j := 0; j < k; j++ {
			next++
			switch rapid.IntRange(0, 4).Draw(rt, "kind") {
			case 0, 1, 2:
				l := rapid.SampledFrom([]int{3, 40, 700, 5000}).Draw(rt, "len")
				sn.SQL = append(sn.SQL, fmt.Sprintf("INSERT INTO t(id, v) VALUES(%d, '%s')", next, strings.Repeat(string(rune('a'+next%26)), l)))
			case 3:
				sn.SQL = append(sn.SQL, fmt.Sprintf("UPDATE t SET v = v || '-%d' WHERE id %% 2 = %d", next, next%2))
			case 4:
				sn.SQL = append(sn.SQL, fmt.Sprintf("CREATE TABLE IF NOT EXISTS aux%d (k PRIMARY KEY, w) WITHOUT ROWID", next%3),
					fmt.Sprintf("INSERT OR REPLACE INTO aux%d VALUES(%d, x'%04x')", next%3, next, next))
			}
		}
		s.Snaps = append(s.Snaps, sn)
	}
	if vstat.Thorough() {
		s.NestStride = 1
	} else {
		s.NestStride = rapid.IntRange(3, 6).Draw(rt, "nestStride")
		s.NestOff = rapid.IntRange(0, s.NestStride-1).Draw(rt, "nestOff")
	}
	return s
}

// c08WriteMeta writes a raft meta.json the way the old releases did.
func c08WriteMeta(dir string, sn c08Snap, size int64, v7 bool) error {
	m := map[string]any{
		"Version": 1, "ID": sn.id(), "Index": sn.Index, "Term": sn.Term, "Peers": nil,
		"Configuration":      raft.Configuration{Servers: []raft.Server{{Suffrage: raft.Voter, ID: "node1", Address: "localhost:4002"}}},
		"ConfigurationIndex": 1, "Size": size,
	}
	if v7 {
		m["Peers"] = "ka5sb2NhbGhvc3Q6NDAwMg=="
		m["CRC"] = "QhU1tAtfgpo="
	}
	b, err := json.Marshal(m)
	if err != nil {
		return err
	}
	if err := os.MkdirAll(dir, 0o755); err != nil {
		return err
	}
	return os.WriteFile(filepath.Join(dir, metaFileName), b, 0o644)
}

// c08V7State encodes a v7 state.bin. headerOnly keeps just the 16 header bytes
// (with the length field still set, as in the v7.20.3-empty-snapshots fixture).
func c08V7State(sqlite []byte, headerOnly bool) []byte {
	var gz bytes.Buffer
	w := gzip.NewWriter(&gz)
	w.Write(sqlite)
	w.Close()
	out := bytes.Repeat([]byte{0xff}, 8)
	out = binary.LittleEndian.AppendUint64(out, uint64(gz.Len()))
	if headerOnly {
		return out
	}
	return append(out, gz.Bytes()...)
}

// c08DecodeV7State is the independent reading of the v7 format.
func c08DecodeV7State(b []byte) ([]byte, error) {
	if len(b) < 16 || !bytes.Equal(b[:8], bytes.Repeat([]byte{0xff}, 8)) {
		return nil, fmt.Errorf("not a v7 state file")
	}
	if len(b) == 16 {
		return nil, nil // header-only form (the length field is not zero in the v7.20.3 fixture)
	}
	n := binary.LittleEndian.Uint64(b[8:16])
	if uint64(len(b)-16) != n {
		return nil, fmt.Errorf("v7 state length field %d != %d", n, len(b)-16)
	}
	zr, err := gzip.NewReader(bytes.NewReader(b[16:]))
	if err != nil {
		return nil, err
	}
	return io.ReadAll(zr)
}

type c08Want struct {
	index, term uint64
	dump        string
}

// c08Build creates the old-format store below raftDir and returns what the
// upgraded store must resolve to.
func c08Build(root, raftDir string, shape c08Shape) (c08Want, error) {
	var want c08Want
	dbPath := filepath.Join(root, "gen.db")
	gdb, err := vsql.Open(dbPath)
	if err != nil {
		return want, err
	}
	defer gdb.Close()
	mode := "DELETE"
	if shape.Format == 8 {
		mode = "WAL"
	}
	var got string
	if err := gdb.QueryRow("PRAGMA journal_mode=" + mode).Scan(&got); err != nil {
		return want, err
	}
	if _, err := gdb.Exec("CREATE TABLE t (id INTEGER PRIMARY KEY, v TEXT)"); err != nil {
		return want, err
	}
	oldDir := filepath.Join(raftDir, map[int]string{7: "snapshots", 8: "rsnapshots"}[shape.Format])
	if err := os.MkdirAll(oldDir, 0o755); err != nil {
		return want, err
	}
	for i, sn := range shape.Snaps {
		for _, q := range sn.SQL {
			if _, err := gdb.Exec(q); err != nil {
				return want, fmt.Errorf("%s: %w", q, err)
			}
		}
		if shape.Format == 8 {
			if _, err := gdb.Exec("PRAGMA wal_checkpoint(TRUNCATE)"); err != nil {
				return want, err
			}
		}
		raw, err := os.ReadFile(dbPath)
		if err != nil {
			return want, err
		}
		newest := i == len(shape.Snaps)-1
		switch shape.Format {
		case 7:
			if err := c08WriteMeta(filepath.Join(oldDir, sn.id()), sn, int64(len(raw)), true); err != nil {
				return want, err
			}
			if sn.HasData {
				if err := os.WriteFile(filepath.Join(oldDir, sn.id(), v7StateFile), c08V7State(raw, sn.HeaderOnly), 0o644); err != nil {
					return want, err
				}
			}
		case 8:
			if err := c08WriteMeta(filepath.Join(oldDir, sn.id()), sn, int64(len(raw)), false); err != nil {
				return want, err
			}
			if err := os.WriteFile(filepath.Join(oldDir, sn.id()+".db"), raw, 0o644); err != nil {
				return want, err
			}
		}
		if newest {
			want.index, want.term = sn.Index, sn.Term
			if sn.HeaderOnly {
				want.dump = "" // empty database: no schema, no tables
			} else if want.dump, err = vsql.DumpDB(gdb); err != nil {
				return want, err
			}
		}
	}
	if shape.StaleTmp {
		stale := filepath.Join(raftDir, "rsnapshots.tmp")
		if err := os.MkdirAll(filepath.Join(stale, "1-1-1"), 0o755); err != nil {
			return want, err
		}
		os.WriteFile(filepath.Join(stale, "1-1-1", metaFileName), []byte(`{"Version":1,"ID":"1-1-`), 0o644)
	}
	return want, nil
}

var c08Logger = log.New(io.Discard, "", 0)

// c08OpenSequence is what Store.Open does with the snapshot directories on
// every start (store/store.go: Upgrade7To8, Upgrade8To10, NewStore).
func c08OpenSequence(raftDir string) (st *Store, stage string, err error) {
	old7 := filepath.Join(raftDir, "snapshots")
	old8 := filepath.Join(raftDir, "rsnapshots")
	cur := filepath.Join(raftDir, "wsnapshots")
	if err := Upgrade7To8(old7, old8, c08Logger); err != nil {
		return nil, "upgrade7to8", err
	}
	if err := Upgrade8To10(old8, cur, c08Logger); err != nil {
		return nil, "upgrade8to10", err
	}
	st, err = NewStore(cur)
	if err != nil {
		return nil, "newstore", err
	}
	st.fatalFn = nil
	st.SetReapThreshold(1 << 20)
	return st, "", nil
}

// c08Recover runs the open sequence (twice: a node restarts more than once)
// and observes the resulting store.
func c08Recover(raftDir, scratch string) (got c08Want, n int, stage string, err error) {
	st, stage, err := c08OpenSequence(raftDir)
	if err != nil {
		return got, 0, stage, err
	}
	st.Close()
	st, stage, err = c08OpenSequence(raftDir)
	if err != nil {
		return got, 0, "second-start/" + stage, err
	}
	defer st.Close()
	metas, err := st.ListAll()
	if err != nil {
		return got, 0, "list", err
	}
	n = len(metas)
	if n == 0 {
		return got, 0, "list", fmt.Errorf("upgraded store lists no snapshot")
	}
	got.index, got.term = metas[0].Index, metas[0].Term
	if err := st.Verify(); err != nil {
		return got, n, "verify", err
	}
	_, rc, err := st.Open(metas[0].ID)
	if err != nil {
		return got, n, "open-snapshot", err
	}
	tmp := filepath.Join(scratch, "restored.db")
	os.Remove(tmp)
	_, err = Restore(rc, tmp)
	rc.Close()
	if err != nil {
		return got, n, "restore", err
	}
	got.dump, err = vsql.DumpFile(tmp)
	os.Remove(tmp)
	if err != nil {
		return got, n, "dump", err
	}
	return got, n, "", nil
}

// c08Where names the upgrade step an event belongs to.
func c08Where(ev vos.Event, raftDir string) string {
	rel := func(i int) string {
		if i >= len(ev.Paths) {
			return ""
		}
		r, err := filepath.Rel(raftDir, ev.Paths[i])
		if err != nil {
			return ev.Paths[i]
		}
		return r
	}
	p0, p1 := rel(0), rel(1)
	top := strings.Split(p0, string(filepath.Separator))[0]
	leaf := filepath.Base(p0)
	switch {
	case strings.HasPrefix(leaf, upgrade8To10Plan):
		switch {
		case ev.Op == "WriteFile":
			return "8to10/plan-write"
		case ev.Op == "Rename":
			return "8to10/plan-publish"
		case leaf == upgrade8To10Plan:
			return "8to10/plan-remove"
		}
		return "8to10/plan-tmp-cleanup"
	case ev.Op == "Rename" && p0 == "rsnapshots.tmp" && p1 == "rsnapshots":
		return "7to8/rename"
	case ev.Op == "Rename" && p0 == "wsnapshots.tmp" && p1 == "wsnapshots":
		return "8to10/rename"
	case ev.Op == "RemoveAll" && p0 == "snapshots":
		return "7to8/remove-old"
	case ev.Op == "RemoveAll" && p0 == "rsnapshots":
		return "8to10/remove-old"
	case ev.Op == "RemoveAll" && strings.HasSuffix(top, ".tmp"):
		return "remove-stale-tmp"
	case top == "rsnapshots.tmp":
		return "7to8/build-" + ev.Op
	case top == "wsnapshots.tmp":
		return "8to10/build-" + ev.Op
	case top == "wsnapshots":
		return "newstore/" + ev.Op
	}
	return "other/" + ev.Op
}

// c08RenameDone reports the state in which the known 8->10 resume defect
// applies: plan file present and the plan's rename already performed.
func c08RenameDone(dir string) bool {
	_, e1 := os.Stat(filepath.Join(dir, upgrade8To10Plan))
	fi, e2 := os.Stat(filepath.Join(dir, "wsnapshots"))
	return e1 == nil && e2 == nil && fi.IsDir()
}

type c08Ctx struct {
	rec     *vstat.Rec
	sub     string
	root    string
	raftDir string
	scratch string
	canon   string
	want    c08Want
	stride  int
	off     int
	trace   string
}

// c08Enumerate records the open sequence on the store currently in raftDir and
// judges every crash state. It returns a violation message or "".
func (c *c08Ctx) enumerate() (fatal string, skipped string) {
	pristine := filepath.Join(c.root, "pristine")
	if err := vcrash.CopyTree(c.raftDir, pristine); err != nil {
		return "", "copy failed"
	}
	pristineSig := vcrash.TreeSig(c.raftDir)
	record := func(saveDir string) *vcrash.Recorder {
		r := &vcrash.Recorder{Root: c.raftDir, SaveDir: saveDir, Torn: true, PartialRemove: true}
		r.Run(func() {
			if st, _, err := c08OpenSequence(c.raftDir); err == nil {
				st.Close()
			}
		})
		return r
	}
	// uninterrupted run first: must succeed on its own
	got, n, stage, err := c08Recover(c.raftDir, c.scratch)
	c.rec.Case(false, c.canon+"/uninterrupted")
	if msg := c.judge(got, n, stage, err, "uninterrupted", "event", "none", pristine); msg != "" {
		return msg, ""
	}
	finalSig := vcrash.TreeSig(c.raftDir)
	if err := vcrash.ReplaceTree(pristine, c.raftDir); err != nil {
		return "", "restore failed"
	}
	r := record(filepath.Join(c.root, "states"))
	defer r.Cleanup()
	if r.Err != nil {
		return "", "recorder: " + r.Err.Error()
	}
	c.trace = r.Trace()
	if len(c.trace) > 900 {
		c.trace = c.trace[:900] + "..."
	}
	c.rec.Sample(map[string]any{"shape": c.canon, "events": len(r.Events), "states": len(r.States), "trace": c.trace})
	inside := 0
	for _, cs := range r.States {
		sig := vcrash.TreeSig(cs.Dir)
		nontrivial := sig != pristineSig && sig != finalSig
		where := c08Where(cs.Ev, c.raftDir)
		if nontrivial {
			inside++
		}
		known := c08RenameDone(cs.Dir) && c.rec.Known(c08KnownResume) // do not explore behind an open known finding
		if nontrivial && !known && (inside-1)%c.stride == c.off%c.stride {
			// crash again during the recovery run of this state
			if err := vcrash.ReplaceTree(cs.Dir, c.raftDir); err != nil {
				return "", "restore failed"
			}
			nr := record(filepath.Join(c.root, "nested"))
			for _, ns := range nr.States {
				c.rec.Case(true, c.canon+"/"+cs.Label+">"+ns.Label)
				c.rec.Label("nested:" + ns.Kind)
				c.rec.Label("nested:where=" + c08Where(ns.Ev, c.raftDir))
				if err := vcrash.ReplaceTree(ns.Dir, c.raftDir); err != nil {
					nr.Cleanup()
					return "", "restore failed"
				}
				got, n, stage, err := c08Recover(c.raftDir, c.scratch)
				if msg := c.judge(got, n, stage, err, cs.Label+">"+ns.Label, ns.Kind, c08Where(ns.Ev, c.raftDir)+"/nested", ns.Dir); msg != "" {
					nr.Cleanup()
					return msg, ""
				}
			}
			nr.Cleanup()
		}
		c.rec.Case(nontrivial, c.canon+"/"+cs.Label)
		c.rec.Label("first:" + cs.Kind)
		c.rec.Label("first:where=" + where)
		if err := vcrash.ReplaceTree(cs.Dir, c.raftDir); err != nil {
			return "", "restore failed"
		}
		got, n, stage, err := c08Recover(c.raftDir, c.scratch)
		if msg := c.judge(got, n, stage, err, cs.Label, cs.Kind, where, cs.Dir); msg != "" {
			return msg, ""
		}
	}
	return "", ""
}

// judge applies the oracle to one recovery; it returns the violation message
// ("" when the property held or the failure is an open known finding).
func (c *c08Ctx) judge(got c08Want, n int, stage string, err error, label, kind, where, stateDir string) string {
	if err != nil {
		sig := fmt.Sprintf("C08/recovery-%s-failed/%s/%s", stage, kind, where)
		if stage == "upgrade8to10" && c08RenameDone(stateDir) {
			sig = c08KnownResume
		}
		if c.rec.KnownHit(sig, c08KnownWhat) {
			return ""
		}
		return c.rec.Violation(sig, "crash state %s of {%s}: %s failed on the next start: %v; state: %s; trace: %s", label, c.canon, stage, err, vcrash.Listing(stateDir), c.trace)
	}
	if n != 1 {
		sig := fmt.Sprintf("C08/snapshot-count/%s/%s", kind, where)
		if c.rec.KnownHit(sig, "upgraded store does not hold exactly one snapshot") {
			return ""
		}
		return c.rec.Violation(sig, "crash state %s of {%s}: upgraded store lists %d snapshots; state: %s", label, c.canon, n, vcrash.Listing(stateDir))
	}
	if got.index != c.want.index || got.term != c.want.term {
		sig := fmt.Sprintf("C08/index-term-changed/%s/%s", kind, where)
		if c.rec.KnownHit(sig, "upgraded snapshot has a different index/term") {
			return ""
		}
		return c.rec.Violation(sig, "crash state %s of {%s}: upgraded snapshot is (%d,%d), newest original was (%d,%d); state: %s", label, c.canon, got.index, got.term, c.want.index, c.want.term, vcrash.Listing(stateDir))
	}
	if got.dump != c.want.dump {
		sig := fmt.Sprintf("C08/content-changed/%s/%s", kind, where)
		if c.rec.KnownHit(sig, "upgraded snapshot holds a different database") {
			return ""
		}
		return c.rec.Violation(sig, "crash state %s of {%s}: upgraded database differs from the original; state: %s\n--- want\n%s--- got\n%s", label, c.canon, vcrash.Listing(stateDir), c07Short08(c.want.dump), c07Short08(got.dump))
	}
	return ""
}

func c07Short08(s string) string {
	if len(s) > 1500 {
		return s[:1500] + "...\n"
	}
	return s
}

func TestVerif_C08_Upgrade(t *testing.T) {
	rec := vstat.New(t, "C08", "upgrade",
		"one case = (old-format store, crash state); stores: v7 (state.bin full / header-only, older snapshots with or without data) or v8 (<id>/meta.json + <id>.db), 1-3 snapshots from generated SQL, optional stale .tmp directory; crash states: the raft directory at every pre/post event of every mutating os call of the open sequence Upgrade7To8+Upgrade8To10+NewStore, torn-file and interrupted-RemoveAll derivations, and (nested) the same for the recovery run; non-trivial = state differs from both the untouched old store and the fully upgraded store; distinct by store parameters + crash point label")
	rapid.Check(t, func(rt *rapid.T) {
		shape := c08GenShape(rt)
		root, err := os.MkdirTemp("", "c08-")
		if err != nil {
			rt.Skip("no temp dir")
		}
		defer os.RemoveAll(root)
		raftDir := filepath.Join(root, "raft")
		want, err := c08Build(root, raftDir, shape)
		if err != nil {
			rec.Label("build-failed")
			rt.Skip("build failed: " + err.Error())
		}
		scratch := filepath.Join(root, "scratch")
		os.MkdirAll(scratch, 0o755)
		rec.Label(fmt.Sprintf("shape:v%d", shape.Format))
		rec.Label(fmt.Sprintf("shape:snaps=%d", len(shape.Snaps)))
		if shape.StaleTmp {
			rec.Label("shape:stale-tmp")
		}
		if shape.Snaps[len(shape.Snaps)-1].HeaderOnly {
			rec.Label("shape:v7-header-only")
		}
		c := &c08Ctx{rec: rec, root: root, raftDir: raftDir, scratch: scratch, canon: shape.canon(), want: want, stride: shape.NestStride, off: shape.NestOff}
		fatal, skipped := c.enumerate()
		if skipped != "" {
			rt.Skip(skipped)
		}
		if fatal != "" {
			rt.Fatalf("%s", fatal)
		}
	})
}

// TestVerif_C08_Fixtures runs the same enumeration on the checked-in old-format
// directories; the expected database is decoded independently from the
// fixture (v7: gunzip of state.bin; v8: the .db file itself).
func TestVerif_C08_Fixtures(t *testing.T) {
	rec := vstat.New(t, "C08", "fixtures",
		"the three checked-in old-format stores of snapshot/testdata/upgrade (v7 with data, v7 header-only, v9.4.1 in v8 layout), every crash state of the open sequence with nested crashes; same oracle; non-trivial as in upgrade")
	base := filepath.Join(vstat.RepoDir(), "snapshot", "testdata", "upgrade")
	type fx struct {
		name, dir, sub string
	}
	failed := false
	for _, f := range []fx{{"v7.20.3-snapshots", "snapshots", "v7"}, {"v7.20.3-empty-snapshots", "snapshots", "v7"}, {"v9.4.1-snapshots", "rsnapshots", "v8"}} {
		src := filepath.Join(base, f.name)
		if _, err := os.Stat(src); err != nil {
			t.Logf("fixture %s missing, skipped", f.name)
			continue
		}
		root, err := os.MkdirTemp("", "c08fx-")
		if err != nil {
			t.Skip("no temp dir")
		}
		raftDir := filepath.Join(root, "raft")
		if err := vcrash.CopyTree(src, filepath.Join(raftDir, f.dir)); err != nil {
			t.Skip("copy failed")
		}
		want, err := c08FixtureWant(filepath.Join(raftDir, f.dir), f.sub, root)
		if err != nil {
			os.RemoveAll(root)
			t.Fatalf("cannot read fixture %s independently: %v", f.name, err)
		}
		scratch := filepath.Join(root, "scratch")
		os.MkdirAll(scratch, 0o755)
		c := &c08Ctx{rec: rec, root: root, raftDir: raftDir, scratch: scratch, canon: "fixture " + f.name, want: want, stride: 1}
		fatal, skipped := c.enumerate()
		os.RemoveAll(root)
		if skipped != "" {
			t.Skip(skipped)
		}
		if fatal != "" {
			failed = true
			t.Errorf("%s", fatal)
		}
	}
	rec.SetExhaustive(!failed)
}

func c08FixtureWant(oldDir, format, root string) (c08Want, error) {
	var want c08Want
	ents, err := os.ReadDir(oldDir)
	if err != nil {
		return want, err
	}
	type m struct {
		ID          string
		Index, Term uint64
	}
	var metas []m
	for _, e := range ents {
		if !e.IsDir() {
			continue
		}
		b, err := os.ReadFile(filepath.Join(oldDir, e.Name(), "meta.json"))
		if err != nil {
			continue
		}
		var x m
		if err := json.Unmarshal(b, &x); err != nil {
			return want, err
		}
		metas = append(metas, x)
	}
	if len(metas) == 0 {
		return want, fmt.Errorf("no snapshot in fixture")
	}
	sort.Slice(metas, func(i, j int) bool {
		if metas[i].Term != metas[j].Term {
			return metas[i].Term < metas[j].Term
		}
		return metas[i].Index < metas[j].Index
	})
	newest := metas[len(metas)-1]
	want.index, want.term = newest.Index, newest.Term
	var raw []byte
	if format == "v7" {
		b, err := os.ReadFile(filepath.Join(oldDir, newest.ID, "state.bin"))
		if err != nil {
			return want, err
		}
		if raw, err = c08DecodeV7State(b); err != nil {
			return want, err
		}
		if raw == nil {
			return want, nil // header-only: empty database
		}
	} else if raw, err = os.ReadFile(filepath.Join(oldDir, newest.ID+".db")); err != nil {
		return want, err
	}
	tmp := filepath.Join(root, "fixture-decoded.db")
	if err := os.WriteFile(tmp, raw, 0o644); err != nil {
		return want, err
	}
	want.dump, err = vsql.DumpFile(tmp)
	os.Remove(tmp)
	return want, err
}
