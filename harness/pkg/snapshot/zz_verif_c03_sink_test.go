package snapshot

// C03 at the snapshot-store level: a crash inside a snapshot sink (Create,
// Write, Close of a full, incremental or installed snapshot) leaves a store
// that opens and whose newest snapshot is all-or-nothing: either the snapshot
// that was newest before the sink started, or the complete new one - with the
// index, term and database content of the corresponding acknowledged snapshot
// point of the live database. (The node-level consequences - fingerprint,
// log replay - are judged by the store-level units of C03.)
//
// Generator: the store shapes of the reap check; the LAST sink of the shape is
// run under the vos shim (copy-state at every event, torn files). Oracle:
// NewStore succeeds, Verify passes, the newest snapshot is (prev index/term,
// dump of the live database at the previous snapshot) or (new index/term, dump
// at the new snapshot); no *.tmp directory survives the open; a later full
// cycle (Reap) succeeds and keeps that content.

import (
	"fmt"
	"os"
	"path/filepath"
	"strings"
	"testing"

	"github.com/rqlite/rqlite/v10/internal/verif/vcrash"
	"github.com/rqlite/rqlite/v10/internal/verif/vstat"
	"pgregory.net/rapid"
)

func TestVerif_C03_SinkCrash(t *testing.T) {
	rec := vstat.New(t, "C03", "sink",
		"one case = (store shape, crash state inside the last sink); shapes as in C07 (older fulls, plain or installed full, incrementals with 1-3 WALs); the last sink (full / incremental / install) is persisted under the vos shim and the snapshot directory saved at every pre/post event of every mutating os call, plus torn-file derivations; non-trivial = state differs from the store before the sink (crash inside the sink); distinct by shape + crash point label")
	rapid.Check(t, func(rt *rapid.T) {
		shape := c07GenShape(rt)
		root, err := os.MkdirTemp("", "c03s-")
		if err != nil {
			rt.Skip("no temp dir")
		}
		defer os.RemoveAll(root)
		snapDir := filepath.Join(root, "snaps")
		var recd *vcrash.Recorder
		var kind, beforeSig string
		_, _, b, err := c07BuildWith(root, shape, func(k string, fn func() error) error {
			kind = k
			beforeSig = vcrash.TreeSig(snapDir)
			recd = &vcrash.Recorder{Root: snapDir, SaveDir: filepath.Join(root, "states"), Torn: true}
			var ferr error
			recd.Run(func() { ferr = fn() })
			return ferr
		})
		if err != nil || recd == nil {
			rec.Label("build-failed")
			rt.Skip(fmt.Sprintf("build failed: %v", err))
		}
		if recd.Err != nil {
			rt.Skip("recorder: " + recd.Err.Error())
		}
		kindClass := strings.SplitN(kind, "-", 2)[0]
		rec.Label("sink:" + kind)
		rec.Sample(map[string]any{"shape": shape.canon(), "sink": kind, "events": len(recd.Events), "trace": recd.Trace()})
		scratch := filepath.Join(root, "scratch")
		os.MkdirAll(scratch, 0o755)
		for _, cs := range recd.States {
			nontrivial := vcrash.TreeSig(cs.Dir) != beforeSig
			label := cs.Label
			rec.Case(nontrivial, shape.canon()+"/"+kind+"/"+label)
			rec.Label("state:" + cs.Kind)
			where := kindClass + "/" + cs.Ev.Op
			if err := vcrash.ReplaceTree(cs.Dir, snapDir); err != nil {
				rt.Skip("restore failed")
			}
			fail := func(sig, format string, args ...any) {
				if rec.KnownHit(sig, "snapshot store not all-or-nothing after a crash inside a sink") {
					return
				}
				rt.Fatalf("%s", rec.Violation(sig, "shape {%s}, %s sink, crash state %s: %s; state: %s; trace: %s", shape.canon(), kind, label, fmt.Sprintf(format, args...), vcrash.Listing(cs.Dir), recd.Trace()))
			}
			// open + observe (empty store is legal when there was no snapshot before)
			st, err := c07OpenStore(snapDir)
			if err != nil {
				fail("C03/sink/open-failed/"+where, "NewStore failed: %v", err)
				continue
			}
			ents, _ := os.ReadDir(snapDir)
			for _, e := range ents {
				if e.IsDir() && isTmpName(e.Name()) {
					fail("C03/sink/tmp-survives-open/"+where, "temporary directory %s survives the open", e.Name())
				}
			}
			metas, err := st.ListAll()
			st.Close()
			if err != nil {
				fail("C03/sink/list-failed/"+where, "list failed: %v", err)
				continue
			}
			if len(metas) == 0 {
				if b.prevIdx != 0 {
					fail("C03/sink/snapshots-lost/"+where, "store lists no snapshot, (%d,%d) was there before the sink", b.prevIdx, b.prevTerm)
				} else {
					rec.Label("outcome:still-empty")
				}
				continue
			}
			got, stage, err := c07Observe(snapDir, scratch, true)
			if err != nil {
				fail("C03/sink/recovery-"+stage+"-failed/"+where, "%s failed: %v", stage, err)
				continue
			}
			switch {
			case got.index == b.lastIdx && got.term == b.lastTerm:
				rec.Label("outcome:new-snapshot")
				if got.dump != b.curDump {
					fail("C03/sink/new-snapshot-content/"+where, "new snapshot (%d,%d) does not resolve to the database at its snapshot point\n--- want\n%s--- got\n%s", got.index, got.term, c03sShort(b.curDump), c03sShort(got.dump))
				}
			case b.prevIdx != 0 && got.index == b.prevIdx && got.term == b.prevTerm:
				rec.Label("outcome:previous-snapshot")
				if got.dump != b.prevDump {
					fail("C03/sink/previous-snapshot-content/"+where, "previous snapshot (%d,%d) no longer resolves to the database at its snapshot point\n--- want\n%s--- got\n%s", got.index, got.term, c03sShort(b.prevDump), c03sShort(got.dump))
				}
			default:
				fail("C03/sink/unknown-newest/"+where, "newest snapshot is (%d,%d); expected (%d,%d) or (%d,%d)", got.index, got.term, b.prevIdx, b.prevTerm, b.lastIdx, b.lastTerm)
			}
		}
		recd.Cleanup()
	})
}

func c03sShort(s string) string {
	if len(s) > 1200 {
		return s[:1200] + "...\n"
	}
	return s
}
