package snapshot

// Export shim for the g4-snapstore checks (C09, C10, C11, C12), which live in
// package snapshot_test so that they can import internal/verif/vsnap (a
// white-box test cannot: import cycle). Only test binaries see this file.

import (
	"io"

	"github.com/hashicorp/raft"
)

// VerifG4SetStoreFatal replaces the store's fatal-corruption hook (nil: the
// verification error is returned to the caller instead of exiting).
func VerifG4SetStoreFatal(s *Store, f func(error)) { s.fatalFn = f }

// VerifG4SinkNoFatal makes a failing incremental Close return its error
// instead of exiting the process.
func VerifG4SinkNoFatal(sink raft.SnapshotSink) {
	if sk, ok := sink.(*Sink); ok {
		sk.fatalFn = nil
	}
}

// VerifG4QuietStore silences the store's logger.
func VerifG4QuietStore(s *Store) { s.logger.SetOutput(io.Discard) }

// VerifG4TryWrite reports whether the store's write lock could be taken right
// now (no reader, no writer); it is released immediately.
func VerifG4TryWrite(s *Store) bool {
	if err := s.mrsw.BeginWrite("verif-probe"); err != nil {
		return false
	}
	s.mrsw.EndWrite()
	return true
}

// VerifG4BeginWrite takes the store's write lock exactly as Store.Reap does
// (non-blocking); VerifG4EndWrite releases it. Together they model "a manually
// requested reap is in progress" for as long as the harness wants.
func VerifG4BeginWrite(s *Store, owner string) error { return s.mrsw.BeginWrite(owner) }

// VerifG4EndWrite releases the write lock taken with VerifG4BeginWrite.
func VerifG4EndWrite(s *Store) { s.mrsw.EndWrite() }

// VerifG4BeginRead takes a read hold exactly as Store.Open does before it wraps
// the stream with NewLockingStreamer (which releases it on Close / timeout).
func VerifG4BeginRead(s *Store) error { return s.mrsw.BeginRead() }
