package snapshot_test

// C11, unit "forced": two interleavings that random schedules practically never
// hit, forced with the smallest possible white-box handles, plus the
// supervisor that turns a process-killing panic of the lock into a verdict.
//
//	queued-reaper  a reap is in progress (the write lock is held through the
//	               export shim, as Store.Reap holds it); a snapshot is created,
//	               which wakes the auto-reaper, which queues behind the writer;
//	               the writer finishes and a stream is opened right behind it.
//	               If Open wins, the queued reaper must keep waiting: nothing
//	               below the store directory may change while the stream is
//	               open, and the stream restores to the recorded content.
//	close-vs-timer a stream built like Store.Open builds it (read hold +
//	               snapshot.NewLockingStreamer, public constructor) over a
//	               reader whose Close is slow; the idle timer fires while
//	               Close is in flight, or Close is called while the timer's
//	               force-close is in flight. A second, healthy stream is open
//	               the whole time: its hold must survive (Reap refused, bytes
//	               intact); afterwards exactly all holds are gone. The same
//	               without the second stream (a double release then panics).

import (
	"bytes"
	"fmt"
	"io"
	"os"
	"os/exec"
	"regexp"
	"strings"
	"sync"
	"testing"
	"time"

	"github.com/rqlite/rqlite/v10/internal/verif/vsnap"
	"github.com/rqlite/rqlite/v10/internal/verif/vstat"
	"github.com/rqlite/rqlite/v10/snapshot"
)

const c11ChildEnv = "VERIF_C11_CHILD"

var c11LockPanic = regexp.MustCompile(`panic: (reader count went negative|write done received but no write is active|upgrade attempted with no readers)`)

// c11Supervise makes the calling test run in a child process and returns true
// in the child (which runs the test body). In the parent it re-executes the
// test binary with the same arguments, relays the child's output and verdict,
// and turns a crash caused by the lock's own consistency panics (which fire in
// timer goroutines and kill the process) into a violation.
func c11Supervise(t *testing.T, sub string) bool {
	if os.Getenv(c11ChildEnv) != "" {
		return true
	}
	self := os.Getenv("VERIF_SELF")
	if self == "" {
		self = os.Args[0]
	}
	args := append(append([]string(nil), os.Args[1:]...), "-test.run=^"+t.Name()+"$")
	cmd := exec.Command(self, args...)
	cmd.Env = append(os.Environ(), c11ChildEnv+"=1")
	out, err := cmd.CombinedOutput()
	os.Stdout.Write(out)
	if err == nil {
		return false
	}
	text := string(out)
	if m := c11LockPanic.FindString(text); m != "" && !strings.Contains(text, "VERIF-VIOLATION") {
		rec := vstat.New(t, "C11", sub+"-supervisor", "supervisor of unit "+sub+": reports a crash of the child process caused by the MRSW lock's consistency panic as a violation")
		i := strings.Index(text, m)
		tail := text[i:]
		if len(tail) > 1800 {
			tail = tail[:1800]
		}
		msg := "the test process died with \"" + m + "\": a stream released its hold more than once (or a hold was released that was never taken)\n" + tail
		if !rec.KnownHit("C11/release-twice", msg) {
			t.Errorf("%s", rec.Violation("C11/release-twice", "%s", msg))
		}
		return false
	}
	t.Errorf("child process of %s failed: %v", t.Name(), err)
	return false
}

// gatedRC is a ReadCloser whose first Close blocks until gate is closed.
type gatedRC struct {
	io.Reader
	mu      sync.Mutex
	n       int
	entered chan struct{}
	gate    chan struct{}
}

func newGatedRC() *gatedRC {
	return &gatedRC{Reader: strings.NewReader("snapshot data"), entered: make(chan struct{}), gate: make(chan struct{})}
}

func (g *gatedRC) Close() error {
	g.mu.Lock()
	g.n++
	first := g.n == 1
	g.mu.Unlock()
	if first {
		close(g.entered)
		<-g.gate
	}
	return nil
}

func (g *gatedRC) closes() int { g.mu.Lock(); defer g.mu.Unlock(); return g.n }

type c11Forced struct {
	t   *testing.T
	rec *vstat.Rec
	bad bool
}

func (f *c11Forced) fail(sig, format string, args ...any) {
	msg := fmt.Sprintf(format, args...)
	if f.rec.KnownHit(sig, msg) {
		return
	}
	f.bad = true
	f.t.Errorf("%s", f.rec.Violation(sig, "%s", msg))
}

func c11NewStore(t *testing.T, threshold int, readTimeout time.Duration) (*vsnap.Builder, string) {
	root, err := os.MkdirTemp("", "c11f")
	if err != nil {
		t.Skip()
	}
	b, err := vsnap.New(root)
	if err != nil {
		os.RemoveAll(root)
		t.Fatalf("harness: %v", err)
	}
	snapshot.VerifG4QuietStore(b.Store)
	b.Store.SetReadTimeout(readTimeout)
	b.Store.SetReapThreshold(threshold)
	if err := b.Exec(`CREATE TABLE t (id INTEGER PRIMARY KEY, a TEXT)`, `INSERT INTO t(a) VALUES('one')`); err != nil {
		t.Fatalf("harness: %v", err)
	}
	return b, root
}

func dirNames(dir string) string {
	ents, _ := os.ReadDir(dir)
	var n []string
	for _, e := range ents {
		if e.IsDir() {
			n = append(n, e.Name())
		}
	}
	return strings.Join(n, ",")
}

// queuedReaper runs one trial; it reports whether Open won the race.
func (f *c11Forced) queuedReaper(trial int) bool {
	const hold = 10 * time.Second // read timeout: the stream definitely holds while less than half of it elapsed
	b, root := c11NewStore(f.t, 2, hold)
	defer os.RemoveAll(root)
	defer b.Close()
	full, err := b.Full(10, 1)
	if err != nil {
		f.t.Fatalf("harness: %v", err)
	}
	// a reap is in progress
	deadline := time.Now().Add(c11Generous)
	for {
		if err := snapshot.VerifG4BeginWrite(b.Store, "verif-manual-reap"); err == nil {
			break
		}
		if time.Now().After(deadline) {
			f.rec.Label("inconclusive:write-lock-unavailable")
			return false
		}
		time.Sleep(time.Millisecond)
	}
	// a new snapshot is persisted meanwhile (creation takes no lock) and wakes the auto-reaper
	b.Exec(fmt.Sprintf(`INSERT INTO t(a) VALUES('trial %d')`, trial))
	var inc vsnap.Snap
	if err = b.StageWAL(); err == nil {
		inc, err = b.Incremental(20, 1)
	}
	if err != nil {
		snapshot.VerifG4EndWrite(b.Store)
		f.fail("C11/create-failed", "creating a snapshot while a reap is in progress failed: %v", err)
		return false
	}
	time.Sleep(time.Duration(20+13*(trial%7)) * time.Millisecond) // let the reaper queue up
	before := dirNames(b.StoreDir)
	// the reap finishes; a stream is opened right behind it
	snapshot.VerifG4EndWrite(b.Store)
	t0 := time.Now()
	_, rc, err := b.Store.Open(inc.ID)
	if err != nil {
		f.rec.Label("queued-reaper:reaper-won")
		return false // the reaper got the lock first: legal, not the interleaving we want
	}
	defer rc.Close()
	f.rec.Label("queued-reaper:open-won")
	for time.Since(t0) < 800*time.Millisecond {
		now := dirNames(b.StoreDir)
		if now != before && time.Since(t0) < hold/2 {
			f.fail("C11/reap-ran-with-open-stream", "queued auto-reaper reaped while a stream opened %v ago is still open: snapshot directories %s -> %s", time.Since(t0), before, now)
			return true
		}
		time.Sleep(5 * time.Millisecond)
	}
	data, rerr := io.ReadAll(rc)
	if time.Since(t0) < hold/2 {
		if rerr != nil {
			f.fail("C11/read-error-on-live-stream", "reading the open stream failed: %v", rerr)
			return true
		}
		if d, err := vsnap.RestoreStreamDump(bytes.NewReader(data)); err != nil || d != inc.Dump {
			f.fail("C11/stream-bytes-changed", "the open stream does not restore to the snapshot's content (err=%v)", err)
			return true
		}
	}
	rc.Close()
	_ = full
	// the queued reaper now proceeds
	deadline = time.Now().Add(c11Generous)
	for strings.Count(dirNames(b.StoreDir), ",") != 0 {
		if time.Now().After(deadline) {
			if snapshot.VerifG4TryWrite(b.Store) {
				f.rec.Label("queued-reaper:no-reap-after-close") // lock free, reaper simply had nothing queued
				return true
			}
			f.fail("C11/hold-not-released", "write lock still unavailable %v after the stream was closed", c11Generous)
			return true
		}
		time.Sleep(5 * time.Millisecond)
	}
	return true
}

// closeVsTimer runs one trial. timerFirst: the idle timer's force-close is in
// flight when Close is called; otherwise Close is in flight when the timer fires.
func (f *c11Forced) closeVsTimer(trial int, timerFirst, withGuard bool) {
	const hold = 10 * time.Second
	const T = 60 * time.Millisecond
	b, root := c11NewStore(f.t, 1<<30, hold)
	defer os.RemoveAll(root)
	defer b.Close()
	if _, err := b.Full(10, 1); err != nil {
		f.t.Fatalf("harness: %v", err)
	}
	b.Exec(`INSERT INTO t(a) VALUES('two')`)
	var inc vsnap.Snap
	var err error
	if err = b.StageWAL(); err == nil {
		inc, err = b.Incremental(20, 1)
	}
	if err != nil {
		f.t.Fatalf("harness: %v", err)
	}
	var guard io.ReadCloser
	tGuard := time.Now()
	if withGuard {
		if _, guard, err = b.Store.Open(inc.ID); err != nil {
			f.t.Fatalf("harness: open guard stream: %v", err)
		}
		defer guard.Close()
	}
	// stream A, built as Store.Open builds it
	if err := snapshot.VerifG4BeginRead(b.Store); err != nil {
		f.t.Fatalf("harness: read hold: %v", err)
	}
	g := newGatedRC()
	a := snapshot.NewLockingStreamer(g, b.Store, T)
	closeDone := make(chan struct{})
	if timerFirst {
		select {
		case <-g.entered: // the timer's force-close has started closing the underlying stream
		case <-time.After(c11Generous):
			close(g.gate)
			f.fail("C11/stalled-stream-not-force-closed", "idle timer of a stream with timeout %v did not fire within %v", T, c11Generous)
			return
		}
		go func() { a.Close(); close(closeDone) }()
		time.Sleep(time.Duration(5+trial%20) * time.Millisecond)
	} else {
		time.Sleep(T - time.Duration(3+trial%10)*time.Millisecond)
		go func() { a.Close(); close(closeDone) }()
		select {
		case <-g.entered:
		case <-time.After(c11Generous):
		}
		time.Sleep(T) // the timer fires while Close is in flight
	}
	close(g.gate) // the slow close completes
	select {
	case <-closeDone:
	case <-time.After(c11Generous):
		f.fail("C11/close-hangs", "Close of a stream racing with its idle timer did not return within %v", c11Generous)
		return
	}
	time.Sleep(20 * time.Millisecond) // let the timer goroutine finish
	f.rec.Label(fmt.Sprintf("close-vs-timer:timerFirst=%v,guard=%v,underlying-closes=%d", timerFirst, withGuard, g.closes()))
	if withGuard {
		_, _, rerr := b.Store.Reap()
		if rerr == nil && time.Since(tGuard) < hold/2 {
			f.fail("C11/release-twice", "Reap was admitted while a healthy second stream is open, after another stream's Close raced with its idle timer (timerFirst=%v): that stream released more than its own hold", timerFirst)
			return
		}
		data, err := io.ReadAll(guard)
		if time.Since(tGuard) < hold/2 {
			if err != nil {
				f.fail("C11/read-error-on-live-stream", "reading the second stream failed: %v", err)
				return
			}
			if d, err := vsnap.RestoreStreamDump(bytes.NewReader(data)); err != nil || d != inc.Dump {
				f.fail("C11/stream-bytes-changed", "the second stream does not restore to the snapshot's content (err=%v)", err)
				return
			}
		}
		guard.Close()
	}
	// every stream has ended: a reap must go through (no hold leaked)
	deadline := time.Now().Add(c11Generous)
	for {
		_, _, err := b.Store.Reap()
		if err == nil {
			break
		}
		if !isConflict(err) {
			f.fail("C11/reap-error", "Reap failed: %v", err)
			return
		}
		if time.Now().After(deadline) {
			f.fail("C11/hold-not-released", "Reap still refused %v after every stream ended: %v", c11Generous, err)
			return
		}
		time.Sleep(5 * time.Millisecond)
	}
}

// drainedStall: a stream is read to EOF (plus the Read that reports io.EOF) and
// then neither read nor closed. It must be force-closed after its idle timeout
// and a reap must then go through without anybody calling Close.
func (f *c11Forced) drainedStall(trial int) {
	const T = 50 * time.Millisecond
	b, root := c11NewStore(f.t, 1<<30, T)
	defer os.RemoveAll(root)
	defer b.Close()
	if _, err := b.Full(9, 1); err != nil {
		f.t.Fatalf("harness: %v", err)
	}
	b.Exec(`INSERT INTO t(a) VALUES('two')`)
	var inc vsnap.Snap
	var err error
	if err = b.StageWAL(); err == nil {
		inc, err = b.Incremental(10, 1)
	}
	if err != nil {
		f.t.Fatalf("harness: %v", err)
	}
	_, rc, err := b.Store.Open(inc.ID)
	if err != nil {
		f.fail("C11/open-failed", "Open failed: %v", err)
		return
	}
	defer rc.Close()
	buf := make([]byte, 1+trial*997)
	var rerr error
	for rerr == nil {
		_, rerr = rc.Read(buf)
	}
	if rerr != io.EOF {
		f.rec.Label("drained-stall:read-ended-with-" + fmt.Sprint(rerr))
		return // descheduled past the timeout while reading: not the scenario
	}
	rc.Read(buf) // a consumer may ask once more after EOF
	deadline := time.Now().Add(c11Generous)
	for {
		if _, err := rc.Read(nil); err == snapshot.ErrSnapshotReaderTimeout {
			break
		}
		if time.Now().After(deadline) {
			f.fail("C11/stalled-stream-not-force-closed", "a stream read to EOF and then left alone (not closed) was not force-closed within %v (idle timeout %v)", c11Generous, T)
			return
		}
		time.Sleep(5 * time.Millisecond)
	}
	for {
		_, _, err := b.Store.Reap()
		if err == nil {
			return
		}
		if !isConflict(err) || time.Now().After(deadline) {
			f.fail("C11/hold-not-released", "Reap refused after the drained, unclosed stream timed out: %v", err)
			return
		}
		time.Sleep(5 * time.Millisecond)
	}
}

func TestVerif_C11_Forced(t *testing.T) {
	if !c11Supervise(t, "forced") {
		return
	}
	vsnap.Quiet()
	rec := vstat.New(t, "C11", "forced",
		"forced interleavings in a child process: (queued-reaper) write lock held, snapshot created so that the auto-reaper queues behind the writer, writer released and a stream opened right behind it; if Open wins nothing below the store may change for 800 ms and the stream restores to the recorded content, then the reaper proceeds. (close-vs-timer) a stream built with the public NewLockingStreamer over a reader with a slow Close: timer force-close in flight then Close, or Close in flight then timer; with a healthy second stream open (its hold must survive: Reap refused, bytes intact) and without; afterwards Reap must succeed. (drained-stall) a stream read to EOF and then neither read nor closed must be force-closed and a reap must go through. one case = one trial; non-trivial = Open won the race / the two closers overlapped; distinct by scenario+trial+seed")
	f := &c11Forced{t: t, rec: rec}
	seed := vstat.Seed()
	nA, nB := vstat.Scale(15, 60), vstat.Scale(4, 16)
	won := 0
	for i := 0; i < nA && !f.bad; i++ {
		w := f.queuedReaper(i + int(seed%7))
		if w {
			won++
		}
		rec.Case(w, fmt.Sprintf("queued-reaper/%d/%d", seed, i))
	}
	for i := 0; i < nB && !f.bad; i++ {
		for _, timerFirst := range []bool{true, false} {
			for _, guard := range []bool{true, false} {
				if f.bad {
					break
				}
				f.closeVsTimer(i+int(seed%11), timerFirst, guard)
				rec.Case(true, fmt.Sprintf("close-vs-timer/%v/%v/%d/%d", timerFirst, guard, seed, i))
			}
		}
	}
	for i := 0; i < vstat.Scale(4, 16) && !f.bad; i++ {
		f.drainedStall(i)
		rec.Case(true, fmt.Sprintf("drained-stall/%d/%d", seed, i))
		rec.Label("drained-stall")
	}
	rec.Sample(fmt.Sprintf("queued-reaper: Open won %d of %d trials", won, nA))
}
