package snapshot_test

// C09: snapshot catalog stays well-formed and full-needed is honoured.
//
// A rapid state machine drives a real snapshot.Store (through vsnap.Builder,
// i.e. the public APIs store.Store.fsmSnapshot uses) with sinks that are
// completed, cancelled, abandoned or fed corrupt / garbage streams, with
// SetDueNext(Full), Reap and reopen, and compares after every step with the
// abstract catalog model of DESIGN.md Appendix C:
//
//	snaps: [](id, index, term, content)   fullNeeded: bool
//	valid full / installed stream + Close      => append, fullNeeded=false
//	incremental while fullNeeded or snaps=∅    => error, nothing appended
//	incremental + Close                        => append (content = current database), fullNeeded=false
//	cancel / failed close / abandoned sink     => no change
//	SetDueNext(Full)                           => fullNeeded=true
//	Reap with >1 snapshot                      => snaps := [newest as one full snapshot]
//	reopen                                     => no change
//
// The oracle content is the raw-driver dump of the scratch database taken when
// the snapshot was persisted; it never comes from the snapshot package.

import (
	"encoding/binary"
	"fmt"
	"io"
	"os"
	"path/filepath"
	"strings"
	"testing"

	"github.com/hashicorp/raft"
	"github.com/rqlite/rqlite/v10/internal/verif/vcrash"
	"github.com/rqlite/rqlite/v10/internal/verif/vos"
	"github.com/rqlite/rqlite/v10/internal/verif/vsnap"
	"github.com/rqlite/rqlite/v10/internal/verif/vstat"
	"github.com/rqlite/rqlite/v10/snapshot"
	sproto "github.com/rqlite/rqlite/v10/snapshot/proto"
	pb "google.golang.org/protobuf/proto"
	"pgregory.net/rapid"
)

type c09Machine struct {
	b                              *vsnap.Builder
	rec                            *vstat.Rec
	fullNeeded                     bool
	chainBroken                    bool // a checkpoint moved changes into the database file without a successful snapshot
	index, term                    uint64
	seq                            int
	abandoned                      []raft.SnapshotSink
	verified                       map[string]bool
	trace                          []string
	failedSink                     bool // some sink failed / was cancelled / abandoned earlier
	ntFailThenOK, ntReapBetweenInc bool
	lastWasInc, reapAfterInc       bool
}

func (m *c09Machine) next(rt *rapid.T) (uint64, uint64) {
	if rapid.IntRange(0, 5).Draw(rt, "termbump") == 0 {
		m.term += uint64(rapid.IntRange(1, 3).Draw(rt, "dterm"))
	}
	m.index += uint64(rapid.SampledFrom([]int{1, 1, 2, 7, 90, 950}).Draw(rt, "dindex"))
	return m.index, m.term
}

func (m *c09Machine) batch(rt *rapid.T) []string {
	m.seq++
	return vsnap.GenBatch(rt, m.seq, vsnap.Opt{BigRows: true})
}

func (m *c09Machine) fail(rt *rapid.T, sig, format string, args ...any) {
	msg := fmt.Sprintf(format, args...) + " trace=" + strings.Join(m.trace, " ")
	if m.rec.KnownHit(sig, msg) {
		panic(g4Stop{}) // open known finding: counted; this case ends quietly
	}
	rt.Fatalf("%s", m.rec.Violation(sig, "%s", msg))
}

func (m *c09Machine) note(s string) { m.trace = append(m.trace, s); m.rec.Label(s) }

func (m *c09Machine) succeeded(kind string) {
	if m.failedSink {
		m.ntFailThenOK = true
	}
	if kind == "inc" {
		if m.reapAfterInc {
			m.ntReapBetweenInc = true
		}
		m.lastWasInc = true
	} else {
		m.lastWasInc = false
	}
	m.reapAfterInc = false
}

// finish applies the generated ending to a sink that has been fed a stream
// which the store must accept. Returns true if the snapshot was installed.
func (m *c09Machine) finish(rt *rapid.T, sink raft.SnapshotSink, data []byte, hdrEnd int, what string) bool {
	ending := rapid.SampledFrom([]string{"close", "close", "close", "cancel", "abandon"}).Draw(rt, "ending")
	cuts, mode := g4Cuts(rt, len(data), hdrEnd)
	upto := len(cuts)
	if ending != "close" && rapid.Bool().Draw(rt, "partial") {
		upto = rapid.IntRange(0, len(cuts)).Draw(rt, "upto")
	}
	_, werr := g4Write(sink, data, cuts[:upto])
	if werr != nil {
		sink.Cancel()
		m.fail(rt, "C09/valid-stream-write-error", "%s: write of a valid stream failed (split %s): %v", what, mode, werr)
	}
	switch ending {
	case "close":
		lateFull := m.interleave(rt, what)
		err := sink.Close()
		if lateFull && what == "inc" {
			// A full snapshot became required after the header was accepted
			// and before Close: the statement says an incremental is never
			// accepted while a full snapshot is required.
			if err == nil {
				msg := "incremental snapshot closed without error (and FULL_NEEDED cleared) although SetDueNext(Full) was called between its header write and Close"
				if m.rec.KnownHit("C09/incremental-closed-after-full-needed-set", msg) {
					// open known finding: follow the implementation (snapshot
					// installed, flag cleared) so the search continues behind it
					m.note("inc-late-full-needed-ACCEPTED")
					return true
				}
				m.fail(rt, "C09/incremental-closed-after-full-needed-set", "%s", msg)
			}
			m.failedSink = true
			m.note("inc-late-full-needed-rejected")
			return false
		}
		if err != nil {
			m.fail(rt, "C09/valid-stream-close-error", "%s: close of a valid stream failed (split %s): %v", what, mode, err)
		}
		m.note(what + "-ok")
		return true
	case "cancel":
		sink.Cancel() // a cancelled sink may report what it discarded
		m.note(what + "-cancel")
	default:
		m.abandoned = append(m.abandoned, sink)
		m.note(what + "-abandon")
	}
	m.failedSink = true
	return false
}

// interleave optionally runs another store operation between the last write
// of a sink and its Close (raft persists snapshots concurrently with the FSM,
// which may require a full snapshot, and with user-requested reaps). Returns
// true if it set the full-needed flag.
func (m *c09Machine) interleave(rt *rapid.T, what string) bool {
	switch rapid.SampledFrom([]string{"", "", "", "", "set-full-needed", "reap"}).Draw(rt, "interleave") {
	case "set-full-needed":
		if err := m.b.Store.SetDueNext(snapshot.Full); err != nil {
			m.fail(rt, "C09/setduenext-error", "SetDueNext(Full): %v", err)
		}
		m.fullNeeded = true
		m.note(what + "+late-full-needed")
		return true
	case "reap":
		m.reap(rt, what+"+")
	}
	return false
}

// corrupt feeds a stream the store must not install, with raft's protocol.
func (m *c09Machine) corrupt(rt *rapid.T, sink raft.SnapshotSink, data []byte, hdrEnd int, what string) {
	cuts, _ := g4Cuts(rt, len(data), hdrEnd)
	_, werr := g4Write(sink, data, cuts)
	if werr != nil {
		sink.Cancel()
	} else if err := sink.Close(); err == nil {
		// Accepted: the invariant check decides whether anything was listed;
		// remember the id so that the message is specific.
		m.trace = append(m.trace, what+"-closed-nil")
	}
	m.failedSink = true
	m.note(what)
}

// damage returns a variant of a valid full stream that must not be installed.
func c09Damage(rt *rapid.T, data []byte, hdrEnd int, h *sproto.SnapshotHeader) ([]byte, string) {
	full := h.GetFull()
	switch rapid.SampledFrom([]string{"flip-data", "bad-crc", "truncate", "bad-wal-crc"}).Draw(rt, "damage") {
	case "flip-data":
		out := append([]byte(nil), data...)
		p := rapid.IntRange(hdrEnd, len(data)-1).Draw(rt, "pos")
		out[p] ^= byte(1 << rapid.IntRange(0, 7).Draw(rt, "bit"))
		// keep the SQLite / WAL magic intact in most cases so that the CRC check is what rejects it
		return out, "flip-data"
	case "bad-crc":
		hh := pb.Clone(h).(*sproto.SnapshotHeader)
		hh.GetFull().DbHeader.Crc32 ^= uint32(1) << rapid.IntRange(0, 31).Draw(rt, "bit")
		return g4Frame(hh, data[hdrEnd:]), "bad-crc"
	case "bad-wal-crc":
		if len(full.WalHeaders) == 0 {
			hh := pb.Clone(h).(*sproto.SnapshotHeader)
			hh.GetFull().DbHeader.Crc32++
			return g4Frame(hh, data[hdrEnd:]), "bad-crc"
		}
		hh := pb.Clone(h).(*sproto.SnapshotHeader)
		i := rapid.IntRange(0, len(full.WalHeaders)-1).Draw(rt, "wal")
		hh.GetFull().WalHeaders[i].Crc32 ^= uint32(1) << rapid.IntRange(0, 31).Draw(rt, "bit")
		return g4Frame(hh, data[hdrEnd:]), "bad-wal-crc"
	default:
		n := rapid.IntRange(hdrEnd, len(data)-1).Draw(rt, "keep")
		return append([]byte(nil), data[:n]...), "truncate"
	}
}

func (m *c09Machine) fullLike(rt *rapid.T, installed bool) {
	what := "full"
	var str io.ReadCloser
	var err error
	nwals := 0
	if installed {
		what = "installed"
		var rounds [][]string
		for i, n := 0, rapid.IntRange(0, 3).Draw(rt, "nwal"); i < n; i++ {
			rounds = append(rounds, m.batch(rt))
		}
		str, nwals, err = m.b.InstalledStream(rounds)
	} else {
		str, err = m.b.FullStream()
	}
	if err != nil {
		rt.Fatalf("harness: building %s stream: %v", what, err)
	}
	data, err := io.ReadAll(str)
	str.Close()
	if err != nil {
		rt.Fatalf("harness: reading %s stream: %v", what, err)
	}
	hdrEnd, h, err := g4SplitStream(data)
	if err != nil {
		rt.Fatalf("harness: parsing own stream: %v", err)
	}
	m.chainBroken = true
	index, term := m.next(rt)
	sink, err := m.b.CreateSink(index, term)
	if err != nil {
		m.fail(rt, "C09/create-error", "Create(%d,%d) failed: %v", index, term, err)
	}
	if rapid.IntRange(0, 3).Draw(rt, "damaged") == 0 {
		bad, how := c09Damage(rt, data, hdrEnd, h)
		m.corrupt(rt, sink, bad, hdrEnd, what+"-"+how)
		return
	}
	if m.finish(rt, sink, data, hdrEnd, what) {
		kind := vsnap.Full
		if installed {
			kind = vsnap.Installed
		}
		if _, err := m.b.Record(kind, sink.ID(), index, term, nwals); err != nil {
			rt.Fatalf("harness: record: %v", err)
		}
		m.fullNeeded = false
		m.chainBroken = false
		m.succeeded(what)
	}
}

func (m *c09Machine) incremental(rt *rapid.T) {
	mustReject := m.fullNeeded || len(m.b.Snaps) == 0
	if !mustReject && m.chainBroken {
		rt.Skip() // a real node takes a full snapshot here (database file modified); an incremental would be a harness error
	}
	for i, n := 0, rapid.IntRange(1, 3).Draw(rt, "nwal"); i < n; i++ {
		if err := m.b.Exec(m.batch(rt)...); err != nil {
			rt.Fatalf("harness: exec: %v", err)
		}
		if err := m.b.StageWAL(); err != nil {
			rt.Fatalf("harness: stage: %v", err)
		}
	}
	if mustReject {
		m.chainBroken = true
	}
	nstaged := m.b.Staged()
	missingDir := !mustReject && rapid.IntRange(0, 7).Draw(rt, "missingdir") == 0
	var data []byte
	if missingDir {
		h, err := snapshot.NewIncrementalFileSnapshotHeader(filepath.Join(m.b.Root, "no-such-staging-dir"))
		if err != nil {
			rt.Fatalf("harness: %v", err)
		}
		data = g4Frame(h, nil)
	} else {
		str, err := m.b.IncrementalStream()
		if err != nil {
			rt.Fatalf("harness: incremental stream: %v", err)
		}
		data, _ = io.ReadAll(str)
		str.Close()
	}
	index, term := m.next(rt)
	sink, err := m.b.CreateSink(index, term)
	if err != nil {
		m.fail(rt, "C09/create-error", "Create(%d,%d) failed: %v", index, term, err)
	}
	snapshot.VerifG4SinkNoFatal(sink)
	switch {
	case mustReject:
		cuts, mode := g4Cuts(rt, len(data), len(data))
		_, werr := g4Write(sink, data, cuts)
		var cerr error
		if werr != nil {
			sink.Cancel()
		} else {
			cerr = sink.Close()
		}
		m.failedSink = true
		m.note("inc-while-full-needed")
		if werr == nil && cerr == nil {
			m.fail(rt, "C09/incremental-accepted-while-full-needed", "incremental snapshot (%d,%d) accepted (write and close returned nil, split %s) while a full snapshot is required (flag=%v, snapshots=%d)", index, term, mode, m.fullNeeded, len(m.b.Snaps))
		}
	case missingDir:
		cuts, _ := g4Cuts(rt, len(data), len(data))
		_, werr := g4Write(sink, data, cuts)
		if werr != nil {
			sink.Cancel()
		} else if err := sink.Close(); err == nil {
			m.fail(rt, "C09/incremental-without-wals-accepted", "incremental snapshot naming a missing WAL directory was closed without error")
		}
		m.failedSink = true
		m.note("inc-missing-dir")
	default:
		if m.finish(rt, sink, data, len(data), "inc") {
			if _, err := m.b.Record(vsnap.Incremental, sink.ID(), index, term, nstaged); err != nil {
				rt.Fatalf("harness: record: %v", err)
			}
			m.fullNeeded = false
			m.succeeded("inc")
		}
	}
}

func (m *c09Machine) reap(rt *rapid.T, prefix string) {
	_, _, err := m.b.Store.Reap()
	if err != nil {
		m.fail(rt, "C09/reap-error", "Reap with no open stream failed: %v", err)
	}
	if len(m.b.Snaps) > 1 {
		metas, lerr := m.b.Store.ListAll()
		if lerr != nil || len(metas) != 1 {
			m.fail(rt, "C09/reap-did-not-consolidate", "after Reap of %d snapshots ListAll = %d entries, err=%v", len(m.b.Snaps), len(metas), lerr)
		}
		m.b.NoteReap(metas[0].ID)
		m.verified = map[string]bool{}
		if m.lastWasInc {
			m.reapAfterInc = true
		}
		m.note(prefix + "reap-consolidate")
	} else {
		m.note(prefix + "reap-noop")
	}
}

func (m *c09Machine) misc(rt *rapid.T) {
	switch rapid.SampledFrom([]string{"mutate", "garbage", "garbage", "set-full-needed"}).Draw(rt, "misc") {
	case "mutate":
		if err := m.b.Exec(m.batch(rt)...); err != nil {
			rt.Fatalf("harness: exec: %v", err)
		}
	case "garbage":
		m.garbage(rt)
	default:
		if err := m.b.Store.SetDueNext(snapshot.Full); err != nil {
			m.fail(rt, "C09/setduenext-error", "SetDueNext(Full): %v", err)
		}
		m.fullNeeded = true
		m.note("set-full-needed")
	}
}

func (m *c09Machine) garbage(rt *rapid.T) {
	var data []byte
	kind := rapid.SampledFrom([]string{"random", "short", "len-only", "bad-proto", "no-payload", "no-dbheader"}).Draw(rt, "garbage")
	switch kind {
	case "random":
		data = rapid.SliceOfN(rapid.Byte(), 0, 300).Draw(rt, "bytes")
	case "short":
		data = rapid.SliceOfN(rapid.Byte(), 0, 3).Draw(rt, "bytes")
	case "len-only":
		data = []byte{0, 0, 0, byte(rapid.IntRange(1, 200).Draw(rt, "n"))}
	case "bad-proto":
		body := rapid.SliceOfN(rapid.Byte(), 1, 60).Draw(rt, "bytes")
		data = make([]byte, 4)
		binary.BigEndian.PutUint32(data, uint32(len(body)))
		data = append(data, body...)
	case "no-payload":
		data = g4Frame(&sproto.SnapshotHeader{FormatVersion: 1}, rapid.SliceOfN(rapid.Byte(), 0, 40).Draw(rt, "bytes"))
	case "no-dbheader":
		data = g4Frame(&sproto.SnapshotHeader{FormatVersion: 1, Payload: &sproto.SnapshotHeader_Full{Full: &sproto.FullSnapshot{}}}, rapid.SliceOfN(rapid.Byte(), 0, 40).Draw(rt, "bytes"))
	}
	index, term := m.next(rt)
	sink, err := m.b.CreateSink(index, term)
	if err != nil {
		m.fail(rt, "C09/create-error", "Create(%d,%d) failed: %v", index, term, err)
	}
	snapshot.VerifG4SinkNoFatal(sink)
	// Garbage that happens to decode as an incremental header naming some
	// path must not be able to move a directory: only "random"/"bad-proto"
	// could, and a 1..60 byte random protobuf naming an existing directory is
	// not reachable in practice.
	m.corrupt(rt, sink, data, len(data), "garbage-"+kind)
}

func (m *c09Machine) check(rt *rapid.T) {
	st := m.b.Store
	metas, err := st.ListAll()
	if err != nil {
		m.fail(rt, "C09/list-error", "ListAll failed: %v", err)
	}
	want := m.b.Snaps
	render := func() string {
		var got, exp []string
		for _, x := range metas {
			got = append(got, fmt.Sprintf("%s(%d,%d)", x.ID, x.Index, x.Term))
		}
		for i := len(want) - 1; i >= 0; i-- {
			exp = append(exp, fmt.Sprintf("%s(%d,%d)", want[i].ID, want[i].Index, want[i].Term))
		}
		return fmt.Sprintf("listed=%v model=%v", got, exp)
	}
	if len(metas) != len(want) {
		sig := "C09/catalog-mismatch"
		if len(metas) > len(want) {
			sig = "C09/unfinished-snapshot-listed"
		}
		m.fail(rt, sig, "catalog differs from model: %s", render())
	}
	for i, x := range metas {
		w := want[len(want)-1-i]
		if x.ID != w.ID || x.Index != w.Index || x.Term != w.Term {
			m.fail(rt, "C09/catalog-order-or-identity", "catalog differs from model at position %d: %s", i, render())
		}
	}
	one, err := st.List()
	if err != nil {
		m.fail(rt, "C09/list-error", "List failed: %v", err)
	}
	if len(want) == 0 && len(one) != 0 || len(want) > 0 && (len(one) != 1 || one[0].ID != want[len(want)-1].ID) {
		m.fail(rt, "C09/list-not-newest", "List() does not return exactly the newest snapshot: %v, %s", one, render())
	}
	if n := st.Len(); n != len(want) {
		m.fail(rt, "C09/catalog-mismatch", "Len()=%d, model has %d", n, len(want))
	}
	// full-needed flag
	due, err := st.DueNext()
	if err != nil {
		m.fail(rt, "C09/duenext-error", "DueNext failed: %v", err)
	}
	wantFull := m.fullNeeded || len(want) == 0
	if (due == snapshot.Full) != wantFull {
		sig := "C09/full-needed-cleared-without-install"
		if !wantFull {
			sig = "C09/full-needed-not-cleared-by-install"
		}
		m.fail(rt, sig, "DueNext()=%s but model says fullNeeded=%v snapshots=%d", due, m.fullNeeded, len(want))
	}
	_, statErr := os.Stat(filepath.Join(m.b.StoreDir, "FULL_NEEDED"))
	if (statErr == nil) != m.fullNeeded {
		sig := "C09/full-needed-cleared-without-install"
		if !m.fullNeeded {
			sig = "C09/full-needed-not-cleared-by-install"
		}
		m.fail(rt, sig, "FULL_NEEDED present=%v but model flag=%v", statErr == nil, m.fullNeeded)
	}
	// content: every listed id opens and restores to the recorded content
	for _, w := range want {
		if m.verified[w.ID] {
			continue
		}
		meta, rc, err := st.Open(w.ID)
		if err != nil {
			m.fail(rt, "C09/listed-snapshot-does-not-open", "Open(%s) failed: %v; %s", w.ID, err, render())
		}
		if meta.Index != w.Index || meta.Term != w.Term || meta.ID != w.ID {
			rc.Close()
			m.fail(rt, "C09/catalog-order-or-identity", "Open(%s) meta (%s,%d,%d) differs from model (%d,%d)", w.ID, meta.ID, meta.Index, meta.Term, w.Index, w.Term)
		}
		data, rerr := io.ReadAll(rc)
		rc.Close()
		if rerr != nil {
			m.fail(rt, "C09/listed-snapshot-does-not-open", "reading %s: %v", w.ID, rerr)
		}
		if int64(len(data)) != meta.Size {
			m.fail(rt, "C09/stream-size-mismatch", "stream of %s has %d bytes, meta.Size=%d", w.ID, len(data), meta.Size)
		}
		_, h, herr := g4SplitStream(data)
		if herr != nil || h.GetFull() == nil || h.GetFull().DbHeader == nil {
			m.fail(rt, "C09/listed-snapshot-not-db-plus-wals", "stream of %s does not start with a full header: %v", w.ID, herr)
		}
		got, err := vsnap.RestoreStreamDump(strings.NewReader(string(data)))
		if err != nil {
			m.fail(rt, "C09/listed-snapshot-does-not-restore", "restore of %s (%s) failed: %v", w.ID, w.Kind, err)
		}
		if got != w.Dump {
			m.fail(rt, "C09/listed-snapshot-wrong-content", "restore of %s (%s, index %d) differs from the database at snapshot time:\n--- restored\n%s--- expected\n%s", w.ID, w.Kind, w.Index, g4Short(got), g4Short(w.Dump))
		}
		m.verified[w.ID] = true
	}
}

func TestVerif_C09_Catalog(t *testing.T) {
	vsnap.Quiet()
	rec := vstat.New(t, "C09", "catalog",
		"rapid state machine on snapshot.Store: sinks fed valid full / installed (db+0..3 WALs) / incremental (1..3 WALs, plus leftovers of cancelled ones) streams in generated write splits and closed, cancelled or abandoned; damaged streams (data flip, bad db/WAL CRC, truncation), garbage, incremental while full needed or naming a missing dir; SetDueNext(Full), Reap, reopen; catalog, flag and restored content compared with the Appendix C model after every step. non-trivial = a failed/cancelled/abandoned sink followed by a successful one, or a reap between two incrementals; distinct by action trace")
	rapid.Check(t, func(rt *rapid.T) {
		root, err := os.MkdirTemp("", "c09")
		if err != nil {
			rt.Skip()
		}
		defer os.RemoveAll(root)
		defer g4RecoverStop()
		b, err := vsnap.New(root)
		if err != nil {
			rt.Fatalf("harness: %v", err)
		}
		m := &c09Machine{b: b, rec: rec, verified: map[string]bool{}, term: 1, index: uint64(rapid.SampledFrom([]int{0, 7, 95, 990}).Draw(rt, "index0"))}
		defer func() {
			for _, s := range m.abandoned {
				s.Cancel()
			}
			m.b.Close()
		}()
		snapshot.VerifG4QuietStore(b.Store)
		if err := b.Exec(vsnap.GenShape(rt, vsnap.Opt{MaxSteps: 1}).Init...); err != nil {
			rt.Fatalf("harness: schema: %v", err)
		}
		rt.Repeat(map[string]func(*rapid.T){
			"misc":      m.misc,
			"misc2":     m.misc,
			"full":      func(rt *rapid.T) { m.fullLike(rt, false) },
			"full2":     func(rt *rapid.T) { m.fullLike(rt, false) },
			"installed": func(rt *rapid.T) { m.fullLike(rt, true) },
			"inc":       m.incremental,
			"inc2":      m.incremental,
			"inc3":      m.incremental,
			"inc4":      m.incremental,
			"inc5":      m.incremental,
			"reap":      func(rt *rapid.T) { m.reap(rt, "") },
			"reopen": func(rt *rapid.T) {
				if err := m.b.Reopen(); err != nil {
					m.fail(rt, "C09/reopen-error", "NewStore on the existing directory failed: %v", err)
				}
				snapshot.VerifG4QuietStore(m.b.Store)
				m.verified = map[string]bool{}
				// leftover temporary directories must be gone after a restart
				ents, _ := os.ReadDir(m.b.StoreDir)
				for _, e := range ents {
					if e.IsDir() && strings.HasSuffix(e.Name(), ".tmp") {
						m.fail(rt, "C09/tmp-dir-survives-restart", "temporary directory %s still present after reopen", e.Name())
					}
				}
				m.note("reopen")
			},
			"": m.check,
		})
		m.check(rt)
		nt := m.ntFailThenOK || m.ntReapBetweenInc
		rec.Case(nt, strings.Join(m.trace, " "))
		if m.ntFailThenOK {
			rec.Label("NT:failed-sink-then-success")
		}
		if m.ntReapBetweenInc {
			rec.Label("NT:reap-between-incrementals")
		}
		rec.Sample(strings.Join(m.trace, " "))
	})
}

// Crash points of a sink's life (Create, writes, Close): the store directory
// is saved at every filesystem event (vos shim + vcrash.Recorder, plus torn
// variants of the file being written); every saved state is opened with
// NewStore and must list either the catalog as it was or the catalog plus the
// new snapshot, never anything else; FULL_NEEDED may only be gone when the new
// snapshot is listed; every listed snapshot restores to its recorded content.
func TestVerif_C09_CloseCrash(t *testing.T) {
	vsnap.Quiet()
	rec := vstat.New(t, "C09", "closecrash",
		"rapid: prefix shape of 0..3 snapshots, optional SetDueNext(Full), then one sink (full, installed db+1..2 WALs, or incremental 1..2 WALs when allowed) from Create through all writes to Close with every mutating os call of snapshot, snapshot/sidecar and internal/fsutil intercepted; one case = one saved crash state recovered with NewStore; non-trivial = state taken inside Close (after the last write); distinct by shape+sink+event label")
	rapid.Check(t, func(rt *rapid.T) {
		root, err := os.MkdirTemp("", "c09c")
		if err != nil {
			rt.Skip()
		}
		defer os.RemoveAll(root)
		b, err := vsnap.New(filepath.Join(root, "live"))
		if err != nil {
			rt.Fatalf("harness: %v", err)
		}
		defer b.Close()
		snapshot.VerifG4QuietStore(b.Store)
		var sh vsnap.Shape
		if rapid.IntRange(0, 3).Draw(rt, "empty") == 0 {
			sh = vsnap.GenShape(rt, vsnap.Opt{MaxSteps: 1})
			sh.Steps = nil
		} else {
			sh = vsnap.GenShape(rt, vsnap.Opt{MaxSteps: 3, MaxWALs: 2})
		}
		if err := b.Apply(sh); err != nil { // also creates the schema
			rt.Fatalf("harness: building %s: %v", sh, err)
		}
		before := append([]vsnap.Snap(nil), b.Snaps...)
		flag := rapid.IntRange(0, 2).Draw(rt, "set-full-needed") == 0
		if flag {
			if err := b.Store.SetDueNext(snapshot.Full); err != nil {
				rt.Fatalf("harness: %v", err)
			}
		}
		kinds := []string{"full", "installed"}
		if len(before) > 0 && !flag {
			kinds = append(kinds, "inc", "inc")
		}
		kind := rapid.SampledFrom(kinds).Draw(rt, "sink")
		seq := 1000
		batch := func() []string { seq++; return vsnap.GenBatch(rt, seq, vsnap.Opt{}) }
		var str io.ReadCloser
		nwals := 0
		switch kind {
		case "full":
			b.Exec(batch()...)
			str, err = b.FullStream()
		case "installed":
			rounds := [][]string{batch()}
			if rapid.Bool().Draw(rt, "two") {
				rounds = append(rounds, batch())
			}
			str, nwals, err = b.InstalledStream(rounds)
		default:
			for i, n := 0, rapid.IntRange(1, 2).Draw(rt, "nwal"); i < n; i++ {
				b.Exec(batch()...)
				if err = b.StageWAL(); err != nil {
					break
				}
			}
			if err == nil {
				nwals = b.Staged()
				str, err = b.IncrementalStream()
			}
		}
		if err != nil {
			rt.Fatalf("harness: preparing %s stream: %v", kind, err)
		}
		data, _ := io.ReadAll(str)
		str.Close()
		newDump, err := b.Dump()
		if err != nil {
			rt.Fatalf("harness: %v", err)
		}
		cuts, _ := g4Cuts(rt, len(data), len(data))
		index, cterm := uint64(5), uint64(1)
		if n := len(before); n > 0 {
			index, cterm = before[n-1].Index+uint64(rapid.IntRange(1, 3).Draw(rt, "dindex")), before[n-1].Term
		}

		r := &vcrash.Recorder{Root: b.StoreDir, SaveDir: filepath.Join(root, "states"), Torn: true}
		var newID string
		var cerr error
		lastWriteEv := 0
		r.Run(func() {
			sink, err := b.CreateSink(index, cterm)
			if err != nil {
				cerr = err
				return
			}
			snapshot.VerifG4SinkNoFatal(sink)
			newID = sink.ID()
			if _, err := g4Write(sink, data, cuts); err != nil {
				sink.Cancel()
				cerr = err
				return
			}
			lastWriteEv = vos.Events()
			cerr = sink.Close()
		})
		if r.Err != nil {
			rt.Fatalf("harness: recorder: %v", r.Err)
		}
		if cerr != nil {
			msg := fmt.Sprintf("uninterrupted %s sink on %s failed: %v", kind, sh, cerr)
			if rec.KnownHit("C09/valid-stream-close-error", msg) {
				return
			}
			rt.Fatalf("%s", rec.Violation("C09/valid-stream-close-error", "%s", msg))
		}
		fail := func(st vcrash.State, sig, format string, args ...any) bool {
			msg := fmt.Sprintf("crash state %s of a %s sink (shape %s, full-needed=%v): ", st.Label, kind, sh, flag) + fmt.Sprintf(format, args...) + " | events: " + r.Trace()
			if rec.KnownHit(sig, msg) {
				return false
			}
			rt.Fatalf("%s", rec.Violation(sig, "%s", msg))
			return true
		}
		for _, st := range r.States {
			inClose := st.Ev.Seq > lastWriteEv
			rec.Case(inClose, fmt.Sprintf("%s|%s|%v|%s", sh, kind, flag, st.Label))
			rec.Label("sink:" + kind)
			rec.Label("state:" + st.Kind)
			s2, err := snapshot.NewStore(st.Dir)
			if err != nil {
				fail(st, "C09/crash-state-does-not-open", "NewStore failed: %v", err)
				continue
			}
			s2.SetReapThreshold(1 << 30)
			snapshot.VerifG4QuietStore(s2)
			func() {
				defer s2.Close()
				metas, err := s2.ListAll()
				if err != nil {
					fail(st, "C09/crash-state-catalog-broken", "ListAll failed: %v", err)
					return
				}
				hasNew := len(metas) == len(before)+1 && metas[0].ID == newID
				if !hasNew && len(metas) != len(before) {
					fail(st, "C09/crash-state-catalog-wrong", "lists %d snapshots, expected %d or %d", len(metas), len(before), len(before)+1)
					return
				}
				off := 0
				if hasNew {
					off = 1
					rec.Label("new-snapshot-listed")
				}
				for i := range before {
					if metas[off+i].ID != before[len(before)-1-i].ID {
						fail(st, "C09/crash-state-catalog-wrong", "position %d lists %s, expected %s", off+i, metas[off+i].ID, before[len(before)-1-i].ID)
						return
					}
				}
				_, serr := os.Stat(filepath.Join(st.Dir, "FULL_NEEDED"))
				present := serr == nil
				if flag && !present && !hasNew {
					fail(st, "C09/full-needed-cleared-without-install", "FULL_NEEDED is gone but the new snapshot is not listed")
					return
				}
				if !flag && present {
					fail(st, "C09/full-needed-set-by-crash", "FULL_NEEDED appeared")
					return
				}
				ents, _ := os.ReadDir(st.Dir)
				for _, e := range ents {
					if e.IsDir() && strings.HasSuffix(e.Name(), ".tmp") {
						fail(st, "C09/tmp-dir-survives-restart", "temporary directory %s still present after NewStore", e.Name())
						return
					}
				}
				if hasNew {
					d, err := vsnap.RestoreDump(s2, newID)
					if err != nil || d != newDump {
						fail(st, "C09/listed-snapshot-wrong-content", "new snapshot listed but restore err=%v equal=%v (nwals=%d)", err, d == newDump, nwals)
						return
					}
				}
				if len(before) > 0 {
					last := before[len(before)-1]
					d, err := vsnap.RestoreDump(s2, last.ID)
					if err != nil || d != last.Dump {
						fail(st, "C09/listed-snapshot-wrong-content", "previous newest snapshot %s: restore err=%v equal=%v", last.ID, err, d == last.Dump)
						return
					}
				}
			}()
		}
		rec.Sample(fmt.Sprintf("%s + %s sink, full-needed=%v: %d events, %d states (%d duplicates)", sh, kind, flag, len(r.Events), len(r.States), r.Dups))
		r.Cleanup()
	})
}
