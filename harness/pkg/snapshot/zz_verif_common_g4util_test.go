package snapshot_test

// Helpers shared by the g4-snapstore checks (C09, C10, C11, C12).

import (
	"bytes"
	"encoding/binary"
	"fmt"
	"io"

	"github.com/hashicorp/raft"
	"github.com/rqlite/rqlite/v10/internal/rarchive/zstd"
	"github.com/rqlite/rqlite/v10/internal/verif/vsnap"
	"github.com/rqlite/rqlite/v10/snapshot"
	sproto "github.com/rqlite/rqlite/v10/snapshot/proto"
	pb "google.golang.org/protobuf/proto"
	"pgregory.net/rapid"
)

// g4Config is a one-voter raft configuration.
func g4Config() raft.Configuration {
	return raft.Configuration{Servers: []raft.Server{{Suffrage: raft.Voter, ID: "1", Address: "localhost:1"}}}
}

// g4SplitStream returns the offset where file data starts (4 + header length)
// and the parsed header of a full snapshot stream.
func g4SplitStream(data []byte) (int, *sproto.SnapshotHeader, error) {
	if len(data) < 4 {
		return 0, nil, fmt.Errorf("short stream")
	}
	n := int(binary.BigEndian.Uint32(data[:4]))
	if len(data) < 4+n {
		return 0, nil, fmt.Errorf("short header")
	}
	h, err := snapshot.UnmarshalSnapshotHeader(data[4 : 4+n])
	return 4 + n, h, err
}

// g4Frame builds a stream from a header and the file bytes.
func g4Frame(h *sproto.SnapshotHeader, body []byte) []byte {
	hb, err := pb.Marshal(h)
	if err != nil {
		panic(err)
	}
	out := make([]byte, 4, 4+len(hb)+len(body))
	binary.BigEndian.PutUint32(out, uint32(len(hb)))
	out = append(out, hb...)
	return append(out, body...)
}

// g4Cuts generates write boundaries for a stream of n bytes whose file data
// starts at hdrEnd. The result is a list of chunk lengths summing to n.
func g4Cuts(rt *rapid.T, n, hdrEnd int) ([]int, string) {
	if n == 0 {
		return nil, "empty"
	}
	mode := rapid.SampledFrom([]string{"whole", "bytes-then-rest", "random", "at-header", "near-header", "inside-header", "tiny"}).Draw(rt, "split")
	var cuts []int
	switch mode {
	case "whole":
		cuts = []int{n}
	case "bytes-then-rest":
		k := rapid.IntRange(1, 64).Draw(rt, "k")
		if k > n {
			k = n
		}
		for i := 0; i < k; i++ {
			cuts = append(cuts, 1)
		}
		if n > k {
			cuts = append(cuts, n-k)
		}
	case "random":
		left := n
		for left > 0 {
			c := rapid.IntRange(1, 9000).Draw(rt, "chunk")
			if c > left {
				c = left
			}
			cuts = append(cuts, c)
			left -= c
		}
	case "at-header":
		if hdrEnd > 0 && hdrEnd < n {
			cuts = []int{hdrEnd, n - hdrEnd}
		} else {
			cuts = []int{n}
		}
	case "near-header":
		// a write that ends a few bytes before / after the end of the header
		p := hdrEnd + rapid.IntRange(-3, 3).Draw(rt, "delta")
		if p <= 0 || p >= n {
			cuts = []int{n}
		} else {
			cuts = []int{p, n - p}
		}
	case "inside-header":
		p := 1
		if hdrEnd > 1 {
			p = rapid.IntRange(1, hdrEnd-1).Draw(rt, "p")
		}
		if p >= n {
			cuts = []int{n}
		} else {
			cuts = []int{p, n - p}
		}
	case "tiny":
		left := n
		for left > 0 {
			c := rapid.IntRange(1, 700).Draw(rt, "chunk")
			if c > left {
				c = left
			}
			cuts = append(cuts, c)
			left -= c
		}
	}
	return cuts, mode
}

// g4Write feeds data to w in the given chunks with io.Copy's rules: a write
// error or a short write stops the copy.
func g4Write(w io.Writer, data []byte, cuts []int) (int, error) {
	off := 0
	for _, c := range cuts {
		n, err := w.Write(data[off : off+c])
		off += n
		if err != nil {
			return off, err
		}
		if n != c {
			return off, io.ErrShortWrite
		}
	}
	return off, nil
}

// g4Stop ends a case quietly after a known-finding hit.
type g4Stop struct{}

func g4RecoverStop() {
	if r := recover(); r != nil {
		if _, ok := r.(g4Stop); !ok {
			panic(r)
		}
	}
}

func g4Short(s string) string {
	if len(s) > 1500 {
		return s[:1500] + "...\n"
	}
	return s
}

// chunkReader hands out the underlying bytes in the given chunk sizes, then
// in 32 KiB pieces (io.Copy's buffer).
type chunkReader struct {
	r    io.Reader
	cuts []int
}

func (c *chunkReader) Read(p []byte) (int, error) {
	n := len(p)
	if len(c.cuts) > 0 {
		if c.cuts[0] < n {
			n = c.cuts[0]
		}
	}
	m, err := c.r.Read(p[:n])
	if len(c.cuts) > 0 {
		c.cuts[0] -= m
		if c.cuts[0] <= 0 {
			c.cuts = c.cuts[1:]
		}
	}
	return m, err
}

// g4Compress is the sender side of store/transport.go with compression on.
func g4Compress(data []byte, size int64) ([]byte, error) {
	c, err := zstd.NewCompressor(bytes.NewReader(data), size, zstd.DefaultBufferSize)
	if err != nil {
		return nil, err
	}
	defer c.Close()
	return io.ReadAll(c)
}

// g4Receive is the receiver side: raft's limit on the connection, the
// optional decompressor, and raft's sink protocol. It returns the sink id and
// the error raft would report (nil = snapshot finalised).
func g4Receive(dest *snapshot.Store, index, term uint64, wire []byte, size int64, compressed bool, cuts []int) (string, error) {
	var r io.Reader = io.LimitReader(bytes.NewReader(wire), size)
	if compressed {
		r = zstd.NewDecompressor(r)
	}
	if cuts != nil {
		r = &chunkReader{r: r, cuts: append([]int(nil), cuts...)}
	}
	sink, err := dest.Create(1, index, term, g4Config(), 1, nil)
	if err != nil {
		return "", fmt.Errorf("create: %w", err)
	}
	snapshot.VerifG4SinkNoFatal(sink)
	return sink.ID(), vsnap.Persist(sink, struct{ io.Reader }{r}, size)
}
