package rsync

// C34 free-running part: 2-4 goroutines run generated programs against one
// primitive without any lock-step control (the unit is built with -race). The
// recorded history (call/return stamped by one atomic logical clock) is judged
// twice:
//   - directly: a witness counter incremented by every holder after it got in
//     and decremented before it releases must never show two gate holders, a
//     second writer, or a reader together with a writer;
//   - by porcupine against the sequential models of DESIGN.md Appendix C
//     (blocking acquires are operations that linearize at a point where the
//     model admits them).
// Progress: every program holds for a bounded number of yields and releases,
// so a program that has not finished after c34StressDeadline while no other
// program holds anything is a lost wake-up.

import (
	"errors"
	"fmt"
	"runtime"
	"strings"
	"sync"
	"sync/atomic"
	"testing"
	"time"

	"github.com/anishathalye/porcupine"
	"github.com/rqlite/rqlite/v10/internal/verif/vstat"
	"pgregory.net/rapid"
)

const c34StressDeadline = 20 * time.Second

type c34Hist struct {
	mu  sync.Mutex
	clk atomic.Int64
	ops []porcupine.Operation
}

func (h *c34Hist) call() int64 { return h.clk.Add(1) }
func (h *c34Hist) ret(client int, in, out any, call int64) {
	r := h.clk.Add(1)
	h.mu.Lock()
	h.ops = append(h.ops, porcupine.Operation{ClientId: client, Input: in, Output: out, Call: call, Return: r})
	h.mu.Unlock()
}

func c34Yield(n int) {
	for i := 0; i < n; i++ {
		runtime.Gosched()
	}
}

func c34RenderHist(ops []porcupine.Operation) string {
	var b strings.Builder
	for _, o := range ops {
		fmt.Fprintf(&b, "[c%d %v->%v @%d-%d] ", o.ClientId, o.Input, o.Output, o.Call, o.Return)
	}
	return b.String()
}

// c34Join waits for the programs; false means they did not finish within
// three times the deadline. slow is set when they needed more than the deadline
// (an overloaded machine): such a case is counted as inconclusive, not judged.
func c34Join(wg *sync.WaitGroup, slow *bool) bool {
	done := make(chan struct{})
	go func() { wg.Wait(); close(done) }()
	select {
	case <-done:
		return true
	case <-time.After(c34StressDeadline):
	}
	*slow = true
	select {
	case <-done:
		return true
	case <-time.After(2 * c34StressDeadline):
		return false
	}
}

// ---------------------------------------------------------------------------
// CheckAndSet

type c34CasIn struct {
	Op    string // begin, retry, end, owner
	Owner string
}

var c34CasModel = porcupine.Model{
	Init: func() any { return "" },
	Step: func(state, input, output any) (bool, any) {
		holder := state.(string)
		in := input.(c34CasIn)
		switch in.Op {
		case "begin":
			if output.(bool) {
				return holder == "", in.Owner
			}
			return holder != "", holder
		case "retry":
			return holder == "", in.Owner
		case "end":
			return holder == in.Owner, ""
		case "owner":
			return output.(string) == holder, holder
		}
		return false, state
	},
}

func TestVerif_C34_StressCAS(t *testing.T) {
	rec := vstat.New(t, "C34", "cas-stress",
		"2-4 free-running goroutines each run a generated program of 3..8 steps (Begin, BeginWithRetry with 100-500us interval and a 60s timeout, Owner; a successful acquire is followed by 0..20 yields inside the critical section and End) on one CheckAndSet under -race; judged by a holder witness counter and by porcupine against the model held:string; non-trivial = at least one Begin was refused or one BeginWithRetry returned after another actor's End (real contention); distinct by programs")
	rapid.Check(t, func(rt *rapid.T) {
		n := rapid.IntRange(2, 4).Draw(rt, "actors")
		type step struct {
			Kind   string
			Hold   int
			Before int
			Ivl    int
		}
		progs := make([][]step, n)
		for a := range progs {
			k := rapid.IntRange(3, 8).Draw(rt, "len")
			for i := 0; i < k; i++ {
				progs[a] = append(progs[a], step{
					Kind:   rapid.SampledFrom([]string{"begin", "begin", "retry", "retry", "owner"}).Draw(rt, "kind"),
					Hold:   rapid.IntRange(0, 20).Draw(rt, "hold"),
					Before: rapid.IntRange(0, 5).Draw(rt, "before"),
					Ivl:    rapid.IntRange(1, 5).Draw(rt, "ivl"),
				})
			}
		}
		cas := NewCheckAndSet()
		h := &c34Hist{}
		var inCS, maxCS atomic.Int32
		var refused, retried, timeouts atomic.Int32
		var wg sync.WaitGroup
		start := make(chan struct{})
		for a := 0; a < n; a++ {
			wg.Add(1)
			go func(a int) {
				defer wg.Done()
				name := c34Names[a]
				<-start
				for _, s := range progs[a] {
					c34Yield(s.Before)
					got := false
					switch s.Kind {
					case "begin":
						c := h.call()
						err := cas.Begin(name)
						got = err == nil
						if !got && !errors.Is(err, ErrCASConflict) {
							maxCS.Store(101) // wrong error kind
						}
						if got {
							if v := inCS.Add(1); v > 1 {
								maxCS.Store(v)
							}
						} else {
							refused.Add(1)
						}
						h.ret(a, c34CasIn{"begin", name}, got, c)
					case "retry":
						c := h.call()
						err := cas.BeginWithRetry(name, 60*time.Second, time.Duration(s.Ivl)*100*time.Microsecond)
						if err != nil {
							timeouts.Add(1) // cannot happen within the stress deadline; not recorded
							continue
						}
						got = true
						if v := inCS.Add(1); v > 1 {
							maxCS.Store(v)
						}
						retried.Add(1)
						h.ret(a, c34CasIn{"retry", name}, true, c)
					case "owner":
						c := h.call()
						o := cas.Owner()
						h.ret(a, c34CasIn{"owner", name}, o, c)
					}
					if got {
						c34Yield(s.Hold)
						if o := cas.Owner(); o != name {
							maxCS.Store(100) // someone else owns the gate we hold
						}
						inCS.Add(-1)
						c := h.call()
						cas.End()
						h.ret(a, c34CasIn{"end", name}, nil, c)
					}
				}
			}(a)
		}
		close(start)
		canon := fmt.Sprintf("%v", progs)
		var slow bool
		if !c34Join(&wg, &slow) {
			if inCS.Load() == 0 {
				rt.Fatalf("%s", rec.Violation("C34/cas-waiter-not-admitted", "stress programs did not finish within %v although nobody holds the gate: progs=%s", 3*c34StressDeadline, canon))
			}
			rec.Label("inconclusive:stress-deadline")
			wg.Wait()
			return
		}
		if slow {
			rec.Label("inconclusive:stress-slow")
		}
		rec.Case(refused.Load() > 0 || retried.Load() > 0, canon)
		rec.Sample(canon)
		if refused.Load() > 0 {
			rec.Label("begin-refused")
		}
		if retried.Load() > 0 {
			rec.Label("retry-acquired")
		}
		if timeouts.Load() > 0 {
			rec.Label("inconclusive:retry-timeout")
			return
		}
		if maxCS.Load() > 1 {
			rt.Fatalf("%s", rec.Violation("C34/cas-two-holders", "witness saw %d simultaneous holders (100 = Owner() was not the holder); history=%s", maxCS.Load(), c34RenderHist(h.ops)))
		}
		switch porcupine.CheckOperationsTimeout(c34CasModel, h.ops, 20*time.Second) {
		case porcupine.Illegal:
			rt.Fatalf("%s", rec.Violation("C34/cas-not-linearizable", "history is not explained by the gate model: %s", c34RenderHist(h.ops)))
		case porcupine.Unknown:
			rec.Label("inconclusive:porcupine-timeout")
		}
	})
}

// ---------------------------------------------------------------------------
// MultiRSW

type c34RwState struct {
	Readers int
	Writer  string
}

type c34RwIn struct {
	Op    string // r, rb, er, w, wb, ew, up
	Owner string
}

var c34RwModel = porcupine.Model{
	Init: func() any { return c34RwState{} },
	Step: func(state, input, output any) (bool, any) {
		s := state.(c34RwState)
		in := input.(c34RwIn)
		ok, _ := output.(bool)
		switch in.Op {
		case "r":
			if ok {
				return s.Writer == "", c34RwState{s.Readers + 1, s.Writer}
			}
			return s.Writer != "", s
		case "rb":
			return s.Writer == "", c34RwState{s.Readers + 1, s.Writer}
		case "er":
			return s.Readers > 0, c34RwState{s.Readers - 1, s.Writer}
		case "w":
			if ok {
				return s.Writer == "" && s.Readers == 0, c34RwState{0, in.Owner}
			}
			return s.Writer != "" || s.Readers > 0, s
		case "wb":
			return s.Writer == "" && s.Readers == 0, c34RwState{0, in.Owner}
		case "ew":
			return s.Writer == in.Owner, c34RwState{s.Readers, ""}
		case "up":
			if ok {
				return s.Writer == "" && s.Readers == 1, c34RwState{0, in.Owner}
			}
			return s.Writer != "" || s.Readers > 1, s
		}
		return false, s
	},
}

func TestVerif_C34_StressMRSW(t *testing.T) {
	rec := vstat.New(t, "C34", "mrsw-stress",
		"2-4 free-running goroutines each run a generated program of 3..8 steps (BeginRead, BeginWrite, BeginReadBlocking, BeginWriteBlocking, read-then-UpgradeToWriter; every successful acquire is held for 0..20 yields and released) on one MultiRSW under -race; judged by reader/writer witness counters (never a reader with a writer, never two writers) and by porcupine against the model (readers,writer); a program that cannot finish although nobody holds the lock is a lost wake-up; non-trivial = a try form or an upgrade was refused, or readers overlapped; distinct by programs")
	rapid.Check(t, func(rt *rapid.T) {
		n := rapid.IntRange(2, 4).Draw(rt, "actors")
		type step struct {
			Kind   string
			Hold   int
			Before int
		}
		progs := make([][]step, n)
		for a := range progs {
			k := rapid.IntRange(3, 8).Draw(rt, "len")
			for i := 0; i < k; i++ {
				progs[a] = append(progs[a], step{
					Kind:   rapid.SampledFrom([]string{"r", "w", "rb", "rb", "wb", "wb", "up", "upb"}).Draw(rt, "kind"),
					Hold:   rapid.IntRange(0, 20).Draw(rt, "hold"),
					Before: rapid.IntRange(0, 5).Draw(rt, "before"),
				})
			}
		}
		l := NewMultiRSW()
		h := &c34Hist{}
		var rIn, wIn, bad, holders atomic.Int32
		var refused, overlap, upOK atomic.Int32
		asReader := func() {
			holders.Add(1)
			if v := rIn.Add(1); v > 1 {
				overlap.Add(1)
			}
			if wIn.Load() != 0 {
				bad.Store(1)
			}
		}
		asWriter := func() {
			holders.Add(1)
			if wIn.Add(1) != 1 {
				bad.Store(2)
			}
			if rIn.Load() != 0 {
				bad.Store(1)
			}
		}
		var wg sync.WaitGroup
		start := make(chan struct{})
		for a := 0; a < n; a++ {
			wg.Add(1)
			go func(a int) {
				defer wg.Done()
				name := c34Names[a]
				<-start
				for _, s := range progs[a] {
					c34Yield(s.Before)
					mode := 0 // 1 reader, 2 writer
					switch s.Kind {
					case "r", "up":
						c := h.call()
						err := l.BeginRead()
						if err == nil {
							asReader()
							mode = 1
						} else {
							refused.Add(1)
						}
						h.ret(a, c34RwIn{"r", name}, err == nil, c)
					case "rb", "upb":
						c := h.call()
						l.BeginReadBlocking()
						asReader()
						mode = 1
						h.ret(a, c34RwIn{"rb", name}, true, c)
					case "w":
						c := h.call()
						err := l.BeginWrite(name)
						if err == nil {
							asWriter()
							mode = 2
						} else {
							refused.Add(1)
						}
						h.ret(a, c34RwIn{"w", name}, err == nil, c)
					case "wb":
						c := h.call()
						l.BeginWriteBlocking(name)
						asWriter()
						mode = 2
						h.ret(a, c34RwIn{"wb", name}, true, c)
					}
					if mode == 1 && (s.Kind == "up" || s.Kind == "upb") {
						c34Yield(s.Hold / 2)
						// leave the reader witness before asking: if the upgrade
						// succeeds we are the writer from that instant on.
						rIn.Add(-1)
						c := h.call()
						err := l.UpgradeToWriter(name)
						if err == nil {
							holders.Add(-1)
							asWriter()
							mode = 2
							upOK.Add(1)
						} else {
							rIn.Add(1)
							refused.Add(1)
						}
						h.ret(a, c34RwIn{"up", name}, err == nil, c)
					}
					switch mode {
					case 1:
						c34Yield(s.Hold)
						if wIn.Load() != 0 {
							bad.Store(1)
						}
						rIn.Add(-1)
						holders.Add(-1)
						c := h.call()
						l.EndRead()
						h.ret(a, c34RwIn{"er", name}, nil, c)
					case 2:
						c34Yield(s.Hold)
						if rIn.Load() != 0 {
							bad.Store(1)
						}
						wIn.Add(-1)
						holders.Add(-1)
						c := h.call()
						l.EndWrite()
						h.ret(a, c34RwIn{"ew", name}, nil, c)
					}
				}
			}(a)
		}
		close(start)
		canon := fmt.Sprintf("%v", progs)
		var slow bool
		if !c34Join(&wg, &slow) {
			if holders.Load() == 0 {
				// nobody holds anything, yet a blocking acquirer is still waiting
				rt.Fatalf("%s", rec.Violation("C34/mrsw-blocked-acquirer-not-admitted", "stress programs did not finish within %v although nobody holds the lock (lost wake-up): progs=%s history=%s", 3*c34StressDeadline, canon, c34RenderHist(h.ops)))
			}
			rec.Label("inconclusive:stress-deadline")
			wg.Wait()
			return
		}
		rec.Case(refused.Load() > 0 || overlap.Load() > 0, canon)
		rec.Sample(canon)
		if refused.Load() > 0 {
			rec.Label("try-or-upgrade-refused")
		}
		if overlap.Load() > 0 {
			rec.Label("readers-overlapped")
		}
		if upOK.Load() > 0 {
			rec.Label("upgrade-succeeded")
		}
		switch bad.Load() {
		case 1:
			rt.Fatalf("%s", rec.Violation("C34/mrsw-reader-with-writer", "witness saw a reader and a writer inside together; history=%s", c34RenderHist(h.ops)))
		case 2:
			rt.Fatalf("%s", rec.Violation("C34/mrsw-writer-not-exclusive", "witness saw two writers inside together; history=%s", c34RenderHist(h.ops)))
		}
		switch porcupine.CheckOperationsTimeout(c34RwModel, h.ops, 20*time.Second) {
		case porcupine.Illegal:
			rt.Fatalf("%s", rec.Violation("C34/mrsw-not-linearizable", "history is not explained by the readers/writer model: %s", c34RenderHist(h.ops)))
		case porcupine.Unknown:
			rec.Label("inconclusive:porcupine-timeout")
		}
	})
}

// ---------------------------------------------------------------------------
// ReadyTarget

const c34RtSlots = 10

// The model is per subscription (slot): Signal closes the channels of several
// subscribers one after the other, so two pollers of different slots may see a
// Signal "half done"; that is not promised to be atomic by the property. The
// history is therefore partitioned by slot, every partition holding the ops of
// one slot plus all Signal calls.
type c34RtState struct {
	Cur    uint64
	St     uint8 // 0 unused, 1 pending, 2 woken, 3 dropped
	Target uint64
}

type c34RtIn struct {
	Op   string // sub, sig, poll, unsub
	Slot int
	Val  uint64
}

var c34RtModel = porcupine.Model{
	Partition: func(history []porcupine.Operation) [][]porcupine.Operation {
		parts := make([][]porcupine.Operation, c34RtSlots)
		for _, o := range history {
			in := o.Input.(c34RtIn)
			if in.Op == "sig" {
				for i := range parts {
					parts[i] = append(parts[i], o)
				}
			} else {
				parts[in.Slot] = append(parts[in.Slot], o)
			}
		}
		return parts
	},
	Init: func() any { return c34RtState{} },
	Step: func(state, input, output any) (bool, any) {
		s := state.(c34RtState)
		in := input.(c34RtIn)
		switch in.Op {
		case "sub":
			s.Target = in.Val
			if in.Val <= s.Cur {
				s.St = 2
			} else {
				s.St = 1
			}
			return true, s
		case "sig":
			if in.Val > s.Cur {
				s.Cur = in.Val
				if s.St == 1 && s.Target <= in.Val {
					s.St = 2
				}
			}
			return true, s
		case "poll":
			return output.(bool) == (s.St == 2), s
		case "unsub":
			if s.St == 1 {
				s.St = 3
			}
			return true, s
		}
		return false, s
	},
}

func TestVerif_C34_StressRT(t *testing.T) {
	rec := vstat.New(t, "C34", "readytarget-stress",
		"2-4 free-running goroutines each run a generated program of 3..8 steps on one ReadyTarget[uint64] under -race: Subscribe(target 0..8) into an own slot, Signal(index 0..9), Poll of any already subscribed own slot (non-blocking read of the channel), Unsubscribe; the history, partitioned by subscription (each partition = that subscription's ops + every Signal), is checked by porcupine against the model (current, pending/woken/dropped): a poll may report closed only if the model has the slot woken at its linearization point and must report closed after a completed Signal>=target; non-trivial = some poll saw a channel closed by another goroutine's Signal; distinct by programs")
	rapid.Check(t, func(rt *rapid.T) {
		n := rapid.IntRange(2, 4).Draw(rt, "actors")
		type step struct {
			Kind   string
			Val    uint64
			Pick   int
			Before int
		}
		progs := make([][]step, n)
		total := 0
		for a := range progs {
			k := rapid.IntRange(3, 8).Draw(rt, "len")
			for i := 0; i < k; i++ {
				kind := rapid.SampledFrom([]string{"sub", "sub", "sig", "sig", "poll", "poll", "poll", "unsub"}).Draw(rt, "kind")
				if kind == "sub" {
					if total >= c34RtSlots {
						kind = "poll"
					} else {
						total++
					}
				}
				progs[a] = append(progs[a], step{
					Kind:   kind,
					Val:    uint64(rapid.IntRange(0, 9).Draw(rt, "val")),
					Pick:   rapid.IntRange(0, 7).Draw(rt, "pick"),
					Before: rapid.IntRange(0, 5).Draw(rt, "before"),
				})
			}
		}
		r := NewReadyTarget[uint64]()
		h := &c34Hist{}
		var nextSlot atomic.Int32
		var crossWake atomic.Int32
		var wg sync.WaitGroup
		start := make(chan struct{})
		for a := 0; a < n; a++ {
			wg.Add(1)
			go func(a int) {
				defer wg.Done()
				type mine struct {
					slot   int
					ch     <-chan struct{}
					target uint64
				}
				var subs []mine
				var maxOwnSig uint64
				<-start
				for _, s := range progs[a] {
					c34Yield(s.Before)
					switch s.Kind {
					case "sub":
						slot := int(nextSlot.Add(1)) - 1
						c := h.call()
						ch := r.Subscribe(s.Val)
						h.ret(a, c34RtIn{"sub", slot, s.Val}, nil, c)
						subs = append(subs, mine{slot, ch, s.Val})
					case "sig":
						c := h.call()
						r.Signal(s.Val)
						h.ret(a, c34RtIn{"sig", 0, s.Val}, nil, c)
						if s.Val > maxOwnSig {
							maxOwnSig = s.Val
						}
					case "poll":
						if len(subs) == 0 {
							continue
						}
						m := subs[s.Pick%len(subs)]
						c := h.call()
						closed := false
						select {
						case <-m.ch:
							closed = true
						default:
						}
						h.ret(a, c34RtIn{"poll", m.slot, 0}, closed, c)
						if closed && m.target > maxOwnSig && m.target > 0 {
							crossWake.Add(1)
						}
					case "unsub":
						if len(subs) == 0 {
							continue
						}
						m := subs[s.Pick%len(subs)]
						c := h.call()
						r.Unsubscribe(m.ch)
						h.ret(a, c34RtIn{"unsub", m.slot, 0}, nil, c)
					}
				}
			}(a)
		}
		close(start)
		canon := fmt.Sprintf("%v", progs)
		var slow bool
		if !c34Join(&wg, &slow) {
			rec.Label("inconclusive:stress-deadline")
			wg.Wait()
			return
		}
		rec.Case(crossWake.Load() > 0, canon)
		rec.Sample(canon)
		if crossWake.Load() > 0 {
			rec.Label("woken-by-other-goroutine")
		}
		switch porcupine.CheckOperationsTimeout(c34RtModel, h.ops, 20*time.Second) {
		case porcupine.Illegal:
			rt.Fatalf("%s", rec.Violation("C34/readytarget-not-linearizable", "history is not explained by the ready-target model (a waiter was woken early or not woken): %s", c34RenderHist(h.ops)))
		case porcupine.Unknown:
			rec.Label("inconclusive:porcupine-timeout")
		}
	})
}
