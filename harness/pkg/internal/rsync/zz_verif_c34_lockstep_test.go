package rsync

// C34: coordination primitives are safe and make progress.
//
// Lock-step exploration: a generated sequence of operations is issued one at a
// time by 2-4 logical actors. Non-blocking operations are called directly and
// their result is compared with a sequential model written from the property
// text. Blocking operations (BeginWithRetry with a long timeout,
// BeginReadBlocking, BeginWriteBlocking) run in their own goroutine and are
// observed:
//   - "must proceed": the call has finished within c34Proceed (10 s, generous;
//     only a hang can exceed it);
//   - "must block": the call is still not finished after c34Block (25 ms). A
//     call that finishes although the model says it must wait is a violation
//     whenever it is seen, so a short wait is sound.
// No assertion is made on how long anything took.

import (
	"errors"
	"fmt"
	"strings"
	"testing"
	"time"

	"github.com/rqlite/rqlite/v10/internal/verif/vstat"
	"pgregory.net/rapid"
)

const (
	c34Proceed = 10 * time.Second
	c34Block   = 25 * time.Millisecond
)

// c34Call is one blocking call running in its own goroutine.
type c34Call struct {
	actor int
	kind  string // "retry", "rb", "wb"
	done  chan error
}

func (c *c34Call) finished() (error, bool) {
	select {
	case err := <-c.done:
		return err, true
	default:
		return nil, false
	}
}

// c34WaitAny waits until one of the calls has finished; returns its position or -1.
func c34WaitAny(calls []*c34Call, d time.Duration) (int, error) {
	deadline := time.Now().Add(d)
	for {
		for i, c := range calls {
			if err, ok := c.finished(); ok {
				return i, err
			}
		}
		if time.Now().After(deadline) {
			return -1, nil
		}
		time.Sleep(200 * time.Microsecond)
	}
}

var c34Names = []string{"a", "b", "c", "d"}

// ---------------------------------------------------------------------------
// CheckAndSet

type c34CasOp struct {
	Kind     string // begin, end, retry-long, retry-short, owner
	Actor    int
	Timeout  time.Duration
	Interval time.Duration
}

func (o c34CasOp) String() string {
	switch o.Kind {
	case "retry-long", "retry-short":
		return fmt.Sprintf("%s(%s,%v,%v)", o.Kind, c34Names[o.Actor], o.Timeout, o.Interval)
	case "owner":
		return "owner"
	}
	return fmt.Sprintf("%s(%s)", o.Kind, c34Names[o.Actor])
}

func TestVerif_C34_CASLockstep(t *testing.T) {
	rec := vstat.New(t, "C34", "cas-lockstep",
		"lock-step sequences of 4..14 ops over 2-3 actors on one CheckAndSet: Begin, End (by the holder), BeginWithRetry with a long timeout in a goroutine (must block while held, exactly one waiter proceeds after End), BeginWithRetry with a 0-15ms timeout (must time out while held), Owner/Stats; non-trivial = at least one retrying waiter was blocked and later admitted, or a Begin/short retry was refused; distinct by op sequence")
	rapid.Check(t, func(rt *rapid.T) {
		nActors := rapid.IntRange(2, 3).Draw(rt, "actors")
		nOps := rapid.IntRange(4, 14).Draw(rt, "nops")
		cas := NewCheckAndSet()
		holder := -1
		state := make([]int, nActors) // 0 idle, 1 holding, 2 waiting
		var waiters []*c34Call
		var trace []string
		nontrivial := false
		admitted, refused, contended := 0, 0, 0

		// drain releases the gate until every outstanding retrying call has
		// returned, so that no goroutine outlives the case.
		drain := func(extra ...*c34Call) {
			all := append(append([]*c34Call{}, waiters...), extra...)
			for len(all) > 0 {
				cas.End()
				i, _ := c34WaitAny(all, c34Proceed)
				if i < 0 {
					break
				}
				all = append(all[:i], all[i+1:]...)
			}
			cas.End()
			waiters = nil
		}
		fail := func(sig, f string, a ...any) {
			msg := rec.Violation(sig, f+" :: trace=%s", append(a, strings.Join(trace, " "))...)
			drain()
			rt.Fatalf("%s", msg)
		}

		// settle brings real waiters and the model to a stable state.
		settle := func() {
			if holder == -1 && len(waiters) > 0 {
				if len(waiters) > 1 {
					contended++
				}
				i, err := c34WaitAny(waiters, c34Proceed)
				if i < 0 {
					fail("C34/cas-waiter-not-admitted", "gate is free but none of %d retrying waiters got in within %v", len(waiters), c34Proceed)
				}
				w := waiters[i]
				waiters = append(waiters[:i], waiters[i+1:]...)
				if err != nil {
					fail("C34/cas-waiter-error", "BeginWithRetry(%s) with a 60s timeout returned %v after the holder released", c34Names[w.actor], err)
				}
				holder = w.actor
				state[w.actor] = 1
				admitted++
				nontrivial = true
				trace = append(trace, "["+c34Names[w.actor]+"-admitted]")
			}
			if len(waiters) > 0 {
				time.Sleep(c34Block)
				for i, w := range waiters {
					if err, ok := w.finished(); ok {
						waiters = append(waiters[:i], waiters[i+1:]...)
						fail("C34/cas-two-holders", "BeginWithRetry(%s) returned (%v) while %s holds the gate", c34Names[w.actor], err, c34Names[holder])
					}
				}
			}
		}

		for step := 0; step < nOps; step++ {
			var kinds []string
			var idle, holding []int
			for a := 0; a < nActors; a++ {
				switch state[a] {
				case 0:
					idle = append(idle, a)
				case 1:
					holding = append(holding, a)
				}
			}
			if len(idle) > 0 {
				kinds = append(kinds, "begin", "begin", "retry-long", "retry-long", "retry-short")
			}
			if len(holding) > 0 {
				kinds = append(kinds, "end", "end", "end")
			}
			kinds = append(kinds, "owner")
			op := c34CasOp{Kind: rapid.SampledFrom(kinds).Draw(rt, "kind")}
			switch op.Kind {
			case "begin", "retry-long", "retry-short":
				op.Actor = rapid.SampledFrom(idle).Draw(rt, "actor")
			case "end":
				op.Actor = holding[0]
			}
			switch op.Kind {
			case "retry-long":
				op.Timeout = 60 * time.Second
				op.Interval = time.Duration(rapid.IntRange(1, 4).Draw(rt, "ivl")) * time.Millisecond
			case "retry-short":
				op.Timeout = time.Duration(rapid.IntRange(0, 15).Draw(rt, "tmo")) * time.Millisecond
				op.Interval = time.Duration(rapid.IntRange(1, 5).Draw(rt, "ivl")) * time.Millisecond
			}
			trace = append(trace, op.String())
			name := c34Names[op.Actor]
			switch op.Kind {
			case "begin":
				err := cas.Begin(name)
				if holder == -1 {
					if err != nil {
						fail("C34/cas-begin-refused-when-free", "Begin(%s) on a free gate returned %v", name, err)
					}
					holder, state[op.Actor] = op.Actor, 1
				} else {
					if err == nil {
						fail("C34/cas-two-holders", "Begin(%s) succeeded while %s holds the gate", name, c34Names[holder])
					}
					if !errors.Is(err, ErrCASConflict) {
						fail("C34/cas-begin-wrong-error", "Begin(%s) while held returned %v, not ErrCASConflict", name, err)
					}
					refused++
					nontrivial = true
				}
			case "end":
				cas.End()
				holder, state[op.Actor] = -1, 0
			case "retry-long":
				c := &c34Call{actor: op.Actor, kind: "retry", done: make(chan error, 1)}
				go func() { c.done <- cas.BeginWithRetry(name, op.Timeout, op.Interval) }()
				state[op.Actor] = 2
				waiters = append(waiters, c)
			case "retry-short":
				c := &c34Call{actor: op.Actor, kind: "retry", done: make(chan error, 1)}
				go func() { c.done <- cas.BeginWithRetry(name, op.Timeout, op.Interval) }()
				i, err := c34WaitAny([]*c34Call{c}, c34Proceed)
				if i < 0 {
					// not a property claim: do not judge, but do not leak the goroutine either
					rec.Label("inconclusive:short-retry-did-not-return")
					drain(c)
					return
				}
				if holder == -1 {
					if err != nil {
						fail("C34/cas-begin-refused-when-free", "BeginWithRetry(%s,%v) on a free gate returned %v", name, op.Timeout, err)
					}
					holder, state[op.Actor] = op.Actor, 1
				} else {
					if err == nil {
						fail("C34/cas-two-holders", "BeginWithRetry(%s,%v) succeeded while %s holds the gate", name, op.Timeout, c34Names[holder])
					}
					if !errors.Is(err, ErrCASConflictTimeout) {
						fail("C34/cas-begin-wrong-error", "BeginWithRetry(%s,%v) while held returned %v, not ErrCASConflictTimeout", name, op.Timeout, err)
					}
					refused++
					nontrivial = true
				}
			case "owner":
				want := ""
				if holder != -1 {
					want = c34Names[holder]
				}
				if got := cas.Owner(); got != want {
					fail("C34/cas-owner-mismatch", "Owner()=%q, model holder %q", got, want)
				}
				so := cas.Stats()["owner"]
				if holder == -1 && so != nil || holder != -1 && so != any(want) {
					fail("C34/cas-owner-mismatch", "Stats()[owner]=%v, model holder %q", so, want)
				}
			}
			settle()
		}
		// drain
		for holder != -1 || len(waiters) > 0 {
			if holder != -1 {
				cas.End()
				state[holder] = 0
				holder = -1
			}
			settle()
		}
		if cas.Owner() != "" {
			fail("C34/cas-owner-mismatch", "gate still owned by %q after everything was released", cas.Owner())
		}
		rec.Case(nontrivial, strings.Join(trace, " "))
		rec.Sample(strings.Join(trace, " "))
		if admitted > 0 {
			rec.Label("waiter-admitted-after-end")
		}
		if contended > 0 {
			rec.Label("two-waiters-contended")
		}
		if refused > 0 {
			rec.Label("begin-or-short-retry-refused")
		}
	})
}

// ---------------------------------------------------------------------------
// MultiRSW

type c34MrswModel struct {
	readers int
	writer  int // -1 none
}

func (m c34MrswModel) canRead() bool  { return m.writer == -1 }
func (m c34MrswModel) canWrite() bool { return m.writer == -1 && m.readers == 0 }

func TestVerif_C34_MRSWLockstep(t *testing.T) {
	rec := vstat.New(t, "C34", "mrsw-lockstep",
		"lock-step sequences of 5..16 ops over 2-4 actors on one MultiRSW: BeginRead/BeginWrite (try forms), EndRead/EndWrite by a holder, UpgradeToWriter by a reader, BeginReadBlocking/BeginWriteBlocking in goroutines; after every op the set of finished blocking calls must be one the model allows (all blocked readers, or exactly one writer) and every call the model keeps blocked must still be blocked after 25ms; non-trivial = a blocked acquirer was admitted after a release, or a try form/upgrade was refused; distinct by op sequence")
	rapid.Check(t, func(rt *rapid.T) {
		nActors := rapid.IntRange(2, 4).Draw(rt, "actors")
		nOps := rapid.IntRange(5, 16).Draw(rt, "nops")
		l := NewMultiRSW()
		m := c34MrswModel{writer: -1}
		state := make([]int, nActors) // 0 idle, 1 reader, 2 writer, 3 blocked
		var blocked []*c34Call
		var trace []string
		nontrivial := false
		admittedR, admittedW, refused, upgraded, mixedWake, multiReaderWake := 0, 0, 0, 0, 0, 0

		drainAll := func() {
			// best effort release so that goroutines end (the lock may be in a
			// state in which a release panics: the violation is already recorded)
			defer func() { recover() }()
			deadline := time.Now().Add(2 * time.Second)
			for len(blocked) > 0 && time.Now().Before(deadline) {
				for a := range state {
					switch state[a] {
					case 1:
						l.EndRead()
						state[a] = 0
					case 2:
						l.EndWrite()
						state[a] = 0
					}
				}
				i, _ := c34WaitAny(blocked, 200*time.Millisecond)
				if i >= 0 {
					c := blocked[i]
					blocked = append(blocked[:i], blocked[i+1:]...)
					if c.kind == "rb" {
						state[c.actor] = 1
					} else {
						state[c.actor] = 2
					}
				}
			}
		}
		fail := func(sig, f string, a ...any) {
			msg := rec.Violation(sig, f+" :: trace=%s", append(a, strings.Join(trace, " "))...)
			drainAll()
			rt.Fatalf("%s", msg)
		}
		describe := func() string {
			w := "-"
			if m.writer != -1 {
				w = c34Names[m.writer]
			}
			return fmt.Sprintf("model{readers=%d writer=%s}", m.readers, w)
		}

		settle := func() {
			readersThisSettle := 0
			defer func() {
				if readersThisSettle >= 2 {
					multiReaderWake++
				}
			}()
			for {
				enabled := 0
				hasR, hasW := false, false
				for _, c := range blocked {
					if c.kind == "rb" && m.canRead() || c.kind == "wb" && m.canWrite() {
						enabled++
						if c.kind == "rb" {
							hasR = true
						} else {
							hasW = true
						}
					}
				}
				if enabled == 0 {
					break
				}
				if hasR && hasW {
					mixedWake++
				}
				i, _ := c34WaitAny(blocked, c34Proceed)
				if i < 0 {
					fail("C34/mrsw-blocked-acquirer-not-admitted", "%s: %d blocked acquirer(s) could proceed but none did within %v", describe(), enabled, c34Proceed)
				}
				c := blocked[i]
				blocked = append(blocked[:i], blocked[i+1:]...)
				name := c34Names[c.actor]
				if c.kind == "rb" {
					if !m.canRead() {
						state[c.actor] = 1
						fail("C34/mrsw-reader-with-writer", "BeginReadBlocking(%s) returned while %s", name, describe())
					}
					m.readers++
					state[c.actor] = 1
					admittedR++
					readersThisSettle++
					trace = append(trace, "["+name+"-rb-admitted]")
				} else {
					if !m.canWrite() {
						state[c.actor] = 2
						fail("C34/mrsw-writer-not-exclusive", "BeginWriteBlocking(%s) returned while %s", name, describe())
					}
					m.writer = c.actor
					state[c.actor] = 2
					admittedW++
					trace = append(trace, "["+name+"-wb-admitted]")
				}
				nontrivial = true
			}
			if len(blocked) > 0 {
				time.Sleep(c34Block)
				for i, c := range blocked {
					if _, ok := c.finished(); ok {
						blocked = append(blocked[:i], blocked[i+1:]...)
						if c.kind == "rb" {
							state[c.actor] = 1
							fail("C34/mrsw-reader-with-writer", "BeginReadBlocking(%s) returned while %s", c34Names[c.actor], describe())
						}
						state[c.actor] = 2
						fail("C34/mrsw-writer-not-exclusive", "BeginWriteBlocking(%s) returned while %s", c34Names[c.actor], describe())
					}
				}
			}
		}

		for step := 0; step < nOps; step++ {
			var idle, readers, writers []int
			for a := 0; a < nActors; a++ {
				switch state[a] {
				case 0:
					idle = append(idle, a)
				case 1:
					readers = append(readers, a)
				case 2:
					writers = append(writers, a)
				}
			}
			var kinds []string
			if len(idle) > 0 {
				kinds = append(kinds, "r", "w", "rb", "rb", "wb", "wb")
			}
			if len(readers) > 0 {
				kinds = append(kinds, "er", "er", "up")
			}
			if len(writers) > 0 {
				kinds = append(kinds, "ew", "ew", "ew")
			}
			if len(kinds) == 0 {
				break // everybody blocked: cannot happen in a stable state, but be safe
			}
			kind := rapid.SampledFrom(kinds).Draw(rt, "kind")
			var actor int
			switch kind {
			case "r", "w", "rb", "wb":
				actor = rapid.SampledFrom(idle).Draw(rt, "actor")
			case "er", "up":
				actor = rapid.SampledFrom(readers).Draw(rt, "actor")
			case "ew":
				actor = writers[0]
			}
			name := c34Names[actor]
			trace = append(trace, kind+"("+name+")")
			switch kind {
			case "r":
				err := l.BeginRead()
				if m.canRead() {
					if err != nil {
						fail("C34/mrsw-try-refused-when-free", "BeginRead(%s) refused (%v) with %s", name, err, describe())
					}
					m.readers++
					state[actor] = 1
				} else {
					if err == nil {
						state[actor] = 1
						fail("C34/mrsw-reader-with-writer", "BeginRead(%s) admitted with %s", name, describe())
					}
					refused++
					nontrivial = true
				}
			case "w":
				err := l.BeginWrite(name)
				if m.canWrite() {
					if err != nil {
						fail("C34/mrsw-try-refused-when-free", "BeginWrite(%s) refused (%v) with %s", name, err, describe())
					}
					m.writer = actor
					state[actor] = 2
				} else {
					if err == nil {
						state[actor] = 2
						fail("C34/mrsw-writer-not-exclusive", "BeginWrite(%s) admitted with %s", name, describe())
					}
					var ce *ErrMRSWConflict
					if !errors.As(err, &ce) {
						fail("C34/mrsw-wrong-error", "BeginWrite(%s) returned %T %v", name, err, err)
					}
					refused++
					nontrivial = true
				}
			case "er":
				l.EndRead()
				m.readers--
				state[actor] = 0
			case "ew":
				l.EndWrite()
				m.writer = -1
				state[actor] = 0
			case "up":
				err := l.UpgradeToWriter(name)
				if m.readers == 1 && m.writer == -1 {
					if err != nil {
						fail("C34/mrsw-try-refused-when-free", "UpgradeToWriter(%s) by the only reader refused: %v", name, err)
					}
					m.readers, m.writer = 0, actor
					state[actor] = 2
					upgraded++
				} else {
					if err == nil {
						state[actor] = 2
						fail("C34/mrsw-writer-not-exclusive", "UpgradeToWriter(%s) admitted with %s", name, describe())
					}
					refused++
					nontrivial = true
				}
			case "rb":
				c := &c34Call{actor: actor, kind: "rb", done: make(chan error, 1)}
				go func() { l.BeginReadBlocking(); c.done <- nil }()
				state[actor] = 3
				blocked = append(blocked, c)
			case "wb":
				c := &c34Call{actor: actor, kind: "wb", done: make(chan error, 1)}
				go func() { l.BeginWriteBlocking(name); c.done <- nil }()
				state[actor] = 3
				blocked = append(blocked, c)
			}
			settle()
		}
		// release everything in model order; every blocked acquirer must get in
		for guard := 0; guard < 64; guard++ {
			released := false
			for a := range state {
				switch state[a] {
				case 1:
					l.EndRead()
					m.readers--
					state[a] = 0
					released = true
				case 2:
					l.EndWrite()
					m.writer = -1
					state[a] = 0
					released = true
				}
			}
			settle()
			if !released && len(blocked) == 0 {
				break
			}
		}
		// the lock must be free again
		if err := l.BeginWrite("final"); err != nil {
			fail("C34/mrsw-try-refused-when-free", "BeginWrite on a fully released lock refused: %v", err)
		}
		l.EndWrite()

		rec.Case(nontrivial, strings.Join(trace, " "))
		rec.Sample(strings.Join(trace, " "))
		if admittedR > 0 {
			rec.Label("blocked-reader-admitted")
		}
		if admittedW > 0 {
			rec.Label("blocked-writer-admitted")
		}
		if mixedWake > 0 {
			rec.Label("reader-and-writer-woken-together")
		}
		if multiReaderWake > 0 {
			rec.Label(">=2-blocked-readers-admitted-by-one-release(all-keep-holding)")
		}
		if refused > 0 {
			rec.Label("try-or-upgrade-refused")
		}
		if upgraded > 0 {
			rec.Label("upgrade-succeeded")
		}
	})
}

// ---------------------------------------------------------------------------
// ReadyTarget: fully deterministic (channels are closed inside Signal), so the
// model is compared after every single operation without any waiting.

type c34Sub struct {
	target uint64
	ch     <-chan struct{}
	woken  bool // model
	live   bool // model: still registered
}

func TestVerif_C34_ReadyTargetSeq(t *testing.T) {
	rec := vstat.New(t, "C34", "readytarget-seq",
		"sequences of 5..40 ops on one ReadyTarget[uint64]: Subscribe(target), Signal(index), Unsubscribe, Reset, Len over indexes 0..12 (so equal/adjacent values are common); after every op each subscription's channel must be closed iff the model says woken (target <= current at subscribe, or a later Signal(index>=target) while subscribed and index above the current value); non-trivial = some subscriber was woken by a later Signal and some subscriber stayed pending across a lower Signal; distinct by op sequence")
	rapid.Check(t, func(rt *rapid.T) {
		r := NewReadyTarget[uint64]()
		var cur uint64
		var subs []*c34Sub
		var trace []string
		nOps := rapid.IntRange(5, 40).Draw(rt, "nops")
		wokenLater, keptPending, immediate, unsubbed, resets := 0, 0, 0, 0, 0
		fail := func(sig, f string, a ...any) {
			rt.Fatalf("%s", rec.Violation(sig, f+" :: trace=%s", append(a, strings.Join(trace, " "))...))
		}
		check := func() {
			pending := 0
			for i, s := range subs {
				closed := false
				select {
				case <-s.ch:
					closed = true
				default:
				}
				if closed && !s.woken {
					fail("C34/readytarget-woken-early", "subscriber #%d target=%d is closed but must not be (current=%d)", i, s.target, cur)
				}
				if !closed && s.woken {
					fail("C34/readytarget-not-woken", "subscriber #%d target=%d is not closed although target was reached (current=%d)", i, s.target, cur)
				}
				if s.live && !s.woken {
					pending++
				}
			}
			if got := r.Len(); got != pending {
				fail("C34/readytarget-len", "Len()=%d, model has %d pending subscribers", got, pending)
			}
		}
		for step := 0; step < nOps; step++ {
			k := rapid.SampledFrom([]string{"sub", "sub", "sub", "sig", "sig", "sig", "unsub", "reset"}).Draw(rt, "kind")
			switch k {
			case "sub":
				tg := uint64(rapid.IntRange(0, 12).Draw(rt, "target"))
				trace = append(trace, fmt.Sprintf("sub(%d)", tg))
				s := &c34Sub{target: tg, ch: r.Subscribe(tg), live: true}
				if tg <= cur {
					s.woken = true
					s.live = false
					immediate++
				}
				subs = append(subs, s)
			case "sig":
				ix := uint64(rapid.IntRange(0, 13).Draw(rt, "index"))
				trace = append(trace, fmt.Sprintf("sig(%d)", ix))
				r.Signal(ix)
				if ix > cur {
					cur = ix
					for _, s := range subs {
						if s.live && !s.woken {
							if s.target <= ix {
								s.woken, s.live = true, false
								wokenLater++
							} else {
								keptPending++
							}
						}
					}
				}
			case "unsub":
				if len(subs) == 0 {
					continue
				}
				i := rapid.IntRange(0, len(subs)-1).Draw(rt, "which")
				trace = append(trace, fmt.Sprintf("unsub(#%d)", i))
				r.Unsubscribe(subs[i].ch)
				if subs[i].live {
					unsubbed++
				}
				subs[i].live = false
			case "reset":
				trace = append(trace, "reset")
				r.Reset()
				cur = 0
				for _, s := range subs {
					s.live = false
				}
				resets++
			}
			check()
		}
		rec.Case(wokenLater > 0 && keptPending > 0, strings.Join(trace, " "))
		rec.Sample(strings.Join(trace, " "))
		if wokenLater > 0 {
			rec.Label("woken-by-later-signal")
		}
		if keptPending > 0 {
			rec.Label("pending-across-lower-signal")
		}
		if immediate > 0 {
			rec.Label("closed-at-subscribe")
		}
		if unsubbed > 0 {
			rec.Label("unsubscribed-while-pending")
		}
		if resets > 0 {
			rec.Label("reset")
		}
	})
}
