package c35

// C35 unit "store": the inter-node port of a node backed by the REAL store.
// Units frames/node use fakes behind cluster.Service, so a well-formed but
// degenerate command that passes the permission check (no credential store is
// configured here, the most common deployment) and is then mishandled deeper
// down -- store, raft FSM, database layer -- would go unnoticed there. Here a
// child process runs a bootstrapped single-node store + cluster.Service +
// tcp.Mux; the parent sends generated, syntactically valid protobuf commands
// of every type with degenerate payloads (nil inner request, no statements,
// empty / garbage SQL, nil parameter values, out-of-range enums, negative
// timeouts, garbage load data, unknown node ids ...) and after each one
// requires the node to be alive and still answering GET_NODE_META and a
// level-none `SELECT 1` on fresh connections.
//
// "Crash" = the child process died (a panic in the raft FSM goroutine cannot
// be recovered by anybody). A command that is refused with an error is fine.

import (
	"bufio"
	"bytes"
	"context"
	"encoding/binary"
	"fmt"
	"io"
	"log"
	"math/rand"
	"net"
	"os"
	"os/exec"
	"strings"
	"sync"
	"testing"
	"time"

	"github.com/rqlite/rqlite/v10/cluster"
	"github.com/rqlite/rqlite/v10/cluster/proto"
	command "github.com/rqlite/rqlite/v10/command/proto"
	"github.com/rqlite/rqlite/v10/internal/verif/vstat"
	"github.com/rqlite/rqlite/v10/store"
	"github.com/rqlite/rqlite/v10/tcp"
	pb "google.golang.org/protobuf/proto"
	"pgregory.net/rapid"
)

// ------------------------------------------------------------------ child ----

func TestVerif_C35_StoreChild(t *testing.T) {
	if os.Getenv("VERIF_C35_STORE_CHILD") == "" {
		t.Skip("helper process for TestVerif_C35_Store")
	}
	die := func(err error) { fmt.Println("ERR", err); os.Exit(3) }
	dir, err := os.MkdirTemp("", "c35store")
	if err != nil {
		die(err)
	}
	discard := log.New(io.Discard, "", 0)
	ln, err := g7Listen()
	if err != nil {
		die(err)
	}
	mux, err := tcp.NewMux(ln, nil)
	if err != nil {
		die(err)
	}
	mux.Logger = discard
	raftLn := mux.Listen(cluster.MuxRaftHeader)
	clstrLn := mux.Listen(cluster.MuxClusterHeader)
	go mux.Serve()
	st := store.New(&store.Config{DBConf: store.NewDBConfig(), Dir: dir, ID: "n1", Logger: discard},
		tcp.NewLayer(raftLn, tcp.NewDialer(cluster.MuxRaftHeader, nil)))
	st.RaftLogLevel = "OFF"
	st.NoSnapshotOnClose = true
	if err := st.Open(); err != nil {
		die(err)
	}
	if err := st.Bootstrap(store.NewServer("n1", st.Addr(), true)); err != nil {
		die(err)
	}
	if _, err := st.WaitForLeader(30 * time.Second); err != nil {
		die(err)
	}
	if _, _, err := st.Execute(context.Background(), &command.ExecuteRequest{Request: &command.Request{Statements: []*command.Statement{
		{Sql: "CREATE TABLE t(id INTEGER PRIMARY KEY, v TEXT)"}, {Sql: "INSERT INTO t(v) VALUES('x')"}}}}); err != nil {
		die(err)
	}
	svc := cluster.New(clstrLn, st, st, nil)
	svc.SetAPIAddr("127.0.0.1:4001")
	if err := svc.Open(); err != nil {
		die(err)
	}
	fmt.Println("ADDR", ln.Addr().String())
	in := bufio.NewReader(os.Stdin)
	for {
		line, err := in.ReadString('\n')
		if err != nil || strings.TrimSpace(line) == "QUIT" {
			os.RemoveAll(dir)
			os.Exit(0)
		}
	}
}

// ----------------------------------------------------------------- parent ----

type child struct {
	cmd    *exec.Cmd
	stdin  io.WriteCloser
	addr   string
	dir    string
	errMu  sync.Mutex
	errBuf bytes.Buffer
	done   chan struct{}
}

type errWriter struct{ c *child }

func (w errWriter) Write(p []byte) (int, error) {
	w.c.errMu.Lock()
	if w.c.errBuf.Len() < 64<<10 {
		w.c.errBuf.Write(p)
	}
	w.c.errMu.Unlock()
	return len(p), nil
}

func startChild() (*child, error) {
	self := os.Getenv("VERIF_SELF")
	if self == "" {
		self = os.Args[0]
	}
	tmp, err := os.MkdirTemp("", "c35store-parent")
	if err != nil {
		return nil, err
	}
	cmd := exec.Command(self, "-test.run", "^TestVerif_C35_StoreChild$", "-test.timeout", "0")
	env := []string{"VERIF_C35_STORE_CHILD=1", "TMPDIR=" + tmp}
	for _, e := range os.Environ() {
		if !strings.HasPrefix(e, "VERIF_STATS_DIR=") && !strings.HasPrefix(e, "TMPDIR=") {
			env = append(env, e)
		}
	}
	cmd.Env = env
	c := &child{cmd: cmd, done: make(chan struct{}), dir: tmp}
	if c.stdin, err = cmd.StdinPipe(); err != nil {
		return nil, err
	}
	so, err := cmd.StdoutPipe()
	if err != nil {
		return nil, err
	}
	cmd.Stderr = errWriter{c}
	if err := cmd.Start(); err != nil {
		return nil, err
	}
	rd := bufio.NewReader(so)
	line, err := rd.ReadString('\n')
	if err != nil || !strings.HasPrefix(line, "ADDR ") {
		cmd.Process.Kill()
		cmd.Wait()
		os.RemoveAll(tmp)
		return nil, fmt.Errorf("child did not start: %q %v %s", line, err, c.stderr())
	}
	c.addr = strings.TrimSpace(strings.TrimPrefix(line, "ADDR "))
	go func() { io.Copy(io.Discard, rd); cmd.Wait(); close(c.done) }()
	return c, nil
}

func (c *child) stderr() string {
	c.errMu.Lock()
	defer c.errMu.Unlock()
	s := c.errBuf.String()
	if i := strings.Index(s, "panic:"); i > 0 {
		s = s[i:]
	}
	if len(s) > 700 {
		s = s[:700]
	}
	return s
}

func (c *child) alive() bool {
	select {
	case <-c.done:
		return false
	default:
		return true
	}
}

func (c *child) stop() {
	if c == nil {
		return
	}
	io.WriteString(c.stdin, "QUIT\n")
	c.stdin.Close()
	select {
	case <-c.done:
	case <-time.After(15 * time.Second):
		c.cmd.Process.Kill()
		<-c.done
	}
	os.RemoveAll(c.dir)
}

// exchange sends one command on a fresh connection and returns the first
// response frame (nil if the node closed without answering).
func exchange(addr string, cmd *proto.Command, wait time.Duration) ([]byte, error) {
	conn, err := g7Dial(addr)
	if err != nil {
		return nil, err
	}
	defer conn.Close()
	p, err := pb.Marshal(cmd)
	if err != nil {
		return nil, err
	}
	buf := append([]byte{cluster.MuxClusterHeader}, binary.LittleEndian.AppendUint64(nil, uint64(len(p)))...)
	buf = append(buf, p...)
	if _, err := conn.Write(buf); err != nil {
		return nil, nil
	}
	// half-close: after this command the node sees EOF and closes, so a command
	// that produces no response does not make us wait for the deadline
	conn.(*net.TCPConn).CloseWrite()
	conn.SetReadDeadline(time.Now().Add(wait))
	hdr := make([]byte, 8)
	if _, err := io.ReadFull(conn, hdr); err != nil {
		return nil, nil
	}
	sz := binary.LittleEndian.Uint64(hdr)
	if sz > 64<<20 {
		return nil, fmt.Errorf("response frame of %d bytes", sz)
	}
	out := make([]byte, sz)
	if _, err := io.ReadFull(conn, out); err != nil {
		return nil, nil
	}
	return out, nil
}

func probe(addr string) error {
	out, err := exchange(addr, &proto.Command{Type: proto.Command_COMMAND_TYPE_GET_NODE_META}, 20*time.Second)
	if err != nil || out == nil {
		return fmt.Errorf("GET_NODE_META unanswered (%v)", err)
	}
	nm := &proto.NodeMeta{}
	if err := pb.Unmarshal(out, nm); err != nil || nm.Url != "http://127.0.0.1:4001" {
		return fmt.Errorf("GET_NODE_META wrong answer %v %v", nm, err)
	}
	q := &proto.Command{Type: proto.Command_COMMAND_TYPE_QUERY, Request: &proto.Command_QueryRequest{QueryRequest: &command.QueryRequest{
		Request: &command.Request{Statements: []*command.Statement{{Sql: "SELECT 1"}}}, Level: command.ConsistencyLevel_NONE}}}
	out, err = exchange(addr, q, 20*time.Second)
	if err != nil || out == nil {
		return fmt.Errorf("QUERY unanswered (%v)", err)
	}
	qr := &proto.CommandQueryResponse{}
	if err := pb.Unmarshal(out, qr); err != nil {
		return err
	}
	if qr.Error != "" || len(qr.Rows) != 1 || qr.Rows[0].Error != "" || len(qr.Rows[0].Values) != 1 {
		return fmt.Errorf("level-none SELECT 1 not served: %v", qr)
	}
	return nil
}

// -------------------------------------------------------------- generator ----

func genStatement(rt *rapid.T) *command.Statement {
	s := &command.Statement{Sql: rapid.SampledFrom([]string{
		"", " ", ";", "SELECT", "SELECT * FROM t", "INSERT INTO t(v) VALUES(?)", "INSERT INTO t(v) VALUES(:a)", "SELECT ?1, ?3",
		"\x00", "SELECT '\u00e9\U0001F600'", "PRAGMA journal_mode", "BEGIN", "COMMIT", "ROLLBACK", "SAVEPOINT s", "SELECT * FROM nosuch",
		"CREATE TABLE IF NOT EXISTS u(a)", "DROP TABLE IF EXISTS u", "SELECT random()", "SELECT 1; SELECT 2", "garbage ((",
		"EXPLAIN SELECT 1", "VACUUM", "INSERT INTO t(v) VALUES('y') RETURNING *", "ATTACH DATABASE ':memory:' AS m",
	}).Draw(rt, "sql"), ForceQuery: rapid.Bool().Draw(rt, "force-query"), ForceStall: false}
	np := rapid.IntRange(0, 3).Draw(rt, "nparams")
	for i := 0; i < np; i++ {
		p := &command.Parameter{Name: rapid.SampledFrom([]string{"", "a", "?", "\x00"}).Draw(rt, "pname")}
		switch rapid.IntRange(0, 6).Draw(rt, "pkind") {
		case 0: // nil value
		case 1:
			p.Value = &command.Parameter_I{I: rapid.Int64().Draw(rt, "pi")}
		case 2:
			p.Value = &command.Parameter_D{D: rapid.Float64().Draw(rt, "pd")}
		case 3:
			p.Value = &command.Parameter_B{B: true}
		case 4:
			p.Value = &command.Parameter_Y{Y: rapid.SliceOfN(rapid.Byte(), 0, 8).Draw(rt, "py")}
		case 5:
			p.Value = &command.Parameter_Y{Y: nil}
		case 6:
			p.Value = &command.Parameter_S{S: rapid.SampledFrom([]string{"", "x", "\u0000", strings.Repeat("z", 100)}).Draw(rt, "ps")}
		}
		s.Parameters = append(s.Parameters, p)
	}
	return s
}

func genRequest(rt *rapid.T) *command.Request {
	switch rapid.IntRange(0, 5).Draw(rt, "req-shape") {
	case 0:
		return nil
	case 1:
		return &command.Request{}
	}
	r := &command.Request{
		Transaction:     rapid.Bool().Draw(rt, "tx"),
		DbTimeout:       rapid.SampledFrom([]int64{0, 1, -1, 1 << 62, -(1 << 62), 1000000}).Draw(rt, "dbtimeout"),
		RollbackOnError: rapid.Bool().Draw(rt, "rollback"),
		QualifyColumns:  rapid.Bool().Draw(rt, "qualify"),
	}
	n := rapid.IntRange(0, 3).Draw(rt, "nstmts")
	for i := 0; i < n; i++ {
		if rapid.IntRange(0, 9).Draw(rt, "nil-stmt") == 0 {
			r.Statements = append(r.Statements, &command.Statement{}) // a nil element encodes as an empty message
			continue
		}
		r.Statements = append(r.Statements, genStatement(rt))
	}
	return r
}

func genLevel(rt *rapid.T) command.ConsistencyLevel {
	return command.ConsistencyLevel(rapid.SampledFrom([]int32{0, 1, 2, 3, 4, 5, 99, -1}).Draw(rt, "level"))
}

type generated struct {
	cmd  *proto.Command
	desc string
}

func genCommand(rt *rapid.T) generated {
	kind := rapid.SampledFrom([]string{"EXECUTE", "EXECUTE", "QUERY", "QUERY", "REQUEST", "REQUEST", "BACKUP", "BACKUP_STREAM", "LOAD", "LOAD_CHUNK",
		"REMOVE_NODE", "NOTIFY", "JOIN", "STEPDOWN", "HWM", "GET_NODE_META", "UNKNOWN", "OUT_OF_RANGE"}).Draw(rt, "cmd")
	c := &proto.Command{}
	if rapid.IntRange(0, 3).Draw(rt, "creds") == 0 {
		c.Credentials = &proto.Credentials{Username: "someone", Password: "pw"}
	}
	big := []int64{0, 1, -1, 1 << 62, -(1 << 62)}
	switch kind {
	case "EXECUTE":
		c.Type = proto.Command_COMMAND_TYPE_EXECUTE
		c.Request = &proto.Command_ExecuteRequest{ExecuteRequest: &command.ExecuteRequest{Request: genRequest(rt), Timings: rapid.Bool().Draw(rt, "timings")}}
	case "QUERY":
		c.Type = proto.Command_COMMAND_TYPE_QUERY
		c.Request = &proto.Command_QueryRequest{QueryRequest: &command.QueryRequest{Request: genRequest(rt), Level: genLevel(rt),
			Freshness: rapid.SampledFrom(big).Draw(rt, "freshness"), FreshnessStrict: rapid.Bool().Draw(rt, "strict"),
			LinearizableTimeout: rapid.SampledFrom([]int64{0, 1, -1, 1000000}).Draw(rt, "lin-timeout")}}
	case "REQUEST":
		c.Type = proto.Command_COMMAND_TYPE_REQUEST
		c.Request = &proto.Command_ExecuteQueryRequest{ExecuteQueryRequest: &command.ExecuteQueryRequest{Request: genRequest(rt), Level: genLevel(rt),
			Freshness: rapid.SampledFrom(big).Draw(rt, "freshness"), FreshnessStrict: rapid.Bool().Draw(rt, "strict")}}
	case "BACKUP", "BACKUP_STREAM":
		c.Type = proto.Command_COMMAND_TYPE_BACKUP
		if kind == "BACKUP_STREAM" {
			c.Type = proto.Command_COMMAND_TYPE_BACKUP_STREAM
		}
		c.Request = &proto.Command_BackupRequest{BackupRequest: &command.BackupRequest{
			Format: command.BackupRequest_Format(rapid.SampledFrom([]int32{0, 1, 2, 3, 99, -1}).Draw(rt, "format")),
			Leader: rapid.Bool().Draw(rt, "bleader"), Vacuum: rapid.Bool().Draw(rt, "vacuum"), Compress: rapid.Bool().Draw(rt, "compress"),
			Tables: rapid.SliceOfN(rapid.SampledFrom([]string{"t", "", "nosuch", "t;drop", "\x00", "sqlite_master"}), 0, 2).Draw(rt, "tables")}}
	case "LOAD":
		c.Type = proto.Command_COMMAND_TYPE_LOAD
		// data without a valid SQLite header (loads of damaged database files are C22's subject)
		c.Request = &proto.Command_LoadRequest{LoadRequest: &command.LoadRequest{Data: rapid.SampledFrom([][]byte{nil, {}, []byte("x"), []byte("SQLite"), []byte("CREATE TABLE z(a)"), bytes.Repeat([]byte{0}, 200)}).Draw(rt, "data")}}
	case "LOAD_CHUNK":
		c.Type = proto.Command_COMMAND_TYPE_LOAD_CHUNK
		c.Request = &proto.Command_LoadChunkRequest{LoadChunkRequest: &command.LoadChunkRequest{StreamId: "s", SequenceNum: -1, IsLast: true, Data: []byte("x")}}
	case "REMOVE_NODE":
		c.Type = proto.Command_COMMAND_TYPE_REMOVE_NODE
		c.Request = &proto.Command_RemoveNodeRequest{RemoveNodeRequest: &command.RemoveNodeRequest{Id: rapid.SampledFrom([]string{"", "nosuch", "\x00", strings.Repeat("i", 300)}).Draw(rt, "id")}}
	case "NOTIFY":
		c.Type = proto.Command_COMMAND_TYPE_NOTIFY
		c.Request = &proto.Command_NotifyRequest{NotifyRequest: &command.NotifyRequest{Id: rapid.SampledFrom([]string{"", "n9", "n1"}).Draw(rt, "id"),
			Address: rapid.SampledFrom([]string{"", "127.0.0.1:1", "not an address", "[::1"}).Draw(rt, "addr")}}
	case "JOIN":
		c.Type = proto.Command_COMMAND_TYPE_JOIN
		// only requests that cannot change the configuration of this single-node cluster
		c.Request = &proto.Command_JoinRequest{JoinRequest: &command.JoinRequest{Id: rapid.SampledFrom([]string{"", "n1"}).Draw(rt, "id"),
			Address: rapid.SampledFrom([]string{"", "not an address"}).Draw(rt, "addr"), Voter: rapid.Bool().Draw(rt, "voter")}}
	case "STEPDOWN":
		c.Type = proto.Command_COMMAND_TYPE_STEPDOWN
		c.Request = &proto.Command_StepdownRequest{StepdownRequest: &command.StepdownRequest{Id: rapid.SampledFrom([]string{"", "nosuch", "n1"}).Draw(rt, "id"), Wait: rapid.Bool().Draw(rt, "wait")}}
	case "HWM":
		c.Type = proto.Command_COMMAND_TYPE_HIGHWATER_MARK_UPDATE
		c.Request = &proto.Command_HighwaterMarkUpdateRequest{HighwaterMarkUpdateRequest: &proto.HighwaterMarkUpdateRequest{NodeId: "x", HighwaterMark: rapid.Uint64().Draw(rt, "hwm")}}
	case "GET_NODE_META":
		c.Type = proto.Command_COMMAND_TYPE_GET_NODE_META
	case "UNKNOWN":
		c.Type = proto.Command_COMMAND_TYPE_UNKNOWN
	default:
		c.Type = proto.Command_Type(rapid.Int32Range(14, 100000).Draw(rt, "type"))
	}
	return generated{c, fmt.Sprintf("%s %v", kind, c)}
}

func TestVerif_C35_Store(t *testing.T) {
	rec := vstat.New(t, "C35", "store",
		"rapid: one syntactically valid inter-node command per case, every type, with degenerate payloads (nil/empty inner request, 0-3 statements incl. empty ones, empty/garbage/multi-statement/transaction-control SQL, parameters with nil values or odd names, consistency level and backup format outside the enum, extreme/negative timeouts and freshness, header-less load data, unknown or empty node ids and addresses) sent to a child-process node backed by a real bootstrapped single-node store with no credential store; non-trivial = command carries a payload that reaches the store (not GET_NODE_META/UNKNOWN/out-of-range/LOAD_CHUNK); distinct by encoded command")
	var node *child
	defer func() { node.stop() }()
	rapid.Check(t, func(rt *rapid.T) {
		if node == nil || !node.alive() {
			var err error
			if node, err = startChild(); err != nil {
				node = nil
				rec.Label("inconclusive:infrastructure")
				return
			}
		}
		g := genCommand(rt)
		enc, _ := pb.Marshal(g.cmd)
		kind := strings.SplitN(g.desc, " ", 2)[0]
		nontrivial := kind != "GET_NODE_META" && kind != "UNKNOWN" && kind != "OUT_OF_RANGE" && kind != "LOAD_CHUNK"
		rec.Case(nontrivial, string(enc))
		rec.Label("cmd:" + kind)
		rec.Sample(g.desc)
		out, xerr := exchange(node.addr, g.cmd, 30*time.Second)
		switch {
		case xerr != nil:
			rec.Label("reply:error")
		case out == nil:
			rec.Label("reply:closed-or-silent")
		default:
			rec.Label("reply:frame")
		}
		perr := probe(node.addr)
		if perr == nil {
			return
		}
		select {
		case <-node.done:
		case <-time.After(5 * time.Second):
		}
		desc := fmt.Sprintf("command=%s (hex %x)", g.desc, enc)
		if !node.alive() {
			se := strings.ReplaceAll(node.stderr(), "\n", " / ")
			node = nil
			sig := "C35/authorized-command-crashes-node{cmd=" + kind + "}"
			what := "node process died after a well-formed command: " + se
			if rec.KnownHit(sig, what) {
				return
			}
			rt.Fatalf("%s", rec.Violation(sig, "%s :: %s", what, desc))
		}
		sig := "C35/node-not-serving-after-command{cmd=" + kind + "}"
		what := "node alive but no longer serving: " + perr.Error()
		// the node is damaged: replace it so that later cases start clean
		node.stop()
		node = nil
		if rec.KnownHit(sig, what) {
			return
		}
		rt.Fatalf("%s", rec.Violation(sig, "%s :: %s", what, desc))
	})
}

// ---- infrastructure helpers (not part of any oracle) ----

// g7Dial connects to addr from a random loopback source address 127.x.y.z.
// Sockets of a client that closes (or half-closes) first stay in TIME_WAIT for
// 60 s; with 127.0.0.1 as the only source address, thousands of short
// connections per second from many check processes would leave no free port
// for bind(127.0.0.1:0), i.e. for every new listener on the machine. Spreading
// the client side over 127/8 keeps those sockets away from 127.0.0.1. A few
// retries with back-off absorb transient failures.
func g7Dial(addr string) (net.Conn, error) {
	var last error
	for try := 0; try < 5; try++ {
		d := net.Dialer{Timeout: 10 * time.Second, LocalAddr: &net.TCPAddr{IP: net.IPv4(127, byte(1+rand.Intn(250)), byte(rand.Intn(256)), byte(1+rand.Intn(250)))}}
		c, err := d.Dial("tcp", addr)
		if err == nil {
			return c, nil
		}
		last = err
		time.Sleep(time.Duration(25*(try+1)) * time.Millisecond)
	}
	return nil, last
}

// g7Listen listens on 127.0.0.1:0, retrying a few times.
func g7Listen() (net.Listener, error) {
	var last error
	for try := 0; try < 5; try++ {
		ln, err := net.Listen("tcp", "127.0.0.1:0")
		if err == nil {
			return ln, nil
		}
		last = err
		time.Sleep(time.Duration(50*(try+1)) * time.Millisecond)
	}
	return nil, last
}

// g7Retry runs f up to five times with a short back-off.
func g7Retry(f func() error) error {
	var last error
	for try := 0; try < 5; try++ {
		if last = f(); last == nil {
			return nil
		}
		time.Sleep(time.Duration(50*(try+1)) * time.Millisecond)
	}
	return last
}
