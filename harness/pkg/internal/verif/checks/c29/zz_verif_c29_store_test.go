package c29

// C29 (store unit): a request written to the leader's log decodes on another
// node to the identical request.
//
// Real side: a single-node leader Store takes K generated requests through
// Store.Execute / Store.Request / strong Store.Query, several of them with
// encoded sizes around and well above 32 KiB (large blob/text parameters,
// large SQL literals that get compressed), mixed with small ones. Afterwards a
// second Store joins (voter or non-voter) and is brought up to date from the
// leader's log (snapshot thresholds are set high, so no snapshot is involved).
//
// Oracle: the same inserts are made by the raw driver into an in-memory
// database; the canonical dumps of the leader's file, of the joiner's file and
// of the oracle database must be identical (every large value intact on both
// nodes). The scenario runs in a child process, because a node that cannot
// decode a log entry panics in its FSM: a child that dies with that panic is a
// violation, any other abnormal end is inconclusive.

import (
	"bytes"
	"context"
	"encoding/json"
	"fmt"
	"io"
	"log"
	"net"
	"os"
	"os/exec"
	"path/filepath"
	"strings"
	"testing"
	"time"

	command "github.com/rqlite/rqlite/v10/command/proto"
	"github.com/rqlite/rqlite/v10/internal/verif/vsql"
	"github.com/rqlite/rqlite/v10/internal/verif/vstat"
	"github.com/rqlite/rqlite/v10/store"
	"pgregory.net/rapid"
)

type c29Op struct {
	Kind string // exec-blob exec-text request-blob exec-literal strong-query small
	Size int
	Seed uint64
	Rnd  bool // high-entropy content
}

type c29StoreCase struct {
	Ops   []c29Op
	Voter bool
}

func (c c29StoreCase) canon() string {
	var sb strings.Builder
	fmt.Fprintf(&sb, "voter=%v", c.Voter)
	for _, o := range c.Ops {
		fmt.Fprintf(&sb, " %s:%d:%v", o.Kind, o.Size, o.Rnd)
	}
	return sb.String()
}

func c29Bytes(seed uint64, n int, rnd bool) []byte {
	b := make([]byte, n)
	x := seed | 1
	for i := range b {
		if rnd {
			x ^= x << 13
			x ^= x >> 7
			x ^= x << 17
			b[i] = byte(x)
		} else {
			b[i] = byte('a' + (uint64(i)+seed)%7)
		}
	}
	return b
}

func c29TextOf(b []byte) string {
	const alpha = "ABCDEFGHIJKLMNOPQRSTUVWXYZabcdefghijklmnopqrstuvwxyz0123456789+/"
	out := make([]byte, len(b))
	for i, c := range b {
		out[i] = alpha[c%64]
	}
	return string(out)
}

type c29Layer struct{ net.Listener }

func (l *c29Layer) Dial(addr string, timeout time.Duration) (net.Conn, error) {
	return net.DialTimeout("tcp", addr, timeout)
}

func c29NewStore(dir, id string) (*store.Store, error) {
	ln, err := net.Listen("tcp", "127.0.0.1:0")
	if err != nil {
		return nil, err
	}
	s := store.New(&store.Config{DBConf: store.NewDBConfig(), Dir: dir, ID: id, Logger: log.New(io.Discard, "", 0)}, &c29Layer{ln})
	s.SnapshotThreshold = 1 << 30
	s.SnapshotThresholdWALSize = 0
	s.SnapshotInterval = time.Hour
	if err := s.Open(); err != nil {
		ln.Close()
		return nil, err
	}
	return s, nil
}

func c29IsErr(r *command.ExecuteQueryResponse) string {
	switch x := r.GetResult().(type) {
	case *command.ExecuteQueryResponse_Error:
		return x.Error
	case *command.ExecuteQueryResponse_E:
		return x.E.GetError()
	case *command.ExecuteQueryResponse_Q:
		return x.Q.GetError()
	}
	return ""
}

// TestVerif_C29_StoreChild runs one scenario; it only does something when
// started by TestVerif_C29_Store.
func TestVerif_C29_StoreChild(t *testing.T) {
	path := os.Getenv("VERIF_C29_CASE")
	if path == "" {
		return // only runs as a child of TestVerif_C29_Store
	}
	result := func(format string, args ...any) {
		fmt.Printf("\nC29RESULT %s\n", strings.ReplaceAll(fmt.Sprintf(format, args...), "\n", " ;; "))
	}
	raw, err := os.ReadFile(path)
	var c c29StoreCase
	if err != nil || json.Unmarshal(raw, &c) != nil {
		result("skip cannot read case")
		return
	}
	base := filepath.Dir(path)
	d0, d1 := filepath.Join(base, "n0"), filepath.Join(base, "n1")
	os.MkdirAll(d0, 0o755)
	os.MkdirAll(d1, 0o755)
	s0, err := c29NewStore(d0, "n0")
	if err != nil {
		result("skip leader: %v", err)
		return
	}
	defer s0.Close(true)
	if err := s0.Bootstrap(store.NewServer(s0.ID(), s0.Addr(), true)); err != nil {
		result("skip bootstrap: %v", err)
		return
	}
	if _, err := s0.WaitForLeader(30 * time.Second); err != nil {
		result("skip no leader: %v", err)
		return
	}
	odb, err := vsql.OpenMem()
	if err != nil {
		result("skip %v", err)
		return
	}
	defer odb.Close()
	ctx := context.Background()
	var idx uint64
	exec := func(path string, stmt *command.Statement) string {
		req := &command.Request{Statements: []*command.Statement{stmt}}
		var rs []*command.ExecuteQueryResponse
		var err error
		var i uint64
		if path == "request" {
			rs, _, i, err = s0.Request(ctx, &command.ExecuteQueryRequest{Request: req})
		} else {
			rs, i, err = s0.Execute(ctx, &command.ExecuteRequest{Request: req})
		}
		if err != nil {
			return "error: " + err.Error()
		}
		if len(rs) != 1 {
			return fmt.Sprintf("%d results", len(rs))
		}
		if e := c29IsErr(rs[0]); e != "" {
			return "statement error: " + e
		}
		if i > idx {
			idx = i
		}
		return ""
	}
	const ddl = `CREATE TABLE big (id INTEGER PRIMARY KEY, kind TEXT, v)`
	if m := exec("execute", &command.Statement{Sql: ddl}); m != "" {
		result("skip create: %s", m)
		return
	}
	odb.Exec(ddl)
	for n, o := range c.Ops {
		id := int64(n + 1)
		data := c29Bytes(o.Seed, o.Size, o.Rnd)
		var m string
		switch o.Kind {
		case "exec-blob", "request-blob", "small":
			p := "execute"
			if o.Kind == "request-blob" {
				p = "request"
			}
			m = exec(p, &command.Statement{Sql: `INSERT INTO big(id, kind, v) VALUES(?, ?, ?)`, Parameters: []*command.Parameter{
				{Value: &command.Parameter_I{I: id}}, {Value: &command.Parameter_S{S: o.Kind}}, {Value: &command.Parameter_Y{Y: data}}}})
			odb.Exec(`INSERT INTO big(id, kind, v) VALUES(?, ?, ?)`, id, o.Kind, data)
		case "exec-text":
			txt := c29TextOf(data)
			m = exec("execute", &command.Statement{Sql: `INSERT INTO big(id, kind, v) VALUES(?, ?, ?)`, Parameters: []*command.Parameter{
				{Value: &command.Parameter_I{I: id}}, {Value: &command.Parameter_S{S: o.Kind}}, {Value: &command.Parameter_S{S: txt}}}})
			odb.Exec(`INSERT INTO big(id, kind, v) VALUES(?, ?, ?)`, id, o.Kind, txt)
		case "exec-literal":
			// large SQL text: goes through the compression path
			q := fmt.Sprintf(`INSERT INTO big(id, kind, v) VALUES(%d, 'exec-literal', x'%x')`, id, data)
			m = exec("execute", &command.Statement{Sql: q})
			odb.Exec(q)
		case "strong-query":
			qr := &command.QueryRequest{Level: command.ConsistencyLevel_STRONG, Request: &command.Request{Statements: []*command.Statement{{
				Sql: `SELECT length(?)`, Parameters: []*command.Parameter{{Value: &command.Parameter_Y{Y: data}}}}}}}
			rows, _, i, err := s0.Query(ctx, qr)
			if err != nil || len(rows) != 1 || rows[0].GetError() != "" {
				m = fmt.Sprintf("strong query: %v %v", err, rows)
			}
			if i > idx {
				idx = i
			}
		}
		if m != "" {
			result("skip op %d (%s): %s", n, o.Kind, m)
			return
		}
	}
	if ai := s0.AppliedIndex(); ai > idx {
		idx = ai
	}

	s1, err := c29NewStore(d1, "n1")
	if err != nil {
		result("skip joiner: %v", err)
		return
	}
	defer s1.Close(true)
	if err := s0.Join(&command.JoinRequest{Id: s1.ID(), Address: s1.Addr(), Voter: c.Voter}); err != nil {
		result("skip join: %v", err)
		return
	}
	deadline := time.Now().Add(60 * time.Second)
	for s1.AppliedIndex() < idx && time.Now().Before(deadline) {
		time.Sleep(50 * time.Millisecond)
	}
	if s1.AppliedIndex() < idx {
		result("skip joiner did not catch up in 60s (applied %d of %d)", s1.AppliedIndex(), idx)
		return
	}
	want, err := vsql.DumpDB(odb)
	if err != nil {
		result("skip %v", err)
		return
	}
	diff := func(name, got string) string {
		if got == want {
			return ""
		}
		gl, wl := strings.Split(got, "\n"), strings.Split(want, "\n")
		for i := 0; i < len(gl) || i < len(wl); i++ {
			var g, w string
			if i < len(gl) {
				g = gl[i]
			}
			if i < len(wl) {
				w = wl[i]
			}
			if g != w {
				return fmt.Sprintf("%s differs at dump line %d: got %.120q (%d bytes) want %.120q (%d bytes); got %d lines want %d", name, i, g, len(g), w, len(w), len(gl), len(wl))
			}
		}
		return name + " differs"
	}
	l, err := vsql.DumpFile(filepath.Join(d0, "db.sqlite"))
	if err != nil {
		result("skip dump leader: %v", err)
		return
	}
	if m := diff("leader", l); m != "" {
		result("violation C29/leader-state-differs-from-requests :: %s", m)
		return
	}
	// the joiner may still be writing the last entry's pages: allow it a moment
	var jm string
	for try := 0; try < 40; try++ {
		j, err := vsql.DumpFile(filepath.Join(d1, "db.sqlite"))
		if err == nil {
			if jm = diff("joiner", j); jm == "" {
				break
			}
		} else {
			jm = "dump joiner: " + err.Error()
		}
		time.Sleep(100 * time.Millisecond)
	}
	if jm != "" {
		result("violation C29/joiner-decodes-different-request :: %s", jm)
		return
	}
	result("ok")
}

func TestVerif_C29_Store(t *testing.T) {
	rec := vstat.New(t, "C29", "store",
		"rapid: 3-8 requests on a single-node leader through Store.Execute, Store.Request and strong Store.Query, each with a blob/text parameter or SQL literal of 100 B .. 300 KiB (sizes around 32 KiB -+ and well above; repetitive and high-entropy), then a second node (voter or non-voter) joins and catches up from the leader's log; leader, joiner and a raw-driver oracle database must have identical dumps; each scenario in a child process; non-trivial = at least two requests of >= 32 KiB; distinct by kinds and sizes")
	self := os.Getenv("VERIF_SELF")
	if self == "" {
		self = os.Args[0]
	}
	rapid.Check(t, func(rt *rapid.T) {
		defer c29sGuard(rec)
		var c c29StoreCase
		c.Voter = rapid.Bool().Draw(rt, "voter")
		n := rapid.IntRange(3, 8).Draw(rt, "nops")
		big := 0
		for i := 0; i < n; i++ {
			o := c29Op{
				Kind: rapid.SampledFrom([]string{"exec-blob", "exec-blob", "exec-text", "request-blob", "exec-literal", "strong-query", "small"}).Draw(rt, "kind"),
				Seed: rapid.Uint64().Draw(rt, "seed"),
				Rnd:  rapid.IntRange(0, 3).Draw(rt, "rnd") > 0,
			}
			o.Size = rapid.SampledFrom([]int{32*1024 - 200, 32 * 1024, 32*1024 + 200, 48 * 1024, 48 * 1024, 64 * 1024, 100 * 1024, 300 * 1024}).Draw(rt, "size")
			if o.Kind == "small" {
				o.Size = rapid.SampledFrom([]int{0, 100, 5000}).Draw(rt, "smallsize")
			}
			if o.Kind == "exec-literal" {
				o.Rnd = true // stays large after compression
			}
			if o.Size >= 32*1024 {
				big++
			}
			c.Ops = append(c.Ops, o)
		}
		rec.Case(big >= 2, c.canon())
		rec.Sample(c.canon())
		if c.Voter {
			rec.Label("joiner=voter")
		} else {
			rec.Label("joiner=non-voter")
		}
		seen := map[string]bool{}
		for _, o := range c.Ops {
			if !seen[o.Kind] {
				seen[o.Kind] = true
				rec.Label("op:" + o.Kind)
			}
		}
		dir, err := os.MkdirTemp("", "c29store")
		if err != nil {
			c29sBail("infrastructure: %v", err)
		}
		defer os.RemoveAll(dir)
		b, _ := json.Marshal(c)
		casePath := filepath.Join(dir, "case.json")
		if err := os.WriteFile(casePath, b, 0o644); err != nil {
			c29sBail("infrastructure: %v", err)
		}
		ctx, cancel := context.WithTimeout(context.Background(), 240*time.Second)
		defer cancel()
		cmd := exec.CommandContext(ctx, self, "-test.run", "^TestVerif_C29_StoreChild$", "-test.count=1", "-test.v")
		cmd.Env = append(os.Environ(), "VERIF_C29_CASE="+casePath, "VERIF_STATS_DIR=")
		var out bytes.Buffer
		cmd.Stdout, cmd.Stderr = &out, &out
		runErr := cmd.Run()
		res := ""
		for _, line := range strings.Split(out.String(), "\n") {
			if strings.HasPrefix(line, "C29RESULT ") {
				res = strings.TrimPrefix(line, "C29RESULT ")
			}
		}
		switch {
		case res == "ok":
			rec.Label("child=ok")
		case strings.HasPrefix(res, "violation "):
			parts := strings.SplitN(strings.TrimPrefix(res, "violation "), " :: ", 2)
			msg := ""
			if len(parts) > 1 {
				msg = parts[1]
			}
			rt.Fatalf("%s", rec.Violation(parts[0], "%s ;; case: %s", msg, c.canon()))
		case res == "" && runErr != nil && (strings.Contains(out.String(), "failed to unmarshal") || strings.Contains(out.String(), "unmarshal sub")):
			tail := out.String()
			if i := strings.Index(tail, "panic:"); i >= 0 {
				tail = tail[i:]
			}
			rt.Fatalf("%s", rec.Violation("C29/joiner-cannot-decode-log-entry", "a node panicked decoding a log entry: %.300s ;; case: %s", strings.ReplaceAll(tail, "\n", " ;; "), c.canon()))
		default:
			rec.Label("child=inconclusive")
			c29sBail("infrastructure: child ended without verdict (%v): %s %.300s", runErr, res, out.String())
		}
	})
}

// c29sInconclusive is raised for infrastructure trouble inside a case; the
// case is then counted under the label "inconclusive:infrastructure" instead
// of being skipped (rapid gives up when most cases are skipped).
type c29sInconclusive struct{ msg string }

func c29sBail(format string, args ...any) {
	panic(c29sInconclusive{fmt.Sprintf(format, args...)})
}

// c29sGuard is deferred at the top of a case.
func c29sGuard(rec *vstat.Rec) {
	if r := recover(); r != nil {
		if _, ok := r.(c29sInconclusive); ok {
			rec.Label("inconclusive:infrastructure")
			return
		}
		panic(r)
	}
}
