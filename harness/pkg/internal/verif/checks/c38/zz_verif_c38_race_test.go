package c38

// C38, stress shape: a linearizable read whose read index is committed but is
// being applied at the very moment the read subscribes for it, with no further
// write afterwards, must still complete within its timeout.
//
// Generated: 1 or 3 nodes, R rounds, N readers per round, reader stagger, API
// paths. Each round commits exactly ONE write on the leader; the readers spin on
// the public commit index and start (staggered by a few hundred ns .. ms) the
// moment it advances, i.e. while the FSM is applying the entry. Nothing else is
// written until every reader has returned.
//
// Oracle (the property's own bound, explicit 5 s timeout): a read that fails
// with the FSM-wait timeout is a violation if the node was leader in one
// unchanged term before and after the round, still verifies leadership, raft has
// dispatched the read index (applied_index >= K, fsm_pending = 0) and rqlite's
// own FSM index has reached K -- the entry the read waited for WAS applied, yet
// the read was not woken. Any other failure is counted as inconclusive.

import (
	"context"
	"errors"
	"fmt"
	"os"
	"strconv"
	"sync"
	"testing"
	"time"

	"github.com/rqlite/rqlite/v10/command/proto"
	"github.com/rqlite/rqlite/v10/internal/verif/vnode"
	"github.com/rqlite/rqlite/v10/internal/verif/vstat"
	"github.com/rqlite/rqlite/v10/store"
	"pgregory.net/rapid"
)

type raceCase struct {
	Nodes   int
	Rounds  int
	Readers int
	Spin    int  // stagger: reader i spins i*Spin commit-index loads before reading
	ReqR    bool // readers alternate Query/Request if true, else Query only
	ReqW    bool // write through the unified Request path
}

func (c raceCase) String() string {
	return fmt.Sprintf("nodes=%d rounds=%d readers=%d spin=%d mixedReadPaths=%v writeReq=%v", c.Nodes, c.Rounds, c.Readers, c.Spin, c.ReqR, c.ReqW)
}

func TestVerif_C38_ApplyRace(t *testing.T) {
	vnode.QuietLogs()
	rec := vstat.New(t, "C38", "applyrace",
		"rapid: 1|3 nodes, 30-120 rounds, 6-16 readers per round, stagger 0|100|300|1000 commit-index loads per reader, Query only or Query/Request alternating, write via Execute|Request; "+
			"each round = one committed write raced by linearizable reads that start when the commit index moves, then no write until all returned; non-trivial = all rounds ran; distinct = the tuple")
	rapid.Check(t, func(rt *rapid.T) {
		c := raceCase{
			Nodes:   []int{1, 1, 3}[rapid.IntRange(0, 2).Draw(rt, "nodes")],
			Rounds:  []int{30, 60, 120}[rapid.IntRange(0, 2).Draw(rt, "rounds")],
			Readers: rapid.IntRange(6, 16).Draw(rt, "readers"),
			Spin:    []int{0, 100, 300, 1000}[rapid.IntRange(0, 3).Draw(rt, "spin")],
			ReqR:    rapid.Bool().Draw(rt, "reqr"),
			ReqW:    rapid.Bool().Draw(rt, "reqw"),
		}
		dir, err := os.MkdirTemp("", "c38r-")
		if err != nil {
			rec.Label("inconclusive:tempdir")
			return
		}
		defer os.RemoveAll(dir)
		cl := vnode.NewCluster(dir, vnode.Fast())
		defer cl.Close()
		if err := cl.Form(c.Nodes, 0); err != nil {
			rec.Label("inconclusive:form")
			return
		}
		l := cl.WaitLeader(waitLong)
		if l == nil {
			rec.Label("inconclusive:no-leader")
			return
		}
		ctx := context.Background()
		if _, _, err := l.Store.Execute(ctx, vnode.Exec("CREATE TABLE t(id INTEGER PRIMARY KEY, v INTEGER)")); err != nil {
			rec.Label("inconclusive:create")
			return
		}
		read := func(req bool) (string, error) {
			if req {
				er := vnode.EQReq(proto.ConsistencyLevel_LINEARIZABLE, "SELECT count(*) FROM t")
				er.LinearizableTimeout = int64(5 * time.Second)
				resp, _, _, err := l.Store.Request(ctx, er)
				return vnode.RowsString(vnode.EQRows(resp)), err
			}
			qr := vnode.QueryReq(proto.ConsistencyLevel_LINEARIZABLE, "SELECT count(*) FROM t")
			qr.LinearizableTimeout = int64(5 * time.Second)
			rows, _, _, err := l.Store.Query(ctx, qr)
			return vnode.RowsString(rows), err
		}
		// the term's strong read
		if _, err := read(false); err != nil {
			rec.Label("inconclusive:first-read")
			return
		}
		ran := 0
		for round := 1; round <= c.Rounds; round++ {
			before, err := vnode.Raft(l)
			if err != nil || before.State != "Leader" {
				rec.Label("inconclusive:leadership-moved")
				break
			}
			commitBefore, _ := l.Store.CommitIndex()
			var wg sync.WaitGroup
			var werr error
			errs := make([]error, c.Readers)
			wg.Add(1)
			go func() {
				defer wg.Done()
				sql := fmt.Sprintf("INSERT INTO t(v) VALUES(%d)", round)
				if c.ReqW {
					_, _, _, werr = l.Store.Request(ctx, vnode.EQReq(proto.ConsistencyLevel_WEAK, sql))
				} else {
					_, _, werr = l.Store.Execute(ctx, vnode.Exec(sql))
				}
			}()
			giveUp := time.Now().Add(10 * time.Second)
			for i := 0; i < c.Readers; i++ {
				wg.Add(1)
				go func(i int) {
					defer wg.Done()
					for {
						ci, _ := l.Store.CommitIndex()
						if ci != commitBefore || time.Now().After(giveUp) {
							break
						}
					}
					for s := 0; s < i*c.Spin; s++ {
						l.Store.CommitIndex()
					}
					_, errs[i] = read(c.ReqR && i%2 == 1)
				}(i)
			}
			wg.Wait()
			if werr != nil {
				rec.Label("inconclusive:write-failed")
				break
			}
			ran++
			for i, rerr := range errs {
				if rerr == nil {
					continue
				}
				after, err2 := vnode.Raft(l)
				stable := err2 == nil && after.State == "Leader" && after.Term == before.Term && l.Store.VerifyLeader() == nil
				if !stable || !errors.Is(rerr, store.ErrWaitForFSMTimeout) {
					rec.Label("inconclusive:read-failed-leadership-or-other")
					continue
				}
				m := idxRe.FindStringSubmatch(rerr.Error())
				if m == nil {
					rec.Label("inconclusive:read-failed-no-index")
					continue
				}
				k, _ := strconv.ParseUint(m[1], 10, 64)
				if after.Applied < k || after.FSMPending != 0 || after.FSMIndex < k {
					rec.Label("inconclusive:read-timeout-fsm-behind")
					continue
				}
				// the system is healthy: a fresh read completes
				if _, err := read(false); err != nil {
					rec.Label("inconclusive:follow-up-read-failed")
					continue
				}
				sig := "C38/lin-read-not-woken-by-apply"
				msg := fmt.Sprintf("round %d reader %d: linearizable read failed with %q although leader %s stayed leader in term %d, raft applied_index=%d, fsm_pending=0 and rqlite fsm_index=%d >= read index %d (the entry it waited for was applied, nothing else was written), and a fresh read completes; case %s",
					round, i, rerr, l.Name, before.Term, after.Applied, after.FSMIndex, k, c)
				if !rec.KnownHit(sig, msg) {
					rt.Fatalf("%s", rec.Violation(sig, "%s", msg))
				}
			}
		}
		rec.LabelN("rounds", ran)
		rec.Case(ran == c.Rounds, c.String())
		rec.Sample(fmt.Sprintf("%s ran=%d", c, ran))
	})
}
