package c38

// C38: on a leader that can reach a quorum, a linearizable read completes
// within its timeout without needing any further write -- also directly after
// a membership change, a leader change, a barrier or a snapshot (install).
//
// Generator: a live 1-3 node vnode cluster on a healthy (fault-free) vnet and a
// generated history of operations; after EVERY operation a linearizable read
// is issued on the current leader with no write in between.
//
// Oracle (from the property statement only): the read must return rows. A read
// error counts as a violation only if the node was leader in the same raft term
// before and after the read and still verifies its leadership with a quorum
// (so the "healthy leader with quorum" premise held for the whole read). For a
// timeout the harness additionally requires that raft had dispatched every
// entry up to the read index and the FSM queue is empty (nothing can ever
// arrive without a further write) and that a second identical read times out
// too. Everything else (leadership moved, cluster slow) is retried and finally
// counted as inconclusive.

import (
	"context"
	"errors"
	"fmt"
	"os"
	"regexp"
	"runtime"
	"strconv"
	"strings"
	"testing"
	"time"

	"github.com/rqlite/rqlite/v10/command/proto"
	"github.com/rqlite/rqlite/v10/internal/verif/vnode"
	"github.com/rqlite/rqlite/v10/internal/verif/vstat"
	"github.com/rqlite/rqlite/v10/store"
	"pgregory.net/rapid"
)

const (
	linTimeout = 4 * time.Second // explicit, generous: the default is 1 s
	waitLong   = 20 * time.Second
	// second identical read after a timeout whose premises (applied>=index, idle FSM) already hold
	confirmTimeout = 1500 * time.Millisecond
)

type opKind int

const (
	opWrite opKind = iota
	opStrong
	opLin
	opJoinVoter
	opJoinNonVoter
	opRemove
	opStepdown
	opBarrier
	opNoop
	opSnapshot
	opSnapshotTrunc // user snapshot leaving 1 trailing log: the next joiner needs a snapshot install
	opRestartFollower
	opTailCompact // >=2 non-command entries at the log tail (barriers, joins; last one a barrier), then a snapshot leaving 1 trailing log
	nOps
)

var opNames = [...]string{"write", "strong", "lin", "join-voter", "join-nonvoter", "remove", "stepdown", "barrier",
	"noop", "snapshot", "snapshot-trunc", "restart-follower", "tail-compaction"}

func (k opKind) String() string { return opNames[k] }

// class of the log tail an operation leaves behind (for the signature)
func (k opKind) class() string {
	switch k {
	case opJoinVoter, opJoinNonVoter, opRemove:
		return "config-change"
	case opStepdown, opRestartFollower:
		return "leader-change"
	}
	return k.String()
}

type hist struct {
	size int
	ops  []opKind
}

func (h hist) String() string {
	s := make([]string, len(h.ops))
	for i, o := range h.ops {
		s[i] = o.String()
	}
	return fmt.Sprintf("nodes=%d ops=[%s]", h.size, strings.Join(s, " "))
}

func genHist(rt *rapid.T) hist {
	h := hist{size: rapid.IntRange(1, 3).Draw(rt, "size")}
	n := rapid.IntRange(1, vstat.Scale(6, 9)).Draw(rt, "nops")
	for i := 0; i < n; i++ {
		k := rapid.IntRange(0, int(nOps)+1).Draw(rt, "op") // tail-compaction has triple weight
		if k >= int(nOps) {
			k = int(opTailCompact)
		}
		h.ops = append(h.ops, opKind(k))
	}
	return h
}

var idxRe = regexp.MustCompile(`index (\d+)`)

type env struct {
	t         *testing.T
	rec       *vstat.Rec
	c         *vnode.Cluster
	next      int // next fresh node number
	wrote     int
	trunc     bool // a truncating snapshot happened since the last join
	uncertain bool // a write failed with unknown outcome: row count no longer known
}

var errInconclusive = errors.New("inconclusive")

func (e *env) leader() *vnode.Node { return e.c.WaitLeader(waitLong) }

// members returns the leader's view of the configuration as names.
func (e *env) followers(l *vnode.Node) []*vnode.Node {
	ns, err := l.Store.Nodes()
	if err != nil {
		return nil
	}
	var out []*vnode.Node
	for _, s := range ns {
		for _, n := range e.c.Live() {
			if n.ID == s.ID && n != l {
				out = append(out, n)
			}
		}
	}
	return out
}

func (e *env) voters(l *vnode.Node) []*vnode.Node {
	ns, err := l.Store.Nodes()
	if err != nil {
		return nil
	}
	var out []*vnode.Node
	for _, s := range ns {
		if s.Suffrage != proto.Suffrage_VOTER {
			continue
		}
		for _, n := range e.c.Live() {
			if n.ID == s.ID && n != l {
				out = append(out, n)
			}
		}
	}
	return out
}

// apply performs one operation; it returns (applied, error). applied=false
// means the operation was not applicable in the current state (skipped).
func (e *env) apply(rt *rapid.T, k opKind) (bool, error) {
	ctx := context.Background()
	l := e.leader()
	if l == nil {
		return false, errInconclusive
	}
	switch k {
	case opWrite:
		e.wrote++
		_, _, err := l.Store.Execute(ctx, vnode.Exec(fmt.Sprintf("INSERT INTO t(v) VALUES(%d)", e.wrote)))
		if err != nil {
			e.uncertain = true // may or may not have been applied
		}
		return true, err
	case opStrong:
		_, _, _, err := l.Store.Query(ctx, vnode.QueryReq(proto.ConsistencyLevel_STRONG, "SELECT count(*) FROM t"))
		return true, err
	case opLin:
		return true, nil // the read after every op is the lin read
	case opJoinVoter, opJoinNonVoter:
		if len(e.followers(l)) >= 2 {
			return false, nil
		}
		name, id := fmt.Sprintf("n%d", e.next), fmt.Sprintf("id%d", e.next)
		e.next++
		n, err := e.c.Start(name, id)
		if err != nil {
			return false, errInconclusive
		}
		if err := e.c.Join(n, l, k == opJoinVoter); err != nil {
			return true, err
		}
		if e.trunc {
			e.rec.Label("join-after-truncating-snapshot")
			e.trunc = false
		}
		// let the joiner catch up so that the cluster is healthy (no oracle here)
		deadline := time.Now().Add(waitLong)
		for time.Now().Before(deadline) {
			if a, _ := n.Store.LeaderAddr(); a != "" && n.Store.DBAppliedIndex() >= l.Store.DBAppliedIndex() {
				break
			}
			time.Sleep(10 * time.Millisecond)
		}
		return true, nil
	case opRemove:
		fs := e.followers(l)
		if len(fs) == 0 {
			return false, nil
		}
		v := fs[rapid.IntRange(0, len(fs)-1).Draw(rt, "victim")]
		if err := l.Store.Remove(ctx, &proto.RemoveNodeRequest{Id: v.ID}); err != nil {
			return true, err
		}
		e.c.Stop(v) // a removed node must not keep campaigning
		return true, nil
	case opStepdown:
		vs := e.voters(l)
		if len(vs) == 0 {
			return false, nil
		}
		target := ""
		if pick := rapid.IntRange(0, len(vs)).Draw(rt, "target"); pick > 0 {
			target = vs[pick-1].ID
		}
		if err := l.Store.Stepdown(true, target); err != nil {
			// leadership transfer can legitimately fail (target behind, timeout): not the property
			e.rec.Label("stepdown-failed")
			return false, nil
		}
		return true, nil
	case opBarrier:
		return true, l.Store.Barrier()
	case opNoop:
		f, err := l.Store.Noop("c38")
		if err != nil {
			return true, err
		}
		return true, f.Error()
	case opSnapshot, opSnapshotTrunc:
		var n uint64
		if k == opSnapshotTrunc {
			n = 1
		}
		err := l.Store.Snapshot(n)
		if err != nil {
			// "nothing new", "no WAL", "wait until the configuration entry ... is committed" are legal refusals
			e.rec.Label("snapshot-refused")
			return false, nil
		}
		if k == opSnapshotTrunc {
			e.trunc = true
		}
		return true, nil
	case opTailCompact:
		// compacts the log past the newest command entry: the tail then consists of non-command
		// entries only and everything older lives in the snapshot
		n := rapid.IntRange(2, 4).Draw(rt, "tailLen")
		for i := 0; i < n; i++ {
			join := i < n-1 && rapid.IntRange(0, 2).Draw(rt, "tailJoin") == 0 && len(e.followers(l)) < 2
			if join {
				name, id := fmt.Sprintf("n%d", e.next), fmt.Sprintf("id%d", e.next)
				e.next++
				nn, err := e.c.Start(name, id)
				if err != nil {
					return false, errInconclusive
				}
				if err := e.c.Join(nn, l, false); err != nil {
					return true, err
				}
				e.rec.Label("tail-entry:join-nonvoter")
				continue
			}
			if err := l.Store.Barrier(); err != nil {
				return true, err
			}
			e.rec.Label("tail-entry:barrier")
		}
		if err := l.Store.Snapshot(1); err != nil {
			e.rec.Label("tail-compaction:snapshot-refused")
			return false, nil
		}
		e.rec.Label("tail-compaction:done")
		return true, nil
	case opRestartFollower:
		fs := e.followers(l)
		if len(fs) == 0 {
			return false, nil
		}
		v := fs[rapid.IntRange(0, len(fs)-1).Draw(rt, "victim")]
		e.c.Crash(v)
		if _, err := e.c.Restart(v); err != nil {
			return false, errInconclusive
		}
		return true, nil
	}
	return false, nil
}

type verdict int

const (
	vOK verdict = iota
	vInconclusive
	vViolation
)

// linRead issues the linearizable read and judges it.
func (e *env) linRead(path int) (verdict, string) {
	ctx := context.Background()
	var lastErr error
	for attempt := 0; attempt < 6; attempt++ {
		l := e.leader()
		if l == nil {
			return vInconclusive, "no verified leader"
		}
		before, err := vnode.Raft(l)
		if err != nil || before.State != "Leader" {
			continue
		}
		do := func(lt time.Duration) (string, error) {
			if path == 0 {
				qr := vnode.QueryReq(proto.ConsistencyLevel_LINEARIZABLE, "SELECT count(*) FROM t")
				qr.LinearizableTimeout = int64(lt)
				rows, _, _, err := l.Store.Query(ctx, qr)
				return vnode.RowsString(rows), err
			}
			er := vnode.EQReq(proto.ConsistencyLevel_LINEARIZABLE, "SELECT count(*) FROM t")
			er.LinearizableTimeout = int64(lt)
			resp, _, _, err := l.Store.Request(ctx, er)
			return vnode.RowsString(vnode.EQRows(resp)), err
		}
		got, err := do(linTimeout)
		if err == nil {
			if !e.uncertain && got != strconv.Itoa(e.wrote) {
				// not this property's business in general, but a healthy cluster with one
				// writer makes the expected answer unambiguous: report it.
				return vViolation, fmt.Sprintf("linearizable read returned %q, %d rows were acknowledged", got, e.wrote)
			}
			return vOK, ""
		}
		lastErr = err
		after, err2 := vnode.Raft(l)
		stable := err2 == nil && after.State == "Leader" && after.Term == before.Term && l.Store.VerifyLeader() == nil
		if !stable {
			e.rec.Label("read-retried-leadership-moved")
			continue
		}
		if errors.Is(err, store.ErrWaitForFSMTimeout) {
			m := idxRe.FindStringSubmatch(err.Error())
			if m == nil {
				return vInconclusive, err.Error()
			}
			idx, _ := strconv.ParseUint(m[1], 10, 64)
			if after.Applied < idx || after.FSMPending != 0 {
				e.rec.Label("read-timeout-but-fsm-busy")
				continue
			}
			// confirm: nothing changed, same read again
			_, err3 := do(confirmTimeout)
			again, err4 := vnode.Raft(l)
			if err3 != nil && errors.Is(err3, store.ErrWaitForFSMTimeout) && err4 == nil && again.Term == before.Term && again.State == "Leader" {
				return vViolation, fmt.Sprintf("timeout (%v, twice): %v; leader %s term %d unchanged, raft applied_index=%d >= read index %d, fsm_pending=0, rqlite fsm_index=%d",
					linTimeout, err, l.Name, before.Term, after.Applied, idx, after.FSMIndex)
			}
			continue
		}
		return vViolation, fmt.Sprintf("error %q on leader %s, term %d unchanged and leadership verified after the read", err, l.Name, before.Term)
	}
	return vInconclusive, fmt.Sprintf("no stable leader over 6 attempts (last error %v)", lastErr)
}

func mkdir() (string, error) { return os.MkdirTemp("", "c38-") }
func rmdir(d string)         { os.RemoveAll(d) }

func TestVerif_C38_Hist(t *testing.T) {
	vnode.QuietLogs()
	rec := vstat.New(t, "C38", "hist",
		"rapid histories (1-9 ops from write/strong/lin/join voter+nonvoter/remove/stepdown/barrier/noop/snapshot/truncating snapshot/follower restart/tail-compaction = 2-4 trailing non-command entries then a snapshot with 1 trailing log) on live 1-3 node clusters, "+
			"a linearizable read (Query or Request path) after every op with no write in between; non-trivial = at least one membership change, leader change, barrier or snapshot was applied and its read was judged; "+
			"distinct = initial size + op sequence")
	rapid.Check(t, func(rt *rapid.T) {
		h := genHist(rt)
		path := rapid.IntRange(0, 1).Draw(rt, "path")
		dir, err := mkdir()
		if err != nil {
			rec.Label("inconclusive:tempdir")
			return
		}
		defer rmdir(dir)
		// diagnostics only: if a case is stuck for 150 s, leave the goroutine stacks behind
		wd := time.AfterFunc(150*time.Second, func() {
			buf := make([]byte, 8<<20)
			buf = buf[:runtime.Stack(buf, true)]
			os.WriteFile(fmt.Sprintf("/dev/shm/g9-c38-stuck-%d.txt", os.Getpid()), buf, 0o644)
		})
		defer wd.Stop()
		e := &env{t: t, rec: rec, c: vnode.NewCluster(dir, vnode.Fast()), next: h.size}
		defer e.c.Close()
		if err := e.c.Form(h.size, 0); err != nil {
			rec.Label("inconclusive:form")
			return
		}
		l := e.leader()
		if l == nil {
			rec.Label("inconclusive:no-leader")
			return
		}
		if _, _, err := l.Store.Execute(context.Background(), vnode.Exec("CREATE TABLE t(id INTEGER PRIMARY KEY, v INTEGER)")); err != nil {
			rec.Label("inconclusive:create")
			return
		}
		interesting := false
		var trace []string
		// a first linearizable read (upgraded to a strong read) so that later reads in this term are
		// served as genuine linearizable reads
		for _, k := range append([]opKind{opLin}, h.ops...) {
			if e.c.Lost() > 0 {
				rec.Label("inconclusive:store-close-timeout")
				break
			}
			applied, err := e.apply(rt, k)
			if errors.Is(err, errInconclusive) {
				rec.Label("inconclusive:op-" + k.String())
				break
			}
			if err != nil {
				// an operation failing is not this property's subject (e.g. not leader any more)
				rec.Label("op-error:" + k.String())
				trace = append(trace, k.String()+"!err")
				continue
			}
			if !applied {
				trace = append(trace, k.String()+"(skipped)")
				continue
			}
			trace = append(trace, k.String())
			v, why := e.linRead(path)
			switch v {
			case vOK:
				rec.Label("read-ok-after:" + k.class())
			case vInconclusive:
				rec.Label("inconclusive:read-after-" + k.class())
			case vViolation:
				sig := "C38/lin-read-fails-after-" + k.class()
				msg := fmt.Sprintf("%s; history so far: nodes=%d [%s] then linearizable read (%s path) with no intervening write", why, h.size, strings.Join(trace, " "), []string{"Query", "Request"}[path])
				if rec.KnownHit(sig, "linearizable read on a healthy leader times out when the newest committed entry is a "+k.class()+" entry") {
					// unstick with a write so that the search continues behind the finding
					e.apply(rt, opWrite)
					trace = append(trace, "write(unstick)")
				} else {
					rt.Fatalf("%s", rec.Violation(sig, "%s", msg))
				}
			}
			switch k {
			case opJoinVoter, opJoinNonVoter, opRemove, opStepdown, opBarrier, opSnapshot, opSnapshotTrunc, opRestartFollower, opTailCompact:
				if v != vInconclusive {
					interesting = true
				}
			}
		}
		rec.Case(interesting, h.String()+fmt.Sprint(path))
		rec.Sample(fmt.Sprintf("nodes=%d path=%d [%s]", h.size, path, strings.Join(trace, " ")))
	})
}
