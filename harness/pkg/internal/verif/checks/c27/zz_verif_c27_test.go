package c27

// C27: CDC events describe exactly the rows changed.
//
// Real side: a real single-node Store with Store.EnableCDC(channel, table
// filter, row-ids-only); write requests go through Store.Execute /
// Store.Request (raft log, FSM apply, CDC streamer and hooks as wired by the
// Store itself). The events produced for a write are the groups that arrive on
// the channel while that request runs.
//
// Oracle: replay. The committed state of every table is read with the raw
// driver (separate connection) before and after each request. The event
// groups emitted during the request are applied, in order, to a copy of the
// before-state held in Go maps:
//   INSERT  - the row id must be new; the after-image becomes the row
//   UPDATE  - the row old_row_id must exist and equal the before-image; it is
//             replaced by the after-image under new_row_id
//   DELETE  - the row must exist and equal the before-image; it is removed
// and the result must equal the after-state for every table the filter lets
// through. Events for filtered-out tables must not appear; in row-ids-only
// mode no images may be present and the same replay is done on row-id sets.
// Column names must be the table's columns. The JSON envelope produced by
// cdc/json for the same groups must carry the same operations, ids and
// images (and no images in ids-only mode).

import (
	"bytes"
	"context"
	"database/sql"
	"encoding/base64"
	"encoding/json"
	"fmt"
	"io"
	"log"
	"math"
	"net"
	"os"
	"path/filepath"
	"regexp"
	"sort"
	"strconv"
	"strings"
	"sync"
	"testing"
	"time"

	cdcjson "github.com/rqlite/rqlite/v10/cdc/json"
	command "github.com/rqlite/rqlite/v10/command/proto"
	"github.com/rqlite/rqlite/v10/internal/verif/vsql"
	"github.com/rqlite/rqlite/v10/internal/verif/vstat"
	"github.com/rqlite/rqlite/v10/store"
	"pgregory.net/rapid"
)

var c27Schema = []string{
	`CREATE TABLE a (id INTEGER PRIMARY KEY, i INTEGER, r REAL, t TEXT, b BLOB, u UNIQUE)`,
	`CREATE TABLE b (k TEXT, v, n NUMERIC)`,
	`CREATE TABLE c (id INTEGER PRIMARY KEY, aid INTEGER REFERENCES a(id) ON DELETE CASCADE, note TEXT)`,
	`CREATE TABLE log (what TEXT, n)`,
	`CREATE TRIGGER b_ins AFTER INSERT ON b BEGIN INSERT INTO log(what, n) VALUES('b-insert', NEW.rowid); END`,
	`CREATE TRIGGER a_del AFTER DELETE ON a BEGIN UPDATE log SET n = n + 1 WHERE what = 'b-insert'; END`,
}

var c27Tables = []string{"a", "b", "c", "log", "d"} // d exists only after a generated CREATE TABLE

type c27Stmt struct {
	SQL   string
	Class string
}

type c27Req struct {
	Tx    bool
	Path  string // execute | request
	Stmts []c27Stmt
}

type c27Case struct {
	Filter  string // "" = none
	IDsOnly bool
	Init    []string
	Reqs    []c27Req
}

func (c c27Case) render() string {
	var sb strings.Builder
	fmt.Fprintf(&sb, "filter=%q idsonly=%v init=%q", c.Filter, c.IDsOnly, c.Init)
	for i, r := range c.Reqs {
		fmt.Fprintf(&sb, " req%d{tx=%v path=%s:", i, r.Tx, r.Path)
		for j, s := range r.Stmts {
			if j > 0 {
				sb.WriteString(" | ")
			}
			sb.WriteString(s.SQL)
		}
		sb.WriteString("}")
	}
	return sb.String()
}

// ---------------------------------------------------------------- generator

func c27Lit(rt *rapid.T) string {
	return rapid.SampledFrom([]string{
		"NULL", "0", "1", "-7", "42", "9223372036854775807", "-9223372036854775808", "9007199254740993",
		"1.5", "3.0", "-0.25", "1e300", "2.5e-10",
		"'x'", "''", "'héllo'", "'漢字😀'", "'12'", "'1.50'", "'it''s'", "'line\nbreak'",
		"x''", "x'00'", "x'ff00fe'", "x'414243'", "x'c328'",
	}).Draw(rt, "lit")
}

func c27GenStmt(rt *rapid.T, idx int, uctr *int) c27Stmt {
	k := func() int { return rapid.IntRange(1, 6).Draw(rt, "k") }
	u := func() string {
		if rapid.IntRange(0, 3).Draw(rt, "ufresh") > 0 {
			*uctr++
			return strconv.Itoa(1000 + *uctr)
		}
		return strconv.Itoa(rapid.IntRange(1, 4).Draw(rt, "uold"))
	}
	classes := []string{
		"a-insert", "a-insert", "a-insert-id", "a-insert-id", "a-multi", "a-multi", "a-or-replace", "a-or-replace", "a-or-ignore", "a-or-fail",
		"a-upsert", "a-update", "a-update", "a-update-unique", "a-update-rowid", "a-update-or-replace", "a-update-noop", "a-delete", "a-delete-all",
		"b-insert", "b-insert", "b-multi", "b-update", "b-delete", "c-insert", "c-insert", "c-update", "c-delete",
		"syntax", "notnull-like", "select", "d-insert", "d-insert", "d-update", "d-delete",
	}
	cl := rapid.SampledFrom(classes).Draw(rt, "class")
	s := c27Stmt{Class: cl}
	switch cl {
	case "a-insert":
		s.SQL = fmt.Sprintf("INSERT INTO a(i,r,t,b,u) VALUES(%s,%s,%s,%s,%s)", c27Lit(rt), c27Lit(rt), c27Lit(rt), c27Lit(rt), u())
	case "a-insert-id":
		s.SQL = fmt.Sprintf("INSERT INTO a(id,i,t,u) VALUES(%d,%s,%s,%s)", k(), c27Lit(rt), c27Lit(rt), u())
	case "a-multi":
		n := rapid.IntRange(2, 4).Draw(rt, "nrows")
		var rows []string
		for j := 0; j < n; j++ {
			rows = append(rows, fmt.Sprintf("(%d,%s,%s)", rapid.IntRange(1, 9).Draw(rt, "mk"), c27Lit(rt), u()))
		}
		s.SQL = "INSERT INTO a(id,t,u) VALUES" + strings.Join(rows, ",")
	case "a-or-replace":
		s.SQL = fmt.Sprintf("INSERT OR REPLACE INTO a(id,t,u) VALUES(%d,%s,%s),(%d,%s,%s)", k(), c27Lit(rt), u(), k()+3, c27Lit(rt), u())
	case "a-or-ignore":
		s.SQL = fmt.Sprintf("INSERT OR IGNORE INTO a(id,t,u) VALUES(%d,%s,%s),(%d,%s,%s)", k(), c27Lit(rt), u(), k(), c27Lit(rt), u())
	case "a-or-fail":
		s.SQL = fmt.Sprintf("INSERT OR FAIL INTO a(id,t,u) VALUES(%d,%s,%s),(%d,%s,%s),(%d,%s,%s)", 10+idx, c27Lit(rt), u(), k(), c27Lit(rt), u(), 20+idx, c27Lit(rt), u())
	case "a-upsert":
		s.SQL = fmt.Sprintf("INSERT INTO a(id,t,i) VALUES(%d,%s,1) ON CONFLICT(id) DO UPDATE SET t=excluded.t, i=coalesce(i,0)+1", k(), c27Lit(rt))
	case "a-update":
		s.SQL = fmt.Sprintf("UPDATE a SET t=%s, r=%s, b=%s WHERE id<=%d", c27Lit(rt), c27Lit(rt), c27Lit(rt), k())
	case "a-update-unique":
		s.SQL = fmt.Sprintf("UPDATE a SET u=%s WHERE id>=%d", u(), k())
	case "a-update-rowid":
		s.SQL = fmt.Sprintf("UPDATE a SET id=id+%d WHERE id=%d", rapid.SampledFrom([]int{1, 2, 100}).Draw(rt, "shift"), k())
	case "a-update-or-replace":
		s.SQL = fmt.Sprintf("UPDATE OR REPLACE a SET u=%s WHERE id=%d", u(), k())
	case "a-update-noop":
		s.SQL = fmt.Sprintf("UPDATE a SET t=t WHERE id=%d", k())
	case "a-delete":
		s.SQL = fmt.Sprintf("DELETE FROM a WHERE id=%d", k())
	case "a-delete-all":
		s.SQL = rapid.SampledFrom([]string{"DELETE FROM a", "DELETE FROM a WHERE id>2", "DELETE FROM c"}).Draw(rt, "delall")
	case "b-insert":
		s.SQL = fmt.Sprintf("INSERT INTO b(k,v,n) VALUES(%s,%s,%s)", c27Lit(rt), c27Lit(rt), c27Lit(rt))
	case "b-multi":
		s.SQL = fmt.Sprintf("INSERT INTO b(k,v,n) VALUES(%s,%s,%s),(%s,%s,%s)", c27Lit(rt), c27Lit(rt), c27Lit(rt), c27Lit(rt), c27Lit(rt), c27Lit(rt))
	case "b-update":
		s.SQL = fmt.Sprintf("UPDATE b SET v=%s, n=%s WHERE rowid<=%d", c27Lit(rt), c27Lit(rt), k())
	case "b-delete":
		s.SQL = fmt.Sprintf("DELETE FROM b WHERE rowid=%d", k())
	case "c-insert":
		s.SQL = fmt.Sprintf("INSERT INTO c(aid,note) VALUES(%d,%s)", k(), c27Lit(rt))
	case "c-update":
		s.SQL = fmt.Sprintf("UPDATE c SET aid=%d WHERE id=%d", k(), k())
	case "c-delete":
		s.SQL = fmt.Sprintf("DELETE FROM c WHERE aid=%d", k())
	case "syntax":
		s.SQL = rapid.SampledFrom([]string{"INSERT INTO a(t) VALUES('x'", "UPDATE nosuch SET x=1", "DELETE a"}).Draw(rt, "syn")
	case "notnull-like":
		// fails at the second row after the first row's event fired
		s.SQL = fmt.Sprintf("INSERT INTO c(id,aid,note) VALUES(%d,NULL,'ok'),(%d,999,'dangling')", 50+idx, 60+idx)
	case "select":
		s.SQL = "SELECT count(*) FROM a"
	case "d-insert":
		s.SQL = fmt.Sprintf("INSERT INTO d(p,q) VALUES(%s,%s)", c27Lit(rt), c27Lit(rt))
	case "d-update":
		s.SQL = fmt.Sprintf("UPDATE d SET q=%s WHERE rowid<=%d", c27Lit(rt), k())
	case "d-delete":
		s.SQL = fmt.Sprintf("DELETE FROM d WHERE rowid=%d", k())
	}
	return s
}

// c27DDL: schema changes between writes (at most one per request).
var c27DDL = []c27Stmt{
	{SQL: "ALTER TABLE b RENAME COLUMN v TO v2", Class: "ddl-rename-column"},
	{SQL: "ALTER TABLE a RENAME COLUMN i TO i2", Class: "ddl-rename-column"},
	{SQL: "ALTER TABLE b ADD COLUMN x DEFAULT 7", Class: "ddl-add-column"},
	{SQL: "ALTER TABLE d ADD COLUMN x", Class: "ddl-add-column"},
	{SQL: "ALTER TABLE b DROP COLUMN n", Class: "ddl-drop-column"},
	{SQL: "CREATE TABLE d (p, q)", Class: "ddl-create-table"},
	{SQL: "CREATE TABLE d (p, q)", Class: "ddl-create-table"},
	{SQL: "CREATE TABLE d (q, extra, p)", Class: "ddl-create-table"},
	{SQL: "DROP TABLE d", Class: "ddl-drop-table"},
}

func c27IsDDL(class string) bool { return strings.HasPrefix(class, "ddl-") }

func c27GenCase(rt *rapid.T) c27Case {
	var c c27Case
	c.Filter = rapid.SampledFrom([]string{"", "", "", "^a$", "^(a|c)$", "^b$", "log|b", "^z"}).Draw(rt, "filter")
	c.IDsOnly = rapid.IntRange(0, 3).Draw(rt, "idsonly") == 0
	uctr := 0
	ninit := rapid.IntRange(0, 4).Draw(rt, "ninit")
	for i := 1; i <= ninit; i++ {
		c.Init = append(c.Init, fmt.Sprintf("INSERT INTO a(id,i,r,t,b,u) VALUES(%d,%d,%d.5,'init%d',x'0%d',%d)", i, i, i, i, i, i))
		if i%2 == 0 {
			c.Init = append(c.Init, fmt.Sprintf("INSERT INTO c(aid,note) VALUES(%d,'c%d')", i, i))
			c.Init = append(c.Init, fmt.Sprintf("INSERT INTO b(k,v,n) VALUES('k%d',%d,'%d.0')", i, i, i))
		}
	}
	nreq := rapid.IntRange(1, 3).Draw(rt, "nreq")
	for r := 0; r < nreq; r++ {
		req := c27Req{
			Tx:   rapid.IntRange(0, 2).Draw(rt, "tx") == 0,
			Path: rapid.SampledFrom([]string{"execute", "execute", "request"}).Draw(rt, "path"),
		}
		n := rapid.IntRange(1, 5).Draw(rt, "nstmt")
		// optional explicit transaction around a prefix of the statements
		explicit := !req.Tx && rapid.IntRange(0, 3).Draw(rt, "explicit") == 0
		closeAt := -1
		if explicit {
			req.Stmts = append(req.Stmts, c27Stmt{SQL: "BEGIN", Class: "begin"})
			closeAt = rapid.IntRange(0, n-1).Draw(rt, "closeat")
		}
		// optional savepoint block whose writes are undone by ROLLBACK TO
		spAt := -1
		if rapid.IntRange(0, 5).Draw(rt, "savepoint") == 0 {
			spAt = rapid.IntRange(0, n-1).Draw(rt, "spat")
		}
		ddlAt := -1
		if rapid.IntRange(0, 2).Draw(rt, "ddl") != 1 {
			ddlAt = rapid.IntRange(0, n-1).Draw(rt, "ddlat")
		}
		ddlTable := ""
		for i := 0; i < n; i++ {
			if i == ddlAt {
				d := rapid.SampledFrom(c27DDL).Draw(rt, "ddlstmt")
				req.Stmts = append(req.Stmts, d)
				ddlTable = strings.Fields(d.SQL)[2]
			}
			if ddlTable != "" && rapid.IntRange(0, 3).Draw(rt, "ontable") > 0 {
				// writes on the table whose schema just changed
				var sql string
				switch ddlTable {
				case "a":
					sql = rapid.SampledFrom([]string{
						fmt.Sprintf("INSERT INTO a(r,t,u) VALUES(%s,%s,%d)", c27Lit(rt), c27Lit(rt), 5000+r*10+i),
						fmt.Sprintf("UPDATE a SET t=%s WHERE id<=%d", c27Lit(rt), rapid.IntRange(1, 4).Draw(rt, "ka")),
						fmt.Sprintf("DELETE FROM a WHERE id=%d", rapid.IntRange(1, 4).Draw(rt, "kd")),
					}).Draw(rt, "aftera")
				case "b":
					sql = rapid.SampledFrom([]string{
						fmt.Sprintf("INSERT INTO b(k) VALUES(%s)", c27Lit(rt)),
						fmt.Sprintf("UPDATE b SET k=%s WHERE rowid<=%d", c27Lit(rt), rapid.IntRange(1, 3).Draw(rt, "kb")),
						"DELETE FROM b WHERE rowid=1",
					}).Draw(rt, "afterb")
				default:
					sql = rapid.SampledFrom([]string{
						fmt.Sprintf("INSERT INTO d(p,q) VALUES(%s,%s)", c27Lit(rt), c27Lit(rt)),
						fmt.Sprintf("UPDATE d SET q=%s", c27Lit(rt)),
						"DELETE FROM d WHERE rowid=1",
					}).Draw(rt, "afterd")
				}
				req.Stmts = append(req.Stmts, c27Stmt{SQL: sql, Class: "after-ddl-write"})
				if i == closeAt {
					end := rapid.SampledFrom([]string{"COMMIT", "ROLLBACK", "ROLLBACK"}).Draw(rt, "end")
					req.Stmts = append(req.Stmts, c27Stmt{SQL: end, Class: strings.ToLower(end)})
				}
				continue
			}
			if i == spAt {
				req.Stmts = append(req.Stmts, c27Stmt{SQL: "SAVEPOINT sp", Class: "savepoint"})
				req.Stmts = append(req.Stmts, c27GenStmt(rt, r*10+i+5, &uctr))
				req.Stmts = append(req.Stmts, c27Stmt{SQL: "ROLLBACK TO sp", Class: "rollback-to"})
				req.Stmts = append(req.Stmts, c27Stmt{SQL: "RELEASE sp", Class: "release"})
			}
			req.Stmts = append(req.Stmts, c27GenStmt(rt, r*10+i, &uctr))
			if i == closeAt {
				end := rapid.SampledFrom([]string{"COMMIT", "ROLLBACK", "ROLLBACK"}).Draw(rt, "end")
				req.Stmts = append(req.Stmts, c27Stmt{SQL: end, Class: strings.ToLower(end)})
			}
		}
		c.Reqs = append(c.Reqs, req)
	}
	return c
}

// ---------------------------------------------------------------- state

type c27Row []any // int64 float64 string []byte nil

type c27State map[string]map[int64]c27Row

// c27Snapshot reads the committed rows and the column names of every table
// that currently exists.
func c27Snapshot(v *sql.DB) (c27State, map[string][]string, error) {
	st := c27State{}
	cols := map[string][]string{}
	for _, t := range c27Tables {
		cr, err := v.Query("SELECT name FROM pragma_table_info(?) ORDER BY cid", t)
		if err != nil {
			return nil, nil, err
		}
		var names, quoted []string
		for cr.Next() {
			var n string
			if err := cr.Scan(&n); err != nil {
				cr.Close()
				return nil, nil, err
			}
			names = append(names, n)
			quoted = append(quoted, `"`+n+`"`)
		}
		cr.Close()
		if len(names) == 0 {
			continue // table does not exist
		}
		cols[t] = names
		rows, err := v.Query(fmt.Sprintf("SELECT rowid, %s FROM %s", strings.Join(quoted, ", "), t))
		if err != nil {
			return nil, nil, err
		}
		m := map[int64]c27Row{}
		for rows.Next() {
			dest := make([]any, len(names)+1)
			ptrs := make([]any, len(dest))
			for i := range dest {
				ptrs[i] = &dest[i]
			}
			if err := rows.Scan(ptrs...); err != nil {
				rows.Close()
				return nil, nil, err
			}
			id, ok := dest[0].(int64)
			if !ok {
				rows.Close()
				return nil, nil, fmt.Errorf("rowid is %T", dest[0])
			}
			m[id] = c27Row(dest[1:])
		}
		if err := rows.Err(); err != nil {
			rows.Close()
			return nil, nil, err
		}
		rows.Close()
		st[t] = m
	}
	return st, cols, nil
}

func (st c27State) clone() c27State {
	out := c27State{}
	for t, m := range st {
		mm := map[int64]c27Row{}
		for id, r := range m {
			mm[id] = r
		}
		out[t] = mm
	}
	return out
}

func c27ValEq(raw any, v *command.CDCValue) bool {
	if v == nil {
		return false
	}
	switch x := v.GetValue().(type) {
	case nil:
		return raw == nil
	case *command.CDCValue_I:
		r, ok := raw.(int64)
		return ok && r == x.I
	case *command.CDCValue_D:
		r, ok := raw.(float64)
		return ok && (r == x.D || math.IsNaN(r) && math.IsNaN(x.D))
	case *command.CDCValue_S:
		r, ok := raw.(string)
		return ok && r == x.S
	case *command.CDCValue_Y:
		r, ok := raw.([]byte)
		return ok && bytes.Equal(r, x.Y)
	case *command.CDCValue_B:
		return false
	}
	return false
}

func c27RenderRaw(r c27Row) string {
	parts := make([]string, len(r))
	for i, v := range r {
		switch x := v.(type) {
		case nil:
			parts[i] = "NULL"
		case int64:
			parts[i] = fmt.Sprintf("i:%d", x)
		case float64:
			parts[i] = "r:" + strconv.FormatFloat(x, 'g', -1, 64)
		case string:
			parts[i] = fmt.Sprintf("t:%q", x)
		case []byte:
			parts[i] = fmt.Sprintf("b:%x", x)
		default:
			parts[i] = fmt.Sprintf("?%T", v)
		}
	}
	return "[" + strings.Join(parts, " ") + "]"
}

func c27RenderCDC(r *command.CDCRow) string {
	if r == nil {
		return "<none>"
	}
	parts := make([]string, len(r.Values))
	for i, v := range r.Values {
		switch x := v.GetValue().(type) {
		case nil:
			parts[i] = "NULL"
		case *command.CDCValue_I:
			parts[i] = fmt.Sprintf("i:%d", x.I)
		case *command.CDCValue_D:
			parts[i] = "r:" + strconv.FormatFloat(x.D, 'g', -1, 64)
		case *command.CDCValue_S:
			parts[i] = fmt.Sprintf("t:%q", x.S)
		case *command.CDCValue_Y:
			parts[i] = fmt.Sprintf("b:%x", x.Y)
		case *command.CDCValue_B:
			parts[i] = fmt.Sprintf("bool:%v", x.B)
		}
	}
	return "[" + strings.Join(parts, " ") + "]"
}

func c27RowEq(table string, raw c27Row, r *command.CDCRow) bool {
	if r == nil || len(r.Values) != len(raw) {
		return false
	}
	for _, v := range r.Values {
		if _, isBool := v.GetValue().(*command.CDCValue_B); isBool {
			return false
		}
	}
	return c27RawRowEq(raw, c27RowFromCDC(table, r))
}

// c27RealCols: columns with REAL affinity. SQLite keeps an integer-valued REAL
// of such a column as an integer inside the record and the preupdate hook may
// hand out that integer (sqlite3_preupdate_new on INSERT); reading the column
// always gives the REAL. An integer n in such a column therefore denotes the
// REAL n and is accepted as equal to it.
var c27RealCols = map[string]map[int]bool{"a": {2: true}}

func c27RowFromCDC(table string, r *command.CDCRow) c27Row {
	out := c27RowFromCDCRaw(r)
	for i := range out {
		if n, ok := out[i].(int64); ok && c27RealCols[table][i] && int64(float64(n)) == n {
			out[i] = float64(n)
		}
	}
	return out
}

func c27RowFromCDCRaw(r *command.CDCRow) c27Row {
	out := make(c27Row, len(r.Values))
	for i, v := range r.Values {
		switch x := v.GetValue().(type) {
		case *command.CDCValue_I:
			out[i] = x.I
		case *command.CDCValue_D:
			out[i] = x.D
		case *command.CDCValue_S:
			out[i] = x.S
		case *command.CDCValue_Y:
			out[i] = x.Y
		case *command.CDCValue_B:
			out[i] = x.B
		default:
			out[i] = nil
		}
	}
	return out
}

func c27RawRowEq(a, b c27Row) bool {
	if len(a) != len(b) {
		return false
	}
	for i := range a {
		switch x := a[i].(type) {
		case nil:
			if b[i] != nil {
				return false
			}
		case int64:
			y, ok := b[i].(int64)
			if !ok || x != y {
				return false
			}
		case float64:
			y, ok := b[i].(float64)
			if !ok || x != y {
				return false
			}
		case string:
			y, ok := b[i].(string)
			if !ok || x != y {
				return false
			}
		case []byte:
			y, ok := b[i].([]byte)
			if !ok || !bytes.Equal(x, y) {
				return false
			}
		default:
			return false
		}
	}
	return true
}

func c27EvString(ev *command.CDCEvent) string {
	return fmt.Sprintf("%s %s old=%d new=%d before=%s after=%s", ev.Op, ev.Table, ev.OldRowId, ev.NewRowId, c27RenderCDC(ev.OldRow), c27RenderCDC(ev.NewRow))
}

// c27Replay applies the groups to before and compares with after. It returns
// "" or a description of the first discrepancy.
// c27Schema describes the columns around one request.
type c27Cols struct {
	before, after map[string][]string
	strictAfter   bool // every event of the request was committed after the schema change (or there is none)
}

// names returns the acceptable column-name lists for an event of table t.
func (cc c27Cols) names(t string) [][]string {
	b, inB := cc.before[t]
	a, inA := cc.after[t]
	switch {
	case inA && (cc.strictAfter || !inB):
		return [][]string{a}
	case inA && inB:
		return [][]string{a, b}
	case inB:
		return [][]string{b}
	}
	return nil
}

// replayable: rows of the table can be replayed by position (same number of
// columns before and after, or the table was created by this request).
func (cc c27Cols) replayable(t string) bool {
	b, inB := cc.before[t]
	a, inA := cc.after[t]
	if !inA {
		return false
	}
	return !inB || len(a) == len(b)
}

// c27Replay checks the groups of one request in one of two passes:
//
//	"structure": error field, table filter, column names, presence/length of
//	             images (nothing about row contents)
//	"rows":      the replay of row ids and images on the before-state
//
// The passes are independent so that two different problems in one request
// (e.g. surplus events and stale column names) are each attributed correctly.
func c27Replay(pass string, before, after c27State, groups []*command.CDCIndexedEventGroup, filter *regexp.Regexp, idsOnly bool, cc c27Cols) string {
	structure := pass == "structure"
	shadow := before.clone()
	for _, t := range c27Tables {
		if shadow[t] == nil {
			shadow[t] = map[int64]c27Row{}
		}
	}
	for gi, g := range groups {
		for ei, ev := range g.Events {
			where := fmt.Sprintf("group %d event %d (%s)", gi, ei, c27EvString(ev))
			tbl, ok := shadow[ev.Table]
			if structure {
				if ev.Error != "" {
					return where + ": event carries error " + ev.Error
				}
				if !ok {
					return where + ": unknown table"
				}
				if filter != nil && !filter.MatchString(ev.Table) {
					return where + ": table does not match the filter"
				}
				okNames := false
				for _, cand := range cc.names(ev.Table) {
					if strings.Join(ev.ColumnNames, ",") == strings.Join(cand, ",") {
						okNames = true
					}
				}
				if !okNames {
					return where + fmt.Sprintf(": column names %v, table has %v", ev.ColumnNames, cc.names(ev.Table))
				}
				if idsOnly {
					if ev.OldRow != nil || ev.NewRow != nil {
						return where + ": row images present in row-ids-only mode"
					}
				} else {
					for _, img := range []*command.CDCRow{ev.OldRow, ev.NewRow} {
						if img != nil && len(img.Values) != len(ev.ColumnNames) {
							return where + fmt.Sprintf(": image has %d values for column names %v", len(img.Values), ev.ColumnNames)
						}
					}
				}
				continue
			}
			if !ok || (filter != nil && !filter.MatchString(ev.Table)) {
				continue // reported by the structure pass
			}
			ncols := len(cc.after[ev.Table])
			if !cc.replayable(ev.Table) {
				continue // the schema change itself rewrote or removed rows; structural checks only
			}
			switch ev.Op {
			case command.CDCEvent_INSERT:
				if _, exists := tbl[ev.NewRowId]; exists {
					return where + ": INSERT of a row id that already exists"
				}
				if idsOnly {
					tbl[ev.NewRowId] = nil
				} else {
					if ev.NewRow == nil || len(ev.NewRow.Values) != ncols {
						return where + ": INSERT without a complete after-image"
					}
					if ev.OldRow != nil {
						return where + ": INSERT with a before-image"
					}
					tbl[ev.NewRowId] = c27RowFromCDC(ev.Table, ev.NewRow)
				}
			case command.CDCEvent_UPDATE:
				old, exists := tbl[ev.OldRowId]
				if !exists {
					return where + ": UPDATE of a row id that does not exist"
				}
				if !idsOnly {
					if ev.NewRow == nil || len(ev.NewRow.Values) != ncols {
						return where + ": UPDATE without a complete after-image"
					}
					if !c27RowEq(ev.Table, old, ev.OldRow) {
						return where + ": before-image differs from the row, which is " + c27RenderRaw(old)
					}
				}
				delete(tbl, ev.OldRowId)
				if _, exists := tbl[ev.NewRowId]; exists {
					return where + ": UPDATE moves the row onto an existing row id"
				}
				if idsOnly {
					tbl[ev.NewRowId] = nil
				} else {
					tbl[ev.NewRowId] = c27RowFromCDC(ev.Table, ev.NewRow)
				}
			case command.CDCEvent_DELETE:
				old, exists := tbl[ev.OldRowId]
				if !exists {
					return where + ": DELETE of a row id that does not exist"
				}
				if !idsOnly {
					if ev.NewRow != nil {
						return where + ": DELETE with an after-image"
					}
					if !c27RowEq(ev.Table, old, ev.OldRow) {
						return where + ": before-image differs from the row, which is " + c27RenderRaw(old)
					}
				}
				delete(tbl, ev.OldRowId)
			default:
				return where + ": unknown operation"
			}
		}
	}
	if structure {
		return ""
	}
	for _, t := range c27Tables {
		if filter != nil && !filter.MatchString(t) {
			continue
		}
		if !cc.replayable(t) {
			continue
		}
		sh, af := shadow[t], after[t]
		var ids []int64
		seen := map[int64]bool{}
		for id := range sh {
			ids, seen[id] = append(ids, id), true
		}
		for id := range af {
			if !seen[id] {
				ids = append(ids, id)
			}
		}
		sort.Slice(ids, func(i, j int) bool { return ids[i] < ids[j] })
		for _, id := range ids {
			s, inS := sh[id]
			a, inA := af[id]
			switch {
			case inS && !inA:
				return fmt.Sprintf("after replay table %s has row %d, the database does not", t, id)
			case !inS && inA:
				return fmt.Sprintf("database table %s has row %d %s that no event produced", t, id, c27RenderRaw(a))
			case !idsOnly && !c27RawRowEq(s, a):
				return fmt.Sprintf("table %s row %d: events give %s, database has %s", t, id, c27RenderRaw(s), c27RenderRaw(a))
			case idsOnly:
				// a row whose content changed must have been touched by an event
				if b, inB := before[t][id]; inB && !c27RawRowEq(b, a) && !c27Touched(groups, t, id) {
					return fmt.Sprintf("table %s row %d changed from %s to %s but no event names it", t, id, c27RenderRaw(b), c27RenderRaw(a))
				}
			}
		}
	}
	return ""
}

// c27ExplainedBySurplus reports whether the replay becomes exact when one
// contiguous run of events (or two runs, for short sequences) is left out.
func c27ExplainedBySurplus(before, after c27State, groups []*command.CDCIndexedEventGroup, filter *regexp.Regexp, idsOnly bool, cols c27Cols) bool {
	var evs []*command.CDCEvent
	for _, g := range groups {
		evs = append(evs, g.Events...)
	}
	n := len(evs)
	try := func(keep func(i int) bool) bool {
		g := &command.CDCIndexedEventGroup{}
		for i, ev := range evs {
			if keep(i) {
				g.Events = append(g.Events, ev)
			}
		}
		return c27Replay("rows", before, after, []*command.CDCIndexedEventGroup{g}, filter, idsOnly, cols) == ""
	}
	for i := 0; i < n; i++ {
		for j := i + 1; j <= n; j++ {
			if try(func(k int) bool { return k < i || k >= j }) {
				return true
			}
		}
	}
	if n <= 14 {
		for i := 0; i < n; i++ {
			for j := i + 1; j <= n; j++ {
				for k := j + 1; k < n; k++ {
					for l := k + 1; l <= n; l++ {
						if try(func(x int) bool { return x < i || (x >= j && x < k) || x >= l }) {
							return true
						}
					}
				}
			}
		}
	}
	return false
}

func c27Touched(groups []*command.CDCIndexedEventGroup, t string, id int64) bool {
	for _, g := range groups {
		for _, ev := range g.Events {
			if ev.Table == t && (ev.NewRowId == id || ev.OldRowId == id) {
				return true
			}
		}
	}
	return false
}

// c27CheckJSON: the envelope built by cdc/json describes the same events.
func c27CheckJSON(groups []*command.CDCIndexedEventGroup, idsOnly bool) string {
	if len(groups) == 0 {
		return ""
	}
	b, err := cdcjson.MarshalToEnvelopeJSON("svc", "node", false, groups)
	if err != nil {
		return "json envelope: " + err.Error()
	}
	dec := json.NewDecoder(bytes.NewReader(b))
	dec.UseNumber()
	var env struct {
		Payload []struct {
			Index  json.Number `json:"index"`
			Events []struct {
				Op       string         `json:"op"`
				Table    string         `json:"table"`
				NewRowID json.Number    `json:"new_row_id"`
				OldRowID json.Number    `json:"old_row_id"`
				Before   map[string]any `json:"before"`
				After    map[string]any `json:"after"`
				Error    string         `json:"error"`
			} `json:"events"`
		} `json:"payload"`
	}
	if err := dec.Decode(&env); err != nil {
		return "json envelope does not decode: " + err.Error()
	}
	if len(env.Payload) != len(groups) {
		return fmt.Sprintf("json envelope has %d messages for %d groups", len(env.Payload), len(groups))
	}
	num := func(n json.Number) int64 {
		if n == "" {
			return 0
		}
		v, _ := strconv.ParseInt(string(n), 10, 64)
		return v
	}
	cmp := func(img map[string]any, row *command.CDCRow, names []string, what string) string {
		if row == nil {
			if img != nil {
				return what + " present in JSON but not in the event"
			}
			return ""
		}
		if len(img) != len(names) {
			return fmt.Sprintf("%s has %d keys for %d columns", what, len(img), len(names))
		}
		for i, n := range names {
			jv, ok := img[n]
			if !ok {
				return what + " lacks column " + n
			}
			okv := false
			switch x := row.Values[i].GetValue().(type) {
			case nil:
				okv = jv == nil
			case *command.CDCValue_I:
				s, isN := jv.(json.Number)
				okv = isN && string(s) == strconv.FormatInt(x.I, 10)
			case *command.CDCValue_D:
				s, isN := jv.(json.Number)
				if isN {
					f, err := strconv.ParseFloat(string(s), 64)
					okv = err == nil && f == x.D
				}
			case *command.CDCValue_S:
				s, isS := jv.(string)
				okv = isS && s == x.S
			case *command.CDCValue_Y:
				s, isS := jv.(string)
				if isS {
					d, err := base64.StdEncoding.DecodeString(s)
					okv = err == nil && bytes.Equal(d, x.Y)
				} else {
					okv = jv == nil && len(x.Y) == 0 && x.Y == nil
				}
			}
			if !okv {
				return fmt.Sprintf("%s column %s: JSON %#v for %s", what, n, jv, c27RenderCDC(&command.CDCRow{Values: row.Values[i : i+1]}))
			}
		}
		return ""
	}
	for gi, g := range groups {
		if len(env.Payload[gi].Events) != len(g.Events) {
			return fmt.Sprintf("json message %d has %d events for %d", gi, len(env.Payload[gi].Events), len(g.Events))
		}
		for ei, ev := range g.Events {
			je := env.Payload[gi].Events[ei]
			if je.Op != ev.Op.String() || je.Table != ev.Table || num(je.NewRowID) != ev.NewRowId || num(je.OldRowID) != ev.OldRowId {
				return fmt.Sprintf("json message %d event %d: %s %s old=%s new=%s for %s", gi, ei, je.Op, je.Table, je.OldRowID, je.NewRowID, c27EvString(ev))
			}
			// an event that cannot carry values (it has an error, or its images
			// do not fit its column names) must still be delivered, with an error
			mismatch := (ev.OldRow != nil && len(ev.OldRow.Values) != len(ev.ColumnNames)) || (ev.NewRow != nil && len(ev.NewRow.Values) != len(ev.ColumnNames))
			if ev.Error != "" || mismatch {
				if je.Error == "" {
					return fmt.Sprintf("json message %d event %d: event with error/mismatching column count delivered without error", gi, ei)
				}
				continue
			}
			if je.Error != "" {
				return fmt.Sprintf("json message %d event %d carries error %s", gi, ei, je.Error)
			}
			if idsOnly && (je.Before != nil || je.After != nil) {
				return fmt.Sprintf("json message %d event %d has images in row-ids-only mode", gi, ei)
			}
			if m := cmp(je.Before, ev.OldRow, ev.ColumnNames, "before"); m != "" {
				return fmt.Sprintf("json message %d event %d: %s", gi, ei, m)
			}
			if m := cmp(je.After, ev.NewRow, ev.ColumnNames, "after"); m != "" {
				return fmt.Sprintf("json message %d event %d: %s", gi, ei, m)
			}
		}
	}
	return ""
}

// ---------------------------------------------------------------- running

func c27IsErr(r *command.ExecuteQueryResponse) bool {
	switch x := r.GetResult().(type) {
	case *command.ExecuteQueryResponse_Error:
		return true
	case *command.ExecuteQueryResponse_E:
		return x.E.GetError() != ""
	case *command.ExecuteQueryResponse_Q:
		return x.Q.GetError() != ""
	}
	return false
}

// c27Classify names the shape of a failing request.
func c27Classify(req c27Req, failed []bool) string {
	inExplicit, failedInExplicit, anyFailed, rollback, rollbackTo := false, false, false, false, false
	ri := 0
	for _, s := range req.Stmts {
		f := ri < len(failed) && failed[ri]
		ri++
		switch s.Class {
		case "rollback-to":
			rollbackTo = true
		case "savepoint", "release":
		case "begin":
			inExplicit = true
		case "commit":
			inExplicit = false
		case "rollback":
			inExplicit = false
			rollback = true
		}
		if f && s.Class != "begin" && s.Class != "commit" && s.Class != "rollback" && s.Class != "savepoint" && s.Class != "rollback-to" && s.Class != "release" {
			anyFailed = true
			if inExplicit {
				failedInExplicit = true
			}
		}
	}
	switch {
	case rollbackTo:
		return "C27/phantom-events-after-rollback-to-savepoint"
	case failedInExplicit:
		return "C27/phantom-events-from-failed-statement-in-explicit-tx"
	case rollback:
		return "C27/phantom-events-after-explicit-rollback"
	case anyFailed:
		return "C27/phantom-events-from-failed-statement"
	}
	return "C27/replay-mismatch"
}

var c27KnownWhat = map[string]string{
	"C27/phantom-events-after-rollback-to-savepoint":          "events of changes undone by ROLLBACK TO a savepoint are emitted when the enclosing transaction commits",
	"C27/phantom-events-from-failed-statement":                "events of a statement that failed (and was rolled back) are emitted with the next commit of the same request",
	"C27/phantom-events-after-explicit-rollback":              "events of an explicitly rolled-back transaction are emitted with the next commit of the same request",
	"C27/phantom-events-from-failed-statement-in-explicit-tx": "events of a statement that failed inside an explicit transaction are emitted when the transaction commits",
}

// ---------------------------------------------------------------- store environment

type c27Layer struct{ net.Listener }

func (l *c27Layer) Dial(addr string, timeout time.Duration) (net.Conn, error) {
	return net.DialTimeout("tcp", addr, timeout)
}

type c27Env struct {
	s   *store.Store
	dir string
	cdc bool
}

func c27NewEnv() (*c27Env, error) {
	dir, err := os.MkdirTemp("", "c27store")
	if err != nil {
		return nil, err
	}
	ln, err := net.Listen("tcp", "127.0.0.1:0")
	if err != nil {
		os.RemoveAll(dir)
		return nil, err
	}
	cfg := store.NewDBConfig()
	cfg.FKConstraints = true
	s := store.New(&store.Config{DBConf: cfg, Dir: dir, ID: "c27", Logger: log.New(io.Discard, "", 0)}, &c27Layer{ln})
	if err := s.Open(); err != nil {
		ln.Close()
		os.RemoveAll(dir)
		return nil, err
	}
	if err := s.Bootstrap(store.NewServer(s.ID(), s.Addr(), true)); err != nil {
		s.Close(true)
		os.RemoveAll(dir)
		return nil, err
	}
	if _, err := s.WaitForLeader(30 * time.Second); err != nil {
		s.Close(true)
		os.RemoveAll(dir)
		return nil, err
	}
	return &c27Env{s: s, dir: dir}, nil
}

func (e *c27Env) close() {
	e.s.Close(true)
	os.RemoveAll(e.dir)
}

func (e *c27Env) exec(tx bool, stmts ...string) ([]*command.ExecuteQueryResponse, error) {
	req := &command.ExecuteRequest{Request: &command.Request{Transaction: tx}}
	for _, s := range stmts {
		req.Request.Statements = append(req.Request.Statements, &command.Statement{Sql: s})
	}
	rs, _, err := e.s.Execute(context.Background(), req)
	return rs, err
}

// reset recreates the schema and the initial rows with CDC switched off.
func (e *c27Env) reset(c c27Case) error {
	if e.cdc {
		if err := e.s.DisableCDC(); err != nil {
			return err
		}
		e.cdc = false
	}
	e.exec(false, "ROLLBACK")
	stmts := []string{"DROP TABLE IF EXISTS c", "DROP TABLE IF EXISTS a", "DROP TABLE IF EXISTS b", "DROP TABLE IF EXISTS log", "DROP TABLE IF EXISTS d"}
	stmts = append(stmts, c27Schema...)
	stmts = append(stmts, c.Init...)
	rs, err := e.exec(true, stmts...)
	if err != nil {
		return err
	}
	if len(rs) != len(stmts) {
		return fmt.Errorf("reset ran %d of %d statements", len(rs), len(stmts))
	}
	for i, r := range rs {
		if c27IsErr(r) {
			return fmt.Errorf("reset statement %q failed: %v", stmts[i], r)
		}
	}
	e.warm()
	return nil
}

// warm makes several connections of the Store's read-only pool load the
// current schema and prepare the column-name lookups, so that a later lookup
// is likely to land on a connection whose view of the schema is old.
func (e *c27Env) warm() {
	var wg sync.WaitGroup
	for i := 0; i < 3; i++ {
		wg.Add(1)
		go func() {
			defer wg.Done()
			qr := &command.QueryRequest{Request: &command.Request{}, Level: command.ConsistencyLevel_NONE}
			qr.Request.Statements = append(qr.Request.Statements, &command.Statement{
				Sql: "WITH RECURSIVE n(x) AS (SELECT 1 UNION ALL SELECT x+1 FROM n WHERE x<30000) SELECT count(*) FROM n"})
			for _, t := range c27Tables {
				qr.Request.Statements = append(qr.Request.Statements, &command.Statement{Sql: fmt.Sprintf(`SELECT * FROM "%s" LIMIT 0`, t)})
			}
			e.s.Query(context.Background(), qr)
		}()
	}
	wg.Wait()
}

func c27Run(rt *rapid.T, rec *vstat.Rec, env *c27Env, c c27Case) {
	if err := env.reset(c); err != nil {
		c27Bail("infrastructure: %v", err)
	}
	ch := make(chan *command.CDCIndexedEventGroup, 1024)
	var filter *regexp.Regexp
	if c.Filter != "" {
		filter = regexp.MustCompile(c.Filter)
	}
	if err := env.s.EnableCDC(ch, filter, c.IDsOnly); err != nil {
		c27Bail("infrastructure: EnableCDC: %v", err)
	}
	env.cdc = true
	v, err := vsql.Open(filepath.Join(env.dir, "db.sqlite"))
	if err != nil {
		c27Bail("infrastructure: %v", err)
	}
	defer v.Close()
	// the starting state must be what the case says (shared store)
	start, _, err := c27Snapshot(v)
	if err != nil {
		c27Bail("infrastructure: snapshot: %v", err)
	}
	nInitA := 0
	for _, s := range c.Init {
		if strings.HasPrefix(s, "INSERT INTO a(") {
			nInitA++
		}
	}
	if len(start["a"]) != nInitA || len(start["log"]) != len(start["b"]) || start["d"] != nil {
		c27Bail("infrastructure: shared store not in the initial state")
	}

	totalEvents, anyFailedStmt, multi, anyDDL, lastDDL := 0, false, false, false, ""
	type pending struct {
		sig, msg string
	}
	var fails []pending // discrepancies of the first request that has any
	for ri, req := range c.Reqs {
		before, colsB, err := c27Snapshot(v)
		if err != nil {
			c27Bail("infrastructure: snapshot: %v", err)
		}
		preq := &command.Request{Transaction: req.Tx}
		for _, s := range req.Stmts {
			preq.Statements = append(preq.Statements, &command.Statement{Sql: s.SQL})
		}
		var rs []*command.ExecuteQueryResponse
		var rerr error
		if req.Path == "execute" {
			rs, _, rerr = env.s.Execute(context.Background(), &command.ExecuteRequest{Request: preq})
		} else {
			rs, _, _, rerr = env.s.Request(context.Background(), &command.ExecuteQueryRequest{Request: preq})
		}
		if rerr == store.ErrNotLeader || rerr == store.ErrNotReady || rerr == store.ErrNotOpen {
			c27Bail("infrastructure: %v", rerr)
		}
		var groups []*command.CDCIndexedEventGroup
	drain:
		for {
			select {
			case g := <-ch:
				groups = append(groups, g)
			default:
				break drain
			}
		}
		after, colsA, err := c27Snapshot(v)
		if err != nil {
			c27Bail("infrastructure: snapshot: %v", err)
		}
		failed := make([]bool, len(rs))
		for i, r := range rs {
			failed[i] = c27IsErr(r)
			if failed[i] {
				anyFailedStmt = true
			}
		}
		for _, g := range groups {
			totalEvents += len(g.Events)
			if len(g.Events) > 1 {
				multi = true
			}
		}
		if len(fails) > 0 {
			continue
		}
		// schema around this request: events committed after the (single)
		// schema change must carry the new column names
		ddlClass, ddlSeen, dmlBeforeDDL := "", false, false
		ddlSameTx, inBegin, inSavepoint := req.Tx, false, false
		for _, s := range req.Stmts {
			switch s.Class {
			case "begin":
				inBegin = true
			case "savepoint":
				inSavepoint = true
			case "release":
				inSavepoint = false // an enclosing BEGIN stays open
			case "commit", "rollback":
				inBegin, inSavepoint = false, false
			}
			open := inBegin || inSavepoint // inside an explicit transaction or savepoint
			switch {
			case c27IsDDL(s.Class):
				ddlClass, ddlSeen = s.Class, true
				ddlSameTx = ddlSameTx || open
			case !ddlSeen && s.Class != "begin" && s.Class != "savepoint" && s.Class != "select":
				dmlBeforeDDL = true
			}
		}
		cols := c27Cols{before: colsB, after: colsA, strictAfter: req.Tx || !ddlSeen || !dmlBeforeDDL}
		if ddlSeen {
			anyDDL = true
			lastDDL = ddlClass
		}
		// the envelope must describe the groups it is given, whatever they are
		if m := c27CheckJSON(groups, c.IDsOnly); m != "" {
			fails = append(fails, pending{"C27/json-envelope-mismatch", fmt.Sprintf("request %d: %s", ri, m)})
			continue
		}
		if msg := c27Replay("structure", before, after, groups, filter, c.IDsOnly, cols); msg != "" {
			sig := "C27/replay-mismatch"
			namesKind := strings.Contains(msg, "column names") || strings.Contains(msg, "carries error")
			switch {
			case namesKind && ddlSeen:
				sig = fmt.Sprintf("C27/wrong-column-names-after-schema-change{ddl=%s,same-tx=%v}", strings.TrimPrefix(ddlClass, "ddl-"), ddlSameTx)
			case namesKind && lastDDL != "":
				// the schema changed in an earlier request of this program
				sig = fmt.Sprintf("C27/wrong-column-names-after-schema-change{ddl=%s,same-tx=false}", strings.TrimPrefix(lastDDL, "ddl-"))
			}
			fails = append(fails, pending{sig, fmt.Sprintf("request %d: %s", ri, msg)})
		}
		if msg := c27Replay("rows", before, after, groups, filter, c.IDsOnly, cols); msg != "" {
			sig := "C27/replay-mismatch"
			// phantom signatures are reserved for discrepancies that are
			// explained by surplus events: leaving out one (or two) contiguous
			// runs of events makes the row replay exact
			if c27ExplainedBySurplus(before, after, groups, filter, c.IDsOnly, cols) {
				sig = c27Classify(req, failed)
			}
			fails = append(fails, pending{sig, fmt.Sprintf("request %d: %s", ri, msg)})
		}
	}

	rec.Case(totalEvents > 0 && (anyFailedStmt || multi), c.render())
	rec.Sample(c.render())
	if c.Filter == "" {
		rec.Label("filter=none")
	} else {
		rec.Label("filter=set")
	}
	rec.Label(fmt.Sprintf("idsonly=%v", c.IDsOnly))
	if totalEvents == 0 {
		rec.Label("no-events")
	}
	if anyFailedStmt {
		rec.Label("has-failed-statement")
	}
	if multi {
		rec.Label("multi-event-group")
	}
	if anyDDL {
		rec.Label("has-schema-change")
	}
	seen := map[string]bool{}
	for _, r := range c.Reqs {
		if r.Tx {
			seen["req:tx-flag"] = true
		}
		seen["path="+r.Path] = true
		for _, s := range r.Stmts {
			seen["class:"+s.Class] = true
		}
	}
	for l := range seen {
		rec.Label(l)
	}
	for _, f := range fails {
		what := c27KnownWhat[f.sig]
		if strings.HasPrefix(f.sig, "C27/wrong-column-names-after-schema-change{") {
			what = "after a schema change the column names attached to CDC events are looked up on a read-only connection that does not see the change (old names, or an error instead of values)"
		}
		if rec.KnownHit(f.sig, what) {
			continue
		}
		c27Fatal(rt, rec.Violation(f.sig, "%s ;; case: %s", f.msg, c.render()))
	}
}

func c27Fatal(rt *rapid.T, msg string) { rt.Fatalf("%s", msg) }

func TestVerif_C27_Store(t *testing.T) {
	rec := vstat.New(t, "C27", "store",
		"rapid: 1-3 write requests of 1-5 statements (single/multi-row INSERT, OR REPLACE/IGNORE/FAIL, UPSERT, UPDATE incl. rowid-changing, UNIQUE-violating, OR REPLACE and no-op, DELETE incl. whole table and FK cascade, trigger-driven writes, FK/UNIQUE/PK failures after earlier rows of the statement fired, syntax errors, explicit BEGIN..COMMIT/ROLLBACK, SAVEPOINT..ROLLBACK TO..RELEASE blocks, at most one schema change per request (ALTER TABLE RENAME/ADD/DROP COLUMN, CREATE/DROP TABLE d with different column lists) with writes before and after it, read-only pool connections warmed before each case, transaction flag on/off, Store.Execute and Store.Request) over four tables with INTEGER/REAL/TEXT/BLOB/NUMERIC/untyped columns, rowid alias and plain rowid, values of every storage class; Store.EnableCDC with table filter none/5 regexes, row-ids-only on/off; one real single-node store per process, schema recreated (CDC off) per case; non-trivial = events were emitted and the program has a failing statement or a multi-event group; distinct by full program text")
	var env *c27Env
	var err error
	for try := 0; try < 3; try++ { // store start-up can fail on a very busy machine
		if env, err = c27NewEnv(); err == nil {
			break
		}
		time.Sleep(2 * time.Second)
	}
	if err != nil {
		rec.Label("inconclusive:infrastructure")
		t.Logf("infrastructure: %v", err)
		return
	}
	defer env.close()
	rapid.Check(t, func(rt *rapid.T) {
		defer c27Guard(rec)
		c27Run(rt, rec, env, c27GenCase(rt))
	})
}

// c27Inconclusive is raised for infrastructure trouble inside a case; the
// case is then counted under the label "inconclusive:infrastructure" instead
// of being skipped (rapid gives up when most cases are skipped).
type c27Inconclusive struct{ msg string }

func c27Bail(format string, args ...any) {
	panic(c27Inconclusive{fmt.Sprintf(format, args...)})
}

// c27Guard is deferred at the top of a case.
func c27Guard(rec *vstat.Rec) {
	if r := recover(); r != nil {
		if _, ok := r.(c27Inconclusive); ok {
			rec.Label("inconclusive:infrastructure")
			return
		}
		panic(r)
	}
}
