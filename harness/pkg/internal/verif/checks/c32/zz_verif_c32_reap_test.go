package c32

// C32, reaping: "an unresponsive node is removed only after the configured
// timeout for its role."
//
// Full grid (generated): ReapTimeout in {0, 3 s} x ReapReadOnlyTimeout in
// {0, 3 s} x victim role {voter, non-voter}, on clusters of 2-3 voters and 1-2
// non-voters, optionally after a stepdown or after the victim changed its role
// by re-joining (so the role that counts is the current one). The victim is
// killed and the configuration is watched for 3x the small timeout (9 s) when
// the victim's role must never be reaped, otherwise until it is gone (max 9 s).
//
// Oracle: with timeout 0 for the victim's role its removal is a violation
// whenever it happens; with 3 s it must not disappear earlier than 1 s after
// the kill; no other member may disappear; no duplicate ID/address at any time.

import (
	"fmt"
	"os"
	"runtime"
	"strings"
	"sync/atomic"
	"testing"
	"time"

	"github.com/rqlite/rqlite/v10/internal/verif/vnode"
	"github.com/rqlite/rqlite/v10/internal/verif/vstat"
	"pgregory.net/rapid"
)

var c32ReapForced atomic.Bool

type reapCase struct {
	VoterT, ROT time.Duration
	VictimVoter bool
	Voters, NV  int
	Pre         string // none | stepdown | victim-role-change
	Pick        int
}

func (c reapCase) String() string {
	return fmt.Sprintf("reap=%v/%v victimVoter=%v voters=%d nonvoters=%d pre=%s pick=%d", c.VoterT, c.ROT, c.VictimVoter, c.Voters, c.NV, c.Pre, c.Pick)
}

func TestVerif_C32_Reap(t *testing.T) {
	vnode.QuietLogs()
	rec := vstat.New(t, "C32", "reap",
		"rapid over the full grid ReapTimeout {0,3s} x ReapReadOnlyTimeout {0,3s} x victim role {voter,non-voter} x cluster shape (3 voters, 1-2 non-voters) x pre-step {none, stepdown, victim changed role by re-join, the same with another peer already unresponsive (forced as the first case of every process)}; "+
			"non-trivial = a member was killed and watched; distinct = the tuple")
	rapid.Check(t, func(rt *rapid.T) {
		c := reapCase{
			VoterT:      []time.Duration{0, reapT}[rapid.IntRange(0, 1).Draw(rt, "voterT")],
			ROT:         []time.Duration{0, reapT}[rapid.IntRange(0, 1).Draw(rt, "roT")],
			VictimVoter: rapid.Bool().Draw(rt, "victimVoter"),
			Voters:      3,
			NV:          rapid.IntRange(1, 2).Draw(rt, "nv"),
			Pre:         []string{"none", "none", "stepdown", "victim-role-change", "stale-cache-role-change"}[rapid.IntRange(0, 4).Draw(rt, "pre")],
			Pick:        rapid.IntRange(0, 7).Draw(rt, "pick"),
		}
		// Reached by construction once per process (first case): another peer is already unresponsive
		// (the leader has observed failed heartbeats), then the victim re-joins with the other role and
		// is killed; its CURRENT role is never reaped (timeout 0) while its old role's timeout is 3 s.
		if c32ReapForced.CompareAndSwap(false, true) {
			c.Pre, c.NV = "stale-cache-role-change", 2
			if c.VictimVoter {
				c.VoterT, c.ROT = 0, reapT
			} else {
				c.VoterT, c.ROT = reapT, 0
			}
			rec.Label("forced:stale-cache-role-change-then-kill")
		}
		dir, err := os.MkdirTemp("", "c32r-")
		if err != nil {
			rec.Label("inconclusive:tempdir")
			return
		}
		defer os.RemoveAll(dir)
		wd := time.AfterFunc(150*time.Second, func() {
			buf := make([]byte, 8<<20)
			buf = buf[:runtime.Stack(buf, true)]
			os.WriteFile(fmt.Sprintf("/dev/shm/g9-c32r-stuck-%d.txt", os.Getpid()), buf, 0o644)
		})
		defer wd.Stop()
		opts := vnode.Fast()
		opts.ReapTimeout, opts.ReapReadOnlyTimeout = c.VoterT, c.ROT
		e := &env{rec: rec, c: vnode.NewCluster(dir, opts), model: map[string]*member{}}
		defer e.c.Close()
		fail := func(sig, msg string) {
			full := fmt.Sprintf("%s; case %s; history: %s", msg, c, strings.Join(e.trace, " | "))
			if rec.KnownHit(sig, msg) {
				return
			}
			rt.Fatalf("%s", rec.Violation(sig, "%s", full))
		}
		n0, err := e.c.Start(e.ep(), e.id())
		if err != nil || e.c.Bootstrap(n0) != nil {
			rec.Label("inconclusive:bootstrap")
			return
		}
		e.model[n0.ID] = &member{id: n0.ID, addr: n0.Addr, voter: true, node: n0, alive: true}
		if e.leader() == nil {
			rec.Label("inconclusive:no-leader")
			return
		}
		// the role change flips the victim's role, so start it in the opposite role
		startVoters, startNV := c.Voters, c.NV
		for i := 1; i < startVoters+startNV; i++ {
			n, err := e.c.Start(e.ep(), e.id())
			if err != nil {
				rec.Label("inconclusive:start")
				return
			}
			voter := i < startVoters
			if err := e.join(n, n.ID, n.Addr, voter); err != nil {
				rec.Label("inconclusive:initial-join")
				return
			}
			e.model[n.ID] = &member{id: n.ID, addr: n.Addr, voter: voter, node: n, alive: true}
		}
		if sig, msg, inc := e.check("cluster formation"); inc {
			rec.Label("inconclusive:formation")
			return
		} else if sig != "" {
			fail(sig, msg)
			return
		}
		if c.Pre == "stepdown" {
			if l := e.leader(); l != nil {
				err := l.Store.Stepdown(true, "")
				e.trace = append(e.trace, fmt.Sprintf("stepdown %s err=%v", l.ID, err))
			}
		}
		l := e.leader()
		if l == nil {
			rec.Label("inconclusive:no-leader")
			return
		}
		var victim *member
		var bystander *member
		if c.Pre == "stale-cache-role-change" {
			// pick the victim first (opposite role now), then make another non-voter unresponsive
			victim = e.pickMember(c.Pick, func(m *member) bool { return m.alive && m.node != l && m.voter != c.VictimVoter && m.sure() })
			bystander = e.pickMember(c.Pick+1, func(m *member) bool { return m.alive && m.node != l && m != victim && !m.voter })
			if victim == nil || bystander == nil {
				rec.Label("inconclusive:no-bystander")
				rec.Case(false, c.String())
				return
			}
			e.c.Crash(bystander.node)
			bystander.alive = false
			bystander.deadAt = time.Now()
			e.trace = append(e.trace, "kill bystander "+bystander.id)
			time.Sleep(500 * time.Millisecond) // the leader sees failed heartbeats while the victim still has its old role
			rec.Label("pre:stale-cache-role-change")
		}
		if c.Pre == "victim-role-change" || c.Pre == "stale-cache-role-change" {
			// pick a member of the opposite role and let it re-join with the role under test
			if victim == nil {
				victim = e.pickMember(c.Pick, func(m *member) bool { return m.alive && m.node != l && m.voter != c.VictimVoter && m.sure() })
			}
			if victim != nil && (!victim.voter || e.canStopVoter()) {
				if err := e.join(victim.node, victim.id, victim.addr, c.VictimVoter); err != nil {
					rec.Label("inconclusive:role-change-failed")
					return
				}
				victim.voter = c.VictimVoter
				e.trace = append(e.trace, fmt.Sprintf("role-change %s voter=%v", victim.id, c.VictimVoter))
				if sig, msg, inc := e.check("role change of the victim"); inc {
					rec.Label("inconclusive:check")
					return
				} else if sig != "" {
					fail(sig, msg)
					return
				}
				if l = e.leader(); l == nil || victim.node == l {
					rec.Label("inconclusive:victim-is-leader")
					return
				}
			} else {
				victim = nil
			}
		}
		if victim == nil {
			victim = e.pickMember(c.Pick, func(m *member) bool { return m.alive && m.node != l && m.voter == c.VictimVoter && m.sure() })
		}
		if victim == nil || (victim.voter && !e.canStopVoter()) {
			rec.Label("inconclusive:no-victim")
			return
		}
		rec.Label(fmt.Sprintf("grid:voterT=%v:roT=%v:victimVoter=%v", c.VoterT, c.ROT, victim.voter))
		e.killWatch(victim, opts, 3*reapT, fail)
		// nobody else may have disappeared
		if _, stillModelled := e.model[victim.id]; stillModelled {
			// victim stayed in the configuration: the full model must still hold
			if sig, msg, inc := e.check("watching the killed " + victim.id); !inc && sig != "" {
				fail(sig, msg)
			}
		}
		rec.Case(true, c.String())
		rec.Sample(c.String() + " :: " + strings.Join(e.trace, " | "))
	})
}
