package c32

// C32: after any sequence of joins, re-joins (same node with a new address, a
// new node re-using an address or an ID), role changes, notify-driven
// bootstraps, removals and automatic removal of unresponsive nodes, the cluster
// configuration never holds two entries with the same ID or the same address;
// every member has the role it last asked for (and the address it last
// announced); an unresponsive node is removed only after the timeout
// configured for its role.
//
// Generator: live vnode clusters of up to 4 members (plus stopped ones), formed
// either by bootstrap+join or by notify-driven bootstrap (BootstrapExpect=3),
// then a generated sequential membership history. After every step the leader's
// configuration -- and the view of every live member -- is compared with a
// model that is updated only from the outcome of the requests the harness
// itself issued (join acknowledged => member with that id/address/role; remove
// acknowledged => gone; failed join => unchanged or requester absent).
//
// Reaping: the last step may kill a member; the configuration is then watched.
// With the role's timeout disabled (0) or 1 h the member must stay; with a 3 s
// timeout it must not disappear earlier than 1 s after the kill (2 s slack for
// the age of the leader's last contact at the moment of the kill).

import (
	"context"
	"fmt"
	"os"
	"runtime"
	"sort"
	"strings"
	"testing"
	"time"

	"github.com/rqlite/rqlite/v10/command/proto"
	"github.com/rqlite/rqlite/v10/internal/verif/vnode"
	"github.com/rqlite/rqlite/v10/internal/verif/vstat"
	"pgregory.net/rapid"
)

const (
	waitLong  = 20 * time.Second
	reapT     = 3 * time.Second
	reapEarly = 1 * time.Second
	reapWatch = 6 * time.Second
)

type mop struct {
	Kind  string
	Pick  int
	Voter bool
}

func (m mop) String() string { return fmt.Sprintf("%s(%d,%v)", m.Kind, m.Pick, m.Voter) }

var opKinds = []string{"join-new", "join-new", "rejoin-new-addr", "reuse-addr", "reuse-id", "role-change", "role-change", "rejoin-same", "remove", "stepdown", "vacated-addr-dance", "vacated-addr-dance"}

type plan struct {
	Notify  bool // notify-driven bootstrap of 3 voters instead of bootstrap+join
	Quirk   int  // notify mode only: 0 plain, 1 two IDs for one address, 2 two addresses for one ID
	Voters  int  // initial voters (bootstrap+join mode): 1..3
	NonV    int  // initial non-voters: 0..1
	ReapCfg int  // index into reapCfgs
	Ops     []mop
	Kill    bool // final step: kill a member and watch
	AddrIDs bool // node IDs are the nodes' own first raft addresses
	KillSel int
}

var reapCfgs = [][2]time.Duration{{reapT, time.Hour}, {time.Hour, reapT}, {reapT, 0}, {0, reapT}, {reapT, reapT}}

func genPlan(rt *rapid.T) plan {
	p := plan{Notify: rapid.IntRange(0, 3).Draw(rt, "notify") == 0, Voters: rapid.IntRange(1, 3).Draw(rt, "voters"),
		NonV: rapid.IntRange(0, 1).Draw(rt, "nonv"), ReapCfg: rapid.IntRange(0, len(reapCfgs)-1).Draw(rt, "reapcfg")}
	if p.Notify {
		p.Voters = 3
		p.Quirk = []int{0, 0, 1, 2}[rapid.IntRange(0, 3).Draw(rt, "quirk")]
	}
	n := rapid.IntRange(1, vstat.Scale(6, 9)).Draw(rt, "nops")
	for i := 0; i < n; i++ {
		p.Ops = append(p.Ops, mop{Kind: opKinds[rapid.IntRange(0, len(opKinds)-1).Draw(rt, "kind")], Pick: rapid.IntRange(0, 7).Draw(rt, "pick"), Voter: rapid.Bool().Draw(rt, "voter")})
	}
	p.Kill = rapid.IntRange(0, 2).Draw(rt, "kill") == 0
	p.AddrIDs = rapid.Bool().Draw(rt, "addrIDs")
	p.KillSel = rapid.IntRange(0, 7).Draw(rt, "killsel")
	return p
}

func (p plan) String() string {
	s := make([]string, len(p.Ops))
	for i, o := range p.Ops {
		s[i] = o.String()
	}
	return fmt.Sprintf("addrIDs=%v notify=%v/%d voters=%d nonv=%d reap=%v ops=[%s] kill=%v/%d", p.AddrIDs, p.Notify, p.Quirk, p.Voters, p.NonV, reapCfgs[p.ReapCfg], strings.Join(s, " "), p.Kill, p.KillSel)
}

type member struct {
	id     string
	addr   string
	voter  bool
	node   *vnode.Node // process (may be stopped)
	alive  bool
	deadAt time.Time // when the harness stopped/killed the process (valid while !alive)

	// Unknown outcomes: an operation on this member returned an error after its configuration entry
	// may already have been appended ("leadership lost while committing log", timeouts, lost
	// responses, ...). Until a later ACKNOWLEDGED operation on the same member settles it, the
	// member may also be in one of the alternative forms, or absent.
	alts     []string // further acceptable "id@addr/role" forms
	absentOK bool     // absence from the configuration is acceptable
}

func form(id, addr string, voter bool) string {
	if voter {
		return id + "@" + addr + "/voter"
	}
	return id + "@" + addr + "/nonvoter"
}

func (m *member) sure() bool { return len(m.alts) == 0 && !m.absentOK }

func (m *member) settle() { m.alts, m.absentOK = nil, false }

// cleanReject reports whether err proves that no configuration entry was appended: raft's own
// validation of the new configuration, or a request that never left the harness network.
func cleanReject(err error) bool {
	s := err.Error()
	return strings.Contains(s, "found duplicate") || strings.Contains(s, "need at least one voter") ||
		strings.Contains(s, "failed to resolve") || strings.Contains(s, "vnet:")
}

type env struct {
	rec     *vstat.Rec
	c       *vnode.Cluster
	model   map[string]*member
	nextEP  int
	nextID  int
	addrIDs bool // new nodes take their own first raft address as node ID (rqlited's default)
	nextDir int
	trace   []string
	deadIDs map[string]bool // configured members whose process the harness stopped/killed
}

func (e *env) ep() string { e.nextEP++; return fmt.Sprintf("e%d", e.nextEP-1) }
func (e *env) id() string { e.nextID++; return fmt.Sprintf("id%d", e.nextID-1) }

func (e *env) sortedIDs() []string {
	ids := make([]string, 0, len(e.model))
	for id := range e.model {
		ids = append(ids, id)
	}
	sort.Strings(ids)
	return ids
}

func (e *env) leader() *vnode.Node { return e.c.WaitLeader(waitLong) }

func (e *env) liveVoters() (live, total int) {
	for _, m := range e.model {
		if m.voter {
			total++
			if m.alive {
				live++
			}
		}
	}
	return
}

// canStopVoter reports whether one more live voter may go away while the
// configuration keeps a live majority.
func (e *env) canStopVoter() bool {
	live, total := e.liveVoters()
	return live-1 >= total/2+1
}

func (e *env) via() *vnode.Node {
	for _, id := range e.sortedIDs() {
		if m := e.model[id]; m.alive {
			return m.node
		}
	}
	return nil
}

func (e *env) modelString() string {
	var out []string
	for _, id := range e.sortedIDs() {
		m := e.model[id]
		role := "voter"
		if !m.voter {
			role = "nonvoter"
		}
		out = append(out, id+"@"+m.addr+"/"+role)
	}
	return strings.Join(out, " ")
}

// uniq checks the uniqueness part on one view.
func uniq(cfg []string) (string, string) {
	ids, addrs := map[string]bool{}, map[string]bool{}
	for _, s := range cfg {
		at := strings.Index(s, "@")
		sl := strings.LastIndex(s, "/")
		id, addr := s[:at], s[at+1:sl]
		if ids[id] {
			return "C32/duplicate-id", "two entries with ID " + id
		}
		if addrs[addr] {
			return "C32/duplicate-address", "two entries with address " + addr
		}
		ids[id], addrs[addr] = true, true
	}
	return "", ""
}

// check compares the leader's configuration (and every live member's view) with the model.
func (e *env) check(after string) (sig, msg string, inconclusive bool) {
	l := e.leader()
	if l == nil {
		return "", "", true
	}
	var cfg []string
	var err error
	// the leader applies its own configuration changes at once; poll briefly for an acceptable state
	deadline := time.Now().Add(5 * time.Second)
	want := e.modelString()
	acceptable := func(cfg []string) bool {
		got := map[string]string{}
		for _, s := range cfg {
			got[s[:strings.Index(s, "@")]] = s
		}
		for id, m := range e.model {
			s, ok := got[id]
			if !ok {
				if !m.absentOK {
					return false
				}
				continue
			}
			okForm := s == form(id, m.addr, m.voter)
			for _, a := range m.alts {
				okForm = okForm || s == a
			}
			if !okForm {
				return false
			}
			delete(got, id)
		}
		return len(got) == 0
	}
	for {
		cfg, err = vnode.Config(l)
		if err != nil {
			return "", "", true
		}
		if s, m := uniq(cfg); s != "" {
			return s, fmt.Sprintf("%s in the configuration of leader %s after %s: %v", m, l.Name, after, cfg), false
		}
		if acceptable(cfg) || time.Now().After(deadline) {
			break
		}
		time.Sleep(25 * time.Millisecond)
		if nl := e.c.LeaderNow(); nl != nil {
			l = nl
		}
	}
	got := map[string]string{}
	for _, s := range cfg {
		got[s[:strings.Index(s, "@")]] = s
	}
	for _, id := range e.sortedIDs() {
		m := e.model[id]
		s, ok := got[id]
		role := "voter"
		if !m.voter {
			role = "nonvoter"
		}
		if ok {
			for _, a := range m.alts {
				if s == a {
					e.rec.Label("unknown-outcome:alternative-form-observed")
					s = form(id, m.addr, m.voter) // acceptable
				}
			}
		}
		switch {
		case !ok && m.absentOK:
			e.rec.Label("unknown-outcome:absent-observed")
		case !ok && !m.alive:
			// a member whose process is gone may be reaped -- judged by its role's timeout
			timeout := e.c.Opts.ReapTimeout
			if !m.voter {
				timeout = e.c.Opts.ReapReadOnlyTimeout
			}
			dead := time.Since(m.deadAt)
			if timeout == 0 || timeout >= time.Hour {
				return "C32/reaped-with-wrong-timeout", fmt.Sprintf("stopped %s %s disappeared from the configuration although the reap timeout for its role is %v; after %s", role, id, timeout, after), false
			}
			if dead < reapEarly {
				return "C32/reaped-too-early", fmt.Sprintf("stopped %s %s disappeared %v after it was stopped; reap timeout %v; after %s", role, id, dead.Round(time.Millisecond), timeout, after), false
			}
			e.rec.Label("stopped-member-reaped")
			delete(e.model, id)
			return e.check(after)
		case !ok:
			return "C32/member-missing", fmt.Sprintf("member %s (acknowledged join, never removed) is not in the configuration %v after %s; model: %s", id, cfg, after, want), false
		case !strings.HasSuffix(s, "/"+role):
			return "C32/role-not-as-requested", fmt.Sprintf("member %s asked for role %s but the configuration has %s after %s; configuration %v; other acceptable forms %v", id, role, s, after, cfg, m.alts), false
		case s != id+"@"+m.addr+"/"+role:
			return "C32/address-not-as-requested", fmt.Sprintf("member %s announced address %s but the configuration has %s after %s; other acceptable forms %v", id, m.addr, s, after, m.alts), false
		}
		delete(got, id)
	}
	for id, s := range got {
		return "C32/unexpected-member", fmt.Sprintf("configuration entry %s (id %s) was never acknowledged as joined or was acknowledged as removed; after %s; model: %s", s, id, after, want), false
	}
	leaderView := strings.Join(cfg, " ")
	// every live member's own view: unique always; equal to the leader's eventually
	for _, id := range e.sortedIDs() {
		m := e.model[id]
		if !m.alive {
			continue
		}
		deadline := time.Now().Add(10 * time.Second)
		for {
			v, err := vnode.Config(m.node)
			if err == nil {
				if s, mm := uniq(v); s != "" {
					return s, fmt.Sprintf("%s in the view of member %s after %s: %v", mm, id, after, v), false
				}
				if strings.Join(v, " ") == leaderView {
					break
				}
			}
			if time.Now().After(deadline) {
				e.rec.Label("view-lagging")
				break
			}
			time.Sleep(25 * time.Millisecond)
		}
	}
	return "", "", false
}

// killWatch kills member m and watches the configuration for `watch`. Disappearance is a violation
// if the timeout of m's role is 0/1h (whenever it happens) or if it happens earlier than reapEarly
// after the kill.
func (e *env) killWatch(m *member, opts vnode.Options, watch time.Duration, fail func(sig, msg string)) {
	timeout := opts.ReapTimeout
	role := "voter"
	if !m.voter {
		timeout, role = opts.ReapReadOnlyTimeout, "nonvoter"
	}
	e.c.Crash(m.node)
	m.alive = false
	m.deadAt = time.Now()
	killed := time.Now()
	e.trace = append(e.trace, fmt.Sprintf("kill %s (%s, reap timeout %v)", m.id, role, timeout))
	gone := time.Duration(-1)
	for time.Since(killed) < watch {
		cl := e.c.LeaderNow()
		if cl != nil {
			if cfg, err := vnode.Config(cl); err == nil {
				if s, mm := uniq(cfg); s != "" {
					fail(s, mm+" while watching reaping: "+strings.Join(cfg, " "))
				}
				present := false
				for _, s := range cfg {
					if strings.HasPrefix(s, m.id+"@") {
						present = true
					}
				}
				if !present {
					gone = time.Since(killed)
					break
				}
			}
		}
		time.Sleep(40 * time.Millisecond)
	}
	switch {
	case gone < 0:
		e.rec.Label(fmt.Sprintf("kill:%s:timeout=%v:stayed", role, timeout))
	case timeout == 0 || timeout >= time.Hour:
		fail("C32/reaped-with-wrong-timeout", fmt.Sprintf("%s %s disappeared from the configuration %v after it was killed although the reap timeout for its role is %v (other role: %v)",
			role, m.id, gone.Round(time.Millisecond), timeout, map[string]time.Duration{"voter": opts.ReapReadOnlyTimeout, "nonvoter": opts.ReapTimeout}[role]))
	case gone < reapEarly:
		fail("C32/reaped-too-early", fmt.Sprintf("%s %s disappeared %v after it was killed; reap timeout for its role is %v", role, m.id, gone.Round(time.Millisecond), timeout))
	default:
		e.rec.Label(fmt.Sprintf("kill:%s:timeout=%v:reaped", role, timeout))
		delete(e.model, m.id)
		if sig, msg, inc := e.check("reaping of " + m.id); !inc && sig != "" {
			fail(sig, msg)
		}
	}
}

func (e *env) join(n *vnode.Node, id, addr string, voter bool) error {
	via := e.via()
	if via == nil {
		return fmt.Errorf("no live member")
	}
	var err error
	for try := 0; try < 5; try++ {
		if err = e.c.JoinAs(n, via, id, addr, voter); err == nil {
			return nil
		}
		// "no leader"/"not leader" during an election: wait and retry; anything else is a verdict
		if !strings.Contains(err.Error(), "leader") {
			return err
		}
		e.leader()
	}
	return err
}

// failedJoin updates the model after a join request for (id, addr, voter) returned err. old is the
// member's entry before the request (nil for a brand-new node); proc is the process that asked.
// Clean rejection: nothing was appended by the add itself, but rqlite may already have removed the
// old entry of the same id (remove-then-add), so absence becomes acceptable for an existing member.
// Anything else: unknown outcome -- old form, absence and the requested form are all acceptable.
func (e *env) failedJoin(id, addr string, voter bool, old *member, proc *vnode.Node, err error) {
	if cleanReject(err) {
		e.rec.Label("failed-op:clean-rejection")
		if old != nil {
			old.absentOK = true
		}
		return
	}
	e.rec.Label("failed-op:unknown-outcome")
	nf := form(id, addr, voter)
	if old != nil {
		if nf != form(id, old.addr, old.voter) {
			old.alts = append(old.alts, nf)
		}
		old.absentOK = true
		return
	}
	e.model[id] = &member{id: id, addr: addr, voter: voter, node: proc, alive: false, deadAt: time.Now(), absentOK: true}
}

// startNew starts a brand-new node on a fresh endpoint. In addrIDs mode its node ID is the
// literal string of its own (first) raft address, as rqlited does by default.
func (e *env) startNew() (*vnode.Node, error) {
	name := e.ep()
	id := e.id()
	if e.addrIDs {
		ln, err := e.c.Net.Listen(name) // reserves the address; Start re-attaches to the same port
		if err != nil {
			return nil, err
		}
		id = ln.Addr().String()
		ln.Close()
	}
	return e.c.Start(name, id)
}

// move lets member m come back from a new endpoint with its old data directory and re-join.
func (e *env) move(m *member, voter bool, what string) (bool, string) {
	e.c.Stop(m.node)
	m.alive = false
	m.deadAt = time.Now()
	n, err := e.c.StartDir(e.ep(), m.id, m.node.Dir, e.c.Opts)
	if err != nil {
		return true, what + " start FAILED " + err.Error()
	}
	if err := e.join(n, m.id, n.Addr, voter); err != nil {
		e.c.Stop(n)
		e.failedJoin(m.id, n.Addr, voter, m, n, err)
		return true, fmt.Sprintf("%s %s -> %s voter=%v FAILED(%v)", what, m.id, n.Addr, voter, err)
	}
	m.addr, m.voter, m.node, m.alive = n.Addr, voter, n, true
	m.settle()
	return true, fmt.Sprintf("%s %s -> %s voter=%v", what, m.id, n.Addr, voter)
}

func (e *env) pickMember(pick int, f func(*member) bool) *member {
	var c []*member
	for _, id := range e.sortedIDs() {
		if m := e.model[id]; f(m) {
			c = append(c, m)
		}
	}
	if len(c) == 0 {
		return nil
	}
	return c[pick%len(c)]
}

// apply runs one op. ok=false: not applicable (skipped).
func (e *env) apply(o mop) (ok bool, desc string) {
	l := e.leader()
	if l == nil {
		return false, "no-leader"
	}
	notLeader := func(m *member) bool { return m.alive && m.node != l }
	switch o.Kind {
	case "join-new":
		if len(e.model) >= 4 {
			return false, ""
		}
		n, err := e.startNew()
		if err != nil {
			return false, "start-failed"
		}
		if err := e.join(n, n.ID, n.Addr, o.Voter); err != nil {
			e.c.Stop(n)
			e.failedJoin(n.ID, n.Addr, o.Voter, nil, n, err)
			return true, fmt.Sprintf("join-new %s voter=%v FAILED(%v)", n.ID, o.Voter, err)
		}
		e.model[n.ID] = &member{id: n.ID, addr: n.Addr, voter: o.Voter, node: n, alive: true}
		return true, fmt.Sprintf("join-new %s@%s voter=%v", n.ID, n.Addr, o.Voter)
	case "rejoin-new-addr":
		m := e.pickMember(o.Pick, notLeader)
		if m == nil || (m.voter && !e.canStopVoter()) {
			return false, ""
		}
		return e.move(m, o.Voter, "rejoin-new-addr")
	case "vacated-addr-dance":
		// m moves away; a NEW node takes over the endpoint (address) m vacated; m moves again (so it sits
		// behind the newcomer in the configuration); then m is removed by ID. In addrIDs mode m's ID is the
		// literal address the newcomer now owns.
		m := e.pickMember(o.Pick, func(m *member) bool { return notLeader(m) && m.sure() })
		if m == nil || (m.voter && !e.canStopVoter()) || len(e.model) >= 4 {
			return false, ""
		}
		oldName, role := m.node.Name, m.voter
		_, d1 := e.move(m, role, "dance:move")
		if strings.Contains(d1, "FAILED") {
			return true, d1
		}
		e.nextDir++
		n2, err := e.c.StartDir(oldName, e.id(), fmt.Sprintf("%s/reuse%d", e.c.Dir, e.nextDir), e.c.Opts)
		if err != nil {
			return true, d1 + " | dance:newcomer start FAILED " + err.Error()
		}
		if err := e.join(n2, n2.ID, n2.Addr, o.Voter); err != nil {
			e.c.Stop(n2)
			e.failedJoin(n2.ID, n2.Addr, o.Voter, nil, n2, err)
			return true, fmt.Sprintf("%s | dance:newcomer %s@%s FAILED(%v)", d1, n2.ID, n2.Addr, err)
		}
		e.model[n2.ID] = &member{id: n2.ID, addr: n2.Addr, voter: o.Voter, node: n2, alive: true}
		d2 := fmt.Sprintf("dance:newcomer %s@%s voter=%v", n2.ID, n2.Addr, o.Voter)
		if m.voter && !e.canStopVoter() {
			return true, d1 + " | " + d2
		}
		_, d3 := e.move(m, role, "dance:move-again")
		if strings.Contains(d3, "FAILED") {
			return true, d1 + " | " + d2 + " | " + d3
		}
		if l = e.leader(); l == nil || m.node == l {
			return true, d1 + " | " + d2 + " | " + d3
		}
		if err := l.Store.Remove(context.Background(), &proto.RemoveNodeRequest{Id: m.id}); err != nil {
			if !cleanReject(err) {
				m.absentOK = true
			}
			return true, fmt.Sprintf("%s | %s | %s | dance:remove %s FAILED(%v)", d1, d2, d3, m.id, err)
		}
		e.c.Stop(m.node)
		delete(e.model, m.id)
		e.rec.Label("dance:completed")
		return true, fmt.Sprintf("%s | %s | %s | dance:remove %s", d1, d2, d3, m.id)
	case "reuse-addr":
		m := e.pickMember(o.Pick, notLeader)
		if m == nil || (m.voter && !e.canStopVoter()) {
			return false, ""
		}
		e.c.Stop(m.node)
		m.alive = false
		m.deadAt = time.Now()
		e.c.Wipe(m.node)
		n, err := e.c.Start(m.node.Name, e.id()) // same endpoint => same address, fresh directory, new ID
		if err != nil {
			return true, "reuse-addr start FAILED " + err.Error()
		}
		if err := e.join(n, n.ID, n.Addr, o.Voter); err != nil {
			e.c.Stop(n)
			e.failedJoin(n.ID, n.Addr, o.Voter, nil, n, err)
			return true, fmt.Sprintf("reuse-addr %s by new %s voter=%v FAILED(%v)", m.addr, n.ID, o.Voter, err)
		}
		// acknowledged: the newcomer owns the address now; the old owner cannot stay (uniqueness)
		delete(e.model, m.id)
		e.model[n.ID] = &member{id: n.ID, addr: n.Addr, voter: o.Voter, node: n, alive: true}
		return true, fmt.Sprintf("reuse-addr %s by new %s voter=%v (replaced %s)", n.Addr, n.ID, o.Voter, m.id)
	case "reuse-id":
		m := e.pickMember(o.Pick, notLeader)
		if m == nil || (m.voter && !e.canStopVoter()) {
			return false, ""
		}
		e.c.Stop(m.node)
		m.alive = false
		m.deadAt = time.Now()
		n, err := e.c.Start(e.ep(), m.id) // fresh endpoint and directory, same ID
		if err != nil {
			return true, "reuse-id start FAILED " + err.Error()
		}
		if err := e.join(n, m.id, n.Addr, o.Voter); err != nil {
			e.c.Stop(n)
			e.failedJoin(m.id, n.Addr, o.Voter, m, n, err)
			return true, fmt.Sprintf("reuse-id %s at %s voter=%v FAILED(%v)", m.id, n.Addr, o.Voter, err)
		}
		m.addr, m.voter, m.node, m.alive = n.Addr, o.Voter, n, true
		m.settle()
		return true, fmt.Sprintf("reuse-id %s at %s voter=%v", m.id, n.Addr, o.Voter)
	case "role-change", "rejoin-same":
		m := e.pickMember(o.Pick, notLeader)
		if m == nil {
			return false, ""
		}
		want := m.voter
		if o.Kind == "role-change" {
			want = !m.voter
			if m.voter && !e.canStopVoter() {
				return false, "" // demoting would endanger the majority
			}
		}
		if err := e.join(m.node, m.id, m.addr, want); err != nil {
			e.failedJoin(m.id, m.addr, want, m, m.node, err)
			return true, fmt.Sprintf("%s %s voter=%v FAILED(%v)", o.Kind, m.id, want, err)
		}
		m.voter = want
		m.settle()
		return true, fmt.Sprintf("%s %s@%s voter=%v", o.Kind, m.id, m.addr, want)
	case "remove":
		m := e.pickMember(o.Pick, func(m *member) bool { return m.node != l })
		if m == nil || (m.voter && m.alive && !e.canStopVoter()) {
			return false, ""
		}
		if err := l.Store.Remove(context.Background(), &proto.RemoveNodeRequest{Id: m.id}); err != nil {
			// the entry may have been appended (typical when the change deposes the leader itself)
			if !cleanReject(err) {
				m.absentOK = true
				e.rec.Label("failed-op:unknown-outcome")
			}
			return true, fmt.Sprintf("remove %s FAILED(%v)", m.id, err)
		}
		if m.alive {
			e.c.Stop(m.node)
		}
		delete(e.model, m.id)
		return true, "remove " + m.id
	case "stepdown":
		if live, _ := e.liveVoters(); live < 2 {
			return false, ""
		}
		err := l.Store.Stepdown(true, "")
		return true, fmt.Sprintf("stepdown %s err=%v", l.ID, err)
	}
	return false, ""
}

// notifyBootstrap starts 3 nodes with BootstrapExpect=3 and lets them notify each other the way
// cluster.Bootstrapper does. quirk 0: plain (1-2 idempotent rounds). quirk 1: the third node first
// announces itself under a different ID (restarted with a new ID before the cluster formed): two
// IDs for one address reach the targets. quirk 2: the third node first announces a different
// address for its ID (restarted on a new address). Returns (formed, ok); with a quirk the cluster
// may legitimately never form.
func (e *env) notifyBootstrap(rt *rapid.T, quirk int) (bool, bool) {
	opts := e.c.Opts
	opts.BootstrapExpect = 3
	var ns []*vnode.Node
	for i := 0; i < 3; i++ {
		n, err := e.c.StartWith(e.ep(), e.id(), opts)
		if err != nil {
			return false, false
		}
		ns = append(ns, n)
	}
	ctx := context.Background()
	notify := func(from *vnode.Node, id, addr string) bool {
		for _, target := range ns {
			if err := from.Client.Notify(ctx, &proto.NotifyRequest{Id: id, Address: addr}, target.Addr, nil, 5*time.Second); err != nil {
				return false
			}
		}
		return true
	}
	switch quirk {
	case 1:
		if !notify(ns[0], ns[0].ID, ns[0].Addr) || !notify(ns[2], "ghost-"+ns[2].ID, ns[2].Addr) {
			return false, false
		}
	case 2:
		spare, err := e.c.Net.Listen(e.ep() + "-spare") // an address nobody serves raft on
		if err != nil {
			return false, false
		}
		defer spare.Close()
		if !notify(ns[0], ns[0].ID, ns[0].Addr) || !notify(ns[2], ns[2].ID, spare.Addr().String()) {
			return false, false
		}
	}
	rounds := rapid.IntRange(1, 2).Draw(rt, "notifyRounds") // notifying is idempotent
	for r := 0; r < rounds; r++ {
		for _, n := range ns {
			if !notify(n, n.ID, n.Addr) {
				return false, false
			}
		}
	}
	e.trace = append(e.trace, fmt.Sprintf("notify-bootstrap quirk=%d x%d", quirk, rounds))
	if quirk != 0 {
		// only uniqueness is judged: whatever configuration any node holds must be duplicate-free
		time.Sleep(500 * time.Millisecond)
		return false, true
	}
	for _, n := range ns {
		e.model[n.ID] = &member{id: n.ID, addr: n.Addr, voter: true, node: n, alive: true}
	}
	return true, true
}

func TestVerif_C32_Hist(t *testing.T) {
	vnode.QuietLogs()
	rec := vstat.New(t, "C32", "hist",
		"rapid membership histories on live clusters (<=4 members): start by bootstrap+join (1-3 voters, 0-1 non-voter) or notify-driven bootstrap of 3; 1-9 ops from join-new, rejoin-new-addr, reuse-addr, reuse-id, role-change, rejoin-same, remove, stepdown; "+
			"optionally a final kill watched against the role's reap timeout (5 timeout configurations); non-trivial = at least one re-join/reuse/role-change/kill step was applied and judged; distinct = the plan")
	rapid.Check(t, func(rt *rapid.T) {
		p := genPlan(rt)
		dir, err := os.MkdirTemp("", "c32-")
		if err != nil {
			rec.Label("inconclusive:tempdir")
			return
		}
		defer os.RemoveAll(dir)
		// diagnostics only: if a case is stuck for 150 s, leave the goroutine stacks behind
		wd := time.AfterFunc(150*time.Second, func() {
			buf := make([]byte, 8<<20)
			buf = buf[:runtime.Stack(buf, true)]
			os.WriteFile(fmt.Sprintf("/dev/shm/g9-c32-stuck-%d.txt", os.Getpid()), buf, 0o644)
		})
		defer wd.Stop()
		opts := vnode.Fast()
		opts.ReapTimeout, opts.ReapReadOnlyTimeout = reapCfgs[p.ReapCfg][0], reapCfgs[p.ReapCfg][1]
		e := &env{rec: rec, c: vnode.NewCluster(dir, opts), model: map[string]*member{}, addrIDs: p.AddrIDs}
		if p.AddrIDs {
			rec.Label("id-equals-some-address")
		}
		defer e.c.Close()
		fail := func(sig, msg string) {
			full := fmt.Sprintf("%s; history: %s", msg, strings.Join(e.trace, " | "))
			if rec.KnownHit(sig, msg) {
				return
			}
			rt.Fatalf("%s", rec.Violation(sig, "%s", full))
		}
		if p.Notify {
			formed, ok := e.notifyBootstrap(rt, p.Quirk)
			if !ok {
				rec.Label("inconclusive:notify-bootstrap")
				return
			}
			rec.Label(fmt.Sprintf("start:notify-bootstrap-quirk%d", p.Quirk))
			if !formed {
				for _, n := range e.c.Live() {
					if cfg, err := vnode.Config(n); err == nil {
						if sig, msg := uniq(cfg); sig != "" {
							fail(sig, fmt.Sprintf("%s in the configuration of %s after notify-driven bootstrap: %v", msg, n.Name, cfg))
						}
						if len(cfg) > 0 {
							rec.Label("quirk-bootstrap:configured")
						}
					}
				}
				rec.Case(true, p.String())
				rec.Sample(strings.Join(e.trace, " | "))
				return
			}
		} else {
			n0, err := e.startNew()
			if err != nil || e.c.Bootstrap(n0) != nil {
				rec.Label("inconclusive:bootstrap")
				return
			}
			e.model[n0.ID] = &member{id: n0.ID, addr: n0.Addr, voter: true, node: n0, alive: true}
			if e.leader() == nil {
				rec.Label("inconclusive:no-leader")
				return
			}
			for i := 1; i < p.Voters+p.NonV; i++ {
				ok, d := e.apply(mop{Kind: "join-new", Voter: i < p.Voters})
				e.trace = append(e.trace, d)
				if !ok {
					rec.Label("inconclusive:initial-join")
					return
				}
			}
			rec.Label("start:bootstrap+join")
		}
		if sig, msg, inc := e.check("cluster formation"); inc {
			rec.Label("inconclusive:formation")
			return
		} else if sig != "" {
			fail(sig, msg)
			return
		}
		interesting := false
		for _, o := range p.Ops {
			if e.c.Lost() > 0 {
				rec.Label("inconclusive:store-close-timeout")
				rec.Case(false, p.String())
				return
			}
			ok, d := e.apply(o)
			if d == "no-leader" {
				rec.Label("inconclusive:no-leader")
				break
			}
			if !ok {
				continue
			}
			e.trace = append(e.trace, d)
			res := "ok"
			if strings.Contains(d, "FAILED") {
				res = "failed"
			}
			rec.Label("op:" + o.Kind + ":" + res)
			sig, msg, inc := e.check(d)
			if inc {
				rec.Label("inconclusive:check-after-" + o.Kind)
				break
			}
			if sig != "" {
				fail(sig, msg)
				// known finding: adopt what the configuration says for this member and go on
				if l := e.leader(); l != nil {
					if cfg, err := vnode.Config(l); err == nil {
						for _, s := range cfg {
							id := s[:strings.Index(s, "@")]
							if m, ok := e.model[id]; ok {
								m.voter = strings.HasSuffix(s, "/voter")
							}
						}
					}
				}
			}
			switch o.Kind {
			case "rejoin-new-addr", "reuse-addr", "reuse-id", "role-change", "vacated-addr-dance":
				interesting = true
			}
		}
		if p.Kill && e.c.Lost() == 0 {
			l := e.leader()
			m := e.pickMember(p.KillSel, func(m *member) bool { return m.alive && m.node != l && m.sure() })
			if l != nil && m != nil && (!m.voter || e.canStopVoter()) {
				e.killWatch(m, opts, reapWatch, fail)
				interesting = true
			}
		}
		rec.Case(interesting, p.String())
		rec.Sample(strings.Join(e.trace, " | "))
	})
}
