package c30

// C30: values round-trip through the HTTP API without loss.
//
// The real side is the complete single-node stack: http.Service.ServeHTTP ->
// request parser -> proxy -> Store (raft log, command encoding) -> db layer ->
// JSON encoder. Requests are JSON bodies as a client would send them.
//
// Oracles (none of them uses rqlite code):
//   * binding: the same rows are inserted into a raw in-memory database through
//     the raw go-sqlite3 driver using the Go value each JSON parameter denotes
//     (integer -> int64, non-integer number -> float64, true/false -> 1/0,
//     null -> NULL, string -> TEXT, X'hex' string -> BLOB, array of bytes ->
//     BLOB); the canonical typeof/quote dump of the table in rqlite's database
//     file must equal the dump of the oracle table.
//   * read-back: the same SELECT is run by the raw driver on rqlite's database
//     file; every cell of rqlite's JSON answer (decoded with UseNumber) must
//     denote the raw cell: INTEGER -> JSON integer with the same int64, REAL ->
//     JSON number parsing to the same float64, TEXT -> the same JSON string,
//     BLOB -> base64 string of the same bytes (or array of byte values with
//     blob_array), NULL -> null. Array and associative forms are both decoded.

import (
	"bytes"
	"context"
	"database/sql"
	"encoding/base64"
	"encoding/hex"
	"encoding/json"
	"fmt"
	"io"
	"log"
	"math"
	"net"
	"net/http"
	"net/http/httptest"
	"net/url"
	"os"
	"path/filepath"
	"strconv"
	"strings"
	"sync"
	"testing"
	"time"
	"unicode/utf8"

	clstrPB "github.com/rqlite/rqlite/v10/cluster/proto"
	command "github.com/rqlite/rqlite/v10/command/proto"
	httpd "github.com/rqlite/rqlite/v10/http"
	"github.com/rqlite/rqlite/v10/internal/verif/vsql"
	"github.com/rqlite/rqlite/v10/internal/verif/vstat"
	"github.com/rqlite/rqlite/v10/proxy"
	"github.com/rqlite/rqlite/v10/store"
	"pgregory.net/rapid"
)

// ---------------------------------------------------------------- environment

type c30Layer struct{ net.Listener }

func (l *c30Layer) Dial(addr string, timeout time.Duration) (net.Conn, error) {
	return net.DialTimeout("tcp", addr, timeout)
}

// c30NoCluster stands in for the inter-node client; a single-node leader never
// forwards, so every method reports an error if it is ever reached.
type c30NoCluster struct{}

var errC30NoCluster = fmt.Errorf("c30: no cluster in this harness")

func (c30NoCluster) Execute(ctx context.Context, er *command.ExecuteRequest, nodeAddr string, creds *clstrPB.Credentials, timeout time.Duration, retries int) ([]*command.ExecuteQueryResponse, uint64, error) {
	return nil, 0, errC30NoCluster
}
func (c30NoCluster) Query(ctx context.Context, qr *command.QueryRequest, nodeAddr string, creds *clstrPB.Credentials, timeout time.Duration, retries int) ([]*command.QueryRows, uint64, error) {
	return nil, 0, errC30NoCluster
}
func (c30NoCluster) Request(ctx context.Context, eqr *command.ExecuteQueryRequest, nodeAddr string, creds *clstrPB.Credentials, timeout time.Duration, retries int) ([]*command.ExecuteQueryResponse, uint64, uint64, error) {
	return nil, 0, 0, errC30NoCluster
}
func (c30NoCluster) Backup(ctx context.Context, br *command.BackupRequest, nodeAddr string, creds *clstrPB.Credentials, timeout time.Duration, w io.Writer) error {
	return errC30NoCluster
}
func (c30NoCluster) Load(ctx context.Context, lr *command.LoadRequest, nodeAddr string, creds *clstrPB.Credentials, timeout time.Duration, retries int) error {
	return errC30NoCluster
}
func (c30NoCluster) RemoveNode(ctx context.Context, rn *command.RemoveNodeRequest, nodeAddr string, creds *clstrPB.Credentials, timeout time.Duration) error {
	return errC30NoCluster
}
func (c30NoCluster) Stepdown(ctx context.Context, sr *command.StepdownRequest, nodeAddr string, creds *clstrPB.Credentials, timeout time.Duration) error {
	return errC30NoCluster
}
func (c30NoCluster) GetNodeMeta(ctx context.Context, addr string, retries int, timeout time.Duration) (*clstrPB.NodeMeta, error) {
	return nil, errC30NoCluster
}
func (c30NoCluster) Stats() (map[string]any, error) { return map[string]any{}, nil }

type c30Env struct {
	s   *store.Store
	svc *httpd.Service
	dir string
}

func c30NewEnv() (*c30Env, error) {
	dir, err := os.MkdirTemp("", "c30store")
	if err != nil {
		return nil, err
	}
	ln, err := net.Listen("tcp", "127.0.0.1:0")
	if err != nil {
		os.RemoveAll(dir)
		return nil, err
	}
	s := store.New(&store.Config{DBConf: store.NewDBConfig(), Dir: dir, ID: "c30", Logger: log.New(io.Discard, "", 0)}, &c30Layer{ln})
	if err := s.Open(); err != nil {
		ln.Close()
		os.RemoveAll(dir)
		return nil, err
	}
	if err := s.Bootstrap(store.NewServer(s.ID(), s.Addr(), true)); err != nil {
		s.Close(true)
		os.RemoveAll(dir)
		return nil, err
	}
	if _, err := s.WaitForLeader(30 * time.Second); err != nil {
		s.Close(true)
		os.RemoveAll(dir)
		return nil, err
	}
	cl := c30NoCluster{}
	svc := httpd.New("127.0.0.1:0", s, cl, proxy.New(s, cl), nil)
	return &c30Env{s: s, svc: svc, dir: dir}, nil
}

func (e *c30Env) close() {
	e.s.Close(true)
	os.RemoveAll(e.dir)
}

func (e *c30Env) dbPath() string { return filepath.Join(e.dir, "db.sqlite") }

// get sends a GET request to the service.
func (e *c30Env) get(path string) (int, []byte) {
	req := httptest.NewRequest("GET", path, nil)
	rec := httptest.NewRecorder()
	e.svc.ServeHTTP(rec, req)
	return rec.Code, rec.Body.Bytes()
}

// post sends a JSON body to the service and returns status and body.
func (e *c30Env) post(path, body string) (int, []byte) {
	req := httptest.NewRequest("POST", path, strings.NewReader(body))
	req.Header.Set("Content-Type", "application/json")
	rec := httptest.NewRecorder()
	e.svc.ServeHTTP(rec, req)
	return rec.Code, rec.Body.Bytes()
}

// ---------------------------------------------------------------- values

type c30Val struct {
	Kind string // int float bool null text hexlit bytes
	I    int64
	F    float64
	B    bool
	S    string
	Y    []byte
	JSON string // how the client writes it
}

// arg is the Go value the raw driver binds for the oracle.
func (v c30Val) arg() any {
	switch v.Kind {
	case "int":
		return v.I
	case "float":
		return v.F
	case "bool":
		if v.B {
			return int64(1)
		}
		return int64(0)
	case "null":
		return nil
	case "text":
		return v.S
	default: // hexlit, bytes
		if v.Y == nil {
			return []byte{}
		}
		return v.Y
	}
}

func c30JSONString(s string, escapeAll bool) string {
	if !escapeAll {
		var buf bytes.Buffer
		enc := json.NewEncoder(&buf)
		enc.SetEscapeHTML(false)
		enc.Encode(s)
		return strings.TrimRight(buf.String(), "\n")
	}
	// every rune as \uXXXX (surrogate pairs above the BMP)
	var sb strings.Builder
	sb.WriteByte('"')
	for _, r := range s {
		if r > 0xFFFF {
			r -= 0x10000
			fmt.Fprintf(&sb, `\u%04x\u%04x`, 0xD800+(r>>10), 0xDC00+(r&0x3FF))
		} else {
			fmt.Fprintf(&sb, `\u%04x`, r)
		}
	}
	sb.WriteByte('"')
	return sb.String()
}

var c30Ints = []int64{0, 1, -1, 2, 255, 256, 65535, 1 << 31, -(1 << 31), 1<<32 + 1, 1 << 53, 1<<53 + 1, -(1<<53 + 1),
	math.MaxInt64, math.MinInt64, math.MaxInt64 - 1, math.MinInt64 + 1, 1234567890123456789, 9007199254740993}

var c30Floats = []float64{0.5, -0.5, 1.5, 3.0, -3.0, 0.1, 1e-7, 1.0000000000000002, 1e15, 1e16, 1e20, 1e21, 1e22, 123456789.125,
	math.MaxFloat64, -math.MaxFloat64, math.SmallestNonzeroFloat64, 2.2250738585072014e-308, 9.223372036854775807e18, -9.223372036854775808e18,
	1e300, -1e-300, 4.35, 2.675, 0.30000000000000004, math.Pi, float64(1 << 53), float64(1<<53) + 2}

var c30Texts = []string{"", " ", "a", "abc", "hello world", " lead", "trail ", "é", "naïve café", "漢字", "😀", "a😀b", "Ωmega", "\u00a0", " ",
	"line\nbreak", "tab\there", "cr\rlf\n", "\x01\x02", "\x7f", "quote\"dq", "single'q", "back\\slash", "<tag>&amp;", "%s %d", "null", "true", "NULL",
	"123", "-7", "1.5", "1e5", "0x41", "9223372036854775808", "0.0", "-0",
	"X'41", "x'4g'", "X'414'", "X41", "0X'41'", "X'41'x", "XX'41'", "X\"41\"", "x' '", "[1,2]", "{\"a\":1}", "\\u0041",
	"2024-01-02", "2024-01-02 03:04:05", "ÿþ", "\ufeffbom", "\U0001F468‍\U0001F469‍\U0001F467"}

func c30GenVal(rt *rapid.T, label string) c30Val {
	kind := rapid.SampledFrom([]string{"int", "int", "float", "float", "bool", "null", "text", "text", "text", "hexlit", "hexlit", "bytes", "bytes"}).Draw(rt, label+"kind")
	v := c30Val{Kind: kind}
	switch kind {
	case "int":
		if rapid.Bool().Draw(rt, "intpick") {
			v.I = rapid.SampledFrom(c30Ints).Draw(rt, "intv")
		} else {
			v.I = rapid.Int64().Draw(rt, "intr")
		}
		v.JSON = strconv.FormatInt(v.I, 10)
	case "float":
		if rapid.Bool().Draw(rt, "fpick") {
			v.F = rapid.SampledFrom(c30Floats).Draw(rt, "fv")
		} else {
			v.F = rapid.Float64().Draw(rt, "fr")
			if math.IsInf(v.F, 0) || math.IsNaN(v.F) {
				v.F = 0.25
			}
		}
		format := rapid.SampledFrom([]byte{'g', 'e', 'f'}).Draw(rt, "ffmt")
		if format == 'f' && (math.Abs(v.F) > 1e25 || (v.F != 0 && math.Abs(v.F) < 1e-25)) {
			format = 'g'
		}
		s := strconv.FormatFloat(v.F, format, -1, 64)
		if !strings.ContainsAny(s, ".eE") {
			s += ".0" // keep it a non-integer JSON number
		}
		v.JSON = s
	case "bool":
		v.B = rapid.Bool().Draw(rt, "b")
		v.JSON = strconv.FormatBool(v.B)
	case "null":
		v.JSON = "null"
	case "text":
		switch rapid.IntRange(0, 5).Draw(rt, "tpick") {
		case 0:
			v.S = rapid.StringN(0, 12, 40).Draw(rt, "tr")
			if !utf8.ValidString(v.S) {
				v.S = strings.ToValidUTF8(v.S, "?")
			}
		case 1:
			v.S = strings.Repeat(rapid.SampledFrom(c30Texts).Draw(rt, "trep"), rapid.IntRange(1, 40).Draw(rt, "trepn"))
		default:
			v.S = rapid.SampledFrom(c30Texts).Draw(rt, "tv")
		}
		if c30IsHexLiteral(v.S) {
			v.S = "t" + v.S // must stay text
		}
		v.JSON = c30JSONString(v.S, rapid.IntRange(0, 5).Draw(rt, "tesc") == 0)
	case "hexlit", "bytes":
		switch rapid.IntRange(0, 5).Draw(rt, "ypick") {
		case 0:
			v.Y = []byte{}
		case 1:
			v.Y = []byte(rapid.SampledFrom([]string{"A", "AB", "hello", "é", "漢", "123", "1.5", "x"}).Draw(rt, "yascii"))
		case 2:
			v.Y = rapid.SampledFrom([][]byte{{0}, {0, 0}, {0xff}, {0xff, 0xfe}, {0x80}, {0xc3}, {0xc3, 0x28}, {0xe2, 0x82}, {0, 'a', 0, 'b'}, {0xde, 0xad, 0xbe, 0xef}}).Draw(rt, "ybad")
		default:
			v.Y = rapid.SliceOfN(rapid.Byte(), 1, 48).Draw(rt, "yr")
		}
		if kind == "hexlit" {
			h := hex.EncodeToString(v.Y)
			x := "X"
			switch rapid.IntRange(0, 2).Draw(rt, "ycase") {
			case 0:
				h = strings.ToUpper(h)
			case 1:
				x = "x"
			}
			v.JSON = c30JSONString(x+"'"+h+"'", false)
		} else {
			parts := make([]string, len(v.Y))
			for i, b := range v.Y {
				parts[i] = strconv.Itoa(int(b))
			}
			v.JSON = "[" + strings.Join(parts, ",") + "]"
		}
	}
	return v
}

// c30IsHexLiteral: SQLite's blob literal syntax, X'<even number of hex digits>'.
func c30IsHexLiteral(s string) bool {
	t := strings.TrimSpace(s) // be generous: never generate text that could be read as a literal
	if len(t) < 3 || (t[0] != 'x' && t[0] != 'X') || t[1] != '\'' || t[len(t)-1] != '\'' {
		return false
	}
	h := t[2 : len(t)-1]
	if len(h)%2 != 0 {
		return false
	}
	for _, c := range h {
		if !strings.ContainsRune("0123456789abcdefABCDEF", c) {
			return false
		}
	}
	return true
}

// ---------------------------------------------------------------- case

type c30Case struct {
	ColTypes  []string   // declared type per column ("" = untyped)
	Rows      [][]c30Val // values per row
	Named     []bool     // row inserted with named parameters
	Params    []c30Val   // values for the parameter/expression query
	Returning bool       // last INSERT carries RETURNING for all columns
	ExecAssoc bool       // /db/execute answered in associative form
	Pretty    bool       // ask for pretty-printed answers
	Strong    bool       // read back with level=strong (through the log)
	UseGet    bool       // first read-back form is sent as GET ?q=
	Endpoint  string     // "query" | "request"
	RowOrder  string     // "ASC" | "DESC"
}

func c30GenCase(rt *rapid.T) c30Case {
	var c c30Case
	nc := rapid.IntRange(1, 4).Draw(rt, "ncols")
	for i := 0; i < nc; i++ {
		c.ColTypes = append(c.ColTypes, rapid.SampledFrom([]string{"", "", "INTEGER", "REAL", "TEXT", "TEXT", "BLOB"}).Draw(rt, "coltype"))
	}
	nr := rapid.IntRange(1, 3).Draw(rt, "nrows")
	for r := 0; r < nr; r++ {
		row := make([]c30Val, nc)
		for i := range row {
			row[i] = c30GenVal(rt, "cell")
		}
		c.Rows = append(c.Rows, row)
		c.Named = append(c.Named, rapid.IntRange(0, 2).Draw(rt, "named") == 0)
	}
	np := rapid.IntRange(1, 4).Draw(rt, "nparams")
	for i := 0; i < np; i++ {
		c.Params = append(c.Params, c30GenVal(rt, "param"))
	}
	c.Endpoint = rapid.SampledFrom([]string{"query", "query", "request"}).Draw(rt, "endpoint")
	c.RowOrder = rapid.SampledFrom([]string{"ASC", "DESC"}).Draw(rt, "order")
	c.Returning = rapid.IntRange(0, 2).Draw(rt, "returning") == 0
	c.ExecAssoc = rapid.Bool().Draw(rt, "execassoc")
	c.Pretty = rapid.IntRange(0, 3).Draw(rt, "pretty") == 0
	c.Strong = rapid.IntRange(0, 3).Draw(rt, "strong") == 0
	c.UseGet = rapid.IntRange(0, 2).Draw(rt, "useget") == 0
	return c
}

// table is named after the declared column types: the driver keeps a cache
// of prepared statements (with their declared column types) keyed by SQL text,
// so the same text must always mean the same declared types.
func (c c30Case) table() string {
	n := "t"
	for _, t := range c.ColTypes {
		if t == "" {
			n += "u"
		} else {
			n += strings.ToLower(t[:1])
		}
	}
	return n
}

func (c c30Case) createSQL() string {
	cols := []string{"id INTEGER PRIMARY KEY"}
	for i, t := range c.ColTypes {
		cols = append(cols, strings.TrimSpace(fmt.Sprintf("c%d %s", i, t)))
	}
	return "CREATE TABLE " + c.table() + " (" + strings.Join(cols, ", ") + ")"
}

// insertBody renders the /db/execute body.
func (c c30Case) insertBody() string {
	stmts := []string{`"DROP TABLE IF EXISTS ` + c.table() + `"`, c30JSONString(c.createSQL(), false)}
	for r, row := range c.Rows {
		var names, ph []string
		for i := range row {
			names = append(names, fmt.Sprintf("c%d", i))
			if c.Named[r] {
				ph = append(ph, fmt.Sprintf(":c%d", i))
			} else {
				ph = append(ph, "?")
			}
		}
		sqlText := fmt.Sprintf("INSERT INTO %s(id,%s) VALUES(%d,%s)", c.table(), strings.Join(names, ","), r+1, strings.Join(ph, ","))
		if c.Returning && r == len(c.Rows)-1 {
			sqlText += " RETURNING " + strings.Join(names, ", ")
		}
		if c.Named[r] {
			var kv []string
			for i, v := range row {
				kv = append(kv, fmt.Sprintf(`"c%d":%s`, i, v.JSON))
			}
			stmts = append(stmts, fmt.Sprintf(`[%s,{%s}]`, c30JSONString(sqlText, false), strings.Join(kv, ",")))
		} else {
			parts := []string{c30JSONString(sqlText, false)}
			for _, v := range row {
				parts = append(parts, v.JSON)
			}
			stmts = append(stmts, "["+strings.Join(parts, ",")+"]")
		}
	}
	return "[" + strings.Join(stmts, ",") + "]"
}

// selectSQL reads every column plus a type-preserving expression over it.
func (c c30Case) selectSQL() (string, []string, []string) {
	var exprs, names, sources []string
	for i, t := range c.ColTypes {
		exprs = append(exprs, fmt.Sprintf("c%d", i))
		names = append(names, fmt.Sprintf("c%d", i))
		src := strings.ToLower(t)
		if src == "" {
			src = "untyped"
		}
		sources = append(sources, src+"-column")
	}
	for i := range c.ColTypes {
		exprs = append(exprs, fmt.Sprintf("+c%d AS e%d", i, i))
		names = append(names, fmt.Sprintf("e%d", i))
		sources = append(sources, "expr")
	}
	return "SELECT " + strings.Join(exprs, ", ") + " FROM " + c.table() + " ORDER BY id " + c.RowOrder, names, sources
}

func (c c30Case) paramSQL() (string, []string) {
	var exprs, names []string
	for i := range c.Params {
		exprs = append(exprs, fmt.Sprintf("? AS p%d", i))
		names = append(names, fmt.Sprintf("p%d", i))
	}
	return "SELECT " + strings.Join(exprs, ", "), names
}

func (c c30Case) render() string {
	var sb strings.Builder
	fmt.Fprintf(&sb, "endpoint=%s order=%s execassoc=%v pretty=%v strong=%v get=%v body=%s params=[", c.Endpoint, c.RowOrder, c.ExecAssoc, c.Pretty, c.Strong, c.UseGet, c.insertBody())
	for i, p := range c.Params {
		if i > 0 {
			sb.WriteString(",")
		}
		sb.WriteString(p.JSON)
	}
	sb.WriteString("]")
	s := sb.String()
	if len(s) > 1500 {
		s = s[:1500] + "...(truncated)"
	}
	return s
}

// ---------------------------------------------------------------- decoding answers

type c30Table struct {
	cols []string
	rows [][]any // decoded JSON cells (json.Number, string, nil, []any, bool)
}

// c30Decode extracts result #idx of an API answer in array or associative form.
func c30Decode(body []byte, assoc bool, names []string) (*c30Table, string) {
	return c30DecodeAt(body, assoc, names, 0, 1)
}

// c30DecodeAt extracts result #idx of n from an API answer.
func c30DecodeAt(body []byte, assoc bool, names []string, idx, n int) (*c30Table, string) {
	dec := json.NewDecoder(bytes.NewReader(body))
	dec.UseNumber()
	var top map[string]any
	if err := dec.Decode(&top); err != nil {
		return nil, fmt.Sprintf("answer is not JSON: %v: %.300s", err, body)
	}
	if e, ok := top["error"]; ok {
		return nil, fmt.Sprintf("answer carries error %v", e)
	}
	results, ok := top["results"].([]any)
	if !ok || len(results) != n {
		return nil, fmt.Sprintf("expected %d results: %.300s", n, body)
	}
	res, ok := results[idx].(map[string]any)
	if !ok {
		return nil, fmt.Sprintf("result is not an object: %.300s", body)
	}
	if e, ok := res["error"]; ok {
		return nil, fmt.Sprintf("result carries error %v", e)
	}
	t := &c30Table{cols: names}
	if assoc {
		rows, _ := res["rows"].([]any)
		for _, r := range rows {
			m, ok := r.(map[string]any)
			if !ok {
				return nil, "associative row is not an object"
			}
			if len(m) != len(names) {
				return nil, fmt.Sprintf("associative row has %d keys, want %d", len(m), len(names))
			}
			row := make([]any, len(names))
			for i, n := range names {
				v, ok := m[n]
				if !ok {
					return nil, fmt.Sprintf("associative row lacks key %s", n)
				}
				row[i] = v
			}
			t.rows = append(t.rows, row)
		}
		return t, ""
	}
	cols, _ := res["columns"].([]any)
	if len(cols) != len(names) {
		return nil, fmt.Sprintf("got %d columns want %d", len(cols), len(names))
	}
	for i, cn := range cols {
		if cn != names[i] {
			return nil, fmt.Sprintf("column %d named %v want %s", i, cn, names[i])
		}
	}
	values, _ := res["values"].([]any)
	for _, r := range values {
		row, ok := r.([]any)
		if !ok || len(row) != len(names) {
			return nil, "row is not an array of the right length"
		}
		t.rows = append(t.rows, row)
	}
	return t, ""
}

// c30CellDiff compares a JSON cell with the raw driver's value. Returns the
// raw storage class and "" when the JSON cell denotes the raw value.
func c30CellDiff(raw any, js any, blobArray bool) (class string, diff string) {
	switch r := raw.(type) {
	case nil:
		if js != nil {
			return "null", fmt.Sprintf("raw NULL, JSON %#v", js)
		}
		return "null", ""
	case int64:
		n, ok := js.(json.Number)
		if !ok {
			return "integer", fmt.Sprintf("raw INTEGER %d, JSON %#v", r, js)
		}
		i, err := strconv.ParseInt(string(n), 10, 64)
		if err != nil || i != r {
			return "integer", fmt.Sprintf("raw INTEGER %d, JSON number %s", r, n)
		}
		return "integer", ""
	case float64:
		n, ok := js.(json.Number)
		if !ok {
			return "real", fmt.Sprintf("raw REAL %v, JSON %#v", r, js)
		}
		f, err := strconv.ParseFloat(string(n), 64)
		if err != nil || f != r {
			return "real", fmt.Sprintf("raw REAL %s, JSON number %s", strconv.FormatFloat(r, 'g', -1, 64), n)
		}
		return "real", ""
	case string:
		s, ok := js.(string)
		if !ok || s != r {
			return "text", fmt.Sprintf("raw TEXT %q, JSON %#v", r, js)
		}
		return "text", ""
	case []byte:
		if blobArray {
			a, ok := js.([]any)
			if !ok || len(a) != len(r) {
				return "blob", fmt.Sprintf("raw BLOB x'%x', JSON %#v", r, js)
			}
			for i := range a {
				n, ok := a[i].(json.Number)
				if !ok || string(n) != strconv.Itoa(int(r[i])) {
					return "blob", fmt.Sprintf("raw BLOB x'%x', JSON %#v", r, js)
				}
			}
			return "blob", ""
		}
		s, ok := js.(string)
		if !ok {
			return "blob", fmt.Sprintf("raw BLOB x'%x', JSON %#v", r, js)
		}
		b, err := base64.StdEncoding.DecodeString(s)
		if err != nil || !bytes.Equal(b, r) {
			return "blob", fmt.Sprintf("raw BLOB x'%x', JSON string %q (not its base64 form)", r, s)
		}
		return "blob", ""
	}
	return "other", fmt.Sprintf("raw driver returned unexpected %T", raw)
}

func c30RawQuery(db *sql.DB, q string, args ...any) ([][]any, error) {
	rows, err := db.Query(q, args...)
	if err != nil {
		return nil, err
	}
	defer rows.Close()
	cols, err := rows.Columns()
	if err != nil {
		return nil, err
	}
	var out [][]any
	for rows.Next() {
		dest := make([]any, len(cols))
		ptrs := make([]any, len(cols))
		for i := range dest {
			ptrs[i] = &dest[i]
		}
		if err := rows.Scan(ptrs...); err != nil {
			return nil, err
		}
		out = append(out, dest)
	}
	return out, rows.Err()
}

type c30Failure struct {
	sig, msg string
}

// c30CompareTable compares every cell. known is asked about each failing
// cell's signature; cells of an open known class are counted and skipped so
// that the comparison continues behind them.
func c30CompareTable(t *c30Table, raw [][]any, sources []string, blobArray bool, form string, known func(sig string) bool) *c30Failure {
	if len(t.rows) != len(raw) {
		return &c30Failure{"C30/readback-row-count", fmt.Sprintf("%s: got %d rows want %d", form, len(t.rows), len(raw))}
	}
	for i := range raw {
		for j := range raw[i] {
			class, diff := c30CellDiff(raw[i][j], t.rows[i][j], blobArray)
			if diff == "" {
				continue
			}
			sig := fmt.Sprintf("C30/readback-mismatch{class=%s,source=%s}", class, sources[j])
			if _, isStr := t.rows[i][j].(string); isStr && class == "blob" {
				// a BLOB answered as a JSON string that is not its base64 form
				sig = fmt.Sprintf("C30/blob-as-text{source=%s}", sources[j])
			}
			if known(sig) {
				continue
			}
			return &c30Failure{sig, fmt.Sprintf("%s: row %d column %s (%s): %s", form, i, t.cols[j], sources[j], diff)}
		}
	}
	return nil
}

var c30KnownWhat = "BLOB values read from expressions, untyped columns or TEXT-declared columns are returned as (mangled) text instead of base64/byte array"

// ---------------------------------------------------------------- the check

func c30Check(rt *rapid.T, rec *vstat.Rec, env *c30Env, c c30Case) {
	// labels
	kinds := map[string]bool{}
	hasBlobInTextish, hasBig := false, false
	for _, row := range c.Rows {
		for j, v := range row {
			kinds[v.Kind] = true
			if (v.Kind == "hexlit" || v.Kind == "bytes") && (c.ColTypes[j] == "" || c.ColTypes[j] == "TEXT") {
				hasBlobInTextish = true
			}
			if v.Kind == "int" && (v.I > 1<<53 || v.I < -(1<<53)) {
				hasBig = true
			}
		}
	}
	for _, v := range c.Params {
		kinds["param-"+v.Kind] = true
	}
	for k := range map[string]bool{"int": true, "float": true, "bool": true, "null": true, "text": true, "hexlit": true, "bytes": true} {
		if kinds[k] {
			rec.Label("cell:" + k)
		}
		if kinds["param-"+k] {
			rec.Label("param:" + k)
		}
	}
	for _, t := range c.ColTypes {
		if t == "" {
			t = "untyped"
		}
		rec.Label("col:" + t)
	}
	if hasBlobInTextish {
		rec.Label("blob-in-untyped-or-text-column")
	}
	if hasBig {
		rec.Label("int-beyond-2^53")
	}
	rec.Label("endpoint=" + c.Endpoint)
	named := false
	for _, n := range c.Named {
		named = named || n
	}
	if named {
		rec.Label("named-params")
	}
	// non-trivial: at least two different value kinds stored, so that a
	// mix-up between classes is observable
	nk := 0
	for _, k := range []string{"int", "float", "bool", "null", "text", "hexlit", "bytes"} {
		if kinds[k] {
			nk++
		}
	}
	rec.Case(nk >= 2, c.render())
	rec.Sample(c.render())

	fail := func(f *c30Failure) {
		rt.Fatalf("%s", rec.Violation(f.sig, "%s ;; case: %s", strings.ReplaceAll(f.msg, "\n", " ;; "), c.render()))
	}
	known := func(sig string) bool {
		return strings.HasPrefix(sig, "C30/blob-as-text{") && rec.KnownHit(sig, c30KnownWhat)
	}

	// 0. binding oracle: the same rows through the raw driver (built first: it also tells whether the case is inside the domain)
	odb, err := vsql.OpenMem()
	if err != nil {
		c30Bail("infrastructure: %v", err)
	}
	defer odb.Close()
	if _, err := odb.Exec(c.createSQL()); err != nil {
		c30Bail("infrastructure: oracle create: %v", err)
	}
	for r, row := range c.Rows {
		ph := make([]string, len(row))
		args := []any{int64(r + 1)}
		for i, v := range row {
			ph[i] = "?"
			args = append(args, v.arg())
		}
		if _, err := odb.Exec(fmt.Sprintf("INSERT INTO %s VALUES(?,%s)", c.table(), strings.Join(ph, ",")), args...); err != nil {
			c30Bail("infrastructure: oracle insert: %v", err)
		}
	}
	wantDump, err := vsql.DumpTable(odb, c.table())
	if err != nil {
		c30Bail("infrastructure: %v", err)
	}
	// column affinity can turn a long numeric-looking text into an infinite
	// REAL; JSON cannot carry ±Inf/NaN, which the property excludes
	if ocells, err := c30RawQuery(odb, "SELECT * FROM "+c.table()); err == nil {
		for _, row := range ocells {
			for _, v := range row {
				if f, ok := v.(float64); ok && (math.IsInf(f, 0) || math.IsNaN(f)) {
					rec.Label("excluded:infinite-real-by-affinity")
					return
				}
			}
		}
	}
	// 1. store through the API
	execPath := "/db/execute?transaction"
	if c.ExecAssoc {
		execPath += "&associative"
	}
	if c.Pretty {
		execPath += "&pretty"
	}
	code, body := env.post(execPath, c.insertBody())
	execBody := body
	if code != http.StatusOK {
		fail(&c30Failure{"C30/param-rejected", fmt.Sprintf("execute answered HTTP %d: %.300s", code, body)})
		return
	}
	var er struct {
		Results []map[string]any `json:"results"`
		Error   string           `json:"error"`
	}
	if err := json.Unmarshal(body, &er); err != nil || er.Error != "" {
		if strings.Contains(er.Error, "leader") || strings.Contains(er.Error, "not ready") {
			c30Bail("infrastructure: %s", er.Error)
		}
		fail(&c30Failure{"C30/execute-error", fmt.Sprintf("execute failed: %v %s %.300s", err, er.Error, body)})
		return
	}
	if len(er.Results) != 2+len(c.Rows) {
		fail(&c30Failure{"C30/execute-error", fmt.Sprintf("execute returned %d results want %d: %.300s", len(er.Results), 2+len(c.Rows), body)})
		return
	}
	for i, r := range er.Results {
		if e, ok := r["error"]; ok {
			fail(&c30Failure{"C30/execute-error", fmt.Sprintf("statement %d failed: %v", i, e)})
			return
		}
	}

	rdb, err := vsql.Open(env.dbPath())
	if err != nil {
		c30Bail("infrastructure: %v", err)
	}
	defer rdb.Close()
	gotDump, err := vsql.DumpTable(rdb, c.table())
	if err != nil {
		c30Bail("infrastructure: %v", err)
	}
	if gotDump != wantDump {
		// find the first differing cell for the signature
		sig := "C30/bind-mismatch"
		gl, wl := strings.Split(gotDump, "\n"), strings.Split(wantDump, "\n")
	outer:
		for i := range wl {
			if i >= len(gl) || gl[i] != wl[i] {
				// line i is row i (1-based after header)
				if i >= 1 && i-1 < len(c.Rows) && i < len(gl) {
					gc, wc := strings.Split(gl[i], "|"), strings.Split(wl[i], "|")
					for j := 1; j < len(wc) && j < len(gc); j++ {
						if gc[j] != wc[j] && j-2 >= 0 && j-2 < len(c.Rows[i-1]) {
							sig = fmt.Sprintf("C30/bind-mismatch{kind=%s}", c.Rows[i-1][j-2].Kind)
							break outer
						}
					}
				}
				break
			}
		}
		fail(&c30Failure{sig, fmt.Sprintf("stored table differs from what the parameters denote:\n--- rqlite\n%s--- raw driver with the same values\n%s", gotDump, wantDump)})
		return
	}

	// 2b. rows answered by INSERT ... RETURNING are the stored row
	if c.Returning {
		var cn, src []string
		for i, t := range c.ColTypes {
			cn = append(cn, fmt.Sprintf("c%d", i))
			st := strings.ToLower(t)
			if st == "" {
				st = "untyped"
			}
			src = append(src, st+"-column")
		}
		rraw, err := c30RawQuery(rdb, fmt.Sprintf("SELECT %s FROM %s WHERE id=%d", strings.Join(cn, ", "), c.table(), len(c.Rows)))
		if err != nil {
			c30Bail("infrastructure: raw select: %v", err)
		}
		rec.Label("returning")
		fname := fmt.Sprintf("execute-returning assoc=%v", c.ExecAssoc)
		tb, msg := c30DecodeAt(execBody, c.ExecAssoc, cn, 1+len(c.Rows), 2+len(c.Rows))
		if msg != "" {
			fail(&c30Failure{"C30/returning-error", fname + ": " + msg})
			return
		}
		if f := c30CompareTable(tb, rraw, src, false, fname, known); f != nil {
			fail(f)
			return
		}
	}

	// 3. read-back of columns and expressions, in the four result forms
	q, names, sources := c.selectSQL()
	raw, err := c30RawQuery(rdb, q)
	if err != nil {
		c30Bail("infrastructure: raw select: %v", err)
	}
	// two complementary forms per case (every flag is seen on and off); which
	// pair is derived from the case so that all four combinations are covered
	type c30Form struct{ assoc, arr bool }
	forms := []c30Form{{false, false}, {true, true}}
	if (len(c.ColTypes)+len(c.Rows))%2 == 1 {
		forms = []c30Form{{true, false}, {false, true}}
	}
	for fi, form := range forms {
		path := "/db/" + c.Endpoint + "?x"
		if form.assoc {
			path += "&associative"
		}
		if form.arr {
			path += "&blob_array"
		}
		if c.Pretty {
			path += "&pretty"
		}
		if c.Strong {
			path += "&level=strong"
		}
		var code int
		var body []byte
		if c.UseGet && fi == 0 && c.Endpoint == "query" {
			rec.Label("get-form")
			code, body = env.get(path + "&q=" + url.QueryEscape(q))
		} else {
			code, body = env.post(path, "["+c30JSONString(q, false)+"]")
		}
		fname := fmt.Sprintf("%s assoc=%v blob_array=%v", c.Endpoint, form.assoc, form.arr)
		if code != http.StatusOK {
			fail(&c30Failure{"C30/query-error", fmt.Sprintf("%s: HTTP %d %.300s", fname, code, body)})
			return
		}
		t, msg := c30Decode(body, form.assoc, names)
		if msg != "" {
			fail(&c30Failure{"C30/query-error", fname + ": " + msg})
			return
		}
		if f := c30CompareTable(t, raw, sources, form.arr, fname, known); f != nil {
			fail(f)
			return
		}
	}

	// 4. parameters of a query come back unchanged (bound value -> expression -> JSON)
	pq, pnames := c.paramSQL()
	var pargs []any
	parts := []string{c30JSONString(pq, false)}
	psources := make([]string, len(c.Params))
	for i, p := range c.Params {
		pargs = append(pargs, p.arg())
		parts = append(parts, p.JSON)
		psources[i] = "expr"
	}
	praw, err := c30RawQuery(rdb, pq, pargs...)
	if err != nil {
		c30Bail("infrastructure: raw param select: %v", err)
	}
	assoc := len(c.Params)%2 == 0
	arr := len(c.Rows)%2 == 0
	path := "/db/" + c.Endpoint + "?x"
	if assoc {
		path += "&associative"
	}
	if arr {
		path += "&blob_array"
	}
	code, body = env.post(path, "[["+strings.Join(parts, ",")+"]]")
	fname := fmt.Sprintf("param-select %s assoc=%v blob_array=%v", c.Endpoint, assoc, arr)
	if code != http.StatusOK {
		fail(&c30Failure{"C30/param-rejected", fmt.Sprintf("%s: HTTP %d %.300s", fname, code, body)})
		return
	}
	t, msg := c30Decode(body, assoc, pnames)
	if msg != "" {
		fail(&c30Failure{"C30/query-error", fname + ": " + msg})
		return
	}
	if f := c30CompareTable(t, praw, psources, arr, fname, known); f != nil {
		fail(f)
	}
}

func TestVerif_C30_HTTP(t *testing.T) {
	rec := vstat.New(t, "C30", "http",
		"rapid: tables of 1-4 columns declared untyped/INTEGER/REAL/TEXT/BLOB, 1-3 rows inserted through POST /db/execute with positional or named JSON parameters (int64 incl. extremes and beyond 2^53, floats in g/e/f notation incl. max/denormal, booleans, null, text incl. non-ASCII, control characters, \\u-escaped, numeric- and hex-looking, X'..' hex blob literals, byte arrays incl. empty, ASCII-looking and invalid-UTF-8 blobs); stored table compared with the raw driver's; columns and +column expressions read back through /db/query or /db/request in array/associative x base64/blob_array forms (two complementary forms per case), INSERT ... RETURNING answers of /db/execute, optional pretty printing, level=strong and GET ?q= variants, and 1-4 query parameters echoed by SELECT ?; one real single-node store + http.Service shared by all cases, table recreated per case; non-trivial = at least two different value kinds stored; distinct by request bodies")
	var env *c30Env
	var err error
	for try := 0; try < 3; try++ { // store start-up can fail on a very busy machine
		if env, err = c30NewEnv(); err == nil {
			break
		}
		time.Sleep(2 * time.Second)
	}
	if err != nil {
		rec.Label("inconclusive:infrastructure")
		t.Logf("infrastructure: %v", err)
		return
	}
	defer env.close()
	rapid.Check(t, func(rt *rapid.T) {
		defer c30Guard(rec)
		c := c30GenCase(rt)
		c30Check(rt, rec, env, c)
	})
}

// ---------------------------------------------------------------- concurrent responses

// TestVerif_C30_Concurrent: several clients query the same node at the same
// time, each with its own parameter values; every answer must contain exactly
// the asking client's values (same oracle as the sequential unit: the JSON
// cell must denote the value the parameter denotes). Blob parameters are left
// out here because their read-back from expressions is an open known finding.
func TestVerif_C30_Concurrent(t *testing.T) {
	rec := vstat.New(t, "C30", "concurrent",
		"rapid: 4-16 concurrent clients, each sending 15-40 POST /db/query (or /db/request) requests to one http.Service + single-node store; a request echoes the client's own 2-5 parameter values (int64 incl. extremes, floats, text incl. non-ASCII, null, booleans; distinct per client) on 50-600 rows of a recursive CTE, array or associative form; every answer must carry exactly the sender's values on every row; non-trivial = at least 4 clients and 200 answers; distinct by the clients' bodies")
	var env *c30Env
	var err error
	for try := 0; try < 3; try++ { // store start-up can fail on a very busy machine
		if env, err = c30NewEnv(); err == nil {
			break
		}
		time.Sleep(2 * time.Second)
	}
	if err != nil {
		rec.Label("inconclusive:infrastructure")
		t.Logf("infrastructure: %v", err)
		return
	}
	defer env.close()
	rapid.Check(t, func(rt *rapid.T) {
		defer c30Guard(rec)
		nw := rapid.IntRange(4, 16).Draw(rt, "workers")
		iters := rapid.IntRange(15, 40).Draw(rt, "iters")
		type worker struct {
			vals   []c30Val
			rows   int
			assoc  bool
			path   string
			body   string
			names  []string
			expect []any
		}
		ws := make([]*worker, nw)
		canon := ""
		for i := range ws {
			w := &worker{rows: rapid.SampledFrom([]int{50, 200, 600}).Draw(rt, "rows"), assoc: rapid.Bool().Draw(rt, "assoc")}
			np := rapid.IntRange(2, 5).Draw(rt, "np")
			for len(w.vals) < np {
				v := c30GenVal(rt, "cv")
				if v.Kind == "hexlit" || v.Kind == "bytes" {
					continue
				}
				w.vals = append(w.vals, v)
			}
			// a value that identifies the client
			w.vals = append(w.vals, c30Val{Kind: "text", S: fmt.Sprintf("client-%d-é", i), JSON: c30JSONString(fmt.Sprintf("client-%d-é", i), false)})
			exprs := []string{"x AS x"}
			w.names = []string{"x"}
			parts := []string{}
			for j, v := range w.vals {
				exprs = append(exprs, fmt.Sprintf("? AS p%d", j))
				w.names = append(w.names, fmt.Sprintf("p%d", j))
				parts = append(parts, v.JSON)
				w.expect = append(w.expect, v.arg())
			}
			q := fmt.Sprintf("WITH RECURSIVE n(x) AS (SELECT 1 UNION ALL SELECT x+1 FROM n WHERE x<%d) SELECT %s FROM n", w.rows, strings.Join(exprs, ", "))
			w.body = "[[" + c30JSONString(q, false) + "," + strings.Join(parts, ",") + "]]"
			w.path = "/db/" + rapid.SampledFrom([]string{"query", "query", "request"}).Draw(rt, "ep") + "?x"
			if w.assoc {
				w.path += "&associative"
			}
			ws[i] = w
			canon += w.path + w.body + ";"
		}
		rec.Case(nw >= 4 && nw*iters >= 200, canon)
		rec.Sample(fmt.Sprintf("%d clients x %d requests", nw, iters))
		rec.LabelN("answers", nw*iters)

		var mu sync.Mutex
		var first *c30Failure
		var wg sync.WaitGroup
		for i, w := range ws {
			wg.Add(1)
			go func(i int, w *worker) {
				defer wg.Done()
				for it := 0; it < iters; it++ {
					mu.Lock()
					stop := first != nil
					mu.Unlock()
					if stop {
						return
					}
					code, body := env.post(w.path, w.body)
					var f *c30Failure
					if code != http.StatusOK {
						f = &c30Failure{"C30/concurrent-answer-corrupt", fmt.Sprintf("client %d request %d: HTTP %d %.200s", i, it, code, body)}
					} else if tb, msg := c30Decode(body, w.assoc, w.names); msg != "" {
						f = &c30Failure{"C30/concurrent-answer-corrupt", fmt.Sprintf("client %d request %d: %s", i, it, msg)}
					} else if len(tb.rows) != w.rows {
						f = &c30Failure{"C30/concurrent-answer-corrupt", fmt.Sprintf("client %d request %d: %d rows, want %d", i, it, len(tb.rows), w.rows)}
					} else {
					rows:
						for r, row := range tb.rows {
							if _, d := c30CellDiff(int64(r+1), row[0], false); d != "" {
								f = &c30Failure{"C30/concurrent-answer-foreign-values", fmt.Sprintf("client %d request %d row %d column x: %s", i, it, r, d)}
								break
							}
							for j, want := range w.expect {
								if _, d := c30CellDiff(want, row[j+1], false); d != "" {
									f = &c30Failure{"C30/concurrent-answer-foreign-values", fmt.Sprintf("client %d request %d row %d column p%d: %s", i, it, r, j, d)}
									break rows
								}
							}
						}
					}
					if f != nil {
						mu.Lock()
						if first == nil {
							first = f
						}
						mu.Unlock()
						return
					}
				}
			}(i, w)
		}
		wg.Wait()
		if first != nil {
			rt.Fatalf("%s", rec.Violation(first.sig, "%s", first.msg))
		}
	})
}

// c30Inconclusive is raised for infrastructure trouble inside a case; the
// case is then counted under the label "inconclusive:infrastructure" instead
// of being skipped (rapid gives up when most cases are skipped).
type c30Inconclusive struct{ msg string }

func c30Bail(format string, args ...any) {
	panic(c30Inconclusive{fmt.Sprintf(format, args...)})
}

// c30Guard is deferred at the top of a case.
func c30Guard(rec *vstat.Rec) {
	if r := recover(); r != nil {
		if _, ok := r.(c30Inconclusive); ok {
			rec.Label("inconclusive:infrastructure")
			return
		}
		panic(r)
	}
}
