package c16

// C16 (a): the staleness decision store.IsStaleRead against a direct
// restatement of the documented rule (DESIGN.md Appendix C):
//
//	stale := f>0 && ( now-lastContact > f  ||  ( strict && appendedAt!=0 && fsmIndex!=commitIndex && fsmUpdate-appendedAt > f ) )
//
// The function reads the wall clock for the last-contact age only, so
// generated ages stay >= 100 ms away from the bound; the append/apply part is
// pure and is probed exactly at the boundary.

import (
	"fmt"
	"testing"
	"time"

	"github.com/rqlite/rqlite/v10/internal/verif/vstat"
	"github.com/rqlite/rqlite/v10/store"
	"pgregory.net/rapid"
)

type staleCase struct {
	F          time.Duration // freshness
	Strict     bool
	ContactAge time.Duration // <0: never heard from a leader (zero time)
	AppendZero bool
	Lag        time.Duration // fsmUpdate - appendedAt
	FSM, Cmt   uint64
}

func (c staleCase) String() string {
	return fmt.Sprintf("f=%v strict=%v contactAge=%v appendZero=%v lag=%v fsm=%d commit=%d", c.F, c.Strict, c.ContactAge, c.AppendZero, c.Lag, c.FSM, c.Cmt)
}

// want is the documented rule.
func (c staleCase) want() bool {
	if c.F <= 0 {
		return false
	}
	if c.ContactAge < 0 || c.ContactAge > c.F {
		return true
	}
	return c.Strict && !c.AppendZero && c.FSM != c.Cmt && c.Lag > c.F
}

func (c staleCase) got() bool {
	now := time.Now()
	var contact, appended, fsmUpd time.Time
	if c.ContactAge >= 0 {
		contact = now.Add(-c.ContactAge)
	}
	base := now.Add(-time.Hour)
	if !c.AppendZero {
		appended = base
	}
	fsmUpd = base.Add(c.Lag)
	return store.IsStaleRead(contact, fsmUpd, appended, c.FSM, c.Cmt, int64(c.F), c.Strict)
}

func (c staleCase) sig() string {
	switch {
	case c.F == 0:
		return "C16/stale-decision-freshness-zero"
	case c.ContactAge < 0 || c.ContactAge > c.F:
		return "C16/stale-decision-last-contact"
	case c.Strict:
		return "C16/stale-decision-strict"
	}
	return "C16/stale-decision"
}

func TestVerif_C16_StaleGrid(t *testing.T) {
	rec := vstat.New(t, "C16", "stalegrid",
		"exhaustive grid: freshness {0,1s,1h} x strict x last-contact age {never,0,f/2,f-100ms,f+100ms,2f,10f} x appendedAt {zero,set} x apply-append lag {-1s,0,f-1ns,f,f+1ns,2f} x (fsm,commit) {equal,behind,ahead}; "+
			"non-trivial = freshness>0; distinct = the tuple")
	fs := []time.Duration{0, time.Second, time.Hour}
	for _, f := range fs {
		ages := []time.Duration{-1, 0, f / 2, f - 100*time.Millisecond, f + 100*time.Millisecond, 2 * f, 10 * f}
		if f == 0 {
			ages = []time.Duration{-1, 0, time.Second, time.Hour}
		}
		lags := []time.Duration{-time.Second, 0, f - 1, f, f + 1, 2 * f}
		for _, strict := range []bool{false, true} {
			for _, age := range ages {
				if age < 0 && age != -1 {
					continue
				}
				for _, az := range []bool{true, false} {
					for _, lag := range lags {
						for _, ic := range [][2]uint64{{7, 7}, {5, 7}, {9, 7}, {0, 0}} {
							c := staleCase{F: f, Strict: strict, ContactAge: age, AppendZero: az, Lag: lag, FSM: ic[0], Cmt: ic[1]}
							rec.Case(f > 0, c.String())
							if c.want() {
								rec.Label("want-stale")
							} else {
								rec.Label("want-fresh")
							}
							if got, want := c.got(), c.want(); got != want {
								if rec.KnownHit(c.sig(), "IsStaleRead disagrees with the documented rule") {
									continue
								}
								t.Fatalf("%s", rec.Violation(c.sig(), "IsStaleRead=%v, documented rule says %v for %s", got, want, c))
							}
						}
					}
				}
			}
		}
	}
	rec.SetExhaustive(true)
}

func TestVerif_C16_StaleRapid(t *testing.T) {
	rec := vstat.New(t, "C16", "stalerapid",
		"rapid: arbitrary freshness (1ms..2h), last-contact age kept >=100ms from the bound, arbitrary lag (+-3h, boundary-biased), arbitrary indexes; non-trivial = strict clause decides (contact fresh, strict, appended set, indexes differ)")
	rapid.Check(t, func(rt *rapid.T) {
		f := time.Duration(rapid.Int64Range(int64(time.Millisecond), int64(2*time.Hour)).Draw(rt, "f"))
		if rapid.IntRange(0, 9).Draw(rt, "fzero") == 0 {
			f = 0
		}
		var age time.Duration
		switch rapid.IntRange(0, 3).Draw(rt, "agekind") {
		case 0:
			age = -1
		case 1: // fresh
			hi := int64(f) - int64(100*time.Millisecond)
			if hi < 0 {
				hi = 0
			}
			age = time.Duration(rapid.Int64Range(0, hi).Draw(rt, "age"))
			if int64(f) < int64(200*time.Millisecond) {
				age = 0
				if f > 0 && f < 100*time.Millisecond {
					f = 200 * time.Millisecond
				}
			}
		default: // old
			age = f + 100*time.Millisecond + time.Duration(rapid.Int64Range(0, int64(time.Hour)).Draw(rt, "age"))
		}
		var lag time.Duration
		switch rapid.IntRange(0, 2).Draw(rt, "lagkind") {
		case 0:
			lag = f + time.Duration(rapid.Int64Range(-3, 3).Draw(rt, "dl"))
		default:
			lag = time.Duration(rapid.Int64Range(-int64(3*time.Hour), int64(3*time.Hour)).Draw(rt, "lag"))
		}
		fsm := rapid.Uint64Range(0, 5).Draw(rt, "fsm")
		cmt := rapid.Uint64Range(0, 5).Draw(rt, "cmt")
		c := staleCase{F: f, Strict: rapid.Bool().Draw(rt, "strict"), ContactAge: age, AppendZero: rapid.IntRange(0, 4).Draw(rt, "az") == 0, Lag: lag, FSM: fsm, Cmt: cmt}
		decides := c.F > 0 && c.ContactAge >= 0 && c.ContactAge <= c.F && c.Strict && !c.AppendZero && c.FSM != c.Cmt
		rec.Case(decides, c.String())
		if decides {
			rec.Label("strict-clause-decides")
		}
		if c.want() {
			rec.Label("want-stale")
		} else {
			rec.Label("want-fresh")
		}
		if got, want := c.got(), c.want(); got != want {
			if rec.KnownHit(c.sig(), "IsStaleRead disagrees with the documented rule") {
				return
			}
			rt.Fatalf("%s", rec.Violation(c.sig(), "IsStaleRead=%v, documented rule says %v for %s", got, want, c))
		}
	})
}
