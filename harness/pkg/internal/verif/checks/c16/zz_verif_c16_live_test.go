package c16

// C16 (b): read consistency levels on a live cluster of 3 voters + 1 non-voter
// (vnode/vnet), generated (node, level, freshness, strict, Query|Request,
// Store|Proxy) reads interleaved with writes and network-state changes.
//
// Oracles, all "must not happen" statements taken from the property text:
//
//	W  weak: rows are never produced locally by a node that was not leader at any
//	   time during the read (Store API: no rows at all; Proxy: only forwarded rows).
//	A  auto: on a voter exactly the weak rule W; on the non-voter exactly the none
//	   rule (served locally; never ErrNotLeader; subject to N).
//	N  none with freshness f>0 on a follower/non-voter that has been cut off from
//	   the leader for longer than f (+ margin): must be refused (ErrStaleRead).
//	   none with f=0 is never refused. none with f=1h on a connected follower is
//	   not refused.
//	L  linearizable: never returns rows on a node that was not leader during the
//	   read; never returns rows on an ex-leader that is cut off from every other
//	   node once a new leader has acknowledged a write (cut and write happened
//	   before the read began); when it returns rows on a leader the value
//	   reflects every write acknowledged before the read began.
//
// "Was not leader at any time during the read" is established by sampling raft
// state and term before and after: Follower/Candidate in term T before and
// still term T after means the node cannot have been leader in between.

import (
	"context"
	"errors"
	"fmt"
	"os"
	"runtime"
	"strings"
	"testing"
	"time"

	"github.com/rqlite/rqlite/v10/command/proto"
	"github.com/rqlite/rqlite/v10/internal/verif/vnode"
	"github.com/rqlite/rqlite/v10/internal/verif/vstat"
	"github.com/rqlite/rqlite/v10/store"
	"pgregory.net/rapid"
)

const (
	bound     = 300 * time.Millisecond // small freshness bound used for "cut off longer than the bound"
	cutMargin = 150 * time.Millisecond
	bigFresh  = time.Hour
	waitLong  = 20 * time.Second
)

type readT struct {
	Node   int // index into cluster nodes: 0..2 voters, 3 non-voter
	Level  proto.ConsistencyLevel
	Fresh  time.Duration
	Strict bool
	Req    bool // Store.Request path instead of Store.Query
	Proxy  bool // through proxy (forwarding allowed)
	OnCut  bool // if some node is currently cut off, address a cut-off node instead of Node
	OnLead bool // address the current leader instead of Node
}

func (r readT) String() string {
	p := "Query"
	if r.Req {
		p = "Request"
	}
	v := "Store"
	if r.Proxy {
		v = "Proxy"
	}
	oc := ""
	if r.OnCut {
		oc = " oncut"
	}
	if r.OnLead {
		oc += " onleader"
	}
	return fmt.Sprintf("read{n%d%s %s f=%v strict=%v %s.%s}", r.Node, oc, strings.ToLower(r.Level.String()), r.Fresh, r.Strict, v, p)
}

type step struct {
	Kind string // read | write | cut-follower | cut-nonvoter | cut-leader | heal
	R    readT
}

func (s step) String() string {
	if s.Kind == "read" {
		return s.R.String()
	}
	return s.Kind
}

var levels = []proto.ConsistencyLevel{proto.ConsistencyLevel_NONE, proto.ConsistencyLevel_WEAK, proto.ConsistencyLevel_AUTO,
	proto.ConsistencyLevel_LINEARIZABLE, proto.ConsistencyLevel_AUTO, proto.ConsistencyLevel_NONE}

func genSteps(rt *rapid.T) []step {
	n := rapid.IntRange(6, vstat.Scale(14, 24)).Draw(rt, "nsteps")
	var out []step
	for i := 0; i < n; i++ {
		switch k := rapid.IntRange(0, 11).Draw(rt, "kind"); {
		case k == 0:
			out = append(out, step{Kind: "write"})
		case k == 1:
			out = append(out, step{Kind: "cut-follower"})
		case k == 2:
			out = append(out, step{Kind: "cut-nonvoter"})
		case k == 3:
			// often: a linearizable read on the leader (so that its term has had a strong read),
			// the cut, and at once a linearizable read on the cut-off ex-leader
			probe := rapid.IntRange(0, 3).Draw(rt, "probe")
			lin := func(name string) readT {
				return readT{Level: proto.ConsistencyLevel_LINEARIZABLE, Req: rapid.Bool().Draw(rt, name+"req")}
			}
			if probe >= 2 {
				r := lin("pre")
				r.OnLead = true
				out = append(out, step{Kind: "read", R: r})
			}
			out = append(out, step{Kind: "cut-leader"})
			if probe >= 1 {
				r := lin("post")
				r.OnCut = true
				out = append(out, step{Kind: "read", R: r})
			}
		case k == 4:
			out = append(out, step{Kind: "heal"})
		default:
			r := readT{
				Node:   rapid.IntRange(0, 3).Draw(rt, "node"),
				Level:  levels[rapid.IntRange(0, len(levels)-1).Draw(rt, "level")],
				Fresh:  []time.Duration{0, bound, bigFresh}[rapid.IntRange(0, 2).Draw(rt, "fresh")],
				Strict: rapid.Bool().Draw(rt, "strict"),
				Req:    rapid.Bool().Draw(rt, "req"),
				Proxy:  rapid.Bool().Draw(rt, "proxy"),
				OnCut:  rapid.IntRange(0, 2).Draw(rt, "oncut") > 0,
			}
			out = append(out, step{Kind: "read", R: r})
		}
	}
	return out
}

type liveEnv struct {
	rec   *vstat.Rec
	c     *vnode.Cluster
	acked int               // writes acknowledged so far (sequential single writer)
	unk   bool              // some write had an unknown outcome
	cutAt map[int]time.Time // node index -> time it was cut off from the leader (and everyone else)
	lcut  *vnode.Node       // leader isolated by cut-leader (nil if none)
	lsup  bool              // a new leader acknowledged a write after lcut was cut off
	trace []string
}

type outcome struct {
	rows   string
	err    error
	served string // "local", "remote" or "" (error)
}

func (e *liveEnv) doRead(n *vnode.Node, r readT) outcome {
	ctx, cancel := context.WithTimeout(context.Background(), 15*time.Second)
	defer cancel()
	const q = "SELECT v FROM c WHERE id=1"
	local := "api-" + n.Name
	linTO := int64(3 * time.Second)
	var o outcome
	switch {
	case !r.Req && !r.Proxy:
		qr := vnode.QueryReq(r.Level, q)
		qr.Freshness, qr.FreshnessStrict, qr.LinearizableTimeout = int64(r.Fresh), r.Strict, linTO
		rows, _, _, err := n.Store.Query(ctx, qr)
		o = outcome{vnode.RowsString(rows), err, "local"}
	case !r.Req && r.Proxy:
		qr := vnode.QueryReq(r.Level, q)
		qr.Freshness, qr.FreshnessStrict, qr.LinearizableTimeout = int64(r.Fresh), r.Strict, linTO
		rows, _, addr, err := n.Proxy.Query(ctx, qr, nil, 5*time.Second, 0, false)
		o = outcome{vnode.RowsString(rows), err, "remote"}
		if addr == local {
			o.served = "local"
		}
	case r.Req && !r.Proxy:
		er := vnode.EQReq(r.Level, q)
		er.Freshness, er.FreshnessStrict, er.LinearizableTimeout = int64(r.Fresh), r.Strict, linTO
		resp, _, _, err := n.Store.Request(ctx, er)
		o = outcome{vnode.RowsString(vnode.EQRows(resp)), err, "local"}
	default:
		er := vnode.EQReq(r.Level, q)
		er.Freshness, er.FreshnessStrict, er.LinearizableTimeout = int64(r.Fresh), r.Strict, linTO
		resp, _, _, addr, err := n.Proxy.Request(ctx, er, nil, 5*time.Second, 0, false)
		o = outcome{vnode.RowsString(vnode.EQRows(resp)), err, "remote"}
		if addr == local {
			o.served = "local"
		}
	}
	if o.err != nil {
		o.served = ""
	}
	return o
}

func isErr(err error, target error) bool {
	return err != nil && (errors.Is(err, target) || strings.Contains(err.Error(), target.Error()))
}

// judge returns ("", "") if fine, or (signature, message).
func (e *liveEnv) judge(idx int, n *vnode.Node, r readT, before, after vnode.RaftInfo, o outcome, cutFor time.Duration, leaderCutBefore bool, ackedBefore int) (string, string) {
	neverLeader := before.State != "Leader" && after.Term == before.Term && before.Term != 0
	wasLeaderThroughout := before.State == "Leader" && after.State == "Leader" && after.Term == before.Term
	isVoter := idx < 3
	path := "query"
	if r.Req {
		path = "request"
	}
	lvl := r.Level
	if lvl == proto.ConsistencyLevel_AUTO {
		if isVoter {
			lvl = proto.ConsistencyLevel_WEAK
		} else {
			lvl = proto.ConsistencyLevel_NONE
		}
	}
	auto := ""
	if r.Level == proto.ConsistencyLevel_AUTO {
		auto = "auto-"
	}
	switch lvl {
	case proto.ConsistencyLevel_WEAK:
		if neverLeader && o.err == nil && o.served == "local" {
			return "C16/" + auto + "weak-served-locally-by-nonleader-" + path,
				fmt.Sprintf("%v returned rows %q produced locally by %s, which was %s in term %d before and still in term %d after the read", r, o.rows, n.Name, before.State, before.Term, after.Term)
		}
	case proto.ConsistencyLevel_NONE:
		if r.Level == proto.ConsistencyLevel_AUTO && isErr(o.err, store.ErrNotLeader) {
			return "C16/auto-on-nonvoter-not-none-" + path, fmt.Sprintf("%v on the non-voter failed with %v; auto must mean none there", r, o.err)
		}
		if o.err == nil && o.served != "local" {
			return "C16/" + auto + "none-not-local-" + path, fmt.Sprintf("%v was forwarded (served by another node)", r)
		}
		// (an ex-leader's last-contact clock starts when it steps down, not when it was cut off)
		if neverLeader && r.Fresh == bound && cutFor > bound+cutMargin && o.err == nil && n != e.lcut {
			return "C16/" + auto + "none-stale-served-" + path,
				fmt.Sprintf("%v returned rows %q although %s had been cut off from the leader for %v (> freshness %v)", r, o.rows, n.Name, cutFor.Round(time.Millisecond), bound)
		}
		if r.Fresh == 0 && isErr(o.err, store.ErrStaleRead) {
			return "C16/" + auto + "none-refused-without-freshness-" + path, fmt.Sprintf("%v refused as stale without a freshness bound", r)
		}
		if r.Fresh == bigFresh && isErr(o.err, store.ErrStaleRead) && cutFor == 0 && !leaderCutBefore && neverLeader && before.State == "Follower" && after.State == "Follower" {
			return "C16/" + auto + "none-refused-fresh-" + path, fmt.Sprintf("%v refused as stale with a 1h bound on a connected follower", r)
		}
	case proto.ConsistencyLevel_LINEARIZABLE:
		if neverLeader && o.err == nil && o.served == "local" {
			return "C16/linearizable-served-by-nonleader-" + path,
				fmt.Sprintf("%v returned rows %q produced locally by %s (%s, term %d unchanged)", r, o.rows, n.Name, before.State, before.Term)
		}
		if leaderCutBefore && e.lcut == n && o.err == nil && o.served == "local" {
			// Sound only once the rest of the cluster has moved on: hashicorp/raft lets heartbeat
			// acknowledgements that were already in flight when the link was cut confirm a
			// VerifyLeader issued right after the cut (seen under heavy load), and the data is
			// still current then. After a new leader acknowledged a write, rows from the
			// cut-off node necessarily miss that write.
			if e.lsup {
				return "C16/linearizable-served-by-deposed-leader-" + path,
					fmt.Sprintf("%v returned rows %q on %s, which was cut off from all other nodes and superseded (a new leader had acknowledged a write) before the read began", r, o.rows, n.Name)
			}
			e.rec.Label("observed:linearizable-served-right-after-cut")
		}
		if o.err == nil && !e.unk && wasLeaderThroughout && o.served == "local" && o.rows != fmt.Sprint(ackedBefore) && o.rows != fmt.Sprint(e.acked) {
			return "C16/linearizable-missed-write-" + path,
				fmt.Sprintf("%v returned %q but %d writes had been acknowledged before it began", r, o.rows, ackedBefore)
		}
	}
	return "", ""
}

func TestVerif_C16_Live(t *testing.T) {
	vnode.QuietLogs()
	rec := vstat.New(t, "C16", "live",
		"rapid step sequences (reads with generated node/level/freshness/strict/path/via, writes, cut-follower, cut-nonvoter, cut-leader, heal) on a live 3-voter+1-non-voter cluster; "+
			"non-trivial = at least one read was judged on a non-leader or on a cut-off node; distinct = step sequence")
	rapid.Check(t, func(rt *rapid.T) {
		steps := genSteps(rt)
		dir, err := os.MkdirTemp("", "c16-")
		if err != nil {
			rec.Label("inconclusive:tempdir")
			return
		}
		defer os.RemoveAll(dir)
		// diagnostics only: if a case is stuck for 150 s, leave the goroutine stacks behind
		wd := time.AfterFunc(150*time.Second, func() {
			buf := make([]byte, 8<<20)
			buf = buf[:runtime.Stack(buf, true)]
			os.WriteFile(fmt.Sprintf("/dev/shm/g9-c16-stuck-%d.txt", os.Getpid()), buf, 0o644)
		})
		defer wd.Stop()
		e := &liveEnv{rec: rec, c: vnode.NewCluster(dir, vnode.Fast()), cutAt: map[int]time.Time{}}
		defer e.c.Close()
		if err := e.c.Form(3, 1); err != nil {
			rec.Label("inconclusive:form")
			return
		}
		ctx := context.Background()
		l := e.c.WaitLeader(waitLong)
		if l == nil {
			rec.Label("inconclusive:no-leader")
			return
		}
		if _, _, err := l.Store.Execute(ctx, vnode.Exec("CREATE TABLE c(id INTEGER PRIMARY KEY, v INTEGER)", "INSERT INTO c VALUES(1,0)")); err != nil {
			rec.Label("inconclusive:create")
			return
		}
		// everybody has the table before reads start
		deadline := time.Now().Add(waitLong)
		for _, n := range e.c.Nodes {
			for n.Store.DBAppliedIndex() < l.Store.DBAppliedIndex() && time.Now().Before(deadline) {
				time.Sleep(10 * time.Millisecond)
			}
		}
		nodes := e.c.Nodes
		interesting := false
		canon := make([]string, 0, len(steps))
		for _, s := range steps {
			canon = append(canon, s.String())
			switch s.Kind {
			case "write":
				wl := e.c.WaitLeader(5 * time.Second)
				if wl == nil || (e.lcut != nil) {
					// no write while the leader is deliberately cut off (keeps the model simple)
					e.trace = append(e.trace, "write(skipped)")
					continue
				}
				_, _, err := wl.Store.Execute(ctx, vnode.Exec("UPDATE c SET v=v+1 WHERE id=1"))
				if err != nil {
					e.unk = true
					e.trace = append(e.trace, "write!err")
				} else {
					e.acked++
					e.trace = append(e.trace, "write")
				}
			case "cut-follower", "cut-nonvoter":
				if e.lcut != nil {
					e.trace = append(e.trace, s.Kind+"(skipped)")
					continue
				}
				idx := 3
				if s.Kind == "cut-follower" {
					idx = -1
					for i := 0; i < 3; i++ {
						if !nodes[i].Store.IsLeader() {
							if _, cut := e.cutAt[i]; !cut {
								idx = i
								break
							}
						}
					}
					// keep a quorum: at most one voter cut
					for i := 0; i < 3; i++ {
						if _, cut := e.cutAt[i]; cut {
							idx = -1
						}
					}
				}
				if idx < 0 {
					e.trace = append(e.trace, s.Kind+"(skipped)")
					continue
				}
				if _, cut := e.cutAt[idx]; cut {
					continue
				}
				e.c.Net.Isolate(nodes[idx].Name)
				e.cutAt[idx] = time.Now()
				e.trace = append(e.trace, "cut n"+fmt.Sprint(idx))
				rec.Label("nemesis:" + s.Kind)
			case "cut-leader":
				if e.lcut != nil || len(e.cutAt) > 0 {
					e.trace = append(e.trace, "cut-leader(skipped)")
					continue
				}
				cl := e.c.WaitLeader(5 * time.Second)
				if cl == nil {
					continue
				}
				e.c.Net.Isolate(cl.Name)
				e.lcut = cl
				e.lsup = false
				// let the majority side move on: new leader + one acknowledged write
				deadline := time.Now().Add(10 * time.Second)
				for time.Now().Before(deadline) && !e.lsup {
					for _, n := range nodes[:3] {
						if n != cl && n.Store.IsLeader() {
							if _, _, err := n.Store.Execute(ctx, vnode.Exec("UPDATE c SET v=v+1 WHERE id=1")); err == nil {
								e.acked++
								e.lsup = true
							} else {
								e.unk = true
							}
							break
						}
					}
					if !e.lsup {
						time.Sleep(20 * time.Millisecond)
					}
				}
				if !e.lsup {
					rec.Label("cut-leader:no-successor-write")
				}
				for i, n := range nodes {
					if n == cl {
						e.cutAt[i] = time.Now()
					}
				}
				e.trace = append(e.trace, "cut-leader "+cl.Name)
				rec.Label("nemesis:cut-leader")
			case "heal":
				if e.lcut == nil && len(e.cutAt) == 0 {
					continue
				}
				e.c.Heal()
				e.lcut = nil
				e.lsup = false
				e.cutAt = map[int]time.Time{}
				e.trace = append(e.trace, "heal")
				if !e.c.WaitAgreed(waitLong) {
					rec.Label("inconclusive:heal")
					rec.Case(interesting, strings.Join(canon, ";"))
					return
				}
				// let every node hear from the leader again
				time.Sleep(100 * time.Millisecond)
			case "read":
				r := s.R
				if r.OnCut && len(e.cutAt) > 0 {
					var cut []int
					for i := range nodes {
						if _, ok := e.cutAt[i]; ok {
							cut = append(cut, i)
						}
					}
					r.Node = cut[r.Node%len(cut)]
				}
				if r.OnLead {
					if ln := e.c.LeaderNow(); ln != nil {
						for i := range nodes {
							if nodes[i] == ln {
								r.Node = i
							}
						}
					}
				}
				n := nodes[r.Node]
				var cutFor time.Duration
				if t0, cut := e.cutAt[r.Node]; cut {
					// make "cut off longer than the bound" true for reads that use the bound
					if r.Fresh == bound {
						if d := bound + cutMargin + 50*time.Millisecond - time.Since(t0); d > 0 {
							time.Sleep(d)
						}
					}
					cutFor = time.Since(t0)
				}
				leaderCut := e.lcut != nil
				ackedBefore := e.acked
				before, err1 := vnode.Raft(n)
				o := e.doRead(n, r)
				after, err2 := vnode.Raft(n)
				if err1 != nil || err2 != nil {
					rec.Label("inconclusive:stats")
					continue
				}
				res := "rows"
				if o.err != nil {
					res = "err"
				}
				role := strings.ToLower(before.State)
				if r.Node == 3 {
					role = "nonvoter"
				}
				cutl := ""
				if cutFor > 0 {
					cutl = "+cut"
				}
				rec.Label(fmt.Sprintf("read:%s@%s%s->%s", strings.ToLower(r.Level.String()), role, cutl, res))
				if before.State != "Leader" || cutFor > 0 {
					interesting = true
				}
				e.trace = append(e.trace, fmt.Sprintf("%v@%s%s=>%s/%s/%v", r, role, cutl, o.rows, o.served, o.err))
				sig, msg := e.judge(r.Node, n, r, before, after, o, cutFor, leaderCut, ackedBefore)
				if strings.Contains(sig, "none-refused-fresh") {
					// a follower that has not yet heard from a freshly elected leader may refuse: ask again
					time.Sleep(300 * time.Millisecond)
					before, err1 = vnode.Raft(n)
					o = e.doRead(n, r)
					after, err2 = vnode.Raft(n)
					if err1 != nil || err2 != nil {
						continue
					}
					sig, msg = e.judge(r.Node, n, r, before, after, o, cutFor, leaderCut, ackedBefore)
					if !strings.Contains(sig, "none-refused-fresh") {
						rec.Label("refused-fresh-not-repeated")
						sig = ""
					}
				}
				if sig != "" {
					full := fmt.Sprintf("%s; trace: %s", msg, strings.Join(e.trace, " | "))
					if rec.KnownHit(sig, msg) {
						continue
					}
					rt.Fatalf("%s", rec.Violation(sig, "%s", full))
				}
			}
		}
		rec.Case(interesting, strings.Join(canon, ";"))
		rec.Sample(strings.Join(e.trace, " | "))
	})
}
