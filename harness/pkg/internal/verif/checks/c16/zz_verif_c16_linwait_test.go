package c16

// C16 (c): "A 'linearizable' read returns only after the node ... applied
// everything committed when the read started."
//
// Shape (generated variations): on the leader of a live 1-3 voter cluster, after
// a strong read in the term, 1-2 deliberately slow writes are started (their
// application to SQLite takes 1-5 s); once the raft commit index shows that
// they are committed -- while Execute is still pending -- a non-command entry is
// committed right behind them (non-voter join, removal of a non-voter, raft
// barrier); then a LINEARIZABLE read (Query or Request path) is issued.
//
// Oracle: the read's COUNT(*) includes every slow write whose commit was
// observed (Store.CommitIndex() >= its index, index confirmed afterwards by the
// index Execute returned) before the read began. The premise "committed but not
// yet applied when the read began" is recorded as a label (Store.DBAppliedIndex()
// below the write index); cases where the write was applied early
// are counted as setup-missed and still judged (the oracle holds regardless).

import (
	"context"
	"fmt"
	"os"
	"runtime"
	"strconv"
	"testing"
	"time"

	"github.com/rqlite/rqlite/v10/command/proto"
	"github.com/rqlite/rqlite/v10/internal/verif/vnode"
	"github.com/rqlite/rqlite/v10/internal/verif/vstat"
	"pgregory.net/rapid"
)

type lwCase struct {
	Voters  int
	NSlow   int
	Iter    int    // recursion depth of the slow statement (millions)
	Tail    string // join-nonvoter | remove-nonvoter | barrier
	Req     bool   // Request path for the read
	ReqW    bool   // Request path for the slow write
	PreJoin bool   // a non-voter is part of the cluster from the start (needed for remove)
}

func (c lwCase) String() string {
	return fmt.Sprintf("voters=%d slow=%dx%dM tail=%s readReq=%v writeReq=%v", c.Voters, c.NSlow, c.Iter, c.Tail, c.Req, c.ReqW)
}

func TestVerif_C16_LinWait(t *testing.T) {
	vnode.QuietLogs()
	rec := vstat.New(t, "C16", "linwait",
		"rapid: 1-3 voters, 1-2 slow writes (recursive CTE 15/30/45 M steps), tail entry join-nonvoter|remove-nonvoter|barrier committed behind the still-applying write, linearizable read via Query|Request; "+
			"non-trivial = the write was committed but not yet applied (DBAppliedIndex < write index) when the read began and the read was served at linearizable level; distinct = the tuple")
	rapid.Check(t, func(rt *rapid.T) {
		c := lwCase{
			Voters: rapid.IntRange(1, 3).Draw(rt, "voters"),
			NSlow:  rapid.IntRange(1, 2).Draw(rt, "nslow"),
			Iter:   []int{15, 30, 45}[rapid.IntRange(0, 2).Draw(rt, "iter")],
			Tail:   []string{"join-nonvoter", "remove-nonvoter", "barrier"}[rapid.IntRange(0, 2).Draw(rt, "tail")],
			Req:    rapid.Bool().Draw(rt, "req"),
			ReqW:   rapid.Bool().Draw(rt, "reqw"),
		}
		c.PreJoin = c.Tail == "remove-nonvoter"
		dir, err := os.MkdirTemp("", "c16lw-")
		if err != nil {
			rec.Label("inconclusive:tempdir")
			return
		}
		defer os.RemoveAll(dir)
		wd := time.AfterFunc(150*time.Second, func() {
			buf := make([]byte, 8<<20)
			buf = buf[:runtime.Stack(buf, true)]
			os.WriteFile(fmt.Sprintf("/dev/shm/g9-c16lw-stuck-%d.txt", os.Getpid()), buf, 0o644)
		})
		defer wd.Stop()
		opts := vnode.Fast()
		opts.Apply = 60 * time.Second
		cl := vnode.NewCluster(dir, opts)
		defer cl.Close()
		nv := 0
		if c.PreJoin {
			nv = 1
		}
		if err := cl.Form(c.Voters, nv); err != nil {
			rec.Label("inconclusive:form")
			return
		}
		l := cl.WaitLeader(waitLong)
		if l == nil {
			rec.Label("inconclusive:no-leader")
			return
		}
		ctx := context.Background()
		if resp, _, err := l.Store.Execute(ctx, vnode.Exec("CREATE TABLE foo(id INTEGER PRIMARY KEY, n INTEGER)", "INSERT INTO foo VALUES(1,0)")); err != nil || vnode.ExecErr(resp) != "" {
			rec.Label("inconclusive:setup")
			return
		}
		count := func(level proto.ConsistencyLevel, req bool, lt time.Duration) (string, error) {
			const q = "SELECT COUNT(*) FROM foo"
			if req {
				er := vnode.EQReq(level, q)
				er.LinearizableTimeout = int64(lt)
				resp, _, _, err := l.Store.Request(ctx, er)
				return vnode.RowsString(vnode.EQRows(resp)), err
			}
			qr := vnode.QueryReq(level, q)
			qr.LinearizableTimeout = int64(lt)
			rows, _, _, err := l.Store.Query(ctx, qr)
			return vnode.RowsString(rows), err
		}
		// a strong read in this term, then a sanity linearizable read
		if _, err := count(proto.ConsistencyLevel_STRONG, false, 0); err != nil {
			rec.Label("inconclusive:strong-read")
			return
		}
		if got, err := count(proto.ConsistencyLevel_LINEARIZABLE, c.Req, 10*time.Second); err != nil || got != "1" {
			rec.Label("inconclusive:sanity-read")
			return
		}
		var joiner *vnode.Node
		if c.Tail == "join-nonvoter" {
			// started in advance so that only the join request itself happens behind the slow write
			if joiner, err = cl.Start("nx", "idx"); err != nil {
				rec.Label("inconclusive:start-joiner")
				return
			}
		}
		before, err := vnode.Raft(l)
		if err != nil || before.State != "Leader" {
			rec.Label("inconclusive:stats")
			return
		}
		commitBefore, _ := l.Store.CommitIndex()

		// slow writes, one after the other in the log
		type wres struct {
			idx uint64
			err error
		}
		results := make([]chan wres, c.NSlow)
		for i := 0; i < c.NSlow; i++ {
			results[i] = make(chan wres, 1)
			sql := fmt.Sprintf("INSERT INTO foo(id, n) SELECT %d, (WITH RECURSIVE c(x) AS (SELECT 1 UNION ALL SELECT x+1 FROM c WHERE x < %d) SELECT COUNT(*) FROM c)", 10+i, c.Iter*1000000)
			go func(ch chan wres) {
				if c.ReqW {
					resp, _, idx, err := l.Store.Request(ctx, vnode.EQReq(proto.ConsistencyLevel_WEAK, sql))
					if err == nil && vnode.ExecErr(resp) != "" {
						err = fmt.Errorf("%s", vnode.ExecErr(resp))
					}
					ch <- wres{idx, err}
					return
				}
				resp, idx, err := l.Store.Execute(ctx, vnode.Exec(sql))
				if err == nil && vnode.ExecErr(resp) != "" {
					err = fmt.Errorf("%s", vnode.ExecErr(resp))
				}
				ch <- wres{idx, err}
			}(results[i])
			// keep the log order = start order
			deadline := time.Now().Add(waitLong)
			for time.Now().Before(deadline) {
				if ci, _ := l.Store.CommitIndex(); ci >= commitBefore+uint64(i+1) {
					break
				}
				time.Sleep(2 * time.Millisecond)
			}
		}
		lastWrite := commitBefore + uint64(c.NSlow)
		if ci, _ := l.Store.CommitIndex(); ci < lastWrite {
			rec.Label("inconclusive:writes-not-committed")
			for _, ch := range results {
				<-ch
			}
			return
		}
		// the non-command tail
		tailDone := make(chan error, 1)
		switch c.Tail {
		case "join-nonvoter":
			go func() { tailDone <- cl.Join(joiner, l, false) }()
		case "remove-nonvoter":
			victim := cl.Nodes[c.Voters] // the pre-joined non-voter
			go func() {
				tailDone <- l.Store.Remove(ctx, &proto.RemoveNodeRequest{Id: victim.ID})
			}()
		case "barrier":
			go func() { tailDone <- l.Store.Barrier() }()
		}
		deadline := time.Now().Add(waitLong)
		for time.Now().Before(deadline) {
			if ci, _ := l.Store.CommitIndex(); ci > lastWrite {
				break
			}
			time.Sleep(2 * time.Millisecond)
		}
		commitAtRead, _ := l.Store.CommitIndex()
		// (Store.Stats() would block behind the running statement and destroy the premise: use the atomic getter)
		appliedAtRead := l.Store.DBAppliedIndex()
		pending := appliedAtRead < lastWrite
		tailCommitted := commitAtRead > lastWrite

		// the read
		t0 := time.Now()
		got, rerr := count(proto.ConsistencyLevel_LINEARIZABLE, c.Req, 90*time.Second)
		readTook := time.Since(t0)
		after, err2 := vnode.Raft(l)

		// collect the writes (they must have had the expected indexes for the oracle to apply)
		indexesOK := true
		for i, ch := range results {
			r := <-ch
			if r.err != nil || r.idx != commitBefore+uint64(i+1) {
				indexesOK = false
			}
		}
		select {
		case <-tailDone:
		case <-time.After(waitLong):
		}
		stable := err2 == nil && after.State == "Leader" && after.Term == before.Term
		switch {
		case !indexesOK:
			rec.Label("inconclusive:write-index-unexpected")
		case !stable:
			rec.Label(fmt.Sprintf("inconclusive:leadership-moved:voters=%d", c.Voters))
		case rerr != nil:
			// not this sub-check's subject (C38 judges failures); count it
			rec.Label("read-error")
		default:
			if pending {
				rec.Label("premise:write-committed-not-applied")
			} else {
				rec.Label("setup-missed:write-already-applied")
			}
			if tailCommitted {
				rec.Label("tail-committed:" + c.Tail)
			} else {
				rec.Label("tail-not-committed-in-time:" + c.Tail)
			}
			want := strconv.Itoa(1 + c.NSlow)
			if got != want {
				sig := "C16/linearizable-missed-committed-write-query"
				if c.Req {
					sig = "C16/linearizable-missed-committed-write-request"
				}
				msg := fmt.Sprintf("linearizable COUNT(*) returned %s after %v, want %s: %d slow write(s) at raft indexes %d..%d were committed (commit index %d, newest entry kind: %s) before the read began; rqlite db-applied index was %d when the read began; case %s",
					got, readTook.Round(time.Millisecond), want, c.NSlow, commitBefore+1, lastWrite, commitAtRead, c.Tail, appliedAtRead, c)
				if !rec.KnownHit(sig, msg) {
					rt.Fatalf("%s", rec.Violation(sig, "%s", msg))
				}
			}
		}
		rec.Case(pending && tailCommitted && rerr == nil && stable && indexesOK, c.String())
		rec.Sample(fmt.Sprintf("%s pending=%v tailCommitted=%v read=%q/%v took=%v", c, pending, tailCommitted, got, rerr, readTook.Round(time.Millisecond)))
	})
}
