package c13

// C13: transactional requests are all-or-nothing and results match statements.
//
// Oracle: an independent executor (c13Oracle) over a raw go-sqlite3 connection
// that implements the control flow written in the property statement:
//   * transaction flag  => BEGIN ... COMMIT around the request, stop at the
//     first failing statement and ROLLBACK (all or nothing);
//   * rollback-on-error => when a statement fails, ROLLBACK whatever explicit
//     transaction is open (no effect of the failed transaction is left);
//   * otherwise every non-empty statement is executed, in order, and reports
//     its own outcome.
// The real side runs the same request through DB.Execute / DB.Request on a
// file database prepared with the same setup statements. Compared: number,
// order and kind (error / rows / exec result) of the results, the rows and
// rows-affected / last-insert-id of successful data statements, whether the
// request as a whole reported an error, whether a transaction is left open,
// and the canonical logical dump of the database afterwards.

import (
	"context"
	"database/sql"
	"fmt"
	"io"
	"log"
	"net"
	"os"
	"path/filepath"
	"strings"
	"testing"
	"time"

	sqlite3 "github.com/mattn/go-sqlite3"
	command "github.com/rqlite/rqlite/v10/command/proto"
	rdbpkg "github.com/rqlite/rqlite/v10/db"
	"github.com/rqlite/rqlite/v10/internal/verif/vsql"
	"github.com/rqlite/rqlite/v10/internal/verif/vstat"
	"github.com/rqlite/rqlite/v10/store"
	"pgregory.net/rapid"
)

type c13Param struct {
	IsInt bool
	I     int64
	S     string
}

type c13Stmt struct {
	SQL        string
	Params     []c13Param
	ForceQuery bool
	Class      string // generator class (label)
	Data       bool   // single INSERT/UPDATE/DELETE: rows-affected is well defined
	Insert     bool   // plain single INSERT: last-insert-id is well defined when a row was inserted
	Select     bool   // read-only statement (rows expected on the unified path)
	PrepFail   bool   // fails at prepare time (syntax error / unknown object)
}

type c13Case struct {
	Path    string // "execute" | "request"
	Profile string // "mixed" | "mostly-valid"
	Tx      bool
	ROE     bool
	FK      bool
	Init    []int // ids initially present in t
	Stmts   []c13Stmt
}

func (c c13Case) render() string {
	var sb strings.Builder
	fmt.Fprintf(&sb, "path=%s tx=%v roe=%v fk=%v init=%v stmts=[", c.Path, c.Tx, c.ROE, c.FK, c.Init)
	for i, s := range c.Stmts {
		if i > 0 {
			sb.WriteString(" | ")
		}
		fmt.Fprintf(&sb, "%q", s.SQL)
		if len(s.Params) > 0 {
			sb.WriteString("{")
			for j, p := range s.Params {
				if j > 0 {
					sb.WriteString(",")
				}
				if p.IsInt {
					fmt.Fprintf(&sb, "%d", p.I)
				} else {
					fmt.Fprintf(&sb, "%q", p.S)
				}
			}
			sb.WriteString("}")
		}
		if s.ForceQuery {
			sb.WriteString("/fq")
		}
	}
	sb.WriteString("]")
	return sb.String()
}

var c13Setup = []string{
	`CREATE TABLE t (id INTEGER PRIMARY KEY, v TEXT NOT NULL, u INTEGER UNIQUE, c INTEGER CHECK (c IS NULL OR c >= 0))`,
	`CREATE TABLE p (id INTEGER PRIMARY KEY)`,
	`CREATE TABLE ch (id INTEGER PRIMARY KEY, dp INTEGER REFERENCES p(id) DEFERRABLE INITIALLY DEFERRED, ip INTEGER REFERENCES p(id))`,
	`INSERT INTO p(id) VALUES(1),(2)`,
}

func c13SetupStmts(c c13Case) []string {
	out := append([]string{}, c13Setup...)
	for _, id := range c.Init {
		out = append(out, fmt.Sprintf(`INSERT INTO t(id,v,u,c) VALUES(%d,'init%d',%d,%d)`, id, id, id, id))
	}
	return out
}

// ---------------------------------------------------------------- generator

func c13GenStmt(rt *rapid.T, c *c13Case, idx int, fresh *int) c13Stmt {
	k := func() int { return rapid.IntRange(1, 6).Draw(rt, "k") }
	nextU := func() int { *fresh++; return 100 + *fresh }
	// weights: classes that matter for the property get most of the mass
	var classes []string
	if c.Profile == "new-schema" {
		// writes only: the reads of such a request come from the schema block
		classes = []string{
			"valid-insert", "valid-insert", "insert-id", "unique", "notnull", "check", "multirow-fail", "or-ignore", "or-replace",
			"update", "update-unique", "delete", "syntax", "no-table", "returning", "empty", "param-insert", "param-count", "deferred-fk",
		}
	} else if c.Profile == "mostly-valid" {
		// long runs of succeeding statements; failures only where the state makes them fail
		classes = []string{
			"valid-insert", "valid-insert", "insert-id", "or-ignore", "or-replace", "update", "delete",
			"returning", "empty", "param-insert", "deferred-fk", "deferred-fk", "select",
		}
	} else {
		classes = []string{
			"valid-insert", "valid-insert", "valid-insert", "insert-id", "insert-id", "unique", "notnull", "check",
			"multirow-fail", "or-ignore", "or-replace", "update", "update-unique", "delete",
			"syntax", "syntax", "no-table", "no-column", "returning", "returning", "returning-fail", "empty",
			"param-insert", "param-count", "deferred-fk", "immediate-fk", "select", "select-fail-prepare", "select-fail-step",
		}
		if !c.Tx {
			classes = append(classes, "begin", "commit", "rollback", "multi-stmt-string")
		} else {
			classes = append(classes, "begin")
		}
	}
	cl := rapid.SampledFrom(classes).Draw(rt, "class")
	s := c13Stmt{Class: cl}
	switch cl {
	case "valid-insert":
		s.SQL = fmt.Sprintf(`INSERT INTO t(v,u,c) VALUES('s%d',%d,1)`, idx, nextU())
		s.Data, s.Insert = true, true
	case "insert-id":
		s.SQL = fmt.Sprintf(`INSERT INTO t(id,v) VALUES(%d,'e%d')`, k(), idx)
		s.Data, s.Insert = true, true
	case "unique":
		s.SQL = fmt.Sprintf(`INSERT INTO t(v,u) VALUES('u%d',%d)`, idx, k())
		s.Data, s.Insert = true, true
	case "notnull":
		s.SQL = `INSERT INTO t(v) VALUES(NULL)`
		s.Data, s.Insert = true, true
	case "check":
		s.SQL = fmt.Sprintf(`INSERT INTO t(v,c) VALUES('c%d',-1)`, idx)
		s.Data, s.Insert = true, true
	case "multirow-fail":
		s.SQL = fmt.Sprintf(`INSERT INTO t(id,v) VALUES(%d,'m%da'),(%d,'m%db')`, 20+idx, idx, k(), idx)
		s.Data = true
	case "or-ignore":
		s.SQL = fmt.Sprintf(`INSERT OR IGNORE INTO t(id,v) VALUES(%d,'g%d')`, k(), idx)
		s.Data = true
	case "or-replace":
		s.SQL = fmt.Sprintf(`INSERT OR REPLACE INTO t(id,v) VALUES(%d,'p%d')`, k(), idx)
		s.Data = true
	case "update":
		s.SQL = fmt.Sprintf(`UPDATE t SET v='w%d' WHERE id<=%d`, idx, k())
		s.Data = true
	case "update-unique":
		s.SQL = fmt.Sprintf(`UPDATE t SET u=%d WHERE id=%d`, k(), k())
		s.Data = true
	case "delete":
		s.SQL = fmt.Sprintf(`DELETE FROM t WHERE id=%d`, k())
		s.Data = true
	case "syntax":
		s.SQL = rapid.SampledFrom([]string{
			`INSERT INTO t(v) VALUES('x'`, `INSRT INTO t(v) VALUES('x')`, `INSERT INTO t(v) VALUES('x') garbage`,
			`UPDATE t SET WHERE id=1`, `DELETE t WHERE id=1`, `SELEC 1`, `INSERT INTO t(v) VALUES('it's')`,
		}).Draw(rt, "syn")
		s.PrepFail = true
	case "no-table":
		s.SQL = fmt.Sprintf(`INSERT INTO nosuch(v) VALUES('n%d')`, idx)
		s.PrepFail = true
	case "no-column":
		s.SQL = fmt.Sprintf(`UPDATE t SET nocol=%d WHERE id=1`, idx)
		s.PrepFail = true
	case "returning":
		s.SQL = fmt.Sprintf(`INSERT INTO t(v,u) VALUES('r%d',%d) RETURNING id, v`, idx, nextU())
		s.ForceQuery = rapid.IntRange(0, 3).Draw(rt, "fq") > 0
	case "returning-fail":
		s.SQL = fmt.Sprintf(`INSERT INTO t(id,v) VALUES(%d,'rf%da'),(%d,'rf%db') RETURNING id`, 40+idx, idx, k(), idx)
		s.ForceQuery = rapid.IntRange(0, 3).Draw(rt, "fq") > 0
	case "empty":
		s.SQL = ""
	case "param-insert":
		s.SQL = `INSERT INTO t(v,u) VALUES(?,?)`
		s.Params = []c13Param{{S: fmt.Sprintf("pa%d", idx)}, {IsInt: true, I: int64(rapid.SampledFrom([]int{k(), nextU()}).Draw(rt, "pu"))}}
		s.Data, s.Insert = true, true
	case "param-count":
		s.SQL = `INSERT INTO t(v,u) VALUES(?,?)`
		s.Params = []c13Param{{S: fmt.Sprintf("pc%d", idx)}}
		s.Data, s.Insert = true, true
	case "deferred-fk":
		s.SQL = fmt.Sprintf(`INSERT INTO ch(dp) VALUES(%d)`, rapid.SampledFrom([]int{1, 2, 99}).Draw(rt, "dp"))
		s.Data, s.Insert = true, true
	case "immediate-fk":
		s.SQL = fmt.Sprintf(`INSERT INTO ch(ip) VALUES(%d)`, rapid.SampledFrom([]int{1, 99}).Draw(rt, "ip"))
		s.Data, s.Insert = true, true
	case "select":
		s.SQL = rapid.SampledFrom([]string{`SELECT id, v, u FROM t ORDER BY id`, `SELECT count(*) FROM t`, `SELECT id FROM ch ORDER BY id`}).Draw(rt, "sel")
		s.Select = true
	case "select-fail-prepare":
		s.SQL = rapid.SampledFrom([]string{`SELECT * FROM nosuch`, `SELECT nocol FROM t`, `SELECT FROM t`}).Draw(rt, "selp")
		s.Select, s.PrepFail = true, true
	case "select-fail-step":
		s.SQL = `SELECT id, abs(-9223372036854775807 - id) FROM t ORDER BY id DESC`
		s.Select = true
	case "begin":
		s.SQL = `BEGIN`
	case "commit":
		s.SQL = `COMMIT`
	case "rollback":
		s.SQL = `ROLLBACK`
	case "multi-stmt-string":
		// like the body of /db/load: several statements in one string
		parts := []string{"BEGIN"}
		n := rapid.IntRange(1, 3).Draw(rt, "mn")
		for j := 0; j < n; j++ {
			if rapid.IntRange(0, 3).Draw(rt, "mfail") == 0 {
				parts = append(parts, fmt.Sprintf(`INSERT INTO t(id,v) VALUES(%d,'ms%d_%d')`, k(), idx, j))
			} else {
				parts = append(parts, fmt.Sprintf(`INSERT INTO t(v,u) VALUES('ms%d_%d',%d)`, idx, j, nextU()))
			}
		}
		if rapid.IntRange(0, 4).Draw(rt, "mcommit") > 0 {
			parts = append(parts, "COMMIT")
		}
		s.SQL = strings.Join(parts, "; ")
	}
	return s
}

func c13GenCase(rt *rapid.T) c13Case {
	c := c13Case{
		Path: rapid.SampledFrom([]string{"execute", "request"}).Draw(rt, "path"),
		Tx:   rapid.Bool().Draw(rt, "tx"),
		FK:   rapid.IntRange(0, 3).Draw(rt, "fk") > 0,
	}
	c.ROE = rapid.IntRange(0, 2).Draw(rt, "roe") == 0
	c.Profile = rapid.SampledFrom([]string{"mixed", "mixed", "mostly-valid", "new-schema"}).Draw(rt, "profile")
	c.Init = rapid.SliceOfNDistinct(rapid.IntRange(1, 5), 0, 4, rapid.ID[int]).Draw(rt, "init")
	n := rapid.IntRange(1, 8).Draw(rt, "n")
	fresh := 0
	wrapExplicit := !c.Tx && c.Profile != "new-schema" && rapid.IntRange(0, 2).Draw(rt, "wrap") == 0
	if wrapExplicit {
		c.Stmts = append(c.Stmts, c13Stmt{SQL: "BEGIN", Class: "begin"})
	}
	for i := 0; i < n; i++ {
		s := c13GenStmt(rt, &c, i, &fresh)
		if c.Path == "request" && s.Class == "multi-stmt-string" {
			// the unified path classifies a string by its first statement only;
			// multi-statement strings belong to the execute path (/db/load)
			s = c13Stmt{SQL: fmt.Sprintf(`INSERT INTO t(v) VALUES('alt%d')`, i), Class: "valid-insert", Data: true, Insert: true}
		}
		c.Stmts = append(c.Stmts, s)
	}
	if wrapExplicit && rapid.IntRange(0, 5).Draw(rt, "wrapcommit") > 0 {
		c.Stmts = append(c.Stmts, c13Stmt{SQL: "COMMIT", Class: "commit"})
	}
	if c.Profile == "new-schema" {
		// a block that creates schema and then reads from it: these reads do
		// not compile against the schema that exists before the request
		var block []c13Stmt
		switch rapid.IntRange(0, 3).Draw(rt, "schemablock") {
		case 0, 1:
			block = []c13Stmt{
				{SQL: `CREATE TABLE n (id INTEGER PRIMARY KEY, w TEXT)`, Class: "create-schema"},
				{SQL: `INSERT INTO n(w) VALUES('n1'),('n2'),('n3')`, Class: "insert-new-schema", Data: true},
				{SQL: `SELECT id, w FROM n ORDER BY id`, Class: "select-new-schema", Select: true},
			}
			if rapid.Bool().Draw(rt, "second-read") {
				block = append(block, c13Stmt{SQL: `UPDATE n SET w='u' WHERE id=2`, Class: "insert-new-schema", Data: true},
					c13Stmt{SQL: `SELECT count(*), max(w) FROM n`, Class: "select-new-schema", Select: true})
			}
		case 2:
			block = []c13Stmt{
				{SQL: `CREATE VIEW nv AS SELECT id, v FROM t WHERE id > 0`, Class: "create-schema"},
				{SQL: `SELECT id, v FROM nv ORDER BY id`, Class: "select-new-schema", Select: true},
			}
		case 3:
			block = []c13Stmt{
				{SQL: `ALTER TABLE t ADD COLUMN z DEFAULT 5`, Class: "create-schema"},
				{SQL: `UPDATE t SET z=z+1 WHERE id<=2`, Class: "insert-new-schema", Data: true},
				{SQL: `SELECT id, z FROM t ORDER BY id`, Class: "select-new-schema", Select: true},
			}
		}
		at := rapid.IntRange(0, len(c.Stmts)).Draw(rt, "blockat")
		stmts := append([]c13Stmt{}, c.Stmts[:at]...)
		stmts = append(stmts, block...)
		c.Stmts = append(stmts, c.Stmts[at:]...)
	}
	return c
}

// ---------------------------------------------------------------- results

type c13Res struct {
	Err  bool
	Msg  string
	Kind string // "E", "Q", "none"
	RA   int64
	LID  int64
	Rows string
}

func c13RenderVal(v any) string {
	switch x := v.(type) {
	case nil:
		return "null"
	case int64:
		return fmt.Sprintf("i:%d", x)
	case float64:
		return fmt.Sprintf("f:%v", x)
	case bool:
		return fmt.Sprintf("b:%v", x)
	case []byte:
		return "s:" + string(x)
	case string:
		return "s:" + x
	}
	return fmt.Sprintf("?%T:%v", v, v)
}

func c13Args(s c13Stmt) []any {
	var args []any
	for _, p := range s.Params {
		if p.IsInt {
			args = append(args, p.I)
		} else {
			args = append(args, p.S)
		}
	}
	return args
}

// expectRows says whether the API returns rows for this statement on this path.
func c13ExpectRows(path string, s c13Stmt) bool {
	if s.ForceQuery {
		return true
	}
	return path == "request" && s.Select
}

// ---------------------------------------------------------------- oracle

func c13AutoCommit(conn *sql.Conn) bool {
	ac := true
	conn.Raw(func(dc any) error {
		ac = dc.(*sqlite3.SQLiteConn).AutoCommit()
		return nil
	})
	return ac
}

type c13Outcome struct {
	Res       []c13Res
	ReqErr    bool
	OpenAfter bool
	Dump      string
}

// c13Oracle executes the case on a raw connection following the property text.
// stopOutsideTx decides the one point the statement leaves open: whether a
// rollback-on-error request keeps going after a failure that happened while no
// transaction was open.
func c13Oracle(conn *sql.Conn, c c13Case, stopOutsideTx bool) c13Outcome {
	ctx := context.Background()
	var out c13Outcome
	if c.Tx {
		if _, err := conn.ExecContext(ctx, "BEGIN"); err != nil {
			out.ReqErr = true
			return out
		}
	}
	aborted := false
	for _, s := range c.Stmts {
		if s.SQL == "" {
			continue
		}
		var r c13Res
		args := c13Args(s)
		if c13ExpectRows(c.Path, s) {
			r.Kind = "Q"
			rows, err := conn.QueryContext(ctx, s.SQL, args...)
			if err != nil {
				r.Err, r.Msg = true, err.Error()
			} else {
				cols, _ := rows.Columns()
				var sb strings.Builder
				for rows.Next() {
					dest := make([]any, len(cols))
					ptrs := make([]any, len(cols))
					for i := range dest {
						ptrs[i] = &dest[i]
					}
					if err := rows.Scan(ptrs...); err != nil {
						r.Err, r.Msg = true, err.Error()
						break
					}
					for i, v := range dest {
						if i > 0 {
							sb.WriteString(",")
						}
						sb.WriteString(c13RenderVal(v))
					}
					sb.WriteString(";")
				}
				if err := rows.Err(); err != nil {
					r.Err, r.Msg = true, err.Error()
				}
				rows.Close()
				r.Rows = strings.Join(cols, ",") + "=" + sb.String()
			}
		} else {
			r.Kind = "E"
			res, err := conn.ExecContext(ctx, s.SQL, args...)
			if err != nil {
				r.Err, r.Msg = true, err.Error()
			} else if res != nil {
				r.RA, _ = res.RowsAffected()
				r.LID, _ = res.LastInsertId()
			}
		}
		out.Res = append(out.Res, r)
		if r.Err {
			if c.Tx {
				conn.ExecContext(ctx, "ROLLBACK")
				aborted = true
				break
			}
			if c.ROE {
				inTx := !c13AutoCommit(conn)
				conn.ExecContext(ctx, "ROLLBACK") // error ignored: nothing open
				if inTx || stopOutsideTx {
					aborted = true
					break
				}
			}
		}
	}
	if c.Tx && !aborted {
		if _, err := conn.ExecContext(ctx, "COMMIT"); err != nil {
			out.ReqErr = true
			conn.ExecContext(ctx, "ROLLBACK")
		}
	}
	return out
}

// c13Finish probes whether a transaction is open (a following BEGIN must
// succeed when none is), flushes it so the dump shows what the connection
// sees, and reports the open flag.
func c13FinishOracle(conn *sql.Conn) bool {
	ctx := context.Background()
	if _, err := conn.ExecContext(ctx, "BEGIN"); err == nil {
		conn.ExecContext(ctx, "ROLLBACK")
		return false
	}
	if _, err := conn.ExecContext(ctx, "COMMIT"); err != nil {
		conn.ExecContext(ctx, "ROLLBACK")
	}
	return true
}

func c13ResIsErr(r *command.ExecuteQueryResponse) (bool, string) {
	switch x := r.GetResult().(type) {
	case *command.ExecuteQueryResponse_Error:
		return true, x.Error
	case *command.ExecuteQueryResponse_E:
		if x.E.GetError() != "" {
			return true, x.E.GetError()
		}
	case *command.ExecuteQueryResponse_Q:
		if x.Q.GetError() != "" {
			return true, x.Q.GetError()
		}
	}
	return false, ""
}

func c13ConvertReal(rs []*command.ExecuteQueryResponse) []c13Res {
	var out []c13Res
	for _, r := range rs {
		var x c13Res
		if r == nil {
			x.Kind = "nil"
			out = append(out, x)
			continue
		}
		x.Err, x.Msg = c13ResIsErr(r)
		switch v := r.GetResult().(type) {
		case *command.ExecuteQueryResponse_E:
			x.Kind = "E"
			x.RA, x.LID = v.E.GetRowsAffected(), v.E.GetLastInsertId()
		case *command.ExecuteQueryResponse_Q:
			x.Kind = "Q"
			var sb strings.Builder
			for _, row := range v.Q.GetValues() {
				for i, p := range row.GetParameters() {
					if i > 0 {
						sb.WriteString(",")
					}
					switch w := p.GetValue().(type) {
					case *command.Parameter_I:
						sb.WriteString(c13RenderVal(w.I))
					case *command.Parameter_D:
						sb.WriteString(c13RenderVal(w.D))
					case *command.Parameter_B:
						sb.WriteString(c13RenderVal(w.B))
					case *command.Parameter_Y:
						sb.WriteString(c13RenderVal(w.Y))
					case *command.Parameter_S:
						sb.WriteString(c13RenderVal(w.S))
					case nil:
						sb.WriteString("null")
					}
				}
				sb.WriteString(";")
			}
			x.Rows = strings.Join(v.Q.GetColumns(), ",") + "=" + sb.String()
		case *command.ExecuteQueryResponse_Error:
			x.Kind = "error"
		default:
			x.Kind = "none"
		}
		out = append(out, x)
	}
	return out
}

func c13Request(c c13Case) *command.Request {
	req := &command.Request{Transaction: c.Tx, RollbackOnError: c.ROE}
	for _, s := range c.Stmts {
		st := &command.Statement{Sql: s.SQL, ForceQuery: s.ForceQuery}
		for _, p := range s.Params {
			if p.IsInt {
				st.Parameters = append(st.Parameters, &command.Parameter{Value: &command.Parameter_I{I: p.I}})
			} else {
				st.Parameters = append(st.Parameters, &command.Parameter{Value: &command.Parameter_S{S: p.S}})
			}
		}
		req.Statements = append(req.Statements, st)
	}
	return req
}

// c13Compare returns "" when real matches the oracle outcome, else a description.
func c13Compare(c c13Case, real c13Outcome, want c13Outcome) string {
	if len(real.Res) != len(want.Res) {
		return fmt.Sprintf("result count: got %d want %d", len(real.Res), len(want.Res))
	}
	// map results back to the non-empty statements, in order
	var stmts []c13Stmt
	for _, s := range c.Stmts {
		if s.SQL != "" {
			stmts = append(stmts, s)
		}
	}
	for i := range want.Res {
		g, w, s := real.Res[i], want.Res[i], stmts[i]
		if g.Err != w.Err {
			return fmt.Sprintf("result %d (%q): got error=%v (%s) want error=%v (%s)", i, s.SQL, g.Err, g.Msg, w.Err, w.Msg)
		}
		if w.Err {
			continue
		}
		if w.Kind == "Q" {
			if g.Kind != "Q" {
				return fmt.Sprintf("result %d (%q): got kind %s want rows", i, s.SQL, g.Kind)
			}
			if g.Rows != w.Rows {
				return fmt.Sprintf("result %d (%q): rows got %s want %s", i, s.SQL, g.Rows, w.Rows)
			}
			continue
		}
		// kind is only asserted for data statements (exec result) and for
		// statements that return rows; BEGIN/COMMIT etc. may be reported either way
		if s.Data {
			if g.Kind != "E" {
				return fmt.Sprintf("result %d (%q): got kind %s want exec result", i, s.SQL, g.Kind)
			}
			if g.RA != w.RA {
				return fmt.Sprintf("result %d (%q): rows_affected got %d want %d", i, s.SQL, g.RA, w.RA)
			}
			if s.Insert && w.RA > 0 && g.LID != w.LID {
				return fmt.Sprintf("result %d (%q): last_insert_id got %d want %d", i, s.SQL, g.LID, w.LID)
			}
		}
	}
	if real.ReqErr != want.ReqErr {
		return fmt.Sprintf("request-level error: got %v want %v", real.ReqErr, want.ReqErr)
	}
	if real.OpenAfter != want.OpenAfter {
		return fmt.Sprintf("transaction left open afterwards: got %v want %v", real.OpenAfter, want.OpenAfter)
	}
	if real.Dump != want.Dump {
		return fmt.Sprintf("database differs afterwards:\n--- got\n%s--- want\n%s", real.Dump, want.Dump)
	}
	return ""
}

// c13RunOracle prepares a fresh in-memory raw database and runs the oracle.
func c13RunOracle(c c13Case, stopOutsideTx bool) (c13Outcome, error) {
	odb, err := vsql.OpenMem()
	if err != nil {
		return c13Outcome{}, err
	}
	defer odb.Close()
	conn, err := odb.Conn(context.Background())
	if err != nil {
		return c13Outcome{}, err
	}
	defer conn.Close()
	if c.FK {
		if _, err := conn.ExecContext(context.Background(), "PRAGMA foreign_keys=ON"); err != nil {
			return c13Outcome{}, err
		}
	}
	for _, s := range c13SetupStmts(c) {
		if _, err := conn.ExecContext(context.Background(), s); err != nil {
			return c13Outcome{}, fmt.Errorf("oracle setup %q: %w", s, err)
		}
	}
	out := c13Oracle(conn, c, stopOutsideTx)
	out.OpenAfter = c13FinishOracle(conn)
	conn.Close()
	out.Dump, err = vsql.DumpDB(odb)
	return out, err
}

// c13Classify gives the narrow signature of a failing case.
func c13Classify(c c13Case, want c13Outcome) string {
	firstFail := -1
	var stmts []c13Stmt
	for _, s := range c.Stmts {
		if s.SQL != "" {
			stmts = append(stmts, s)
		}
	}
	for i, r := range want.Res {
		if r.Err {
			firstFail = i
			break
		}
	}
	if c.Path == "request" && firstFail >= 0 {
		if c.Tx && stmts[firstFail].PrepFail {
			return "C13/unified-tx-prepare-error-not-aborted"
		}
		if !c.Tx && c.ROE {
			return "C13/unified-rollback-on-error-ignored"
		}
	}
	return fmt.Sprintf("C13/mismatch{path=%s,tx=%v,roe=%v}", c.Path, c.Tx, c.ROE)
}

var c13KnownWhat = map[string]string{
	"C13/unified-tx-prepare-error-not-aborted": "unified request path: a statement failing at prepare time inside a transaction does not abort the transaction; later statements run and are committed",
	"C13/unified-rollback-on-error-ignored":    "unified request path ignores rollback-on-error: execution continues after the failure and the explicit transaction is committed",
}

type c13RealRunner func(c c13Case) (c13Outcome, error)

func c13RunRealDB(c c13Case) (c13Outcome, error) {
	var out c13Outcome
	dir, err := os.MkdirTemp("", "c13")
	if err != nil {
		return out, err
	}
	defer os.RemoveAll(dir)
	path := filepath.Join(dir, "c13.db")
	rdb, err := rdbpkg.Open(path, c.FK, true)
	if err != nil {
		return out, err
	}
	defer rdb.Close()
	for _, s := range c13SetupStmts(c) {
		r, err := rdb.ExecuteStringStmt(s)
		if err != nil {
			return out, fmt.Errorf("setup %q: %w", s, err)
		}
		for _, x := range r {
			if e, m := c13ResIsErr(x); e {
				return out, fmt.Errorf("setup %q: %s", s, m)
			}
		}
	}
	req := c13Request(c)
	var rs []*command.ExecuteQueryResponse
	var rerr error
	if c.Path == "execute" {
		rs, rerr = rdb.Execute(req, false)
	} else {
		rs, rerr = rdb.Request(req, false)
	}
	out.Res = c13ConvertReal(rs)
	out.ReqErr = rerr != nil
	// a following BEGIN must succeed unless a transaction is (legitimately) open
	br, berr := rdb.ExecuteStringStmt("BEGIN")
	if berr != nil {
		return out, fmt.Errorf("probe BEGIN: %w", berr)
	}
	if e, _ := c13ResIsErr(br[0]); !e {
		rdb.ExecuteStringStmt("ROLLBACK")
	} else {
		out.OpenAfter = true
		cr, cerr := rdb.ExecuteStringStmt("COMMIT")
		if cerr != nil {
			return out, fmt.Errorf("probe COMMIT: %w", cerr)
		}
		if e, _ := c13ResIsErr(cr[0]); e {
			rdb.ExecuteStringStmt("ROLLBACK")
		}
	}
	v, err := vsql.Open(path)
	if err != nil {
		return out, err
	}
	defer v.Close()
	out.Dump, err = vsql.DumpDB(v)
	return out, err
}

func c13Check(rt *rapid.T, rec *vstat.Rec, c c13Case, runReal c13RealRunner) {
	want, err := c13RunOracle(c, true)
	if err != nil {
		c13Bail("oracle infrastructure: %v", err)
	}
	// labels and non-triviality come from the oracle's view of the case
	nonEmpty, firstFail := 0, -1
	for _, s := range c.Stmts {
		if s.SQL != "" {
			nonEmpty++
		}
	}
	for i, r := range want.Res {
		if r.Err {
			firstFail = i
			break
		}
	}
	nontrivial := firstFail >= 0 && firstFail < nonEmpty-1
	rec.Case(nontrivial, c.render())
	rec.Sample(c.render())
	rec.Label("path=" + c.Path)
	rec.Label(fmt.Sprintf("tx=%v,roe=%v", c.Tx, c.ROE))
	seen := map[string]bool{}
	for _, s := range c.Stmts {
		if !seen[s.Class] {
			seen[s.Class] = true
			rec.Label("class:" + s.Class)
		}
	}
	if firstFail < 0 {
		rec.Label("no-failure")
	} else {
		if nontrivial {
			rec.Label("fail-not-last")
		} else {
			rec.Label("fail-last")
		}
		var stmts []c13Stmt
		for _, s := range c.Stmts {
			if s.SQL != "" {
				stmts = append(stmts, s)
			}
		}
		if stmts[firstFail].PrepFail {
			rec.Label("first-fail=prepare")
		} else {
			rec.Label("first-fail=runtime")
		}
		if c.Tx {
			rec.Label("fail-inside-tx-flag")
		}
	}
	if want.ReqErr {
		rec.Label("commit-fails")
	}
	if want.OpenAfter {
		rec.Label("explicit-tx-left-open")
	}

	real, err := runReal(c)
	if err != nil {
		c13Bail("infrastructure: %v", err)
	}
	diff := c13Compare(c, real, want)
	if diff != "" && c.ROE && !c.Tx {
		// the statement does not say whether a rollback-on-error request goes
		// on after a failure outside any transaction: accept either
		want2, err := c13RunOracle(c, false)
		if err == nil && c13Compare(c, real, want2) == "" {
			rec.Label("roe-continue-outside-tx-accepted")
			diff = ""
		}
	}
	if diff != "" {
		sig := c13Classify(c, want)
		if rec.KnownHit(sig, c13KnownWhat[sig]) {
			return
		}
		rt.Fatalf("%s", rec.Violation(sig, "%s\ncase: %s", diff, c.render()))
	}
}

func TestVerif_C13_DB(t *testing.T) {
	rec := vstat.New(t, "C13", "db",
		"rapid: requests of 1-8 statements (valid inserts/updates/deletes, UNIQUE/NOT NULL/CHECK/PK/FK violations incl. deferred FK failing at COMMIT, multi-row inserts failing midway, syntax errors and unknown tables/columns (prepare failures), wrong parameter counts, RETURNING with and without force-query, SELECTs incl. failing at prepare and at step, requests whose only reads are from a table/view/column created earlier in the same request (CREATE TABLE / CREATE VIEW / ALTER TABLE ADD COLUMN, then SELECT), empty statements, explicit BEGIN/COMMIT/ROLLBACK and /db/load-style multi-statement strings when the transaction flag is off) x transaction flag x rollback-on-error x foreign keys on/off x initial rows, through DB.Execute and DB.Request on a WAL file database; non-trivial = the oracle sees a failing statement that is not the last non-empty one; distinct by full request text and flags")
	rapid.Check(t, func(rt *rapid.T) {
		defer c13Guard(rec)
		c := c13GenCase(rt)
		c13Check(rt, rec, c, c13RunRealDB)
	})
}

// ---------------------------------------------------------------- store unit

// c13Layer is a plain TCP layer for a single-node store.
type c13Layer struct{ net.Listener }

func (l *c13Layer) Dial(addr string, timeout time.Duration) (net.Conn, error) {
	return net.DialTimeout("tcp", addr, timeout)
}

type c13StoreEnv struct {
	s   *store.Store
	dir string
}

func c13NewStore(fk bool) (*c13StoreEnv, error) {
	dir, err := os.MkdirTemp("", "c13store")
	if err != nil {
		return nil, err
	}
	ln, err := net.Listen("tcp", "127.0.0.1:0")
	if err != nil {
		os.RemoveAll(dir)
		return nil, err
	}
	cfg := store.NewDBConfig()
	cfg.FKConstraints = fk
	s := store.New(&store.Config{DBConf: cfg, Dir: dir, ID: "c13", Logger: log.New(io.Discard, "", 0)}, &c13Layer{ln})
	if err := s.Open(); err != nil {
		ln.Close()
		os.RemoveAll(dir)
		return nil, err
	}
	if err := s.Bootstrap(store.NewServer(s.ID(), s.Addr(), true)); err != nil {
		s.Close(true)
		os.RemoveAll(dir)
		return nil, err
	}
	if _, err := s.WaitForLeader(30 * time.Second); err != nil {
		s.Close(true)
		os.RemoveAll(dir)
		return nil, err
	}
	return &c13StoreEnv{s: s, dir: dir}, nil
}

func (e *c13StoreEnv) close() {
	e.s.Close(true)
	os.RemoveAll(e.dir)
}

func (e *c13StoreEnv) exec(tx bool, stmts ...string) ([]*command.ExecuteQueryResponse, error) {
	req := &command.ExecuteRequest{Request: &command.Request{Transaction: tx}}
	for _, s := range stmts {
		req.Request.Statements = append(req.Request.Statements, &command.Statement{Sql: s})
	}
	rs, _, err := e.s.Execute(context.Background(), req)
	return rs, err
}

// reset brings the shared store's database to the case's initial state and
// verifies it against the raw driver's view of a freshly prepared database.
func (e *c13StoreEnv) reset(c c13Case) error {
	e.exec(false, "ROLLBACK") // close whatever an earlier case left open; error ignored
	stmts := []string{"DROP VIEW IF EXISTS nv", "DROP TABLE IF EXISTS n", "DROP TABLE IF EXISTS ch", "DROP TABLE IF EXISTS p", "DROP TABLE IF EXISTS t"}
	stmts = append(stmts, c13SetupStmts(c)...)
	rs, err := e.exec(true, stmts...)
	if err != nil {
		return err
	}
	for i, r := range rs {
		if bad, m := c13ResIsErr(r); bad {
			return fmt.Errorf("reset statement %d: %s", i, m)
		}
	}
	if len(rs) != len(stmts) {
		return fmt.Errorf("reset ran %d of %d statements", len(rs), len(stmts))
	}
	// independent check of the starting state
	odb, err := vsql.OpenMem()
	if err != nil {
		return err
	}
	defer odb.Close()
	for _, s := range c13SetupStmts(c) {
		if _, err := odb.Exec(s); err != nil {
			return err
		}
	}
	want, err := vsql.DumpDB(odb)
	if err != nil {
		return err
	}
	got, err := e.dump()
	if err != nil {
		return err
	}
	if got != want {
		return fmt.Errorf("shared store not in the initial state after reset:\n%s\nwant\n%s", got, want)
	}
	return nil
}

func (e *c13StoreEnv) dump() (string, error) {
	v, err := vsql.Open(filepath.Join(e.dir, "db.sqlite"))
	if err != nil {
		return "", err
	}
	defer v.Close()
	return vsql.DumpDB(v)
}

func (e *c13StoreEnv) run(c c13Case) (c13Outcome, error) {
	var out c13Outcome
	if err := e.reset(c); err != nil {
		return out, err
	}
	req := c13Request(c)
	var rs []*command.ExecuteQueryResponse
	var rerr error
	if c.Path == "execute" {
		rs, _, rerr = e.s.Execute(context.Background(), &command.ExecuteRequest{Request: req})
	} else {
		rs, _, _, rerr = e.s.Request(context.Background(), &command.ExecuteQueryRequest{Request: req})
	}
	if rerr == store.ErrNotLeader || rerr == store.ErrNotReady || rerr == store.ErrNotOpen {
		return out, rerr
	}
	out.Res = c13ConvertReal(rs)
	out.ReqErr = rerr != nil
	br, berr := e.exec(false, "BEGIN")
	if berr != nil || len(br) != 1 {
		return out, fmt.Errorf("probe BEGIN: %v", berr)
	}
	if bad, _ := c13ResIsErr(br[0]); !bad {
		e.exec(false, "ROLLBACK")
	} else {
		out.OpenAfter = true
		cr, cerr := e.exec(false, "COMMIT")
		if cerr != nil || len(cr) != 1 {
			return out, fmt.Errorf("probe COMMIT: %v", cerr)
		}
		if bad, _ := c13ResIsErr(cr[0]); bad {
			e.exec(false, "ROLLBACK")
		}
	}
	var err error
	out.Dump, err = e.dump()
	return out, err
}

// c13HasWrite: the store sends a unified request through the log only when it
// contains something that is not read-only.
func c13HasWrite(c c13Case) bool {
	for _, s := range c.Stmts {
		if s.SQL == "" || s.Select && !s.PrepFail {
			continue
		}
		switch s.Class {
		case "begin", "commit", "rollback":
			continue
		}
		return true
	}
	return false
}

func TestVerif_C13_Store(t *testing.T) {
	rec := vstat.New(t, "C13", "store",
		"rapid: same request generator as the db unit, sent through Store.Execute / Store.Request of a real single-node store (raft log, command marshalling, FSM apply); two stores (foreign keys on/off) are reused across cases, each case first resets the tables and verifies the starting dump with the raw driver; unified requests always contain a write so that they go through the log; non-trivial = a failing statement that is not the last non-empty one")
	envs := map[bool]*c13StoreEnv{}
	defer func() {
		for _, e := range envs {
			e.close()
		}
	}()
	rapid.Check(t, func(rt *rapid.T) {
		defer c13Guard(rec)
		c := c13GenCase(rt)
		if c.Path == "request" && !c13HasWrite(c) {
			c.Stmts = append([]c13Stmt{{SQL: `INSERT INTO t(v) VALUES('w')`, Class: "valid-insert", Data: true, Insert: true}}, c.Stmts...)
		}
		e := envs[c.FK]
		if e == nil {
			var err error
			for try := 0; try < 3; try++ { // store start-up can fail on a very busy machine
				if e, err = c13NewStore(c.FK); err == nil {
					break
				}
				time.Sleep(2 * time.Second)
			}
			if err != nil {
				c13Bail("infrastructure: store: %v", err)
			}
			envs[c.FK] = e
		}
		c13Check(rt, rec, c, e.run)
	})
}

// c13Inconclusive is raised for infrastructure trouble inside a case; the
// case is then counted under the label "inconclusive:infrastructure" instead
// of being skipped (rapid gives up when most cases are skipped).
type c13Inconclusive struct{ msg string }

func c13Bail(format string, args ...any) {
	panic(c13Inconclusive{fmt.Sprintf(format, args...)})
}

// c13Guard is deferred at the top of a case.
func c13Guard(rec *vstat.Rec) {
	if r := recover(); r != nil {
		if _, ok := r.(c13Inconclusive); ok {
			rec.Label("inconclusive:infrastructure")
			return
		}
		panic(r)
	}
}
