package c21

// C21, unit "remote": a backup fetched from the leader through another node
// (proxy.Backup on a follower -> cluster client -> leader's cluster service)
// with the inter-node stream cut after n bytes for generated n. A backup that
// cannot be transferred completely must be reported as an error, never
// returned as a successful backup.
//
// A 2-node cluster is formed per case (vnode). The follower gets its own
// cluster client whose dialer wraps every connection in a reader that delivers
// only the first n bytes and then behaves like a peer that went away (EOF,
// connection closed). n ranges over the whole length of the response measured
// by an uncut run of the same request, with extra weight near both ends.
//
// Oracle: uncut => success and the restored backup is logically equal (vsql
// dump) to the leader's database taken through the local path. Cut => either
// an error, or success with bytes that restore to exactly that database.

import (
	"bytes"
	"compress/gzip"
	"context"
	"database/sql"
	"fmt"
	"io"
	"net"
	"os"
	"path/filepath"
	"sync/atomic"
	"testing"
	"time"

	"github.com/rqlite/rqlite/v10/cluster"
	"github.com/rqlite/rqlite/v10/command/proto"
	"github.com/rqlite/rqlite/v10/internal/verif/vnode"
	"github.com/rqlite/rqlite/v10/internal/verif/vsql"
	"github.com/rqlite/rqlite/v10/internal/verif/vstat"
	"github.com/rqlite/rqlite/v10/proxy"
	"pgregory.net/rapid"
)

type cutDialer struct {
	inner     cluster.Dialer
	limit     int64        // bytes deliverable before the cut; <0: unlimited
	firstOnly bool         // only the first connection is cut, later ones are untouched
	nConns    atomic.Int64 // connections dialled
	seen      atomic.Int64 // bytes delivered on the first connection
	cut       atomic.Bool  // the limit was hit
	prefix    []byte       // junk delivered (first connection only) in place of the stream after the response header
}

func (d *cutDialer) Dial(addr string, timeout time.Duration) (net.Conn, error) {
	c, err := d.inner.Dial(addr, timeout)
	if err != nil {
		return nil, err
	}
	k := d.nConns.Add(1)
	cc := &cutConn{Conn: c, d: d, remain: d.limit, first: k == 1}
	if d.firstOnly && k > 1 {
		cc.remain = -1
	}
	return cc, nil
}

type cutConn struct {
	net.Conn
	d      *cutDialer
	remain int64
	first  bool
}

func (c *cutConn) Read(p []byte) (int, error) {
	if c.remain == 0 {
		c.d.cut.Store(true)
		c.Conn.Close()
		return 0, io.EOF
	}
	if c.remain > 0 && int64(len(p)) > c.remain {
		p = p[:c.remain]
	}
	n, err := c.Conn.Read(p)
	if c.first {
		c.d.seen.Add(int64(n))
	}
	if c.remain > 0 {
		c.remain -= int64(n)
	}
	return n, err
}

type reqKind struct {
	Format   string
	Compress bool
	Vacuum   bool
}

func (k reqKind) String() string {
	return fmt.Sprintf("%s gz=%v vacuum=%v", k.Format, k.Compress, k.Vacuum)
}

func (k reqKind) req() *proto.BackupRequest {
	br := &proto.BackupRequest{Leader: true, Compress: k.Compress, Vacuum: k.Vacuum}
	switch k.Format {
	case "binary":
		br.Format = proto.BackupRequest_BACKUP_REQUEST_FORMAT_BINARY
	case "delete":
		br.Format = proto.BackupRequest_BACKUP_REQUEST_FORMAT_DELETE
	default:
		br.Format = proto.BackupRequest_BACKUP_REQUEST_FORMAT_SQL
	}
	return br
}

// restore turns backup bytes into a logical dump ("" + reason on failure).
func restore(dir string, k reqKind, data []byte) (string, string) {
	if k.Compress {
		zr, err := gzip.NewReader(bytes.NewReader(data))
		if err != nil {
			return "", "not-gzip: " + err.Error()
		}
		raw, err := io.ReadAll(zr)
		if err != nil {
			return "", "gzip-truncated: " + err.Error()
		}
		data = raw
	}
	p := filepath.Join(dir, fmt.Sprintf("r-%d.db", time.Now().UnixNano()))
	defer os.Remove(p)
	var db *sql.DB
	var err error
	if k.Format == "sql" {
		db, err = vsql.Open(p)
		if err != nil {
			return "", "harness: " + err.Error()
		}
		if _, err := db.Exec(string(data)); err != nil {
			db.Close()
			return "", "dump-does-not-execute: " + err.Error()
		}
	} else {
		if err := os.WriteFile(p, data, 0o644); err != nil {
			return "", "harness: " + err.Error()
		}
		if ic, err := vsql.IntegrityCheck(p); err != nil || ic != "ok" {
			return "", fmt.Sprintf("integrity-check: %q %v", ic, err)
		}
		db, err = vsql.Open(p)
		if err != nil {
			return "", "does-not-open: " + err.Error()
		}
	}
	defer db.Close()
	d, err := vsql.DumpDB(db)
	if err != nil {
		return "", "does-not-dump: " + err.Error()
	}
	return d, ""
}

func TestVerif_C21_Remote(t *testing.T) {
	vnode.QuietLogs()
	rec := vstat.New(t, "C21", "remote",
		"2-node cluster; database of generated size (rows {3,200,3000} x value length {5,200}); per case 6..12 (thorough ..20) backups requested on the follower through proxy.Backup with format {binary,delete,sql} x compress x vacuum and the leader->follower byte stream cut after n bytes, n over [0, uncut length] weighted to both ends (cut on every connection, or on the first connection only with n in 0..30 so that a client-side retry gets a clean stream), plus uncut runs; non-trivial = a cut fell strictly inside the stream; distinct by (format,compress,vacuum,cut position class,rows)")
	rapid.Check(t, func(rt *rapid.T) {
		defer c21rRecoverInfra(rec, t)
		rows := rapid.SampledFrom([]int{3, 200, 3000}).Draw(rt, "rows")
		vlen := rapid.SampledFrom([]int{5, 200}).Draw(rt, "vlen")
		nreq := rapid.IntRange(6, vstat.Scale(12, 20)).Draw(rt, "nReqs")

		dir, err := os.MkdirTemp("", "c21r-")
		if err != nil {
			c21rInfra("tempdir")
		}
		defer os.RemoveAll(dir)
		c := vnode.NewCluster(filepath.Join(dir, "cluster"), vnode.Fast())
		defer c.Close()
		if err := c.Form(2, 0); err != nil {
			t.Logf("infrastructure: %v", err)
			c21rInfra("cluster did not form")
		}
		leader := c.WaitLeader(20 * time.Second)
		if leader == nil {
			c21rInfra("no leader")
		}
		var follower *vnode.Node
		for _, n := range c.Live() {
			if n != leader {
				follower = n
			}
		}
		ctx := context.Background()
		stmts := []string{"CREATE TABLE t(id INTEGER PRIMARY KEY, v TEXT)", "CREATE INDEX tv ON t(v)"}
		for i := 0; i < rows; i += 200 {
			s := "INSERT INTO t(v) VALUES"
			for j := i; j < i+200 && j < rows; j++ {
				if j > i {
					s += ","
				}
				s += fmt.Sprintf("('%0*d')", vlen, j*7919)
			}
			stmts = append(stmts, s)
		}
		er := vnode.Exec(stmts...)
		er.Request.Transaction = true
		res, _, err := leader.Store.Execute(ctx, er)
		if err != nil || vnode.ExecErr(res) != "" {
			t.Logf("infrastructure: setup: %v %s", err, vnode.ExecErr(res))
			c21rInfra("setup failed")
		}
		// reference: the leader's database through the local path
		var ref bytes.Buffer
		refKind := reqKind{Format: "binary"}
		if err := leader.Store.Backup(ctx, refKind.req(), &ref); err != nil {
			c21rInfra("reference backup failed")
		}
		want, why := restore(dir, refKind, ref.Bytes())
		if why != "" {
			t.Fatalf("harness: reference backup unusable: %s", why)
		}

		run := func(k reqKind, limit int64, firstOnly bool) (data []byte, seen int64, cut bool, conns int64, err error) {
			d := &cutDialer{inner: c.Net.Dialer(follower.Name, cluster.MuxClusterHeader), limit: limit, firstOnly: firstOnly}
			client := cluster.NewClient(d, 3*time.Second)
			pxy := proxy.New(follower.Store, client)
			var buf bytes.Buffer
			done := make(chan error, 1)
			go func() {
				_, e := pxy.Backup(ctx, k.req(), &buf, nil, 3*time.Second, false)
				done <- e
			}()
			select {
			case err = <-done:
			case <-time.After(90 * time.Second):
				return nil, 0, false, 0, fmt.Errorf("harness-timeout")
			}
			return buf.Bytes(), d.seen.Load(), d.cut.Load(), d.nConns.Load(), err
		}

		anyInside := false
		for i := 0; i < nreq; i++ {
			k := reqKind{Format: rapid.SampledFrom([]string{"binary", "binary", "sql", "delete"}).Draw(rt, "format")}
			k.Compress = rapid.Bool().Draw(rt, "compress")
			if k.Format == "binary" {
				k.Vacuum = rapid.Bool().Draw(rt, "vacuum")
			}
			// uncut run: measures the stream length
			data, total, _, _, err := run(k, -1, false)
			if err != nil && err.Error() == "harness-timeout" {
				c21rInfra("uncut backup did not return in 90s")
			}
			ctxs := fmt.Sprintf("%s rows=%d vlen=%d", k, rows, vlen)
			if err != nil {
				// Not a C21 violation (the property promises nothing about success), but
				// worth seeing in the evidence: the bytes all arrived.
				rec.Label(fmt.Sprintf("uncut-error/gz=%v", k.Compress))
				rec.Extra("uncut-error-example", fmt.Sprintf("%s: %v (%d bytes received, %d written)", ctxs, err, total, len(data)))
				if total == 0 {
					continue
				}
			} else {
				got, why := restore(dir, k, data)
				if why != "" || got != want {
					sig := "C21/remote-uncut-backup-wrong"
					if rec.KnownHit(sig, "an uncut backup fetched through a follower does not restore to the leader's database") {
						continue
					}
					rt.Fatalf("%s", rec.Violation(sig, "uncut remote backup (%s) succeeded but is unusable or different: %s", ctxs, why))
				}
				rec.Label("uncut-ok")
			}
			// cut run
			var n int64
			firstOnly := false
			switch rapid.IntRange(0, 5).Draw(rt, "cutClass") {
			case 0:
				n = int64(rapid.IntRange(0, 40).Draw(rt, "cutHead"))
			case 4, 5:
				// only the first connection is cut (inside the response header or the
				// first bytes of the stream); whatever the client dials next is untouched
				n = int64(rapid.IntRange(0, 30).Draw(rt, "cutFirstConn"))
				firstOnly = true
			case 1:
				n = total - int64(rapid.IntRange(1, 40).Draw(rt, "cutTail"))
			default:
				n = int64(rapid.Int64Range(0, total).Draw(rt, "cutAny"))
			}
			if n < 0 {
				n = 0
			}
			if n >= total {
				n = total - 1
			}
			data, _, wasCut, conns, err := run(k, n, firstOnly)
			if err != nil && err.Error() == "harness-timeout" {
				c21rInfra("cut backup did not return in 90s")
			}
			class := "inside"
			if n < 30 {
				class = "head"
			} else if n > total-30 {
				class = "tail"
			}
			rec.Case(wasCut, fmt.Sprintf("%s/%s/%d", k, class, rows))
			if wasCut {
				anyInside = true
			}
			if firstOnly {
				class = "first-conn-only"
				if conns > 1 {
					rec.Label("client-dialled-again-after-cut")
				}
			}
			rec.Label("cut:" + class)
			rec.Label(fmt.Sprintf("cut:%s", k.Format))
			if err != nil {
				rec.Label("cut-reported-as-error")
				continue
			}
			got, why := restore(dir, k, data)
			if why == "" && got == want {
				rec.Label("cut-but-complete")
				continue
			}
			if why == "" {
				why = "restores to a different database than the leader's"
			}
			sig := "C21/truncated-remote-backup-reported-ok"
			if firstOnly && conns > 1 {
				sig = "C21/retried-remote-backup-not-a-single-complete-backup"
			}
			if k.Compress {
				sig += "/compressed"
			}
			if rec.KnownHit(sig, "a remote backup whose stream was cut is returned as a successful backup") {
				continue
			}
			rt.Fatalf("%s", rec.Violation(sig, "remote backup (%s, first connection only=%v, connections dialled=%d) with the stream cut after %d of %d bytes returned success with %d bytes that are unusable or different: %s", ctxs, firstOnly, conns, n, total, len(data), why))
		}
		_ = anyInside
	})
}

// c21rInfraSkip unwinds a case that hit infrastructure trouble (a store that did
// not come up, a request that could not be served): the case is counted as
// inconclusive, it is neither a pass nor a violation.
type c21rInfraSkip struct{ why string }

func c21rInfra(why string) { panic(c21rInfraSkip{why}) }

func c21rRecoverInfra(rec *vstat.Rec, t *testing.T) {
	if r := recover(); r != nil {
		if s, ok := r.(c21rInfraSkip); ok {
			rec.Label("inconclusive:infrastructure")
			t.Logf("inconclusive (infrastructure): %s", s.why)
			return
		}
		panic(r)
	}
}
