package c20

// C20 unit "live": a real 3-node in-process cluster (store + cluster service +
// cluster client + proxy + HTTP service per node, wired as rqlited and
// system_test/helpers.go do, over the harness network vnet), every node with
// its OWN credential store (strict, or additionally granting everything to
// "*"), so that "executed with the caller's credentials" is observable: a
// request accepted by an open follower is only served if the caller's own
// credentials are good enough for the (strict) leader.
//
// Generated per case: per-node store kind, and a sequence of HTTP operations
// {execute, unified request, strong query, weak query} x target node x
// {redirect, forward} x credentials {none, admin, writer, reader, rw, wrong
// password} x fault {none, leader's response delayed beyond the caller's
// timeout}, interleaved with leadership transfers (before or during an
// operation). Every write inserts a uniquely tagged row.
//
// Oracle (from the property statement):
//   * a tagged row never exists twice anywhere; a success response implies
//     exactly one row on every node once the cluster has converged; a refusal
//     (401) or redirect (301) implies none;
//   * success implies the caller's credentials are authorized on the serving
//     node(s); while leadership is provably stable (same raft term and leader
//     before and after the operation) the decision is exact: 301 to the
//     leader's API URL iff redirect requested at a follower; otherwise success
//     iff authorized at the receiving node and (when forwarded) at the leader;
//   * the leader's result is returned unchanged: last_insert_id equals the id
//     of the tagged row, a strong count is consistent with the confirmed writes;
//   * at the end all three databases are identical (nothing was executed
//     against a follower's own database outside the log).

import (
	"context"
	"encoding/json"
	"fmt"
	"io"
	"log"
	"math/rand"
	"net"
	"net/http"
	"net/url"
	"os"
	"path/filepath"
	"sort"
	"strings"
	"sync"
	"sync/atomic"
	"testing"
	"time"

	"github.com/rqlite/rqlite/v10/auth"
	"github.com/rqlite/rqlite/v10/cluster"
	clstrPB "github.com/rqlite/rqlite/v10/cluster/proto"
	"github.com/rqlite/rqlite/v10/command/proto"
	httpd "github.com/rqlite/rqlite/v10/http"
	"github.com/rqlite/rqlite/v10/internal/verif/vnet"
	"github.com/rqlite/rqlite/v10/internal/verif/vstat"
	"github.com/rqlite/rqlite/v10/proxy"
	"github.com/rqlite/rqlite/v10/store"
	"github.com/rqlite/rqlite/v10/tcp"
	"pgregory.net/rapid"
)

// ------------------------------------------------------ credential model ----

type user struct {
	name, pw string
	perms    []string
}

var strictUsers = []user{
	{"admin", "apw", []string{"all"}},
	{"writer", "wpw", []string{"execute"}},
	{"reader", "rpw", []string{"query"}},
	{"rw", "rwpw", []string{"execute", "query"}},
}

func credFile(open bool) string {
	type ent struct {
		Username string   `json:"username"`
		Password string   `json:"password"`
		Perms    []string `json:"perms"`
	}
	var es []ent
	for _, u := range strictUsers {
		es = append(es, ent{u.name, u.pw, u.perms})
	}
	if open {
		es = append(es, ent{"*", "", []string{"all"}})
	}
	b, _ := json.Marshal(es)
	return string(b)
}

// aa restates the credential rule for the two store kinds used here.
func aa(open bool, u, pw, perm string) bool {
	if open {
		return true // "*" holds all
	}
	for _, x := range strictUsers {
		if x.name == u && u != "" {
			if x.pw != pw {
				return false
			}
			for _, p := range x.perms {
				if p == perm || p == "all" {
					return true
				}
			}
		}
	}
	return false
}

type pres struct{ name, user, pw string }

var presentations = []pres{
	{"none", "", ""}, {"admin", "admin", "apw"}, {"writer", "writer", "wpw"}, {"reader", "reader", "rpw"},
	{"rw", "rw", "rwpw"}, {"writer-wrongpw", "writer", "nope"},
}

// ------------------------------------------------------------------ nodes ----

// slowDialer wraps the cluster client's dialer: while armed, the first read on
// a connection (the response) is held back for delay, i.e. beyond the deadline
// the client has set -- the response of the leader "arrives too late".
type slowDialer struct {
	inner cluster.Dialer
	armed atomic.Int64 // nanoseconds of delay, 0 = off
	hits  atomic.Int64
}

func (d *slowDialer) Dial(addr string, timeout time.Duration) (net.Conn, error) {
	c, err := d.inner.Dial(addr, timeout)
	if err != nil {
		return nil, err
	}
	return &slowConn{Conn: c, d: d}, nil
}

type slowConn struct {
	net.Conn
	d *slowDialer
}

func (c *slowConn) Read(p []byte) (int, error) {
	if ns := c.d.armed.Load(); ns > 0 {
		c.d.hits.Add(1)
		time.Sleep(time.Duration(ns))
	}
	return c.Conn.Read(p)
}

type node struct {
	idx      int
	name, id string
	open     bool // credential store grants everything to "*"
	st       *store.Store
	svc      *cluster.Service
	cl       *cluster.Client
	hs       *httpd.Service
	mux      *tcp.Mux
	ln       net.Listener
	dial     *slowDialer
	api      string // host:port of the HTTP API
	raftAddr string
}

type clusterT struct {
	nw    *vnet.Network
	nodes []*node
}

var discard = log.New(io.Discard, "", 0)

var quiet sync.Once

func quietLogs() {
	quiet.Do(func() {
		if os.Getenv("VERIF_VNODE_LOG") != "" {
			return
		}
		if f, err := os.OpenFile(os.DevNull, os.O_WRONLY, 0); err == nil {
			os.Stderr = f
		}
		log.SetOutput(io.Discard)
	})
}

func startNode(nw *vnet.Network, dir string, idx int, open bool) (*node, error) {
	n := &node{idx: idx, name: fmt.Sprintf("n%d", idx), id: fmt.Sprintf("id%d", idx), open: open}
	ndir := filepath.Join(dir, n.name)
	if err := os.MkdirAll(ndir, 0o755); err != nil {
		return nil, err
	}
	ln, err := nw.Listen(n.name)
	if err != nil {
		return nil, err
	}
	n.ln = ln
	mux, err := tcp.NewMux(ln, nil)
	if err != nil {
		return nil, err
	}
	mux.Logger = discard
	n.mux = mux
	raftLn := mux.Listen(cluster.MuxRaftHeader)
	clstrLn := mux.Listen(cluster.MuxClusterHeader)
	go mux.Serve()

	cs := auth.NewCredentialsStore()
	if err := cs.Load(strings.NewReader(credFile(open))); err != nil {
		return nil, err
	}
	st := store.New(&store.Config{DBConf: store.NewDBConfig(), Dir: ndir, ID: n.id, Logger: discard},
		nw.Layer(n.name, raftLn, cluster.MuxRaftHeader))
	st.NoSnapshotOnClose = true
	st.HeartbeatTimeout, st.ElectionTimeout, st.LeaderLeaseTimeout = 300*time.Millisecond, 300*time.Millisecond, 300*time.Millisecond
	st.CommitTimeout = 20 * time.Millisecond
	st.SnapshotThreshold, st.SnapshotInterval = 1<<30, time.Hour
	st.RaftLogLevel = "OFF"
	n.st = st
	n.svc = cluster.New(clstrLn, st, st, cs)
	if err := n.svc.Open(); err != nil {
		return nil, err
	}
	n.dial = &slowDialer{inner: nw.Dialer(n.name, cluster.MuxClusterHeader)}
	n.cl = cluster.NewClient(n.dial, 5*time.Second)
	pxy := proxy.New(st, n.cl)
	n.hs = httpd.New("127.0.0.1:0", st, n.cl, pxy, cs)
	if err := g7Retry(n.hs.Start); err != nil {
		return nil, err
	}
	n.api = n.hs.Addr().String()
	n.svc.SetAPIAddr(n.api)
	pxy.SetAPIAddr(n.api)
	if err := st.Open(); err != nil {
		return nil, err
	}
	n.raftAddr = st.Addr()
	return n, nil
}

func (c *clusterT) close() {
	var wg sync.WaitGroup
	for _, n := range c.nodes {
		if n == nil {
			continue
		}
		wg.Add(1)
		go func(n *node) {
			defer wg.Done()
			if n.hs != nil && n.api != "" {
				n.hs.Close()
			}
			if n.ln != nil {
				n.ln.Close()
			}
			c.nw.DropNode(n.name)
			if n.st != nil {
				n.st.Close(true)
			}
			if n.svc != nil {
				n.svc.Close()
			}
			if n.mux != nil {
				n.mux.Close()
			}
		}(n)
	}
	// Store.Close(wait=true) has been seen to hang for ever in raft's
	// waitShutdown (leader's pipelineReplicate blocked in netPipeline.AppendEntries
	// while its decodeResponses blocks on doneCh after pipelineDecode has gone:
	// 2 of ~400 cluster lifecycles on a loaded machine). That is not C20's
	// subject; do not let it turn the check into a timeout: give up after 60 s
	// and leave the (network-less) remains behind.
	done := make(chan struct{})
	go func() { wg.Wait(); close(done) }()
	select {
	case <-done:
	case <-time.After(60 * time.Second):
		closeHangs.Add(1)
	}
	c.nw.Close()
}

var closeHangs atomic.Int64

func formCluster(dir string, open [3]bool) (*clusterT, error) {
	c := &clusterT{nw: vnet.New()}
	for i := 0; i < 3; i++ {
		n, err := startNode(c.nw, dir, i, open[i])
		c.nodes = append(c.nodes, n)
		if err != nil {
			return c, err
		}
	}
	n0 := c.nodes[0]
	if err := n0.st.Bootstrap(store.NewServer(n0.id, n0.raftAddr, true)); err != nil {
		return c, err
	}
	if _, err := n0.st.WaitForLeader(30 * time.Second); err != nil {
		return c, err
	}
	admin := &clstrPB.Credentials{Username: "admin", Password: "apw"}
	for _, n := range c.nodes[1:] {
		var err error
		for try := 0; try < 30; try++ {
			ctx, cancel := context.WithTimeout(context.Background(), 20*time.Second)
			err = n.cl.Join(ctx, &proto.JoinRequest{Id: n.id, Address: n.raftAddr, Voter: true}, n0.raftAddr, admin, 10*time.Second)
			cancel()
			if err == nil {
				break
			}
			time.Sleep(100 * time.Millisecond)
		}
		if err != nil {
			return c, fmt.Errorf("join %s: %w", n.name, err)
		}
	}
	if c.waitAgreed(30*time.Second) == nil {
		return c, fmt.Errorf("no agreed leader")
	}
	return c, nil
}

// waitAgreed waits until one node is a verified leader and all nodes name it.
func (c *clusterT) waitAgreed(timeout time.Duration) *node {
	deadline := time.Now().Add(timeout)
	for {
		for _, l := range c.nodes {
			if l.st.IsLeader() && l.st.VerifyLeader() == nil {
				ok := true
				for _, n := range c.nodes {
					if a, _ := n.st.LeaderAddr(); a != l.raftAddr {
						ok = false
					}
				}
				if ok {
					return l
				}
			}
		}
		if time.Now().After(deadline) {
			return nil
		}
		time.Sleep(15 * time.Millisecond)
	}
}

func term(n *node) int64 {
	st, err := n.st.Stats()
	if err != nil {
		return -1
	}
	rs, _ := st["raft"].(map[string]any)
	t, _ := rs["term"].(int64)
	return t
}

// view is a snapshot of (leader, terms); two equal views around an operation
// prove that leadership did not move during it.
type view struct {
	leader int
	terms  [3]int64
}

func (c *clusterT) view() view {
	v := view{leader: -1}
	for i, n := range c.nodes {
		v.terms[i] = term(n)
		if n.st.IsLeader() {
			if v.leader >= 0 {
				v.leader = -2 // two claim leadership
			} else {
				v.leader = i
			}
		}
	}
	if v.leader >= 0 {
		for _, n := range c.nodes {
			if a, _ := n.st.LeaderAddr(); a != c.nodes[v.leader].raftAddr {
				v.leader = -3 // not agreed
				break
			}
		}
	}
	if v.leader >= 0 {
		lt := v.terms[v.leader]
		for _, t := range v.terms {
			if t != lt || t < 0 {
				v.leader = -4
				break
			}
		}
	}
	return v
}

// -------------------------------------------------------------------- ops ----

type op struct {
	Kind     string // execute | request | query-strong | query-weak
	Target   int
	Redirect bool
	Pres     int
	Slow     bool   // leader's response delayed beyond the caller's timeout
	Nemesis  string // "", "stepdown-before", "stepdown-during"
}

func (o op) String() string {
	return fmt.Sprintf("{%s ->n%d redirect=%v creds=%s slow=%v %s}", o.Kind, o.Target, o.Redirect, presentations[o.Pres].name, o.Slow, o.Nemesis)
}

type result struct {
	status   int
	location string
	servedBy string
	body     string
	errText  string // "error" member of the JSON body, or transport error
	lastID   int64
	count    int64 // value of a count(*) result, -1 if absent
}

var httpClient = &http.Client{
	CheckRedirect: func(req *http.Request, via []*http.Request) error { return http.ErrUseLastResponse },
	Transport:     &http.Transport{DisableKeepAlives: true, DialContext: func(ctx context.Context, network, addr string) (net.Conn, error) { return g7Dial(addr) }},
	Timeout:       60 * time.Second,
}

func doHTTP(n *node, o op, tag string, timeout time.Duration) (result, string) {
	p := presentations[o.Pres]
	q := url.Values{}
	q.Set("timeout", timeout.String())
	if o.Redirect {
		q.Set("redirect", "")
	}
	var method, path, body string
	switch o.Kind {
	case "execute":
		method, path = "POST", "/db/execute"
		body = fmt.Sprintf(`[["INSERT INTO t(tag) VALUES(?)", %q]]`, tag)
	case "request":
		method, path = "POST", "/db/request"
		body = fmt.Sprintf(`[["INSERT INTO t(tag) VALUES(?)", %q], ["SELECT count(*) FROM t"]]`, tag)
	case "query-strong":
		method, path = "GET", "/db/query"
		q.Set("level", "strong")
		q.Set("q", "SELECT count(*) FROM t")
	case "query-weak":
		method, path = "GET", "/db/query"
		q.Set("level", "weak")
		q.Set("q", "SELECT count(*) FROM t")
	}
	target := "http://" + n.api + path + "?" + q.Encode()
	req, _ := http.NewRequest(method, target, strings.NewReader(body))
	if body != "" {
		req.Header.Set("Content-Type", "application/json")
	}
	if p.user != "" {
		req.SetBasicAuth(p.user, p.pw)
	}
	res := result{count: -1}
	resp, err := httpClient.Do(req)
	if err != nil {
		res.errText = "transport: " + err.Error()
		return res, path + "?" + q.Encode()
	}
	defer resp.Body.Close()
	b, _ := io.ReadAll(resp.Body)
	res.status, res.location, res.servedBy, res.body = resp.StatusCode, resp.Header.Get("Location"), resp.Header.Get("X-RQLITE-SERVED-BY"), string(b)
	if resp.StatusCode == 200 {
		var jr struct {
			Results []struct {
				LastInsertID int64   `json:"last_insert_id"`
				Error        string  `json:"error"`
				Values       [][]any `json:"values"`
			} `json:"results"`
			Error string `json:"error"`
		}
		if err := json.Unmarshal(b, &jr); err != nil {
			res.errText = "bad json: " + err.Error()
		} else {
			res.errText = jr.Error
			for _, r := range jr.Results {
				if r.Error != "" && res.errText == "" {
					res.errText = r.Error
				}
				if r.LastInsertID != 0 {
					res.lastID = r.LastInsertID
				}
				if len(r.Values) == 1 && len(r.Values[0]) == 1 {
					if f, ok := r.Values[0][0].(float64); ok {
						res.count = int64(f)
					}
				}
			}
		}
	} else if resp.StatusCode >= 400 {
		res.errText = strings.TrimSpace(string(b))
		if res.errText == "" {
			res.errText = resp.Status
		}
	}
	return res, path + "?" + q.Encode()
}

// rowsOf returns id->tag of node n's local database (level none).
func rowsOf(n *node) (map[int64]string, string, error) {
	qr := &proto.QueryRequest{Request: &proto.Request{Statements: []*proto.Statement{{Sql: "SELECT id, tag FROM t ORDER BY id"}}}, Level: proto.ConsistencyLevel_NONE}
	rows, _, _, err := n.st.Query(context.Background(), qr)
	if err != nil {
		return nil, "", err
	}
	if len(rows) != 1 || rows[0].Error != "" {
		return nil, "", fmt.Errorf("query: %v", rows)
	}
	m := map[int64]string{}
	var sb strings.Builder
	for _, v := range rows[0].Values {
		id, tag := v.Parameters[0].GetI(), v.Parameters[1].GetS()
		m[id] = tag
		fmt.Fprintf(&sb, "%d=%s;", id, tag)
	}
	return m, sb.String(), nil
}

func perm(kind string) []string {
	switch kind {
	case "execute":
		return []string{"execute"}
	case "request":
		return []string{"query", "execute"}
	}
	return []string{"query"}
}

func authorizedAt(n *node, p pres, kind string) bool {
	for _, pm := range perm(kind) {
		if !aa(n.open, p.user, p.pw, pm) {
			return false
		}
	}
	return true
}

// ------------------------------------------------------------------- test ----

func TestVerif_C20_Live(t *testing.T) {
	quietLogs()
	rec := vstat.New(t, "C20", "live",
		"rapid: per-node credential store kind {strict, open('*': all)} and 6-14 HTTP operations {execute, unified request, strong query, weak query} x target node 0-2 x {redirect, forward} x credentials {none, admin, writer, reader, rw, wrong password} x {normal, leader response delayed past the caller's timeout} x {no nemesis, leadership transfer before, leadership transfer during}; real 3-node cluster per case; non-trivial = some operation was sent to a follower (forward or redirect path taken); distinct by (store kinds, operation list); one evaluation = one case, operation-level classes are in the labels")
	rapid.Check(t, func(rt *rapid.T) {
		var open [3]bool
		for i := range open {
			open[i] = rapid.Bool().Draw(rt, fmt.Sprintf("open-%d", i))
		}
		nOps := rapid.IntRange(6, 14).Draw(rt, "nops")
		ops := make([]op, nOps)
		for i := range ops {
			o := op{
				Kind:     rapid.SampledFrom([]string{"execute", "execute", "execute", "request", "query-strong", "query-weak"}).Draw(rt, "kind"),
				Target:   rapid.IntRange(0, 2).Draw(rt, "target"),
				Redirect: rapid.IntRange(0, 3).Draw(rt, "redirect") == 0,
				Pres:     rapid.SampledFrom([]int{0, 1, 1, 2, 2, 3, 4, 4, 5}).Draw(rt, "creds"),
			}
			if !o.Redirect {
				o.Slow = rapid.IntRange(0, 5).Draw(rt, "slow") == 0
			}
			switch rapid.IntRange(0, 11).Draw(rt, "nemesis") {
			case 0, 1:
				o.Nemesis = "stepdown-before"
			case 2:
				o.Nemesis = "stepdown-during"
			}
			ops[i] = o
		}
		canon := fmt.Sprintf("open=%v ops=%v", open, ops)

		dir, err := os.MkdirTemp("", "c20live")
		if err != nil {
			rec.Label("inconclusive:infrastructure")
			return
		}
		defer os.RemoveAll(dir)
		c, err := formCluster(dir, open)
		defer c.close()
		if err != nil {
			rec.Label("inconclusive:cluster-did-not-form")
			rec.Label("inconclusive:infrastructure")
			return
		}
		leader := c.waitAgreed(30 * time.Second)
		if leader == nil {
			rec.Label("inconclusive:infrastructure")
			return
		}
		if _, _, err := leader.st.Execute(context.Background(), &proto.ExecuteRequest{Request: &proto.Request{Statements: []*proto.Statement{
			{Sql: "CREATE TABLE t(id INTEGER PRIMARY KEY AUTOINCREMENT, tag TEXT)"}}}}); err != nil {
			rec.Label("inconclusive:infrastructure")
			return
		}

		type issued struct {
			o       op
			tag     string
			res     result
			stable  bool
			lead    int // leader during the op if stable
			success bool
			// for reads: writes confirmed before it, and writes with unknown outcome before it
			confirmedBefore int64
			unknownBefore   []string
			mustNotApply    bool // not authorized (exact decision, leadership stable)
		}
		var hist []issued
		sentToFollower := false
		confirmed := int64(0)    // writes confirmed by a success response
		var unknownTags []string // writes whose outcome is unknown to the caller (errors)

		fail := func(sig, what string, is issued) bool {
			desc := fmt.Sprintf("op %s tag=%s -> status=%d location=%q served-by=%q err=%q body=%.200q stable=%v leader=n%d :: %s", is.o, is.tag, is.res.status, is.res.location, is.res.servedBy, is.res.errText, is.res.body, is.stable, is.lead, canon)
			if rec.KnownHit(sig, what) {
				return false
			}
			rt.Fatalf("%s", rec.Violation(sig, "%s :: %s", what, desc))
			return true
		}

		for i, o := range ops {
			if o.Nemesis == "stepdown-before" {
				if l := c.waitAgreed(20 * time.Second); l != nil {
					l.st.Stepdown(true, "")
					rec.Label("nemesis:stepdown-before")
				}
			}
			if c.waitAgreed(20*time.Second) == nil {
				rec.Label("inconclusive:no-agreed-leader")
				break
			}
			tag := fmt.Sprintf("tag-%d", i)
			n := c.nodes[o.Target]
			timeout := 10 * time.Second
			if o.Slow {
				timeout = 250 * time.Millisecond
				n.dial.armed.Store(int64(600 * time.Millisecond))
			}
			before := c.view()
			var nemWG sync.WaitGroup
			if o.Nemesis == "stepdown-during" && before.leader >= 0 {
				nemWG.Add(1)
				l := c.nodes[before.leader]
				go func() { defer nemWG.Done(); l.st.Stepdown(true, "") }()
				rec.Label("nemesis:stepdown-during")
			}
			res, target := doHTTP(n, o, tag, timeout)
			nemWG.Wait()
			n.dial.armed.Store(0)
			after := c.view()
			is := issued{o: o, tag: tag, res: res, lead: before.leader}
			is.stable = before.leader >= 0 && before == after
			is.success = res.status == 200 && res.errText == ""
			isWrite := o.Kind == "execute" || o.Kind == "request"
			p := presentations[o.Pres]

			rec.Label("op:" + o.Kind)
			if is.stable {
				rec.Label("leadership:stable")
				if o.Target != before.leader {
					sentToFollower = true
					if o.Redirect {
						rec.Label("path:redirect-at-follower")
					} else {
						rec.Label("path:forward-from-follower")
					}
				} else {
					rec.Label("path:at-leader")
				}
			} else {
				rec.Label("leadership:moved-or-unknown")
			}
			switch {
			case is.success:
				rec.Label("outcome:success")
			case res.status == 301:
				rec.Label("outcome:redirect")
			case res.status == 401:
				rec.Label("outcome:unauthorized")
			default:
				rec.Label("outcome:error")
			}

			// ---- decisions that hold whatever the schedule ----
			if is.success {
				if !authorizedAt(n, p, o.Kind) {
					if fail("C20/live-served-unauthorized{op="+o.Kind+"}", "request served although the caller is not authorized at the receiving node", is) {
						return
					}
				}
				allOK := true
				for _, m := range c.nodes {
					if !authorizedAt(m, p, o.Kind) {
						allOK = false
					}
				}
				if !allOK && is.stable && o.Target != before.leader && !authorizedAt(c.nodes[before.leader], p, o.Kind) {
					if fail("C20/live-forwarded-without-callers-credentials{op="+o.Kind+"}", "request forwarded by a follower was served by a leader whose credential store does not authorize the caller", is) {
						return
					}
				}
			}
			if res.status == 301 {
				if !o.Redirect {
					if fail("C20/live-redirect-not-requested{op="+o.Kind+"}", "301 although the client did not ask for redirects", is) {
						return
					}
				}
				okLoc := false
				for _, m := range c.nodes {
					if m != n && res.location == "http://"+m.api+target {
						okLoc = true
					}
				}
				if is.stable {
					okLoc = res.location == "http://"+c.nodes[before.leader].api+target
				}
				if !okLoc {
					if fail("C20/live-redirect-location{op="+o.Kind+"}", "redirect does not point at the leader's API URL with the original path and query", is) {
						return
					}
				}
			}
			// ---- exact decisions while leadership is stable ----
			if is.stable {
				atLeader := o.Target == before.leader
				auth := authorizedAt(n, p, o.Kind) && (atLeader || o.Redirect || authorizedAt(c.nodes[before.leader], p, o.Kind))
				switch {
				case !authorizedAt(n, p, o.Kind):
					is.mustNotApply = true
					if res.status != 401 {
						if fail("C20/live-unauthorized-not-refused{op="+o.Kind+"}", "caller not authorized at the receiving node but the response is not 401", is) {
							return
						}
					}
				case o.Redirect && !atLeader:
					if res.status != 301 && !(res.status >= 500) {
						if fail("C20/live-no-redirect{op="+o.Kind+"}", "redirect requested at a follower but the response is neither 301 nor an error", is) {
							return
						}
					}
				case !auth:
					is.mustNotApply = true
					// (with a delayed response the refusal itself may time out; what counts
					// is that the request is not served and, checked at the end, not applied)
					if is.success || (!o.Slow && res.status != 401 && !(res.status >= 500)) {
						if fail("C20/live-forwarded-with-other-credentials{op="+o.Kind+"}", "caller is not authorized at the leader, yet the forwarded request was not refused", is) {
							return
						}
					}
				case !o.Slow:
					if res.status == 401 {
						if fail("C20/live-callers-credentials-lost{op="+o.Kind+"}", "caller is authorized at the receiving node and at the leader but the forwarded request was refused as unauthorized", is) {
							return
						}
					}
					if is.success {
						rec.Label("stable-authorized-success")
					} else {
						rec.Label("stable-authorized-error")
					}
				}
			}
			if isWrite {
				if is.success {
					confirmed++
				}
			}
			is.confirmedBefore = confirmed
			is.unknownBefore = append([]string(nil), unknownTags...)
			if isWrite && !is.success && res.status != 401 && res.status != 301 {
				unknownTags = append(unknownTags, tag)
			}
			hist = append(hist, is)
		}
		rec.Case(sentToFollower, canon)
		if n := closeHangs.Load(); n > 0 {
			rec.Extra("store_close_hangs_abandoned", n)
		}
		rec.Sample(canon)

		// ---- convergence, then the cluster-wide row oracle ----
		l := c.waitAgreed(30 * time.Second)
		if l == nil {
			rec.Label("inconclusive:no-leader-at-end")
			return
		}
		// a barrier write through the leader, then wait for every node to apply it
		if _, idx, err := l.st.Execute(context.Background(), &proto.ExecuteRequest{Request: &proto.Request{Statements: []*proto.Statement{
			{Sql: "INSERT INTO t(tag) VALUES('barrier')"}}}}); err != nil {
			rec.Label("inconclusive:barrier-failed")
			return
		} else {
			deadline := time.Now().Add(30 * time.Second)
			for _, n := range c.nodes {
				for n.st.DBAppliedIndex() < idx && time.Now().Before(deadline) {
					time.Sleep(10 * time.Millisecond)
				}
				if n.st.DBAppliedIndex() < idx {
					rec.Label("inconclusive:no-convergence")
					return
				}
			}
		}
		var dumps [3]string
		var maps [3]map[int64]string
		for i, n := range c.nodes {
			m, d, err := rowsOf(n)
			if err != nil {
				rec.Label("inconclusive:final-read-failed")
				return
			}
			maps[i], dumps[i] = m, d
		}
		if dumps[0] != dumps[1] || dumps[1] != dumps[2] {
			sig := "C20/live-databases-diverged"
			what := "after convergence to the same applied index the three databases differ (something was executed outside the log)"
			if !rec.KnownHit(sig, what) {
				rt.Fatalf("%s", rec.Violation(sig, "%s :: n0=[%s] n1=[%s] n2=[%s] :: %s", what, dumps[0], dumps[1], dumps[2], canon))
			}
			return
		}
		counts := map[string]int{}
		idOf := map[string]int64{}
		for id, tag := range maps[0] {
			counts[tag]++
			idOf[tag] = id
		}
		var tags []string
		for _, is := range hist {
			tags = append(tags, is.tag)
		}
		sort.Strings(tags)
		for _, is := range hist {
			isWrite := is.o.Kind == "execute" || is.o.Kind == "request"
			cnt := counts[is.tag]
			if !isWrite {
				continue
			}
			switch {
			case cnt > 1:
				if is.o.Slow {
					rec.Label("double-execution-under-slow-leader")
				}
				if fail("C20/forwarded-request-executed-twice{op="+is.o.Kind+"}", fmt.Sprintf("the tagged row exists %d times: the request was executed more than once", cnt), is) {
					return
				}
			case is.success && cnt != 1:
				if fail("C20/live-success-not-applied{op="+is.o.Kind+"}", "success response but the row does not exist", is) {
					return
				}
			case is.mustNotApply && cnt != 0:
				if fail("C20/live-applied-without-authorization{op="+is.o.Kind+"}", "request of a caller who is not authorized (at the receiving node or at the leader) was applied", is) {
					return
				}
			case (is.res.status == 401 || is.res.status == 301) && cnt != 0:
				if fail("C20/live-refused-but-applied{op="+is.o.Kind+"}", "request answered with 401/301 was nevertheless applied", is) {
					return
				}
			case is.success && is.res.lastID != idOf[is.tag]:
				if fail("C20/live-result-not-leaders{op="+is.o.Kind+"}", fmt.Sprintf("last_insert_id %d returned but the row has id %d", is.res.lastID, idOf[is.tag]), is) {
					return
				}
			}
			if cnt == 1 && !is.success {
				rec.Label("unknown-outcome-applied-once")
			}
		}
		// results returned unchanged: a count obtained through the leader lies
		// between the writes confirmed before it and those plus the writes of
		// unknown outcome that were (as we now know) applied at some point
		for _, is := range hist {
			if !is.success || is.res.count < 0 {
				continue
			}
			if is.o.Kind == "query-weak" {
				// weak reads are served from the leader's local state without going
				// through the log; their freshness is C16's subject, not C20's
				continue
			}
			hi := is.confirmedBefore
			for _, tg := range is.unknownBefore {
				hi += int64(counts[tg])
			}
			if is.res.count < is.confirmedBefore || is.res.count > hi {
				if fail("C20/live-result-not-leaders{op="+is.o.Kind+"}", fmt.Sprintf("count %d returned, but %d writes were confirmed before it and at most %d can have been applied", is.res.count, is.confirmedBefore, hi), is) {
					return
				}
			}
		}
	})
}

// ---- infrastructure helpers (not part of any oracle) ----

// g7Dial connects to addr from a random loopback source address 127.x.y.z.
// Sockets of a client that closes (or half-closes) first stay in TIME_WAIT for
// 60 s; with 127.0.0.1 as the only source address, thousands of short
// connections per second from many check processes would leave no free port
// for bind(127.0.0.1:0), i.e. for every new listener on the machine. Spreading
// the client side over 127/8 keeps those sockets away from 127.0.0.1. A few
// retries with back-off absorb transient failures.
func g7Dial(addr string) (net.Conn, error) {
	var last error
	for try := 0; try < 5; try++ {
		d := net.Dialer{Timeout: 10 * time.Second, LocalAddr: &net.TCPAddr{IP: net.IPv4(127, byte(1+rand.Intn(250)), byte(rand.Intn(256)), byte(1+rand.Intn(250)))}}
		c, err := d.Dial("tcp", addr)
		if err == nil {
			return c, nil
		}
		last = err
		time.Sleep(time.Duration(25*(try+1)) * time.Millisecond)
	}
	return nil, last
}

// g7Listen listens on 127.0.0.1:0, retrying a few times.
func g7Listen() (net.Listener, error) {
	var last error
	for try := 0; try < 5; try++ {
		ln, err := net.Listen("tcp", "127.0.0.1:0")
		if err == nil {
			return ln, nil
		}
		last = err
		time.Sleep(time.Duration(50*(try+1)) * time.Millisecond)
	}
	return nil, last
}

// g7Retry runs f up to five times with a short back-off.
func g7Retry(f func() error) error {
	var last error
	for try := 0; try < 5; try++ {
		if last = f(); last == nil {
			return nil
		}
		time.Sleep(time.Duration(50*(try+1)) * time.Millisecond)
	}
	return last
}
