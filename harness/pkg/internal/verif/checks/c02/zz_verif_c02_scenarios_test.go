package c02

// C02, two further targeted shapes (generated parameters, same oracle as the
// histories: a read at linearizable/strong level that returns rows returns the
// value of the last write acknowledged before the read began).
//
// TestVerif_C02_DeposedByTransfer -- "a deposed leader never serves such a
// read". L serves linearizable reads; then every message addressed to L is lost
// (vnet.Deafen: L still talks, nobody reaches it) or L is cut off completely
// right after it handed leadership over; leadership is transferred to F1 through
// the API (Stepdown(false, F1): immediate election, no waiting for timeouts); a
// write is acknowledged by F1; linearizable reads are fired at L for the next few
// hundred ms. L has not learned that it was deposed.
//
// TestVerif_C02_LateResponse -- forwarded requests over the pooled inter-node
// connection: follower F forwards a read whose response is delayed beyond the
// caller's timeout (vnet write delay on the L->F direction), so the caller sees an
// error; the delay is removed, the late response is allowed to arrive, the
// registers are changed through the leader, and F (same cluster client, same
// pool) forwards further reads: each must return the current value of ITS key.

import (
	"context"
	"fmt"
	"os"
	"runtime"
	"strings"
	"sync"
	"testing"
	"time"

	"github.com/rqlite/rqlite/v10/command/proto"
	"github.com/rqlite/rqlite/v10/internal/verif/vnode"
	"github.com/rqlite/rqlite/v10/internal/verif/vstat"
	"pgregory.net/rapid"
)

func stuckDump(tag string) *time.Timer {
	return time.AfterFunc(150*time.Second, func() {
		buf := make([]byte, 8<<20)
		buf = buf[:runtime.Stack(buf, true)]
		os.WriteFile(fmt.Sprintf("/dev/shm/g9-%s-stuck-%d.txt", tag, os.Getpid()), buf, 0o644)
	})
}

type readOut struct {
	i     int
	rows  string
	err   error
	start time.Duration
	took  time.Duration
}

func linRead(ctx context.Context, n *vnode.Node, key int, req bool, lvl proto.ConsistencyLevel, lt time.Duration) (string, error) {
	q := fmt.Sprintf("SELECT v FROM r WHERE k=%d", key)
	if req {
		er := vnode.EQReq(lvl, q)
		er.LinearizableTimeout = int64(lt)
		resp, _, _, err := n.Store.Request(ctx, er)
		return vnode.RowsString(vnode.EQRows(resp)), err
	}
	qr := vnode.QueryReq(lvl, q)
	qr.LinearizableTimeout = int64(lt)
	rows, _, _, err := n.Store.Query(ctx, qr)
	return vnode.RowsString(rows), err
}

// ---------------------------------------------------------------------------

type xferCase struct {
	Lease   time.Duration // heartbeat = election = leader lease
	Target  int           // which follower receives leadership
	Mode    string        // deaf | isolate-after-stepdown
	Warm    int           // warm-up linearizable reads on L
	K       int           // readers fired at L after the write
	Spacing time.Duration
	Req     bool
}

func (c xferCase) String() string {
	return fmt.Sprintf("lease=%v target=%d mode=%s warm=%d k=%d spacing=%v req=%v", c.Lease, c.Target, c.Mode, c.Warm, c.K, c.Spacing, c.Req)
}

func TestVerif_C02_DeposedByTransfer(t *testing.T) {
	vnode.QuietLogs()
	vr := vstat.New(t, "C02", "transfer",
		"rapid: 3 voters, raft timeouts 1.5|2|3 s, warm-up linearizable reads on L, L deafened (inbound lost) or isolated right after Stepdown(false, F1|F2), write acknowledged by the new leader, k=2-6 linearizable reads at L every 0-100 ms; "+
			"non-trivial = the new leader acknowledged the write while L had not yet left leader state; distinct = the tuple")
	rapid.Check(t, func(rt *rapid.T) {
		c := xferCase{
			Lease:   time.Duration([]int{1500, 2000, 3000}[rapid.IntRange(0, 2).Draw(rt, "lease")]) * time.Millisecond,
			Target:  rapid.IntRange(0, 1).Draw(rt, "target"),
			Mode:    []string{"deaf", "deaf", "isolate-after-stepdown"}[rapid.IntRange(0, 2).Draw(rt, "mode")],
			Warm:    rapid.IntRange(1, 3).Draw(rt, "warm"),
			K:       rapid.IntRange(2, 6).Draw(rt, "k"),
			Spacing: time.Duration([]int{0, 10, 30, 100}[rapid.IntRange(0, 3).Draw(rt, "spacing")]) * time.Millisecond,
			Req:     rapid.Bool().Draw(rt, "req"),
		}
		dir, err := os.MkdirTemp("", "c02x-")
		if err != nil {
			vr.Label("inconclusive:tempdir")
			return
		}
		defer os.RemoveAll(dir)
		wd := stuckDump("c02x")
		defer wd.Stop()
		opts := vnode.Fast()
		opts.Heartbeat, opts.Election, opts.LeaderLease = c.Lease, c.Lease, c.Lease
		opts.Apply = 10 * time.Second
		cl := vnode.NewCluster(dir, opts)
		defer cl.Close()
		if err := cl.Form(3, 0); err != nil {
			vr.Label("inconclusive:form")
			return
		}
		l := cl.WaitLeader(waitLong)
		if l == nil {
			vr.Label("inconclusive:no-leader")
			return
		}
		var fs []*vnode.Node
		for _, n := range cl.Nodes {
			if n != l {
				fs = append(fs, n)
			}
		}
		f1 := fs[c.Target]
		ctx := context.Background()
		if resp, _, err := l.Store.Execute(ctx, vnode.Exec("CREATE TABLE r(k INTEGER PRIMARY KEY, v INTEGER)", "INSERT INTO r VALUES(1,1)")); err != nil || vnode.ExecErr(resp) != "" {
			vr.Label("inconclusive:setup")
			return
		}
		// followers caught up (the transfer then needs no replication round)
		deadline := time.Now().Add(waitLong)
		for _, n := range fs {
			for n.Store.DBAppliedIndex() < l.Store.DBAppliedIndex() && time.Now().Before(deadline) {
				time.Sleep(5 * time.Millisecond)
			}
		}
		// first read of the term is upgraded to a strong read; the following ones are genuine
		for i := 0; i < c.Warm+1; i++ {
			if got, err := linRead(ctx, l, 1, c.Req, proto.ConsistencyLevel_LINEARIZABLE, 10*time.Second); err != nil || got != "1" {
				vr.Label("inconclusive:warm-up-read")
				return
			}
		}
		// L stops hearing; leadership goes to F1 by transfer
		tDeaf := time.Now()
		if c.Mode == "deaf" {
			cl.Net.Deafen(l.Name)
		}
		if err := l.Store.Stepdown(false, f1.ID); err != nil {
			vr.Label("inconclusive:stepdown-call")
			return
		}
		if c.Mode == "isolate-after-stepdown" {
			time.Sleep(20 * time.Millisecond) // let TimeoutNow leave
			cl.Net.Isolate(l.Name)
		}
		var nl *vnode.Node
		for nl == nil {
			if time.Since(tDeaf) > 4*c.Lease {
				vr.Label("inconclusive:no-successor-in-time")
				vr.Case(false, c.String())
				return
			}
			for _, n := range fs {
				if n.Store.IsLeader() {
					nl = n
				}
			}
			time.Sleep(2 * time.Millisecond)
		}
		if resp, _, err := nl.Store.Execute(ctx, vnode.Exec("UPDATE r SET v=2 WHERE k=1")); err != nil || vnode.ExecErr(resp) != "" {
			vr.Label("inconclusive:successor-write")
			vr.Case(false, c.String())
			return
		}
		ackAfter := time.Since(tDeaf)
		oldStillLeader := l.Store.IsLeader()
		// reads at the deposed leader
		out := make([]readOut, c.K)
		var wg sync.WaitGroup
		t0 := time.Now()
		for i := 0; i < c.K; i++ {
			wg.Add(1)
			go func(i int) {
				defer wg.Done()
				time.Sleep(time.Duration(i) * c.Spacing)
				s := time.Now()
				rows, err := linRead(ctx, l, 1, c.Req, proto.ConsistencyLevel_LINEARIZABLE, 5*time.Second)
				out[i] = readOut{i, rows, err, s.Sub(t0), time.Since(s)}
			}(i)
		}
		wg.Wait()
		var desc []string
		for _, r := range out {
			if r.err != nil {
				desc = append(desc, fmt.Sprintf("#%d@%v ERR(%v) %v", r.i, r.start.Round(time.Millisecond), r.err, r.took.Round(time.Millisecond)))
				vr.Label("read-at-old-leader:error")
			} else {
				desc = append(desc, fmt.Sprintf("#%d@%v =%s %v", r.i, r.start.Round(time.Millisecond), r.rows, r.took.Round(time.Millisecond)))
				vr.Label("read-at-old-leader:rows")
			}
		}
		if oldStillLeader {
			vr.Label("premise:old-leader-still-in-leader-state-when-write-acked")
		} else {
			vr.Label("setup-missed:old-leader-already-stepped-down")
		}
		vr.Label("mode:" + c.Mode)
		vr.Case(oldStillLeader, c.String())
		vr.Sample(fmt.Sprintf("%s successor=%s wrote after %v oldStillLeader=%v reads: %s", c, nl.Name, ackAfter.Round(time.Millisecond), oldStillLeader, strings.Join(desc, "; ")))
		for _, r := range out {
			if r.err == nil && r.rows != "2" {
				sig := "C02/deposed-leader-served-linearizable-read"
				msg := fmt.Sprintf("linearizable read #%d on %s returned %q although leadership had been transferred to %s, which acknowledged v=2 (%v after %s stopped receiving messages) before the read began; reads: %s; case %s",
					r.i, l.Name, r.rows, nl.Name, ackAfter.Round(time.Millisecond), l.Name, strings.Join(desc, "; "), c)
				if vr.KnownHit(sig, msg) {
					return
				}
				rt.Fatalf("%s", vr.Violation(sig, "%s", msg))
			}
		}
	})
}

// ---------------------------------------------------------------------------

type lateCase struct {
	Timeout  time.Duration // forwarding timeout of the reads that are meant to time out
	Extra    time.Duration // L->F write delay = Timeout + Extra
	NTimeout int           // reads that time out (responses owed on pooled connections)
	Lvl      []proto.ConsistencyLevel
	Req      []bool
	Keys     []int // key of each later read
	Follower int
}

func (c lateCase) String() string {
	return fmt.Sprintf("timeout=%v extra=%v ntimeout=%d lvl=%v req=%v keys=%v follower=%d", c.Timeout, c.Extra, c.NTimeout, c.Lvl, c.Req, c.Keys, c.Follower)
}

func TestVerif_C02_LateResponse(t *testing.T) {
	vnode.QuietLogs()
	vr := vstat.New(t, "C02", "lateresp",
		"rapid: 3 voters; 1-2 forwarded reads from one follower time out on the forwarding node (timeout 200|300|400 ms, L->F write delay timeout+50..150 ms), delay removed, registers changed via the leader, 2-4 further reads (linearizable|strong, Query|Request, keys 1-3) forwarded by the same follower over its pooled connections; "+
			"non-trivial = at least one forwarded read timed out and at least one later forwarded read returned rows; distinct = the tuple")
	rapid.Check(t, func(rt *rapid.T) {
		c := lateCase{
			Timeout:  time.Duration([]int{200, 300, 400}[rapid.IntRange(0, 2).Draw(rt, "timeout")]) * time.Millisecond,
			Extra:    time.Duration([]int{50, 100, 150}[rapid.IntRange(0, 2).Draw(rt, "extra")]) * time.Millisecond,
			NTimeout: rapid.IntRange(1, 2).Draw(rt, "ntimeout"),
			Follower: rapid.IntRange(0, 1).Draw(rt, "follower"),
		}
		nLater := rapid.IntRange(2, 4).Draw(rt, "nlater")
		for i := 0; i < c.NTimeout+nLater; i++ {
			c.Lvl = append(c.Lvl, []proto.ConsistencyLevel{proto.ConsistencyLevel_LINEARIZABLE, proto.ConsistencyLevel_STRONG}[rapid.IntRange(0, 1).Draw(rt, "lvl")])
			c.Req = append(c.Req, rapid.Bool().Draw(rt, "req"))
			c.Keys = append(c.Keys, rapid.IntRange(1, 3).Draw(rt, "key"))
		}
		dir, err := os.MkdirTemp("", "c02l-")
		if err != nil {
			vr.Label("inconclusive:tempdir")
			return
		}
		defer os.RemoveAll(dir)
		wd := stuckDump("c02l")
		defer wd.Stop()
		opts := vnode.Fast()
		// leadership must survive a slow link to one follower
		opts.Heartbeat, opts.Election, opts.LeaderLease = 2*time.Second, 2*time.Second, 2*time.Second
		cl := vnode.NewCluster(dir, opts)
		defer cl.Close()
		if err := cl.Form(3, 0); err != nil {
			vr.Label("inconclusive:form")
			return
		}
		l := cl.WaitLeader(waitLong)
		if l == nil {
			vr.Label("inconclusive:no-leader")
			return
		}
		var fs []*vnode.Node
		for _, n := range cl.Nodes {
			if n != l {
				fs = append(fs, n)
			}
		}
		f := fs[c.Follower]
		ctx := context.Background()
		val := map[int]int{1: 10, 2: 20, 3: 30}
		if resp, _, err := l.Store.Execute(ctx, vnode.Exec("CREATE TABLE r(k INTEGER PRIMARY KEY, v INTEGER)", "INSERT INTO r VALUES(1,10),(2,20),(3,30)")); err != nil || vnode.ExecErr(resp) != "" {
			vr.Label("inconclusive:setup")
			return
		}
		fwd := func(i int, timeout time.Duration) (string, string, error) {
			q := fmt.Sprintf("SELECT v FROM r WHERE k=%d", c.Keys[i])
			if c.Req[i] {
				er := vnode.EQReq(c.Lvl[i], q)
				er.LinearizableTimeout = int64(5 * time.Second)
				resp, _, _, addr, err := f.Proxy.Request(ctx, er, nil, timeout, 0, false)
				return vnode.RowsString(vnode.EQRows(resp)), addr, err
			}
			qr := vnode.QueryReq(c.Lvl[i], q)
			qr.LinearizableTimeout = int64(5 * time.Second)
			rows, _, addr, err := f.Proxy.Query(ctx, qr, nil, timeout, 0, false)
			return vnode.RowsString(rows), addr, err
		}
		// a warm forwarded read so that the follower's pool has a connection (and the term its strong read)
		if got, _, err := fwd(0, 5*time.Second); err != nil || got != fmt.Sprint(val[c.Keys[0]]) {
			vr.Label("inconclusive:warm-forward")
			return
		}
		delay := c.Timeout + c.Extra                 // per write; the client re-arms its deadline for each part of the response
		cl.Net.SetDelayOneWay(l.Name, f.Name, delay) // only what the leader sends to F is slow: requests arrive, responses are late
		timedOut := 0
		var desc []string
		for i := 0; i < c.NTimeout; i++ {
			rows, _, err := fwd(i, c.Timeout)
			if err != nil {
				timedOut++
				desc = append(desc, fmt.Sprintf("t%d k%d ERR(%v)", i, c.Keys[i], err))
			} else {
				// slower machine than expected: the read got through; it must still be correct
				desc = append(desc, fmt.Sprintf("t%d k%d =%s", i, c.Keys[i], rows))
				if rows != fmt.Sprint(val[c.Keys[i]]) {
					rt.Fatalf("%s", vr.Violation("C02/forwarded-read-wrong-value", "forwarded read of key %d returned %q, current value %d; %s", c.Keys[i], rows, val[c.Keys[i]], strings.Join(desc, "; ")))
				}
			}
		}
		cl.Net.SetDelayOneWay(l.Name, f.Name, 0)
		// let the late responses arrive, then change every register through the leader
		time.Sleep(3*delay + 200*time.Millisecond)
		wl := cl.WaitLeader(waitLong)
		if wl == nil {
			vr.Label("inconclusive:no-leader-after-delay")
			return
		}
		for k := 1; k <= 3; k++ {
			val[k] += 1000 * k // distinct new values, also distinct across keys
		}
		if resp, _, err := wl.Store.Execute(ctx, vnode.Exec(
			fmt.Sprintf("UPDATE r SET v=%d WHERE k=1", val[1]), fmt.Sprintf("UPDATE r SET v=%d WHERE k=2", val[2]), fmt.Sprintf("UPDATE r SET v=%d WHERE k=3", val[3]))); err != nil || vnode.ExecErr(resp) != "" {
			vr.Label("inconclusive:register-update")
			return
		}
		gotRows := 0
		for i := c.NTimeout; i < len(c.Keys); i++ {
			rows, addr, err := fwd(i, 5*time.Second)
			if err != nil {
				desc = append(desc, fmt.Sprintf("r%d k%d ERR(%v)", i, c.Keys[i], err))
				vr.Label("later-read:error")
				continue
			}
			gotRows++
			via := "forwarded"
			if addr == "api-"+f.Name {
				via = "local"
			}
			vr.Label("later-read:rows:" + via)
			desc = append(desc, fmt.Sprintf("r%d k%d =%s", i, c.Keys[i], rows))
			if rows != fmt.Sprint(val[c.Keys[i]]) {
				sig := "C02/forwarded-read-returned-another-requests-result"
				msg := fmt.Sprintf("read of key %d at level %s forwarded by %s returned %q, but %d had been acknowledged for that key before the read began (an earlier forwarded read had timed out on %s and its response arrived later); sequence: %s; case %s",
					c.Keys[i], c.Lvl[i], f.Name, rows, val[c.Keys[i]], f.Name, strings.Join(desc, "; "), c)
				if vr.KnownHit(sig, msg) {
					return
				}
				rt.Fatalf("%s", vr.Violation(sig, "%s", msg))
			}
		}
		vr.LabelN("forwarded-reads-timed-out", timedOut)
		vr.Case(timedOut > 0 && gotRows > 0, c.String())
		vr.Sample(fmt.Sprintf("%s :: %s", c, strings.Join(desc, "; ")))
	})
}

// ---------------------------------------------------------------------------
// TestVerif_C02_CleanClose -- a forwarded write whose inter-node connection is
// closed CLEANLY by the leader's side (FIN: the forwarding node reads io.EOF)
// after the leader has read and executed the command and before the response
// gets back; connectivity stays up, so a re-send would succeed. Follower F
// forwards counter increments through Proxy.Execute / Proxy.Request; the leader's
// responses to F are delayed one-way, and at a generated moment inside that
// delay the leader-side end of the connection is closed.
//
// Oracle: after every step and at the end, acknowledged <= counter <= invoked
// (an increment takes effect at most once, an acknowledged one exactly once).

type closeCase struct {
	Follower int
	Delay    time.Duration   // one-way write delay L->F
	CloseAt  []time.Duration // per increment: when to close after the call started (0 = do not close)
	Req      []bool
}

func (c closeCase) String() string {
	return fmt.Sprintf("follower=%d delay=%v closeAt=%v req=%v", c.Follower, c.Delay, c.CloseAt, c.Req)
}

func TestVerif_C02_CleanClose(t *testing.T) {
	vnode.QuietLogs()
	vr := vstat.New(t, "C02", "cleanclose",
		"rapid: 3 voters; 4-8 sequential increments forwarded by one follower (Execute|Request), leader->follower write delay 200|300|400 ms, per increment the leader-side end of the forwarding connection is closed cleanly 20-80% into the delay (or not at all); "+
			"non-trivial = at least one forwarded increment had its connection closed while the response was owed; distinct = the tuple")
	rapid.Check(t, func(rt *rapid.T) {
		c := closeCase{Follower: rapid.IntRange(0, 1).Draw(rt, "follower"),
			Delay: time.Duration([]int{200, 300, 400}[rapid.IntRange(0, 2).Draw(rt, "delay")]) * time.Millisecond}
		n := rapid.IntRange(4, 8).Draw(rt, "n")
		for i := 0; i < n; i++ {
			pct := []int{0, 20, 35, 50, 65, 80}[rapid.IntRange(0, 5).Draw(rt, "closepct")]
			c.CloseAt = append(c.CloseAt, c.Delay*time.Duration(pct)/100)
			c.Req = append(c.Req, rapid.Bool().Draw(rt, "req"))
		}
		dir, err := os.MkdirTemp("", "c02c-")
		if err != nil {
			vr.Label("inconclusive:tempdir")
			return
		}
		defer os.RemoveAll(dir)
		wd := stuckDump("c02c")
		defer wd.Stop()
		opts := vnode.Fast()
		opts.Heartbeat, opts.Election, opts.LeaderLease = 2*time.Second, 2*time.Second, 2*time.Second
		cl := vnode.NewCluster(dir, opts)
		defer cl.Close()
		if err := cl.Form(3, 0); err != nil {
			vr.Label("inconclusive:form")
			return
		}
		l := cl.WaitLeader(waitLong)
		if l == nil {
			vr.Label("inconclusive:no-leader")
			return
		}
		var fs []*vnode.Node
		for _, nn := range cl.Nodes {
			if nn != l {
				fs = append(fs, nn)
			}
		}
		f := fs[c.Follower]
		ctx := context.Background()
		if resp, _, err := l.Store.Execute(ctx, vnode.Exec("CREATE TABLE r(k INTEGER PRIMARY KEY, v INTEGER)", "INSERT INTO r VALUES(2,0)")); err != nil || vnode.ExecErr(resp) != "" {
			vr.Label("inconclusive:setup")
			return
		}
		counter := func() (int64, bool) {
			wl := cl.WaitLeader(waitLong)
			if wl == nil {
				return 0, false
			}
			rows, _, _, err := wl.Store.Query(ctx, vnode.QueryReq(proto.ConsistencyLevel_STRONG, "SELECT v FROM r WHERE k=2"))
			if err != nil {
				return 0, false
			}
			var v int64
			if _, err := fmt.Sscan(vnode.RowsString(rows), &v); err != nil {
				return 0, false
			}
			return v, true
		}
		const sql = "UPDATE r SET v=v+1 WHERE k=2"
		incr := func(req bool) error {
			if req {
				resp, _, _, _, err := f.Proxy.Request(ctx, vnode.EQReq(proto.ConsistencyLevel_WEAK, sql), nil, 5*time.Second, 0, false)
				if err == nil && vnode.ExecErr(resp) != "" {
					err = fmt.Errorf("%s", vnode.ExecErr(resp))
				}
				return err
			}
			resp, _, _, err := f.Proxy.Execute(ctx, vnode.Exec(sql), nil, 5*time.Second, 0, false)
			if err == nil && vnode.ExecErr(resp) != "" {
				err = fmt.Errorf("%s", vnode.ExecErr(resp))
			}
			return err
		}
		// warm forwarded increment: the follower's pool now holds a connection
		invoked, acked := int64(0), int64(0)
		invoked++
		if err := incr(false); err != nil {
			vr.Label("inconclusive:warm-forward")
			return
		}
		acked++
		cl.Net.SetDelayOneWay(l.Name, f.Name, c.Delay)
		closedOwed := 0
		var desc []string
		for i := range c.CloseAt {
			if cl.LeaderNow() != l {
				vr.Label("inconclusive:leadership-moved")
				break
			}
			done := make(chan error, 1)
			invoked++
			go func(i int) { done <- incr(c.Req[i]) }(i)
			nClosed := 0
			if c.CloseAt[i] > 0 {
				time.Sleep(c.CloseAt[i])
				nClosed = cl.Net.CloseAccepted(l.Name, f.Name)
			}
			err := <-done
			if err == nil {
				acked++
			}
			if nClosed > 0 {
				closedOwed++
			}
			desc = append(desc, fmt.Sprintf("incr#%d closeAt=%v closedConns=%d err=%v", i, c.CloseAt[i], nClosed, err))
			if v, ok := counter(); ok && (v > invoked || v < acked) {
				sig := "C02/increment-applied-more-than-once"
				if v < acked {
					sig = "C02/acknowledged-increment-lost"
				}
				msg := fmt.Sprintf("counter = %d after %d invoked / %d acknowledged forwarded increments; the leader-side end of the forwarding connection was closed cleanly while responses were owed (connectivity never cut); steps: %s; case %s",
					v, invoked, acked, strings.Join(desc, "; "), c)
				if vr.KnownHit(sig, msg) {
					return
				}
				rt.Fatalf("%s", vr.Violation(sig, "%s", msg))
			}
		}
		vr.LabelN("increments-with-connection-closed", closedOwed)
		vr.LabelN("increments-acknowledged", int(acked))
		vr.LabelN("increments-unknown", int(invoked-acked))
		vr.Case(closedOwed > 0, c.String())
		vr.Sample(fmt.Sprintf("%s :: %s", c, strings.Join(desc, "; ")))
	})
}
