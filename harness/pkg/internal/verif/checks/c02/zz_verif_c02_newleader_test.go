package c02

// C02, targeted shape: "a linearizable read never misses a write acknowledged
// before the read began, including the first read served by a newly elected
// leader".
//
// Scenario (3 voters on vnet, 1 s raft timeouts so that leadership survives the
// injected delays; generated: which follower lags, how many writes it misses,
// link delays d and D, number k of concurrent readers, their stagger and API
// path):
//
//  1. follower F2 is cut off; m writes are acknowledged by leader L (quorum
//     L+F1); the last one, W, is written while the link L<->F1 has write delay
//     d, and L is partitioned away the moment W is acknowledged -- so F1 holds W
//     in its log but has (usually) not yet learned that W is committed;
//  2. F1 and F2 are reconnected over a link with write delay D. F1 wins the
//     election; the first entry of its term can only commit after F2 has caught
//     up (several delayed round trips), while a heartbeat needs one round trip;
//  3. as soon as F1 reports leadership, k linearizable reads of W's key are
//     fired concurrently at F1.
//
// Oracle: every read that returns rows returns W's value (W was acknowledged
// before any read began); reads may block or fail. The premise "F1's commit
// index was still below W's index when the reads were fired" is recorded as a
// label; cases without it are judged all the same.

import (
	"context"
	"fmt"
	"os"
	"runtime"
	"strings"
	"sync"
	"testing"
	"time"

	"github.com/rqlite/rqlite/v10/command/proto"
	"github.com/rqlite/rqlite/v10/internal/verif/vnode"
	"github.com/rqlite/rqlite/v10/internal/verif/vstat"
	"pgregory.net/rapid"
)

type nlCase struct {
	LagSel  int // which follower lags
	Missed  int // writes F2 misses (>=1; the last is W)
	DL      time.Duration
	DF      time.Duration
	K       int
	Stagger []time.Duration
	Req     []bool
}

func (c nlCase) String() string {
	return fmt.Sprintf("lag=%d missed=%d d=%v D=%v k=%d stagger=%v req=%v", c.LagSel, c.Missed, c.DL, c.DF, c.K, c.Stagger, c.Req)
}

func TestVerif_C02_NewLeaderReads(t *testing.T) {
	vnode.QuietLogs()
	vr := vstat.New(t, "C02", "newleader",
		"rapid: 3 voters; lagging follower choice, 1-4 missed writes, L-F1 delay 30|50 ms, F1-F2 delay 60|100|150 ms, k=2-6 concurrent linearizable reads (stagger 0-200 ms, Query|Request) fired at the new leader the moment it is elected; "+
			"non-trivial = the new leader's commit index was below the acknowledged write when the reads were fired and at least two reads returned rows or errors; distinct = the tuple")
	rapid.Check(t, func(rt *rapid.T) {
		c := nlCase{
			LagSel: rapid.IntRange(0, 1).Draw(rt, "lag"),
			Missed: rapid.IntRange(1, 4).Draw(rt, "missed"),
			DL:     time.Duration([]int{30, 50}[rapid.IntRange(0, 1).Draw(rt, "dl")]) * time.Millisecond,
			DF:     time.Duration([]int{60, 100, 150}[rapid.IntRange(0, 2).Draw(rt, "df")]) * time.Millisecond,
			K:      rapid.IntRange(2, 6).Draw(rt, "k"),
		}
		for i := 0; i < c.K; i++ {
			st := time.Duration([]int{0, 5, 20, 50, 100, 200}[rapid.IntRange(0, 5).Draw(rt, "stagger")]) * time.Millisecond
			if i == 0 {
				st = 0
			}
			c.Stagger = append(c.Stagger, st)
			c.Req = append(c.Req, rapid.Bool().Draw(rt, "req"))
		}
		dir, err := os.MkdirTemp("", "c02nl-")
		if err != nil {
			vr.Label("inconclusive:tempdir")
			return
		}
		defer os.RemoveAll(dir)
		wd := time.AfterFunc(150*time.Second, func() {
			buf := make([]byte, 8<<20)
			buf = buf[:runtime.Stack(buf, true)]
			os.WriteFile(fmt.Sprintf("/dev/shm/g9-c02nl-stuck-%d.txt", os.Getpid()), buf, 0o644)
		})
		defer wd.Stop()
		opts := vnode.Fast()
		opts.Heartbeat, opts.Election, opts.LeaderLease = time.Second, time.Second, time.Second
		opts.Apply = 20 * time.Second
		cl := vnode.NewCluster(dir, opts)
		defer cl.Close()
		if err := cl.Form(3, 0); err != nil {
			vr.Label("inconclusive:form")
			return
		}
		l := cl.WaitLeader(waitLong)
		if l == nil {
			vr.Label("inconclusive:no-leader")
			return
		}
		var fs []*vnode.Node
		for _, n := range cl.Nodes {
			if n != l {
				fs = append(fs, n)
			}
		}
		f2 := fs[c.LagSel]   // lags
		f1 := fs[1-c.LagSel] // will become leader
		ctx := context.Background()
		if resp, _, err := l.Store.Execute(ctx, vnode.Exec("CREATE TABLE r(k INTEGER PRIMARY KEY, v INTEGER)", "INSERT INTO r VALUES(1,0)")); err != nil || vnode.ExecErr(resp) != "" {
			vr.Label("inconclusive:setup")
			return
		}
		// everybody in sync, then F2 drops out
		deadline := time.Now().Add(waitLong)
		for _, n := range fs {
			for n.Store.DBAppliedIndex() < l.Store.DBAppliedIndex() && time.Now().Before(deadline) {
				time.Sleep(5 * time.Millisecond)
			}
		}
		cl.Net.Isolate(f2.Name)
		val := 0
		write := func() (uint64, error) {
			val++
			resp, idx, err := l.Store.Execute(ctx, vnode.Exec(fmt.Sprintf("INSERT OR REPLACE INTO r(k,v) VALUES(1,%d)", val)))
			if err == nil && vnode.ExecErr(resp) != "" {
				err = fmt.Errorf("%s", vnode.ExecErr(resp))
			}
			return idx, err
		}
		for i := 0; i < c.Missed-1; i++ {
			if _, err := write(); err != nil {
				vr.Label("inconclusive:write")
				return
			}
		}
		cl.Net.SetDelay(l.Name, f1.Name, c.DL)
		cl.Net.SetDelay(f1.Name, f2.Name, c.DF)
		wIdx, err := write()
		if err != nil {
			vr.Label("inconclusive:write-W")
			return
		}
		acked := val
		// W is acknowledged: the old leader disappears at once, F1 and F2 can talk again (slowly)
		cl.Net.Partition([]string{l.Name}, []string{f1.Name, f2.Name})
		tCut := time.Now()
		for !f1.Store.IsLeader() {
			if time.Since(tCut) > 25*time.Second {
				vr.Label("inconclusive:f1-not-elected")
				return
			}
			if f2.Store.IsLeader() {
				vr.Label("inconclusive:f2-elected") // impossible unless W reached F2; not the shape
				return
			}
			time.Sleep(2 * time.Millisecond)
		}
		electedAfter := time.Since(tCut)
		ci, _ := f1.Store.CommitIndex()
		premise := ci < wIdx

		type res struct {
			i    int
			rows string
			err  error
			took time.Duration
		}
		out := make([]res, c.K)
		var wg sync.WaitGroup
		t0 := time.Now()
		for i := 0; i < c.K; i++ {
			wg.Add(1)
			go func(i int) {
				defer wg.Done()
				time.Sleep(c.Stagger[i])
				s := time.Now()
				const q = "SELECT v FROM r WHERE k=1"
				if c.Req[i] {
					er := vnode.EQReq(proto.ConsistencyLevel_LINEARIZABLE, q)
					er.LinearizableTimeout = int64(20 * time.Second)
					resp, _, _, err := f1.Store.Request(ctx, er)
					out[i] = res{i, vnode.RowsString(vnode.EQRows(resp)), err, time.Since(s)}
					return
				}
				qr := vnode.QueryReq(proto.ConsistencyLevel_LINEARIZABLE, q)
				qr.LinearizableTimeout = int64(20 * time.Second)
				rows, _, _, err := f1.Store.Query(ctx, qr)
				out[i] = res{i, vnode.RowsString(rows), err, time.Since(s)}
			}(i)
		}
		wg.Wait()
		_ = t0
		var desc []string
		nRows, nErr := 0, 0
		for _, r := range out {
			if r.err != nil {
				nErr++
				desc = append(desc, fmt.Sprintf("#%d ERR(%v) %v", r.i, r.err, r.took.Round(time.Millisecond)))
			} else {
				nRows++
				desc = append(desc, fmt.Sprintf("#%d =%s %v", r.i, r.rows, r.took.Round(time.Millisecond)))
			}
		}
		if premise {
			vr.Label("premise:new-leader-commit-index-behind-W")
		} else {
			vr.Label("setup-missed:new-leader-already-knew-W-committed")
		}
		vr.LabelN("reads-rows", nRows)
		vr.LabelN("reads-error", nErr)
		vr.Case(premise && nRows+nErr >= 2, c.String())
		vr.Sample(fmt.Sprintf("%s elected after %v premise=%v reads: %s", c, electedAfter.Round(time.Millisecond), premise, strings.Join(desc, "; ")))
		for _, r := range out {
			if r.err == nil && r.rows != fmt.Sprint(acked) {
				sig := "C02/new-leader-linearizable-read-missed-acked-write"
				msg := fmt.Sprintf("linearizable read #%d on the newly elected leader %s returned %q, but value %d (raft index %d) had been acknowledged by the previous leader before any read began; new leader's commit index was %d when the reads were fired (%v after the old leader was cut off); all reads: %s; case %s",
					r.i, f1.Name, r.rows, acked, wIdx, ci, electedAfter.Round(time.Millisecond), strings.Join(desc, "; "), c)
				if vr.KnownHit(sig, msg) {
					return
				}
				rt.Fatalf("%s", vr.Violation(sig, "%s", msg))
			}
		}
	})
}
