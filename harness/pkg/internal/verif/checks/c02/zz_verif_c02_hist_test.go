package c02

// C02: the client-visible history of acknowledged writes and of reads at
// linearizable/strong level is linearizable w.r.t. one sequential database,
// under leader changes, partitions, delays, connection resets and node
// crash/restart.
//
// Generator (all choices through rapid): a 3- or 5-voter vnode cluster; 3-4
// client goroutines with pre-generated op lists (register writes with unique
// values on keys 0,1; increments on counter key 2; reads at linearizable or
// strong level; Execute/Query or unified Request path; addressed to a generated
// node and going through proxy forwarding); a nemesis goroutine executing a
// generated schedule of <= 6 faults with generated pauses. The interleaving of
// the goroutines is the schedule dimension and is not replayable.
//
// Oracles:
//  1. porcupine, per-key model (register / counter). A write whose outcome the
//     client does not know (any error) is "possibly applied": return time =
//     infinity and any output accepted. Failed reads are dropped. A porcupine
//     timeout is inconclusive.
//  2. direct ("a deposed leader never serves such a read"): a linearizable or
//     strong read served by node X must not return rows if X had no quorum
//     connectivity from before the call until after the return AND a monitor saw
//     another node as leader with a successful VerifyLeader between the start of
//     X's isolation and the call.
//  3. direct (classification aid, implied by 1): a counter read never exceeds
//     the number of increments invoked before the read returned.

import (
	"context"
	"fmt"
	"math"
	"os"
	"runtime"
	"sort"
	"strconv"
	"strings"
	"sync"
	"testing"
	"time"

	"github.com/anishathalye/porcupine"
	"github.com/rqlite/rqlite/v10/command/proto"
	"github.com/rqlite/rqlite/v10/internal/verif/vnode"
	"github.com/rqlite/rqlite/v10/internal/verif/vstat"
	"pgregory.net/rapid"
)

const (
	nKeys      = 3
	counterKey = 2
	infTime    = int64(math.MaxInt64 / 4)
	waitLong   = 20 * time.Second
)

type opKind int

const (
	kWrite opKind = iota
	kIncr
	kReadLin
	kReadStrong
)

func (k opKind) String() string { return [...]string{"write", "incr", "read-lin", "read-strong"}[k] }

type cop struct {
	Kind  opKind
	Key   int
	Node  int // index into the node list (mod number of nodes)
	Req   bool
	Sleep time.Duration
}

type fault struct {
	Kind  string
	Arg   int
	After time.Duration
}

func (f fault) String() string { return fmt.Sprintf("%s(%d)+%v", f.Kind, f.Arg, f.After) }

var faultKinds = []string{"isolate-leader", "isolate-node", "split", "heal", "stepdown", "crash", "crash-leader", "restart", "delay", "flap", "flap-leader", "isolate-leader",
	"reset", "reset-leader", "reset-storm", "delay"}

var flakyKinds = []string{"delay", "reset-storm", "reset-storm-leader", "reset-storm-follower", "reset-storm-follower", "reset", "reset-leader", "stepdown", "delay-leader", "delay-follower"}

type plan struct {
	Flaky   bool // transport-flakiness profile: delays and connection resets only, more increments
	Size    int
	Clients [][]cop
	Faults  []fault
}

func genPlan(rt *rapid.T) plan {
	p := plan{Size: []int{3, 3, 5}[rapid.IntRange(0, 2).Draw(rt, "size")], Flaky: rapid.IntRange(0, 1).Draw(rt, "profile") == 0}
	nc := rapid.IntRange(3, 4).Draw(rt, "clients")
	perClient := rapid.IntRange(12, vstat.Scale(24, 26)).Draw(rt, "opsPerClient")
	for c := 0; c < nc; c++ {
		var ops []cop
		for i := 0; i < perClient; i++ {
			k := opKind(rapid.IntRange(0, 3).Draw(rt, "kind"))
			if p.Flaky && k == kWrite && rapid.Bool().Draw(rt, "moreincr") {
				k = kIncr
			}
			key := rapid.IntRange(0, 1).Draw(rt, "key")
			if k == kIncr {
				key = counterKey
			} else if k != kWrite && rapid.IntRange(0, 2).Draw(rt, "ckey") == 0 {
				key = counterKey
			}
			ops = append(ops, cop{Kind: k, Key: key, Node: rapid.IntRange(0, 4).Draw(rt, "node"), Req: rapid.Bool().Draw(rt, "req"),
				Sleep: time.Duration([]int{0, 10, 30, 60, 100, 150, 250}[rapid.IntRange(0, 6).Draw(rt, "sleep")]) * time.Millisecond})
		}
		p.Clients = append(p.Clients, ops)
	}
	nf := rapid.IntRange(1, 6).Draw(rt, "nfaults")
	if p.Flaky {
		// a slow leader link first: requests stay in flight long enough for resets to hit them
		// a slow link at one follower first (requests forwarded by it stay in flight longer), then
		// resets of that follower's connections; the same Arg selects the same follower
		a0 := rapid.IntRange(0, 31).Draw(rt, "arg0")
		p.Faults = append(p.Faults, fault{Kind: "delay-follower", Arg: a0, After: 40 * time.Millisecond})
		p.Faults = append(p.Faults, fault{Kind: "reset-storm-follower", Arg: a0,
			After: time.Duration([]int{40, 120, 250, 400}[rapid.IntRange(0, 3).Draw(rt, "after1")]) * time.Millisecond})
		if nf < 3 {
			nf = 3
		}
		nf -= 2
	}
	for i := 0; i < nf; i++ {
		kinds := faultKinds
		if p.Flaky {
			kinds = flakyKinds
		}
		p.Faults = append(p.Faults, fault{Kind: kinds[rapid.IntRange(0, len(kinds)-1).Draw(rt, "fault")],
			Arg: rapid.IntRange(0, 31).Draw(rt, "arg"), After: time.Duration([]int{40, 120, 250, 400, 600, 900}[rapid.IntRange(0, 5).Draw(rt, "after")]) * time.Millisecond})
	}
	return p
}

func (p plan) String() string {
	var sb strings.Builder
	fmt.Fprintf(&sb, "size=%d flaky=%v faults=%v", p.Size, p.Flaky, p.Faults)
	for i, c := range p.Clients {
		fmt.Fprintf(&sb, " c%d=[", i)
		for _, o := range c {
			fmt.Fprintf(&sb, "%s/k%d/n%d/%v ", o.Kind, o.Key, o.Node, o.Req)
		}
		sb.WriteString("]")
	}
	return sb.String()
}

// ---- recorded history ----

type rec struct {
	Client   int
	Kind     opKind
	Key      int
	Val      int64 // written value (write) / returned value (read)
	Call     int64
	Ret      int64
	OK       bool // acknowledged (writes) / rows returned (reads)
	Node     string
	ServedBy string // node name that produced the rows (reads)
	Err      string
}

func (r rec) String() string {
	res := "ok"
	if !r.OK {
		res = "ERR(" + r.Err + ")"
	}
	return fmt.Sprintf("[c%d %s k%d v=%d @%s by=%s %dus..%dus %s]", r.Client, r.Kind, r.Key, r.Val, r.Node, r.ServedBy, r.Call/1000, r.Ret/1000, res)
}

type world struct {
	c      *vnode.Cluster
	start  time.Time
	mu     sync.Mutex // guards hist, intervals, noQuorum
	hist   []rec
	nodeMu map[string]*sync.RWMutex // local ops hold RLock; crash/restart hold Lock
	upMu   sync.RWMutex
	up     map[string]bool
	nodes  map[string]*vnode.Node // current incarnation per endpoint (guarded by upMu)

	noQuorum  map[string]int64      // node -> since when (ns) it has had no quorum connectivity
	intervals map[string][][2]int64 // closed no-quorum intervals
	faultLog  []string
	leaderHit []int64            // times of faults that removed/moved the leader
	verified  map[string][]int64 // node -> times at which the monitor saw it as leader AND VerifyLeader had succeeded
}

func (w *world) now() int64 { return int64(time.Since(w.start)) }

func (w *world) isUp(name string) bool {
	w.upMu.RLock()
	defer w.upMu.RUnlock()
	return w.up[name]
}

// quorumless computes the nodes whose connected component (over up nodes and
// uncut links in both directions) is smaller than a majority of the cluster.
func (w *world) quorumless(size int) map[string]bool {
	names := make([]string, 0, size)
	for i := 0; i < size; i++ {
		names = append(names, fmt.Sprintf("n%d", i))
	}
	out := map[string]bool{}
	for _, a := range names {
		if !w.isUp(a) {
			continue
		}
		// direct reachability matters for raft (no routing): count nodes a can talk to directly
		direct := 1
		for _, b := range names {
			if b != a && w.isUp(b) && !w.c.Net.Blocked(a, b) && !w.c.Net.Blocked(b, a) {
				direct++
			}
		}
		if direct < size/2+1 {
			out[a] = true
		}
	}
	return out
}

// around wraps a connectivity-changing action: closes open no-quorum intervals
// before it and opens new ones after it.
func (w *world) around(size int, action func()) {
	t0 := w.now()
	w.mu.Lock()
	for n, since := range w.noQuorum {
		w.intervals[n] = append(w.intervals[n], [2]int64{since, t0})
	}
	w.noQuorum = map[string]int64{}
	w.mu.Unlock()
	action()
	ql := w.quorumless(size)
	t1 := w.now()
	w.mu.Lock()
	for n := range ql {
		w.noQuorum[n] = t1
	}
	w.mu.Unlock()
}

func (w *world) node(name string) *vnode.Node {
	w.upMu.RLock()
	defer w.upMu.RUnlock()
	return w.nodes[name]
}

func (w *world) doOp(client int, seq int, o cop, size int, valBase int64) {
	name := fmt.Sprintf("n%d", o.Node%size)
	if !w.isUp(name) {
		// pick the next node that is up
		for i := 1; i < size; i++ {
			alt := fmt.Sprintf("n%d", (o.Node+i)%size)
			if w.isUp(alt) {
				name = alt
				break
			}
		}
	}
	mu := w.nodeMu[name]
	mu.RLock()
	defer mu.RUnlock()
	if !w.isUp(name) {
		return
	}
	n := w.node(name)
	ctx, cancel := context.WithTimeout(context.Background(), 6*time.Second)
	defer cancel()
	r := rec{Client: client, Kind: o.Kind, Key: o.Key, Node: name}
	const fwdTimeout = 3 * time.Second
	switch o.Kind {
	case kWrite, kIncr:
		var sql string
		if o.Kind == kWrite {
			r.Val = valBase + int64(seq)
			sql = fmt.Sprintf("INSERT OR REPLACE INTO r(k,v) VALUES(%d,%d)", o.Key, r.Val)
		} else {
			sql = fmt.Sprintf("UPDATE r SET v=v+1 WHERE k=%d", o.Key)
		}
		r.Call = w.now()
		var err error
		var stmtErr string
		if o.Req {
			var resp []*proto.ExecuteQueryResponse
			resp, _, _, _, err = n.Proxy.Request(ctx, vnode.EQReq(proto.ConsistencyLevel_WEAK, sql), nil, fwdTimeout, 0, false)
			stmtErr = vnode.ExecErr(resp)
		} else {
			var resp []*proto.ExecuteQueryResponse
			resp, _, _, err = n.Proxy.Execute(ctx, vnode.Exec(sql), nil, fwdTimeout, 0, false)
			stmtErr = vnode.ExecErr(resp)
		}
		r.Ret = w.now()
		r.OK = err == nil && stmtErr == ""
		if err != nil {
			r.Err = err.Error()
		} else if stmtErr != "" {
			r.Err = "stmt: " + stmtErr
		}
	case kReadLin, kReadStrong:
		lvl := proto.ConsistencyLevel_LINEARIZABLE
		if o.Kind == kReadStrong {
			lvl = proto.ConsistencyLevel_STRONG
		}
		sql := fmt.Sprintf("SELECT v FROM r WHERE k=%d", o.Key)
		r.Call = w.now()
		var rows []*proto.QueryRows
		var addr string
		var err error
		if o.Req {
			er := vnode.EQReq(lvl, sql)
			er.LinearizableTimeout = int64(2 * time.Second)
			var resp []*proto.ExecuteQueryResponse
			resp, _, _, addr, err = n.Proxy.Request(ctx, er, nil, fwdTimeout, 0, false)
			rows = vnode.EQRows(resp)
		} else {
			qr := vnode.QueryReq(lvl, sql)
			qr.LinearizableTimeout = int64(2 * time.Second)
			rows, _, addr, err = n.Proxy.Query(ctx, qr, nil, fwdTimeout, 0, false)
		}
		r.Ret = w.now()
		if err != nil {
			r.Err = err.Error()
		} else if len(rows) != 1 || rows[0].GetError() != "" {
			r.Err = "rows: " + vnode.RowsString(rows)
		} else {
			s := vnode.RowsString(rows)
			v, perr := strconv.ParseInt(s, 10, 64)
			if perr != nil {
				r.Err = "unparsable " + s
			} else {
				r.OK, r.Val = true, v
			}
			if addr == "api-"+name {
				r.ServedBy = name
			} else {
				r.ServedBy = w.c.Net.NodeAt(addr)
			}
		}
	}
	w.mu.Lock()
	w.hist = append(w.hist, r)
	w.mu.Unlock()
}

func (w *world) runFault(f fault, size int) {
	time.Sleep(f.After)
	names := make([]string, size)
	for i := range names {
		names[i] = fmt.Sprintf("n%d", i)
	}
	leaderName := func() string {
		for _, nm := range names {
			if w.isUp(nm) {
				if n := w.node(nm); n != nil && n.Store.IsLeader() {
					return nm
				}
			}
		}
		return ""
	}
	pick := names[f.Arg%size]
	follower := func() string { // the (Arg mod #followers)-th live non-leader
		l := leaderName()
		var fs []string
		for _, nm := range names {
			if nm != l && w.isUp(nm) {
				fs = append(fs, nm)
			}
		}
		if len(fs) == 0 {
			return pick
		}
		return fs[f.Arg%len(fs)]
	}
	desc := f.Kind
	markLeader := func() {
		w.mu.Lock()
		w.leaderHit = append(w.leaderHit, w.now())
		w.mu.Unlock()
	}
	crash := func(nm string) {
		if !w.isUp(nm) {
			return
		}
		// keep a majority of processes alive so that the run makes progress
		upCount := 0
		for _, x := range names {
			if w.isUp(x) {
				upCount++
			}
		}
		if upCount-1 < size/2+1 {
			desc += "(skipped:would-lose-majority)"
			return
		}
		w.nodeMu[nm].Lock()
		w.upMu.Lock()
		w.up[nm] = false
		w.upMu.Unlock()
		w.c.Crash(w.node(nm))
		w.nodeMu[nm].Unlock()
		desc += " " + nm
	}
	switch f.Kind {
	case "isolate-leader", "flap-leader":
		l := leaderName()
		if l == "" {
			desc += "(no leader)"
			break
		}
		markLeader()
		w.around(size, func() { w.c.Net.Isolate(l) })
		desc += " " + l
		if f.Kind == "flap-leader" {
			time.Sleep(time.Duration(10+f.Arg*3) * time.Millisecond)
			w.around(size, func() { w.c.Net.Heal() })
		}
	case "isolate-node", "flap":
		if pick == leaderName() {
			markLeader()
		}
		w.around(size, func() { w.c.Net.Isolate(pick) })
		desc += " " + pick
		if f.Kind == "flap" {
			time.Sleep(time.Duration(10+f.Arg*3) * time.Millisecond)
			w.around(size, func() { w.c.Net.Heal() })
		}
	case "split":
		// minority group chosen by the bits of Arg; may contain the leader
		var a, b []string
		for i, nm := range names {
			if len(a) < (size-1)/2 && (f.Arg>>uint(i))&1 == 1 {
				a = append(a, nm)
			} else {
				b = append(b, nm)
			}
		}
		if len(a) == 0 {
			a, b = []string{names[f.Arg%size]}, nil
			for _, nm := range names {
				if nm != a[0] {
					b = append(b, nm)
				}
			}
		}
		l := leaderName()
		for _, x := range a {
			if x == l {
				markLeader()
			}
		}
		w.around(size, func() { w.c.Net.Partition(a, b) })
		desc += " " + strings.Join(a, ",") + "|" + strings.Join(b, ",")
	case "heal":
		w.around(size, func() { w.c.Net.Heal() })
	case "stepdown":
		l := leaderName()
		if l == "" {
			desc += "(no leader)"
			break
		}
		markLeader()
		err := w.node(l).Store.Stepdown(true, "")
		desc += fmt.Sprintf(" %s err=%v", l, err)
	case "crash":
		if pick == leaderName() {
			markLeader()
		}
		w.around(size, func() { crash(pick) })
	case "crash-leader":
		l := leaderName()
		if l == "" {
			desc += "(no leader)"
			break
		}
		markLeader()
		w.around(size, func() { crash(l) })
	case "restart":
		w.around(size, func() {
			for _, nm := range names {
				if !w.isUp(nm) {
					w.nodeMu[nm].Lock()
					if n2, err := w.c.Restart(w.node(nm)); err == nil {
						w.upMu.Lock()
						w.up[nm] = true
						w.nodes[nm] = n2
						w.upMu.Unlock()
						desc += " " + nm
					} else {
						desc += " " + nm + "!" + err.Error()
					}
					w.nodeMu[nm].Unlock()
				}
			}
		})
	case "reset":
		// connection reset without loss of connectivity: established connections of one node break
		w.c.Net.DropNode(pick)
		desc += " " + pick
	case "reset-leader":
		if l := leaderName(); l != "" {
			w.c.Net.DropNode(l)
			desc += " " + l
		}
	case "reset-storm", "reset-storm-leader", "reset-storm-follower":
		if f.Kind == "reset-storm-leader" {
			if l := leaderName(); l != "" {
				pick = l
			}
		}
		if f.Kind == "reset-storm-follower" {
			pick = follower()
		}
		// a flaky link: the node's connections are reset every 15-105 ms for a while
		n := 6 + f.Arg%10
		for i := 0; i < n; i++ {
			w.c.Net.DropNode(pick)
			time.Sleep(time.Duration(15+(f.Arg*7)%90) * time.Millisecond)
		}
		desc += fmt.Sprintf(" %s x%d", pick, n)
	case "delay", "delay-leader", "delay-follower":
		if f.Kind == "delay-leader" {
			if l := leaderName(); l != "" {
				pick = l
			}
		}
		if f.Kind == "delay-follower" {
			pick = follower()
		}
		d := time.Duration(5+f.Arg) * time.Millisecond
		for _, nm := range names {
			if nm != pick {
				w.c.Net.SetDelay(pick, nm, d)
			}
		}
		desc += fmt.Sprintf(" %s %v", pick, d)
	}
	w.mu.Lock()
	w.faultLog = append(w.faultLog, fmt.Sprintf("%dms:%s", w.now()/1e6, desc))
	w.mu.Unlock()
}

// ---- porcupine model ----

type pin struct {
	Kind opKind
	Key  int
	Val  int64
}
type pout struct {
	Val     int64
	Unknown bool
}

var model = porcupine.Model{
	Partition: func(h []porcupine.Operation) [][]porcupine.Operation {
		parts := make([][]porcupine.Operation, nKeys)
		for _, o := range h {
			k := o.Input.(pin).Key
			parts[k] = append(parts[k], o)
		}
		return parts
	},
	Init: func() interface{} { return int64(0) },
	Step: func(state, input, output interface{}) (bool, interface{}) {
		s, in, out := state.(int64), input.(pin), output.(pout)
		switch in.Kind {
		case kWrite:
			return true, in.Val
		case kIncr:
			return true, s + 1
		default:
			return out.Val == s, s
		}
	},
	Equal: func(a, b interface{}) bool { return a.(int64) == b.(int64) },
	DescribeOperation: func(input, output interface{}) string {
		in, out := input.(pin), output.(pout)
		switch in.Kind {
		case kWrite:
			return fmt.Sprintf("w(k%d,%d)", in.Key, in.Val)
		case kIncr:
			return fmt.Sprintf("incr(k%d)", in.Key)
		}
		return fmt.Sprintf("r(k%d)=%d", in.Key, out.Val)
	},
}

func toOps(h []rec) []porcupine.Operation {
	var ops []porcupine.Operation
	for _, r := range h {
		switch r.Kind {
		case kWrite, kIncr:
			o := porcupine.Operation{ClientId: r.Client, Input: pin{r.Kind, r.Key, r.Val}, Call: r.Call, Output: pout{}, Return: r.Ret}
			if !r.OK {
				o.Return = infTime
				o.Output = pout{Unknown: true}
			}
			ops = append(ops, o)
		default:
			if r.OK {
				ops = append(ops, porcupine.Operation{ClientId: r.Client, Input: pin{r.Kind, r.Key, 0}, Call: r.Call, Output: pout{Val: r.Val}, Return: r.Ret})
			}
		}
	}
	return ops
}

func keyHistory(h []rec, key int) string {
	var hs []rec
	for _, r := range h {
		if r.Key == key && (r.OK || r.Kind == kWrite || r.Kind == kIncr) {
			hs = append(hs, r)
		}
	}
	sort.Slice(hs, func(i, j int) bool { return hs[i].Call < hs[j].Call })
	var sb strings.Builder
	for _, r := range hs {
		sb.WriteString(r.String())
		sb.WriteString(" ")
	}
	return sb.String()
}

func TestVerif_C02_Hist(t *testing.T) {
	vnode.QuietLogs()
	vr := vstat.New(t, "C02", "hist",
		"rapid plans: 3|5 voters, 3-4 concurrent clients x 12-26 ops (register writes, counter increments, linearizable/strong reads; Execute/Query or Request path; any node, proxy forwarding), "+
			"nemesis schedule of 1-6 faults (isolate leader/node, minority split, heal, stepdown, crash/crash-leader/restart, link delay, flaps, connection resets and reset storms); "+
			"non-trivial = a fault hit the leader while clients were running and a later linearizable read succeeded; distinct = the plan")
	rapid.Check(t, func(rt *rapid.T) {
		p := genPlan(rt)
		dir, err := os.MkdirTemp("", "c02-")
		if err != nil {
			vr.Label("inconclusive:tempdir")
			return
		}
		defer os.RemoveAll(dir)
		// diagnostics only: if a case is stuck for 150 s, leave the goroutine stacks behind
		wd := time.AfterFunc(150*time.Second, func() {
			buf := make([]byte, 8<<20)
			buf = buf[:runtime.Stack(buf, true)]
			os.WriteFile(fmt.Sprintf("/dev/shm/g9-c02-stuck-%d.txt", os.Getpid()), buf, 0o644)
		})
		defer wd.Stop()
		opts := vnode.Fast()
		opts.Apply = 3 * time.Second
		opts.ClientTimeout = 3 * time.Second
		w := &world{c: vnode.NewCluster(dir, opts), nodeMu: map[string]*sync.RWMutex{}, up: map[string]bool{}, nodes: map[string]*vnode.Node{},
			noQuorum: map[string]int64{}, intervals: map[string][][2]int64{}, verified: map[string][]int64{}}
		defer w.c.Close()
		if err := w.c.Form(p.Size, 0); err != nil {
			vr.Label("inconclusive:form")
			return
		}
		for _, n := range w.c.Nodes {
			w.nodeMu[n.Name] = &sync.RWMutex{}
			w.up[n.Name] = true
			w.nodes[n.Name] = n
		}
		l := w.c.WaitLeader(waitLong)
		if l == nil {
			vr.Label("inconclusive:no-leader")
			return
		}
		setup := []string{"CREATE TABLE r(k INTEGER PRIMARY KEY, v INTEGER)"}
		for k := 0; k < nKeys; k++ {
			setup = append(setup, fmt.Sprintf("INSERT INTO r VALUES(%d,0)", k))
		}
		if resp, _, err := l.Store.Execute(context.Background(), vnode.Exec(setup...)); err != nil || vnode.ExecErr(resp) != "" {
			vr.Label("inconclusive:setup")
			return
		}
		w.start = time.Now()
		var wg sync.WaitGroup
		for ci, ops := range p.Clients {
			wg.Add(1)
			go func(ci int, ops []cop) {
				defer wg.Done()
				for i, o := range ops {
					time.Sleep(o.Sleep)
					w.doOp(ci, i+1, o, p.Size, int64(ci+1)*1000)
				}
			}(ci, ops)
		}
		clientsDone := make(chan struct{})
		go func() { wg.Wait(); close(clientsDone) }()
		// monitor: records when some node is a quorum-verified leader (used to decide "deposed")
		monStop := make(chan struct{})
		var mwg sync.WaitGroup
		mwg.Add(1)
		go func() {
			defer mwg.Done()
			for {
				select {
				case <-monStop:
					return
				case <-time.After(15 * time.Millisecond):
				}
				for i := 0; i < p.Size; i++ {
					nm := fmt.Sprintf("n%d", i)
					mu := w.nodeMu[nm]
					mu.RLock()
					if w.isUp(nm) {
						if n := w.node(nm); n.Store.IsLeader() && n.Store.VerifyLeader() == nil {
							t := w.now()
							w.mu.Lock()
							w.verified[nm] = append(w.verified[nm], t)
							w.mu.Unlock()
						}
					}
					mu.RUnlock()
				}
			}
		}()
		var nwg sync.WaitGroup
		nwg.Add(1)
		go func() {
			defer nwg.Done()
			for _, f := range p.Faults {
				select {
				case <-clientsDone:
					w.mu.Lock()
					w.faultLog = append(w.faultLog, "(clients finished before "+f.Kind+")")
					w.mu.Unlock()
					return
				default:
				}
				w.runFault(f, p.Size)
			}
		}()
		nwg.Wait()
		<-clientsDone
		clientsEnd := w.now()
		close(monStop)
		mwg.Wait()

		// final phase: heal, restart everything, final strong reads
		w.around(p.Size, func() {
			w.c.Net.Heal()
			for i := 0; i < p.Size; i++ {
				nm := fmt.Sprintf("n%d", i)
				if !w.isUp(nm) {
					if n2, err := w.c.Restart(w.node(nm)); err == nil {
						w.upMu.Lock()
						w.up[nm] = true
						w.nodes[nm] = n2
						w.upMu.Unlock()
					}
				}
			}
		})
		finalOK := false
		if w.c.WaitAgreed(waitLong) {
			if fl := w.c.WaitLeader(waitLong); fl != nil {
				finalOK = true
				for k := 0; k < nKeys; k++ {
					w.doOp(99, k, cop{Kind: kReadStrong, Key: k, Node: 0}, p.Size, 0)
				}
			}
		}
		if !finalOK {
			vr.Label("inconclusive:final-agreement")
		}

		// ---- evaluate ----
		w.mu.Lock()
		hist := append([]rec(nil), w.hist...)
		faultLog := strings.Join(w.faultLog, "; ")
		w.mu.Unlock()
		nOK, nUnknownW, nFailedR, nLinOK := 0, 0, 0, 0
		var lastLinOK int64 = -1
		for _, r := range hist {
			switch {
			case r.OK:
				nOK++
				if r.Kind == kReadLin {
					nLinOK++
					if r.Call > lastLinOK {
						lastLinOK = r.Call
					}
				}
			case r.Kind == kWrite || r.Kind == kIncr:
				nUnknownW++
			default:
				nFailedR++
			}
		}
		nontrivial := false
		for _, t0 := range w.leaderHit {
			if t0 < clientsEnd && lastLinOK > t0 {
				nontrivial = true
			}
		}
		vr.Case(nontrivial, p.String())
		vr.LabelN("ops-ok", nOK)
		vr.LabelN("writes-unknown", nUnknownW)
		vr.LabelN("reads-failed", nFailedR)
		vr.LabelN("lin-reads-ok", nLinOK)
		if len(w.leaderHit) > 0 {
			vr.Label("leader-hit")
		}
		if p.Flaky {
			vr.Label("profile:flaky-transport")
		} else {
			vr.Label("profile:general")
		}
		for _, f := range p.Faults {
			vr.Label("fault:" + f.Kind)
		}
		vr.Sample(fmt.Sprintf("size=%d ops=%d ok=%d unknownW=%d failedR=%d faults: %s", p.Size, len(hist), nOK, nUnknownW, nFailedR, faultLog))

		fail := func(sig, format string, args ...any) {
			msg := fmt.Sprintf(format, args...) + " || faults: " + faultLog
			if vr.KnownHit(sig, fmt.Sprintf(format, args...)) {
				return
			}
			rt.Fatalf("%s", vr.Violation(sig, "%s", msg))
		}

		// oracle 2: reads served by a deposed leader. X lacks quorum connectivity during iv; another
		// node Y was leader and had VerifyLeader succeed at a time m with iv.start <= m <= read.Call.
		// Y's quorum then is in a term in which Y leads, X cannot have been elected since iv.start,
		// so X's term is older: X is deposed when the read begins. (A read served right after the cut
		// without a verified successor is only counted: hashicorp/raft may still count heartbeat
		// acknowledgements that were in flight when the link broke.)
		for _, r := range hist {
			if !r.OK || (r.Kind != kReadLin && r.Kind != kReadStrong) || r.ServedBy == "" {
				continue
			}
			for _, iv := range w.intervals[r.ServedBy] {
				if r.Call >= iv[0] && r.Ret <= iv[1] {
					deposedBy, at := "", int64(0)
					for y, ts := range w.verified {
						if y == r.ServedBy {
							continue
						}
						for _, m := range ts {
							if m >= iv[0] && m <= r.Call && (deposedBy == "" || m < at) {
								deposedBy, at = y, m
							}
						}
					}
					if deposedBy == "" {
						vr.Label("observed:read-served-after-cut-before-successor")
						continue
					}
					fail("C02/read-served-by-deposed-leader-"+r.Kind.String(),
						"%s returned rows although serving node %s could not reach a quorum during [%dus,%dus] (covers the whole read) and %s was a quorum-verified leader at %dus, before the read began",
						r, r.ServedBy, iv[0]/1000, iv[1]/1000, deposedBy, at/1000)
				}
			}
		}
		// oracle 3: counter never exceeds the increments invoked so far
		for _, r := range hist {
			if !r.OK || r.Key != counterKey || (r.Kind != kReadLin && r.Kind != kReadStrong) {
				continue
			}
			invoked := int64(0)
			for _, x := range hist {
				if x.Kind == kIncr && x.Call <= r.Ret {
					invoked++
				}
			}
			if r.Val > invoked {
				fail("C02/increment-applied-more-than-once", "%s returned %d but only %d increments had been invoked by then; counter history: %s", r, r.Val, invoked, keyHistory(hist, counterKey))
			}
		}
		// oracle 1: porcupine
		res := porcupine.CheckOperationsTimeout(model, toOps(hist), 30*time.Second)
		switch res {
		case porcupine.Unknown:
			vr.Label("inconclusive:porcupine-timeout")
		case porcupine.Illegal:
			for k := 0; k < nKeys; k++ {
				var part []rec
				for _, r := range hist {
					if r.Key == k {
						part = append(part, r)
					}
				}
				if porcupine.CheckOperationsTimeout(model, toOps(part), 30*time.Second) == porcupine.Illegal {
					kind := "register"
					if k == counterKey {
						kind = "counter"
					}
					fail("C02/not-linearizable-"+kind, "history of key %d is not linearizable: %s", k, keyHistory(hist, k))
				}
			}
		}
	})
}
