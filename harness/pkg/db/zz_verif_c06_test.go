package db

// C06: incremental WAL segments stay correct under busy and partial checkpoints.
//
// A schedule of write transactions, reader start/stop and checkpoint attempts is
// run against a real WAL-mode database opened the way the store opens it
// (OpenSwappable, default driver). Checkpoint attempts go through
// SwappableDB.Checkpoint(w, timeout) and follow the store's rule: the bytes
// written to w are a snapshot segment iff err == nil, otherwise they are thrown
// away. A mirror database starts as a copy of the database file at the initial
// full snapshot; every kept segment is checkpointed into it by SQLite itself
// (raw driver). At every successful attempt the mirror must equal the live
// database (logical dump, and file bytes since all pages have been moved).
// WAL resets are observed independently by reading the salt of the WAL header
// before every attempt.

import (
	"bytes"
	"context"
	"database/sql"
	"database/sql/driver"
	"encoding/binary"
	"errors"
	"fmt"
	"os"
	"path/filepath"
	"reflect"
	"strings"
	"testing"
	"time"

	command "github.com/rqlite/rqlite/v10/command/proto"
	"github.com/rqlite/rqlite/v10/internal/verif/vsql"
	"github.com/rqlite/rqlite/v10/internal/verif/vstat"
	"pgregory.net/rapid"
)

type c06Reader struct {
	kind   string // "raw" (BEGIN + SELECT on an independent read-only connection) or "stall" (rqlite ForceStall query)
	raw    *sql.DB
	cancel context.CancelFunc
	done   chan struct{}
}

type c06Env struct {
	dir     string
	path    string
	sdb     *SwappableDB
	mirror  string
	readers map[int]*c06Reader
	rnd     uint64
	nextK   int
}

func (e *c06Env) blob(n int) []byte {
	b := make([]byte, n)
	for i := range b {
		if i%8 == 0 {
			e.rnd ^= e.rnd << 13
			e.rnd ^= e.rnd >> 7
			e.rnd ^= e.rnd << 17
		}
		b[i] = byte(e.rnd >> (8 * uint(i%8)))
	}
	return b
}

func c06Stmt(sqlText string, args ...any) *command.Statement {
	st := &command.Statement{Sql: sqlText}
	for _, a := range args {
		switch v := a.(type) {
		case int:
			st.Parameters = append(st.Parameters, &command.Parameter{Value: &command.Parameter_I{I: int64(v)}})
		case []byte:
			st.Parameters = append(st.Parameters, &command.Parameter{Value: &command.Parameter_Y{Y: v}})
		case string:
			st.Parameters = append(st.Parameters, &command.Parameter{Value: &command.Parameter_S{S: v}})
		}
	}
	return st
}

// exec runs statements in one transaction through rqlite's execute path.
// It returns the first statement-level error text ("" if none).
func (e *c06Env) exec(tx bool, stmts ...*command.Statement) (string, error) {
	res, err := e.sdb.Execute(&command.Request{Transaction: tx, Statements: stmts}, false)
	if err != nil {
		return "", err
	}
	for _, r := range res {
		if er := r.GetE(); er != nil && er.Error != "" {
			return er.Error, nil
		}
		if r.GetError() != "" {
			return r.GetError(), nil
		}
	}
	return "", nil
}

func (e *c06Env) stopReader(id int) {
	r := e.readers[id]
	if r == nil {
		return
	}
	delete(e.readers, id)
	switch r.kind {
	case "raw":
		r.raw.Exec("ROLLBACK")
		r.raw.Close()
	case "stall":
		r.cancel()
		<-r.done
	}
}

func (e *c06Env) close() {
	for id := range e.readers {
		e.stopReader(id)
	}
	if e.sdb != nil {
		e.sdb.Close()
	}
	os.RemoveAll(e.dir)
}

func c06ReadSalt(walPath string) (salt [2]uint32, size int64, err error) {
	f, err := os.Open(walPath)
	if err != nil {
		return salt, 0, err
	}
	defer f.Close()
	st, err := f.Stat()
	if err != nil {
		return salt, 0, err
	}
	if st.Size() < 32 {
		return salt, st.Size(), nil
	}
	var h [32]byte
	if _, err := f.ReadAt(h[:], 0); err != nil {
		return salt, st.Size(), err
	}
	return [2]uint32{binary.BigEndian.Uint32(h[16:]), binary.BigEndian.Uint32(h[20:])}, st.Size(), nil
}

// c06ApplySegment lets SQLite checkpoint a segment into the mirror database.
func c06ApplySegment(mirror string, seg []byte) error {
	for _, sfx := range []string{"-wal", "-shm"} {
		os.Remove(mirror + sfx)
	}
	if err := os.WriteFile(mirror+"-wal", seg, 0o644); err != nil {
		return err
	}
	db, err := vsql.Open(mirror)
	if err != nil {
		return fmt.Errorf("open mirror with segment: %w", err)
	}
	var busy, nlog, nckpt int
	err = db.QueryRow("PRAGMA wal_checkpoint(TRUNCATE)").Scan(&busy, &nlog, &nckpt)
	cerr := db.Close()
	if err != nil {
		return fmt.Errorf("checkpoint segment into mirror: %w", err)
	}
	if busy != 0 {
		return fmt.Errorf("checkpoint of segment into mirror busy")
	}
	return cerr
}

func c06Dump(path string, params ...string) (string, error) {
	db, err := vsql.Open(path, params...)
	if err != nil {
		return "", err
	}
	defer db.Close()
	return vsql.DumpDB(db)
}

// c06SegFrames counts the frames in a segment image (header fields only).
func c06SegFrames(seg []byte) int {
	if len(seg) < 32 {
		return -1
	}
	ps := int(binary.BigEndian.Uint32(seg[8:]))
	if ps == 0 {
		return -1
	}
	return (len(seg) - 32) / (24 + ps)
}

type c06Attempt struct {
	kept, failed, partial bool // kept(rc==0 or all-moved), failed (err), partial = kept but WAL not truncated
	writesBefore          int  // number of write steps executed before this attempt
}

func c06FirstLineDiff(a, b string) string {
	la, lb := strings.Split(a, "\n"), strings.Split(b, "\n")
	for i := 0; i < len(la) && i < len(lb); i++ {
		if la[i] != lb[i] {
			return fmt.Sprintf("line %d: mirror %q live %q (mirror %d lines, live %d lines)", i, c06Trunc(la[i]), c06Trunc(lb[i]), len(la), len(lb))
		}
	}
	return fmt.Sprintf("mirror %d lines, live %d lines", len(la), len(lb))
}

func c06Trunc(s string) string {
	if len(s) > 80 {
		return s[:80] + "..."
	}
	return s
}

// c06WriteConnCheck guards the precondition everything in C06 rests on: SQLite
// never checkpoints on its own. rqlite establishes it with PRAGMA
// wal_autocheckpoint=0 on the single read-write connection. Two parts:
//   - the setting as seen through the read-write pool right now must be 0;
//   - if the pool is configured so that database/sql may replace that connection
//     (idle time or lifetime limit), a connection opened exactly the way the pool
//     would open a replacement (same driver, same DSN) must carry the setting too.
//
// Returns a description of the problem, or "".
func c06WriteConnCheck(d *DB) (problem string, introspected bool) {
	if n, err := d.GetCheckpointing(); err == nil && n != 0 {
		return fmt.Sprintf("PRAGMA wal_autocheckpoint on the read-write connection is %d, not 0", n), true
	}
	v := reflect.ValueOf(d.rwDB).Elem()
	idle, life := v.FieldByName("maxIdleTime"), v.FieldByName("maxLifetime")
	if !idle.IsValid() || !life.IsValid() || idle.Kind() != reflect.Int64 || life.Kind() != reflect.Int64 {
		return "", false
	}
	if idle.Int() <= 0 && life.Int() <= 0 {
		return "", true // the pool keeps its connection for ever
	}
	conn, err := d.rwDB.Driver().Open(d.rwDSN)
	if err != nil {
		return "", false
	}
	defer conn.Close()
	q, ok := conn.(driver.QueryerContext)
	if !ok {
		return "", false
	}
	rows, err := q.QueryContext(context.Background(), "PRAGMA wal_autocheckpoint", nil)
	if err != nil {
		return "", false
	}
	defer rows.Close()
	dest := make([]driver.Value, 1)
	if err := rows.Next(dest); err != nil {
		return "", false
	}
	if n, ok := dest[0].(int64); ok && n != 0 {
		return fmt.Sprintf("the read-write pool may replace its connection (max idle time %s, max lifetime %s) and a replacement connection has wal_autocheckpoint=%d: SQLite will checkpoint and restart the WAL behind the checkpoint manager's back", time.Duration(idle.Int()), time.Duration(life.Int()), n), true
	}
	return "", true
}

func TestVerif_C06_Schedules(t *testing.T) {
	rec := vstat.New(t, "C06", "schedules",
		"schedules of up to 16 (thorough 28) steps over a WAL-mode database opened with OpenSwappable: write transaction (insert 1-300 rows / update / delete / big transaction that fails and is rolled back, optionally with a small page cache so that it spills to the WAL), start reader (independent read-only connection holding BEGIN+SELECT, or an rqlite ForceStall query), stop reader, incremental checkpoint attempt SwappableDB.Checkpoint(w, timeout) with the store's keep rule (segment kept iff err==nil; skipped when the WAL file is empty, as the store does), occasional full attempt Checkpoint(nil) that re-bases the mirror. Every schedule ends with all readers stopped and a final attempt. Non-trivial = an attempt that failed or moved all pages without truncating the WAL, followed by write(s) and a later kept attempt. Distinct = the operation sequence with the outcome of each attempt.")
	maxSteps := vstat.Scale(16, 28)
	root := t.TempDir()
	caseNo := 0
	rapid.Check(t, func(rt *rapid.T) {
		caseNo++
		dir := filepath.Join(root, fmt.Sprintf("c%d", caseNo))
		if err := os.MkdirAll(dir, 0o755); err != nil {
			rt.Skipf("mkdir: %v", err)
		}
		e := &c06Env{dir: dir, path: filepath.Join(dir, "live.db"), mirror: filepath.Join(dir, "mirror.db"), readers: map[int]*c06Reader{}}
		defer e.close()
		e.rnd = rapid.Uint64().Draw(rt, "payload-seed") | 1
		sdb, err := OpenSwappable(e.path, nil, false, true, 0)
		if err != nil {
			rt.Skipf("open: %v", err)
		}
		e.sdb = sdb
		walPath := e.path + "-wal"
		if problem, ok := c06WriteConnCheck(sdb.db); problem != "" {
			rt.Fatalf("%s", rec.Violation("C06/sqlite-may-checkpoint-on-its-own", "%s", problem))
		} else if !ok {
			rec.Label("skip:pool-introspection-unavailable")
		}
		var ops []string
		note := func(format string, a ...any) { ops = append(ops, fmt.Sprintf(format, a...)) }

		// several tables so that different write transactions can touch disjoint pages
		// (a frame lost from a segment is only visible if no later write rewrites its page)
		if msg, err := e.exec(false,
			c06Stmt("CREATE TABLE t(id INTEGER PRIMARY KEY, k INT, v BLOB)"), c06Stmt("CREATE INDEX t_k ON t(k)"),
			c06Stmt("CREATE TABLE t1(id INTEGER PRIMARY KEY, k INT, v BLOB)"),
			c06Stmt("CREATE TABLE t2(id INTEGER PRIMARY KEY, k INT, v BLOB)"),
			c06Stmt("CREATE TABLE t3(id INTEGER PRIMARY KEY, k INT, v BLOB)")); err != nil || msg != "" {
			rt.Skipf("schema: %v %s", err, msg)
		}
		tables := []string{"t", "t1", "t2", "t3"}
		if rapid.IntRange(0, 5).Draw(rt, "small-cache") == 0 {
			// a small page cache makes big transactions spill to the WAL before they end
			e.exec(false, c06Stmt("PRAGMA cache_size=5"))
			note("cache=5")
		}
		nInit := rapid.IntRange(0, 20).Draw(rt, "initial-rows")
		var init []*command.Statement
		for i := 0; i < nInit; i++ {
			init = append(init, c06Stmt("INSERT INTO t(k,v) VALUES(?,?)", e.nextK, e.blob(30)))
			e.nextK++
		}
		for _, tb := range tables[1:] {
			init = append(init, c06Stmt("INSERT INTO "+tb+"(k,v) VALUES(?,?)", e.nextK, e.blob(20)))
			e.nextK++
		}
		if len(init) > 0 {
			e.exec(true, init...)
		}
		note("init(%d)", nInit)

		// initial full snapshot: Checkpoint(nil) must truncate the WAL, the mirror is the database file
		rebase := func(to time.Duration) error {
			meta, _, err := sdb.Checkpoint(nil, to)
			if err != nil {
				return err
			}
			if meta != nil && !meta.Success() {
				return fmt.Errorf("not successful: %s", meta)
			}
			for _, sfx := range []string{"", "-wal", "-shm"} {
				os.Remove(e.mirror + sfx)
			}
			return vsql.CopyFile(e.path, e.mirror)
		}
		if err := rebase(2 * time.Second); err != nil {
			rt.Skipf("initial full snapshot: %v", err)
		}

		// model of what an observer knows: was the previous kept attempt one that
		// left the WAL in place (all pages moved, not truncated), and with which salt
		armed := false
		armedFrames := 0
		var armedSalt [2]uint32
		var attempts []c06Attempt
		writes := 0
		needFull := false
		sawOpenTxError := false
		var violation func() // set when an oracle fails

		fail := func(sig, format string, a ...any) {
			msg := fmt.Sprintf(format, a...) + " :: " + strings.Join(ops, " ")
			violation = func() { rt.Fatalf("%s", rec.Violation(sig, "%s", msg)) }
		}

		compare := func(kind string, resumed, reset bool) {
			md, err := c06Dump(e.mirror)
			if err != nil {
				fail("C06/mirror-unreadable", "mirror database unreadable after applying segments: %v", err)
				return
			}
			ld, err := c06Dump(e.path, "mode=ro")
			if err != nil {
				rec.Label("skip:live-dump-error")
				return
			}
			shape := "from-start"
			if resumed {
				shape = "resumed"
			} else if reset {
				shape = "after-reset"
			}
			if md != ld {
				fail("C06/mirror-diverges/"+shape, "after a %s attempt the database rebuilt from base + kept segments differs from the live database: %s", kind, c06FirstLineDiff(md, ld))
				return
			}
			mb, err1 := os.ReadFile(e.mirror)
			lb, err2 := os.ReadFile(e.path)
			if err1 == nil && err2 == nil {
				// every frame of the WAL has been moved into the live file at a kept
				// attempt, so the two files must agree byte for byte
				if bytes.Equal(mb, lb) {
					rec.Label("success:file-bytes-equal")
				} else {
					fail("C06/mirror-bytes-differ/"+shape, "after a %s attempt the rebuilt database has the same logical content but different file bytes than the live database file (%d vs %d bytes)", kind, len(mb), len(lb))
				}
			}
		}

		attempt := func(final bool) {
			if needFull {
				to := 15 * time.Millisecond
				if len(e.readers) == 0 {
					to = 2 * time.Second
				}
				if err := rebase(to); err != nil {
					note("full:fail")
					rec.Label("attempt:full-failed")
					attempts = append(attempts, c06Attempt{failed: true, writesBefore: writes})
					return
				}
				note("full:ok")
				rec.Label("attempt:full-ok")
				needFull = false
				armed = false
				attempts = append(attempts, c06Attempt{kept: true, writesBefore: writes})
				compare("full", false, false)
				return
			}
			salt, size, err := c06ReadSalt(walPath)
			if err != nil {
				rec.Label("skip:wal-unreadable")
				return
			}
			if size == 0 {
				// the store returns ErrNoWALToSnapshot without calling Checkpoint
				note("ckpt:nowal")
				rec.Label("attempt:skipped-empty-wal")
				return
			}
			expectReset := armed && salt != armedSalt
			resumed := armed && salt == armedSalt
			to := 15 * time.Millisecond
			if len(e.readers) == 0 {
				to = 2 * time.Second
			}
			var seg bytes.Buffer
			meta, _, err := sdb.Checkpoint(&seg, to)
			if expectReset {
				armed = false // whatever happens next, the old resume point refers to a WAL that no longer exists
				rec.Label("attempt:wal-reset-since-armed")
				if meta != nil && !meta.WALReset {
					fail("C06/reset-not-reported", "WAL salt changed from %v to %v since the attempt that left the WAL in place, but WALReset=false (%s, err=%v)", armedSalt, salt, meta, err)
					return
				}
			}
			if err != nil {
				// store: walWriter.Cancel() - the segment is thrown away
				a := c06Attempt{failed: true, writesBefore: writes}
				attempts = append(attempts, a)
				switch {
				case errors.Is(err, ErrDatabaseCheckpointBusy):
					note("ckpt:busy")
					rec.Label("attempt:busy(partial-move)")
					if resumed && meta != nil && meta.Moved > armedFrames && meta.Moved < meta.Pages {
						rec.Label("attempt:busy-while-resuming(moved-past-resume-point)")
					}
					if len(e.readers) == 0 {
						rec.Label("attempt:busy-without-reader")
					}
				case strings.Contains(err.Error(), "open transaction"):
					note("ckpt:open-tx-error")
					rec.Label("attempt:error-open-transaction(C05 class)")
					sawOpenTxError = true
				default:
					note("ckpt:error")
					rec.Label("attempt:error-other")
					rt.Logf("checkpoint error: %v", err)
				}
				return
			}
			if meta == nil {
				fail("C06/nil-meta", "Checkpoint returned neither error nor meta")
				return
			}
			// kept segment
			a := c06Attempt{kept: true, writesBefore: writes}
			kind := "truncating"
			if meta.Code != 0 {
				// SQLITE_BUSY with every frame moved: WAL stays, next attempt resumes or detects a reset
				a.partial = true
				kind = "all-moved-not-truncated"
				if meta.Moved != meta.Pages {
					fail("C06/kept-but-not-all-moved", "attempt returned err=nil with %s", meta)
					return
				}
				armed, armedSalt, armedFrames = true, salt, meta.Pages
				rec.Label("attempt:kept(all-moved,not-truncated)")
			} else {
				armed = false
				rec.Label("attempt:kept(truncated)")
			}
			if resumed {
				rec.Label("attempt:kept-after-resume")
			}
			if expectReset {
				rec.Label("attempt:kept-after-reset")
				if a.partial {
					rec.Label("attempt:kept-after-reset(wal-left-in-place-again)")
				}
			}
			attempts = append(attempts, a)
			nf := c06SegFrames(seg.Bytes())
			note("ckpt:%s(%df)", map[bool]string{false: "ok", true: "partial"}[a.partial], nf)
			if nf == 0 {
				rec.Label("segment:header-only")
			}
			if err := c06ApplySegment(e.mirror, seg.Bytes()); err != nil {
				fail("C06/segment-rejected", "SQLite cannot apply kept segment (%d bytes, %d frames): %v", seg.Len(), nf, err)
				return
			}
			compare(kind, resumed, expectReset)
			_ = final
		}

		nSteps := rapid.IntRange(3, maxSteps).Draw(rt, "nsteps")
		for step := 0; step < nSteps && violation == nil; step++ {
			op := rapid.SampledFrom([]string{"write", "write", "write", "write", "write", "start", "start", "start", "stop", "stop", "stopall", "ckpt", "ckpt", "ckpt", "ckpt", "start+ckpt", "start+ckpt"}).Draw(rt, "op")
			alsoCkpt := false
			steer := "none"
			if armed {
				steer = rapid.SampledFrom([]string{"none", "none", "none", "release-write", "handover", "handover", "reset-rearm", "reset-rearm"}).Draw(rt, "armed-steer")
			}
			if steer == "release-write" {
				// the WAL was left in place by the previous attempt: once every reader
				// is gone the next write restarts the WAL from the beginning (new salt)
				for id := 0; id < 3; id++ {
					e.stopReader(id)
				}
				note("stopall")
				op = "write"
			}
			if steer == "reset-rearm" {
				// the WAL was left in place (possibly a long generation): every reader leaves,
				// a small write restarts the WAL, a new reader pins the end of the new, short
				// generation, the attempt detects the reset and again leaves the WAL in place;
				// then another small write is appended. The next kept attempt must resume at
				// the end of the *new* generation, not at the old one's resume index.
				for id := 0; id < 3; id++ {
					e.stopReader(id)
				}
				ta := rapid.IntRange(0, len(tables)-1).Draw(rt, "rearm-table-a")
				tb := (ta + 1 + rapid.IntRange(0, len(tables)-2).Draw(rt, "rearm-table-b")) % len(tables)
				writes++
				e.exec(true, c06Stmt("INSERT INTO "+tables[ta]+"(k,v) VALUES(?,?)", e.nextK, e.blob(12)))
				e.nextK++
				if raw, err := vsql.Open(e.path, "mode=ro"); err == nil {
					var n int
					_, err1 := raw.Exec("BEGIN")
					err2 := raw.QueryRow("SELECT count(*) FROM t").Scan(&n)
					if err1 != nil || err2 != nil {
						raw.Close()
					} else {
						e.readers[0] = &c06Reader{kind: "raw", raw: raw}
					}
				}
				note("rearm(stopall; ins %s; start0)", tables[ta])
				rec.Label("steer:reset-then-wal-left-in-place-again")
				attempt(false)
				if violation != nil {
					break
				}
				writes++
				e.exec(true, c06Stmt("INSERT INTO "+tables[tb]+"(k,v) VALUES(?,?)", e.nextK, e.blob(12)))
				e.nextK++
				note("ins(%s,1,12)", tables[tb])
				continue
			}
			if steer == "handover" && len(e.readers) > 0 && len(e.readers) < 3 {
				// the WAL was left in place and a reader is still on it: a small write is
				// appended, a second reader starts behind it, the first one leaves, another
				// small write goes to a different table, and the next attempt can only move
				// the frames up to the second reader's mark (resuming attempt that is busy
				// with old resume point < moved < pages)
				ta := rapid.IntRange(0, len(tables)-1).Draw(rt, "handover-table-a")
				tb := (ta + 1 + rapid.IntRange(0, len(tables)-2).Draw(rt, "handover-table-b")) % len(tables)
				writes++
				e.exec(true, c06Stmt("INSERT INTO "+tables[ta]+"(k,v) VALUES(?,?)", e.nextK, e.blob(12)))
				e.nextK++
				old := []int{}
				for id := 0; id < 3; id++ {
					if e.readers[id] != nil {
						old = append(old, id)
					}
				}
				nid := 0
				for e.readers[nid] != nil {
					nid++
				}
				if raw, err := vsql.Open(e.path, "mode=ro"); err == nil {
					var n int
					_, err1 := raw.Exec("BEGIN")
					err2 := raw.QueryRow("SELECT count(*) FROM t").Scan(&n)
					if err1 != nil || err2 != nil {
						raw.Close()
					} else {
						e.readers[nid] = &c06Reader{kind: "raw", raw: raw}
					}
				}
				for _, id := range old {
					e.stopReader(id)
				}
				writes++
				e.exec(true, c06Stmt("INSERT INTO "+tables[tb]+"(k,v) VALUES(?,?)", e.nextK, e.blob(12)))
				e.nextK++
				note("handover(ins %s; start%d; stop%v; ins %s)", tables[ta], nid, old, tables[tb])
				rec.Label("steer:reader-handover-between-writes")
				op = "ckpt"
			}
			if op == "start+ckpt" {
				// a reader that starts right before the attempt pins the end of the WAL:
				// every page can be moved but the WAL cannot be reset
				op, alsoCkpt = "start", true
			}
			switch op {
			case "write":
				writes++
				kind := rapid.SampledFrom([]string{"insert", "insert", "insert", "insert", "update", "update", "delete", "fail-big"}).Draw(rt, "write-kind")
				tbl := rapid.SampledFrom([]string{"t", "t", "t1", "t2", "t3"}).Draw(rt, "table")
				switch kind {
				case "insert":
					n := rapid.SampledFrom([]int{1, 1, 2, 5, 20, 80, 300}).Draw(rt, "rows")
					bl := rapid.SampledFrom([]int{0, 10, 100, 1000, 5000}).Draw(rt, "bloblen")
					if n*bl > 150000 {
						bl = 1000
					}
					var st []*command.Statement
					for i := 0; i < n; i++ {
						st = append(st, c06Stmt("INSERT INTO "+tbl+"(k,v) VALUES(?,?)", e.nextK, e.blob(bl)))
						e.nextK++
					}
					e.exec(true, st...)
					note("ins(%s,%d,%d)", tbl, n, bl)
				case "update":
					m := rapid.IntRange(1, 4).Draw(rt, "modulus")
					bl := rapid.SampledFrom([]int{0, 50, 2000}).Draw(rt, "bloblen")
					e.exec(true, c06Stmt(fmt.Sprintf("UPDATE %s SET v=?, k=k+100000 WHERE id%%%d=0", tbl, m), e.blob(bl)))
					note("upd(%s,%%%d,%d)", tbl, m, bl)
				case "delete":
					m := rapid.IntRange(2, 5).Draw(rt, "modulus")
					e.exec(true, c06Stmt(fmt.Sprintf("DELETE FROM %s WHERE id%%%d=0", tbl, m)))
					note("del(%s,%%%d)", tbl, m)
				case "fail-big":
					// a transaction whose last statement fails: everything is rolled back
					n := rapid.SampledFrom([]int{5, 40, 150}).Draw(rt, "rows")
					var st []*command.Statement
					for i := 0; i < n; i++ {
						st = append(st, c06Stmt("INSERT INTO t(k,v) VALUES(?,?)", -1, e.blob(1500)))
					}
					st = append(st, c06Stmt("INSERT INTO nosuchtable VALUES(1)"))
					e.exec(true, st...)
					note("failbig(%d)", n)
					rec.Label("write:failed-big-transaction")
				}
			case "start":
				if len(e.readers) >= 3 {
					continue
				}
				id := 0
				for e.readers[id] != nil {
					id++
				}
				if rapid.IntRange(0, 3).Draw(rt, "reader-kind") == 0 {
					ctx, cancel := context.WithCancel(context.Background())
					r := &c06Reader{kind: "stall", cancel: cancel, done: make(chan struct{})}
					go func() {
						defer close(r.done)
						sdb.QueryWithContext(ctx, &command.Request{Statements: []*command.Statement{{Sql: "SELECT id FROM t", ForceStall: true}}}, false)
					}()
					// give the query time to take its read snapshot (not needed for soundness)
					deadline := time.Now().Add(2 * time.Second)
				waitPin:
					for sdb.db.roDB.Stats().InUse == 0 && time.Now().Before(deadline) {
						select {
						case <-r.done: // nothing to stall on (empty table)
							break waitPin
						case <-time.After(time.Millisecond):
						}
					}
					time.Sleep(3 * time.Millisecond)
					e.readers[id] = r
					note("start%d(stall)", id)
					rec.Label("reader:forcestall")
				} else {
					raw, err := vsql.Open(e.path, "mode=ro")
					if err != nil {
						rec.Label("skip:raw-reader-open")
						continue
					}
					var n int
					if _, err := raw.Exec("BEGIN"); err != nil {
						raw.Close()
						continue
					}
					if err := raw.QueryRow("SELECT count(*) FROM t").Scan(&n); err != nil {
						raw.Close()
						continue
					}
					e.readers[id] = &c06Reader{kind: "raw", raw: raw}
					note("start%d", id)
					rec.Label("reader:raw")
				}
			case "stop":
				if len(e.readers) == 0 {
					continue
				}
				ids := []int{}
				for id := 0; id < 3; id++ {
					if e.readers[id] != nil {
						ids = append(ids, id)
					}
				}
				id := rapid.SampledFrom(ids).Draw(rt, "reader")
				e.stopReader(id)
				note("stop%d", id)
			case "stopall":
				if len(e.readers) == 0 {
					continue
				}
				for id := 0; id < 3; id++ {
					e.stopReader(id)
				}
				note("stopall")
			case "ckpt":
				alsoCkpt = true
			}
			if alsoCkpt {
				if !needFull && rapid.IntRange(0, 39).Draw(rt, "full-instead") == 17 {
					needFull = true
				}
				attempt(false)
			}
		}
		if violation == nil {
			for id := 0; id < 3; id++ {
				e.stopReader(id)
			}
			note("stopall")
			attempt(true)
			if problem, _ := c06WriteConnCheck(sdb.db); problem != "" && violation == nil {
				fail("C06/sqlite-may-checkpoint-on-its-own", "at the end of the schedule: %s", problem)
			}
			if n := len(attempts); n > 0 && attempts[n-1].failed && !sawOpenTxError {
				rec.Label("final-attempt-failed-without-readers")
			}
		}

		// classification
		nontrivial := false
		for i, a := range attempts {
			if !(a.failed || a.partial) {
				continue
			}
			for _, b := range attempts[i+1:] {
				if b.kept && b.writesBefore > a.writesBefore {
					nontrivial = true
				}
			}
		}
		rec.Case(nontrivial, strings.Join(ops, " "))
		rec.Sample(strings.Join(ops, " "))
		if nontrivial {
			rec.Label("case:nontrivial")
		}
		if violation != nil {
			violation()
		}
	})
}

// TestVerif_C06_Quiet (thorough tier only): the behavioural counterpart of
// c06WriteConnCheck. The database sits idle for longer than any plausible pool
// idle limit (35 s), then more than 1000 WAL frames are written in a few
// transactions (SQLite's default auto-checkpoint threshold), then a small write,
// then an incremental attempt without readers. If SQLite checkpointed on its own
// in between, a whole WAL generation is missing from the segment and the mirror
// differs. One scenario per process; the variant (armed or not before the quiet
// period, sizes) derives from the process seed.
func TestVerif_C06_Quiet(t *testing.T) {
	if !vstat.Thorough() {
		t.Skip("thorough tier only (needs a 35 s quiet period)")
	}
	rec := vstat.New(t, "C06", "quiet",
		"one scenario per process: open (OpenSwappable), initial full snapshot, optional 'all moved, WAL left in place' attempt with a reader at the WAL end, 35 s without any database activity, then 3 transactions of 450-600 rows x 4000-byte blobs (>1000 WAL frames), a small write to another table, an incremental attempt without readers; mirror (base + kept segments applied by SQLite) must equal the live database and wal_autocheckpoint must still be 0 on the write path. Non-trivial = always (the quiet period and >1000 frames are the point). Distinct = variant.")
	seed := vstat.Seed()
	armedFirst := seed%2 == 0
	rows := 450 + int(seed%4)*50
	dir := t.TempDir()
	e := &c06Env{dir: dir, path: filepath.Join(dir, "live.db"), mirror: filepath.Join(dir, "mirror.db"), readers: map[int]*c06Reader{}, rnd: seed | 1}
	defer e.close()
	sdb, err := OpenSwappable(e.path, nil, false, true, 0)
	if err != nil {
		t.Skipf("open: %v", err)
	}
	e.sdb = sdb
	desc := fmt.Sprintf("armed-before-quiet=%v rows-per-tx=%d", armedFirst, rows)
	rec.Case(true, desc)
	rec.Sample(desc)
	e.exec(false, c06Stmt("CREATE TABLE t(id INTEGER PRIMARY KEY, k INT, v BLOB)"), c06Stmt("CREATE TABLE t1(id INTEGER PRIMARY KEY, k INT, v BLOB)"))
	e.exec(true, c06Stmt("INSERT INTO t(k,v) VALUES(1,x'00')"), c06Stmt("INSERT INTO t1(k,v) VALUES(1,x'00')"))
	if meta, _, err := sdb.Checkpoint(nil, 2*time.Second); err != nil || !meta.Success() {
		t.Skipf("initial full snapshot: %v", err)
	}
	if err := vsql.CopyFile(e.path, e.mirror); err != nil {
		t.Skipf("copy: %v", err)
	}
	keep := func(what string) bool {
		var seg bytes.Buffer
		_, _, err := sdb.Checkpoint(&seg, 2*time.Second)
		if err != nil {
			rec.Label("attempt-failed:" + what)
			t.Logf("%s attempt failed: %v", what, err)
			return false
		}
		if err := c06ApplySegment(e.mirror, seg.Bytes()); err != nil {
			t.Errorf("%s", rec.Violation("C06/segment-rejected", "quiet scenario (%s): SQLite cannot apply kept segment: %v", desc, err))
			return false
		}
		return true
	}
	if armedFirst {
		e.exec(true, c06Stmt("INSERT INTO t(k,v) VALUES(2,x'01')"))
		raw, err := vsql.Open(e.path, "mode=ro")
		if err == nil {
			var n int
			raw.Exec("BEGIN")
			raw.QueryRow("SELECT count(*) FROM t").Scan(&n)
			var seg bytes.Buffer
			if _, _, err := sdb.Checkpoint(&seg, 15*time.Millisecond); err == nil {
				c06ApplySegment(e.mirror, seg.Bytes())
				rec.Label("armed-before-quiet")
			}
			raw.Exec("ROLLBACK")
			raw.Close()
		}
	}
	time.Sleep(35 * time.Second) // stimulus only; never a correctness signal
	for tx := 0; tx < 3; tx++ {
		var st []*command.Statement
		for i := 0; i < rows; i++ {
			st = append(st, c06Stmt("INSERT INTO t(k,v) VALUES(?,?)", 1000*tx+i, e.blob(4000)))
		}
		e.exec(true, st...)
	}
	e.exec(true, c06Stmt("INSERT INTO t1(k,v) VALUES(7,x'07')"))
	if _, size, _ := c06ReadSalt(e.path + "-wal"); size > 0 {
		if !keep("after-quiet") {
			return
		}
	}
	md, err1 := c06Dump(e.mirror)
	ld, err2 := c06Dump(e.path, "mode=ro")
	if err1 != nil {
		t.Errorf("%s", rec.Violation("C06/mirror-unreadable", "quiet scenario (%s): %v", desc, err1))
		return
	}
	if err2 != nil {
		rec.Label("skip:live-dump-error")
		return
	}
	if md != ld {
		t.Errorf("%s", rec.Violation("C06/mirror-diverges/after-quiet-period", "after 35 s without activity and >1000 frames of writes the database rebuilt from base + kept segments differs from the live database (%s): %s", desc, c06FirstLineDiff(md, ld)))
		return
	}
	rec.Label("quiet:mirror-equal")
	if problem, _ := c06WriteConnCheck(sdb.db); problem != "" {
		t.Errorf("%s", rec.Violation("C06/sqlite-may-checkpoint-on-its-own", "after the quiet period: %s", problem))
		return
	}
}
