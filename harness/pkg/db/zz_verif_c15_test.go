package db

// C15: no request can change rqlite-critical SQLite settings.
//
// db-level unit (white-box only to *observe* the two connection pools):
// a generated request (1-2 SQL texts, each 1-3 statements, PRAGMA forms of every
// spelling mixed with filler statements) is first shown to the guard exactly as
// store.PragmaCheckRequest.Check does (IsBreakingPragma on every statement text
// of the request). If the guard accepts it, the request is executed through
// rqlite's own database layer on one of its three paths (Execute, Query,
// Request) against a scratch WAL database opened the way rqlite opens its own,
// and the critical settings are read back:
//   - database file header (journal mode on disk), main-file content hash
//     (autocheckpoint is off, so the main file may only change if a checkpoint
//     ran or the journal mode was switched),
//   - journal_mode, wal_autocheckpoint, synchronous, query_only on the
//     read-write connection and on the read-only pool.
// Any difference from the pristine values is a violation: the guard let a
// request through that changed a critical setting or ran a checkpoint.
// The oracle is SQLite's observable state, not the guard's idea of the text.

import (
	"crypto/sha256"
	"database/sql"
	"encoding/hex"
	"fmt"
	"math/rand/v2"
	"os"
	"path/filepath"
	"strings"
	"testing"

	command "github.com/rqlite/rqlite/v10/command/proto"
	"github.com/rqlite/rqlite/v10/internal/verif/vstat"
	"pgregory.net/rapid"
)

type c15Pragma struct {
	Name     string // canonical lower-case
	Critical bool   // one of the five rqlite-critical pragmas, written so that SQLite would act on main
	Vectors  []string
	Text     string
}

type c15Gen struct{ rng *rand.Rand }

func (g *c15Gen) n(n int) int            { return g.rng.IntN(n) }
func (g *c15Gen) pct(p int) bool         { return g.rng.IntN(100) < p }
func (g *c15Gen) of(xs ...string) string { return xs[g.rng.IntN(len(xs))] }

func c15Case(g *c15Gen, s string) string {
	switch g.n(4) {
	case 0:
		return strings.ToUpper(s)
	case 1:
		b := []byte(s)
		for i := range b {
			if g.pct(50) {
				b[i] = byte(strings.ToUpper(string(b[i]))[0])
			}
		}
		return string(b)
	}
	return s
}

var c15Values = map[string][]string{
	"journal_mode":       {"delete", "DELETE", "truncate", "persist", "memory", "off", "'delete'", `"delete"`, "wal"},
	"wal_autocheckpoint": {"1", "1000", "10", "-1", "0"},
	"synchronous":        {"1", "2", "3", "NORMAL", "full", "EXTRA", "'normal'", "0", "off"},
	"query_only":         {"1", "0", "ON", "off", "true", "false", "yes", "no"},
	"wal_checkpoint":     {"PASSIVE", "FULL", "RESTART", "TRUNCATE", "truncate"},
}

var c15Harmless = []string{"cache_size", "user_version", "foreign_keys", "table_info", "page_count", "busy_timeout", "journal_size_limit", "temp_store"}

// pragma generates one PRAGMA statement.
func (g *c15Gen) pragma() c15Pragma {
	var p c15Pragma
	crit := []string{"journal_mode", "wal_autocheckpoint", "synchronous", "query_only", "wal_checkpoint"}
	if g.pct(85) {
		p.Name = crit[g.n(len(crit))]
	} else {
		p.Name = c15Harmless[g.n(len(c15Harmless))]
	}
	vec := func(v string) { p.Vectors = append(p.Vectors, v) }
	var sb strings.Builder
	sb.WriteString(c15Case(g, "pragma"))
	// separator after the keyword
	switch r := g.n(100); {
	case r < 70:
		sb.WriteString(g.of(" ", " ", "  ", "\t", "\n", " \r\n "))
	case r < 85:
		sb.WriteString(g.of("/**/", "/* c */", " /* PRAGMA x= */ "))
		vec("comment-after-keyword")
	default:
		sb.WriteString(g.of(" -- c\n", "--\n"))
		vec("comment-after-keyword")
	}
	// schema
	mainSchema := true
	switch r := g.n(100); {
	case r < 55:
	case r < 70:
		sb.WriteString(c15Case(g, "main") + ".")
		vec("schema-prefix")
	case r < 78:
		sb.WriteString(g.of(`"main"`, "`main`", "[main]", "'main'") + ".")
		vec("quoted-schema")
	case r < 86:
		sb.WriteString("main" + g.of(" .", ". ", " . ", "/**/."))
		vec("spaced-dot")
	default:
		sb.WriteString(g.of("temp", "TEMP") + ".")
		vec("schema-prefix")
		mainSchema = false
	}
	// name
	name := c15Case(g, p.Name)
	switch r := g.n(100); {
	case r < 70:
		sb.WriteString(name)
	case r < 78:
		sb.WriteString(`"` + name + `"`)
		vec("quoted-name")
	case r < 84:
		sb.WriteString("`" + name + "`")
		vec("quoted-name")
	case r < 90:
		sb.WriteString("[" + name + "]")
		vec("quoted-name")
	default:
		sb.WriteString("'" + name + "'")
		vec("string-name")
	}
	// argument
	vals := c15Values[p.Name]
	if vals == nil {
		vals = []string{"1", "0", "t"}
	}
	v := vals[g.n(len(vals))]
	hasArg := true
	switch r := g.n(100); {
	case r < 12:
		hasArg = false
	case r < 55:
		sb.WriteString(g.of("=", " = ", "  =", "=\t", " =/**/", "\n=\n") + v)
	default:
		sb.WriteString(g.of("(", " (", "( ", "\t(") + v + g.of(")", " )"))
		vec("call-syntax")
	}
	p.Text = sb.String()
	isCrit := false
	for _, c := range crit {
		if c == p.Name {
			isCrit = true
		}
	}
	// wal_checkpoint acts without an argument; journal_mode without schema acts on every database
	p.Critical = isCrit && (hasArg || p.Name == "wal_checkpoint") && (mainSchema || p.Name == "wal_checkpoint" || p.Name == "query_only" || p.Name == "wal_autocheckpoint")
	return p
}

type c15Text struct {
	SQL     string
	Pragmas []c15Pragma // in statement order; Vectors extended with statement-level vectors
}

var c15Filler = []string{"SELECT 1", "SELECT count(*) FROM t", "INSERT INTO t(v) VALUES ('x')", "UPDATE t SET v = 'y' WHERE id = 1",
	"CREATE TABLE IF NOT EXISTS u (a)", "SELECT 'PRAGMA journal_mode=delete'", "DELETE FROM t WHERE id > 100", "PRAGMA table_info(t)"}

func (g *c15Gen) text() c15Text {
	var t c15Text
	var sb strings.Builder
	lead := ""
	switch r := g.n(100); {
	case r < 60:
	case r < 70:
		lead = g.of(" ", "\n", "\t ", "\r\n")
	case r < 82:
		lead = g.of("/* c */", "/* PRAGMA */ ", "-- c\n", "--\n", "/**/")
	case r < 90:
		lead = g.of(";", " ; ", ";;")
	default:
		lead = g.of("\ufeff", "\v", "\u00a0") // BOM is whitespace to SQLite; \v and NBSP are not (syntax error)
	}
	sb.WriteString(lead)
	n := 1
	if g.pct(45) {
		n = 2 + g.n(2)
	}
	havePragma := false
	bait := false // a lexically tricky statement has been emitted earlier in this text
	for i := 0; i < n; i++ {
		if i > 0 {
			sb.WriteString(g.of(";", "; ", ";\n", " ;/* c */ "))
		}
		if g.pct(65) || (i == n-1 && !havePragma && g.pct(80)) {
			p := g.pragma()
			havePragma = true
			if bait {
				p.Vectors = append([]string{"lexical-bait"}, p.Vectors...)
			} else if i > 0 {
				p.Vectors = append([]string{"later-statement"}, p.Vectors...)
			} else if strings.ContainsAny(lead, "/-") {
				p.Vectors = append([]string{"leading-comment"}, p.Vectors...)
			} else if strings.Contains(lead, ";") {
				p.Vectors = append([]string{"leading-semicolon"}, p.Vectors...)
			} else if strings.Contains(lead, "\ufeff") {
				p.Vectors = append([]string{"leading-bom"}, p.Vectors...)
			}
			sb.WriteString(p.Text)
			t.Pragmas = append(t.Pragmas, p)
		} else if g.pct(45) {
			// lexically tricky statement: the guard must tokenise exactly like SQLite, or what follows
			// (a later PRAGMA) hides inside what the guard believes is a literal, identifier or comment
			sb.WriteString(c15Bait[g.n(len(c15Bait))])
			bait = true
		} else {
			sb.WriteString(c15Filler[g.n(len(c15Filler))])
		}
	}
	// what follows the last statement: may contain the quote / bracket / comment end that "closes"
	// a construct a diverging tokenizer believes is still open
	sb.WriteString(g.of("", "", ";", " ", "; -- c", "; --'", " --'", "; /* ' */", "; SELECT ''", ";--\"", "; /* ] */", " -- `", "; SELECT '", "; /* open", ";--*/", "; SELECT 1 AS \"x"))
	t.SQL = sb.String()
	return t
}

// blame priority for the signature (most specific outer feature first)
// c15Bait: statements on which a tokenizer that is not exactly SQLite's goes wrong. SQLite has no backslash
// escapes; ” "" “ double inside their own quotes; [ ] does not nest or double; comment markers inside
// strings and quotes inside comments mean nothing.
var c15Bait = []string{
	`SELECT '\'`, `SELECT 'a\'`, `SELECT '\\'`, `SELECT '\', 2`, `SELECT 'x' WHERE 'y\' <> ''`, `INSERT INTO t(v) VALUES ('c:\dir\')`,
	`SELECT 'it''s'`, `SELECT ''''`, `SELECT ''`, `SELECT '--'`, `SELECT '/*'`, `SELECT '*/'`, `SELECT ';'`, `SELECT ']'`, `SELECT '['`, `SELECT '"'`, "SELECT '`'",
	`SELECT 1 AS "a""b"`, `SELECT 1 AS "x;y"`, `SELECT 1 AS "q'r"`, `SELECT 1 AS "\"`, `SELECT 1 AS [a'b]`, `SELECT 1 AS [a"b]`, `SELECT 1 AS [\]`, `SELECT 1 AS [a;b]`,
	"SELECT 1 AS `q'r`", "SELECT 1 AS `a``b`", "SELECT 1 AS `\\`",
	`SELECT 1 /* ' */`, `SELECT 1 /* " */`, `SELECT 1 /* [ */`, "SELECT 1 -- '\n", "SELECT 1 -- \"\n", "SELECT 1 --[\n", `SELECT 1 /* -- */`, "SELECT 1 -- /*\n", `SELECT 1 /* ; */`,
	`SELECT x'27'`, `SELECT 1e1, .5, 0x1F`, `SELECT 'é\'`, `SELECT "v" FROM t WHERE v <> '\'`,
}

var c15VectorOrder = []string{"lexical-bait", "later-statement", "leading-comment", "leading-semicolon", "leading-bom", "comment-after-keyword", "string-name", "quoted-name", "quoted-schema", "spaced-dot", "call-syntax", "schema-prefix"}

func c15Vector(texts []c15Text) (vector, pragma string) {
	best := len(c15VectorOrder) + 1
	vector, pragma = "none", ""
	for _, t := range texts {
		for _, p := range t.Pragmas {
			if !p.Critical {
				continue
			}
			rank := len(c15VectorOrder)
			for _, v := range p.Vectors {
				for i, o := range c15VectorOrder {
					if o == v && i < rank {
						rank = i
					}
				}
			}
			if rank < best {
				best = rank
				pragma = p.Name
				if rank < len(c15VectorOrder) {
					vector = c15VectorOrder[rank]
				} else {
					vector = "plain"
				}
			}
		}
	}
	return
}

// c15State is everything the property says a request must not change.
type c15State struct {
	Header   string // bytes 18,19 of the database file: 2,2 = WAL
	MainHash string
	WalThere bool
	RW       string // journal_mode|wal_autocheckpoint|synchronous|query_only on the read-write connection
	RO       string // same on the read-only pool
}

func c15Pragmas(h *sql.DB) string {
	var parts []string
	for _, p := range []string{"journal_mode", "wal_autocheckpoint", "synchronous", "query_only"} {
		var v sql.NullString
		if err := h.QueryRow("PRAGMA " + p).Scan(&v); err != nil {
			parts = append(parts, p+"=ERR("+err.Error()+")")
		} else {
			parts = append(parts, p+"="+v.String)
		}
	}
	return strings.Join(parts, " ")
}

func c15FileState(path string) (header, hash string, wal bool) {
	b, err := os.ReadFile(path)
	if err != nil {
		return "ERR", "ERR", false
	}
	if len(b) >= 20 {
		header = fmt.Sprintf("%d,%d", b[18], b[19])
	}
	sum := sha256.Sum256(b)
	_, werr := os.Stat(path + "-wal")
	return header, hex.EncodeToString(sum[:8]), werr == nil
}

func c15Observe(d *DB) c15State {
	var s c15State
	s.Header, s.MainHash, s.WalThere = c15FileState(d.path)
	s.RW = c15Pragmas(d.rwDB)
	s.RO = c15Pragmas(d.roDB)
	return s
}

func c15OpenScratch(dir string) (*DB, error) {
	d, err := Open(filepath.Join(dir, "c15.db"), false, true)
	if err != nil {
		return nil, err
	}
	for _, q := range []string{
		"CREATE TABLE t (id INTEGER PRIMARY KEY, v TEXT)",
		"INSERT INTO t(v) VALUES ('a'), ('b'), ('c')",
	} {
		r, err := d.ExecuteStringStmt(q)
		if err != nil || (len(r) > 0 && r[0].GetError() != "") {
			d.Close()
			return nil, fmt.Errorf("setup %q: %v %v", q, err, r)
		}
	}
	return d, nil
}

func TestVerif_C15_DB(t *testing.T) {
	rec := vstat.New(t, "C15", "db",
		"rapid-seeded PCG: requests of 1-2 SQL texts, each 1-3 statements mixing PRAGMA forms (5 critical + harmless names; case, whitespace/comments after the keyword, schema prefix plain/quoted/spaced, quoted or string names, '=' or '(...)' or no argument, many values) with filler statements, optional leading whitespace/comment/semicolon/non-SQLite-space; executed on Execute/Query/Request paths with and without a transaction and with or without an open read-only connection; non-trivial = the request contains a critical pragma that SQLite would act on; distinct by request text+path")
	// pristine values, measured once on a scratch database opened like rqlite's
	pd, err := os.MkdirTemp("", "c15p")
	if err != nil {
		t.Skip(err)
	}
	defer os.RemoveAll(pd)
	p0, err := c15OpenScratch(pd)
	if err != nil {
		t.Fatalf("cannot open pristine scratch database: %v", err)
	}
	pristine := c15Observe(p0)
	p0.Close()
	if pristine.Header != "2,2" || !strings.HasPrefix(pristine.RW, "journal_mode=wal wal_autocheckpoint=0 synchronous=0 query_only=0") ||
		!strings.Contains(pristine.RO, "query_only=1") {
		t.Fatalf("unexpected pristine state %+v", pristine)
	}
	rec.Extra("pristine", fmt.Sprintf("%+v", pristine))

	var noEffect []string
	rapid.Check(t, func(rt *rapid.T) {
		seeds := rapid.SliceOfN(rapid.Uint64(), 3, 3).Draw(rt, "seed")
		g := &c15Gen{rng: rand.New(rand.NewPCG(seeds[0]^(seeds[1]*0x9E3779B97F4A7C15), seeds[2]+15))}
		ntexts := 1
		if g.pct(20) {
			ntexts = 2
		}
		texts := make([]c15Text, ntexts)
		req := &command.Request{}
		var canon []string
		for i := range texts {
			texts[i] = g.text()
			req.Statements = append(req.Statements, &command.Statement{Sql: texts[i].SQL})
			canon = append(canon, texts[i].SQL)
		}
		path := g.of("execute", "query", "request")
		req.Transaction = g.pct(20)
		roOpen := g.pct(50)
		vector, pragma := c15Vector(texts)
		rec.Case(pragma != "", strings.Join(canon, "\x00")+"|"+path)
		rec.Sample(fmt.Sprintf("%s tx=%v %q", path, req.Transaction, canon))
		rec.Label("path:" + path)
		if pragma != "" {
			rec.Label("critical:" + pragma)
			rec.Label("vector:" + vector)
		} else {
			rec.Label("critical:none")
		}

		// the guard, applied as PragmaCheckRequest.Check applies it
		for _, st := range req.Statements {
			if IsBreakingPragma(st.Sql) {
				rec.Label("guard:rejected")
				return
			}
		}
		rec.Label("guard:accepted")
		if pragma != "" {
			rec.Label("guard:accepted-with-critical")
		}

		dir, err := os.MkdirTemp("", "c15")
		if err != nil {
			fmt.Println("VERIF-INFRA:", err)
			rec.Label("inconclusive:infrastructure")
			return
		}
		defer os.RemoveAll(dir)
		d, err := c15OpenScratch(dir)
		if err != nil {
			fmt.Println("VERIF-INFRA:", err)
			rec.Label("inconclusive:infrastructure")
			return
		}
		defer d.Close()
		if roOpen {
			// a read-only connection is open while the request runs (normal operation)
			var one int
			d.roDB.QueryRow("SELECT 1").Scan(&one)
		}
		_, hash0, _ := c15FileState(d.path)

		switch path {
		case "execute":
			d.Execute(req, false)
		case "query":
			d.Query(req, false)
		case "request":
			d.Request(req, false)
		}

		after := c15Observe(d)
		var effects []string
		if after.Header != pristine.Header {
			effects = append(effects, "journal_mode")
		}
		if after.MainHash != hash0 || after.WalThere != pristine.WalThere {
			effects = append(effects, "checkpoint")
		}
		rwKeys, roKeys := strings.Fields(after.RW), strings.Fields(after.RO)
		for i, kv := range strings.Fields(pristine.RW) {
			if i < len(rwKeys) && rwKeys[i] != kv {
				effects = append(effects, strings.SplitN(kv, "=", 2)[0])
			}
		}
		for i, kv := range strings.Fields(pristine.RO) {
			if i < len(roKeys) && roKeys[i] != kv {
				effects = append(effects, strings.SplitN(kv, "=", 2)[0]+"(read-only pool)")
			}
		}
		if len(effects) == 0 {
			rec.Label("outcome:no-effect")
			if pragma != "" && len(noEffect) < 12 {
				noEffect = append(noEffect, fmt.Sprintf("%s tx=%v %q", path, req.Transaction, canon))
				rec.Extra("accepted-critical-without-effect", noEffect)
			}
			return
		}
		sig := "C15/guard-bypass{vector=" + vector + "}"
		what := "a PRAGMA written with " + vector + " passes the guard and changes a critical setting"
		if rec.KnownHit(sig, what) {
			return
		}
		rt.Fatalf("%s", rec.Violation(sig, "guard accepted %q on the %s path (tx=%v, read-only conn open=%v) and it changed %v (critical pragma %s):\n pristine %+v\n    after %+v (main hash before %s)",
			canon, path, req.Transaction, roOpen, effects, pragma, pristine, after, hash0))
	})
}
