package wal

// C05 reference model: an independent reader/applier for SQLite WAL files,
// written from the SQLite file-format description (section 4 "The Write-Ahead
// Log"), plus an oracle that lets SQLite itself recover and checkpoint a WAL.
// Nothing here calls into the code under test.

import (
	"bytes"
	"encoding/binary"
	"fmt"
	"os"
	"path/filepath"

	"github.com/rqlite/rqlite/v10/internal/verif/vsql"
)

type c05Frame struct {
	Pgno, Commit uint32
	Data         []byte
}

// c05Parsed is what SQLite's recovery would see in a WAL image.
type c05Parsed struct {
	HeaderOK     bool
	PageSize     int
	BE           bool // big-endian checksum words
	Salt1, Salt2 uint32
	Frames       []c05Frame // frames of the valid salt+checksum chain, in file order
	LastCommit   int        // number of chain frames up to and including the last commit frame
	Commits      []int      // every commit boundary (count of frames up to and including a commit frame)
	ChainEnd     int        // file offset just after the last chain frame
	// TailSaltMatch: the bytes right after the chain hold a complete 24-byte
	// frame header that carries the WAL's salts (a stale frame of a rolled-back
	// transaction, a frame with a bad checksum, or a frame cut short).
	TailSaltMatch bool
	TailLen       int // bytes after the chain
}

func (p *c05Parsed) Open() bool { return len(p.Frames) > p.LastCommit }

// c05Cksum is the WAL checksum of the file-format document: 32-bit words
// x[0..n), s0 += x[i]+s1 ; s1 += x[i+1]+s0.
func c05Cksum(be bool, s0, s1 uint32, b []byte) (uint32, uint32) {
	for i := 0; i+8 <= len(b); i += 8 {
		var a, c uint32
		if be {
			a = uint32(b[i])<<24 | uint32(b[i+1])<<16 | uint32(b[i+2])<<8 | uint32(b[i+3])
			c = uint32(b[i+4])<<24 | uint32(b[i+5])<<16 | uint32(b[i+6])<<8 | uint32(b[i+7])
		} else {
			a = uint32(b[i+3])<<24 | uint32(b[i+2])<<16 | uint32(b[i+1])<<8 | uint32(b[i])
			c = uint32(b[i+7])<<24 | uint32(b[i+6])<<16 | uint32(b[i+5])<<8 | uint32(b[i+4])
		}
		s0 += a + s1
		s1 += c + s0
	}
	return s0, s1
}

func c05be32(b []byte) uint32 { return binary.BigEndian.Uint32(b) }

func c05Parse(w []byte) *c05Parsed {
	p := &c05Parsed{}
	if len(w) < 32 {
		return p
	}
	magic := c05be32(w[0:])
	if magic != 0x377f0682 && magic != 0x377f0683 {
		return p
	}
	p.BE = magic&1 == 1
	if c05be32(w[4:]) != 3007000 {
		return p
	}
	ps := int(c05be32(w[8:]))
	if ps < 512 || ps > 65536 || ps&(ps-1) != 0 {
		return p
	}
	s0, s1 := c05Cksum(p.BE, 0, 0, w[:24])
	if s0 != c05be32(w[24:]) || s1 != c05be32(w[28:]) {
		return p
	}
	p.HeaderOK = true
	p.PageSize = ps
	p.Salt1, p.Salt2 = c05be32(w[16:]), c05be32(w[20:])
	off := 32
	for off+24+ps <= len(w) {
		h := w[off : off+24]
		if c05be32(h[8:]) != p.Salt1 || c05be32(h[12:]) != p.Salt2 {
			break
		}
		pg := c05be32(h[0:])
		if pg == 0 {
			break
		}
		data := w[off+24 : off+24+ps]
		t0, t1 := c05Cksum(p.BE, s0, s1, h[:8])
		t0, t1 = c05Cksum(p.BE, t0, t1, data)
		if t0 != c05be32(h[16:]) || t1 != c05be32(h[20:]) {
			break
		}
		s0, s1 = t0, t1
		cm := c05be32(h[4:])
		p.Frames = append(p.Frames, c05Frame{pg, cm, data})
		if cm != 0 {
			p.LastCommit = len(p.Frames)
			p.Commits = append(p.Commits, len(p.Frames))
		}
		off += 24 + ps
	}
	p.ChainEnd = off
	p.TailLen = len(w) - off
	if len(w) >= off+24 {
		h := w[off : off+24]
		p.TailSaltMatch = c05be32(h[8:]) == p.Salt1 && c05be32(h[12:]) == p.Salt2
	}
	return p
}

// c05Apply checkpoints frames (a sequence ending in a commit frame, or empty)
// into a copy of base: every page image is written at (pgno-1)*pageSize and the
// file is sized to the page count of the last commit frame.
func c05Apply(base []byte, ps int, frames []c05Frame) []byte {
	img := append([]byte(nil), base...)
	if len(frames) == 0 {
		return img
	}
	final := int(frames[len(frames)-1].Commit) * ps
	for _, f := range frames {
		off := (int(f.Pgno) - 1) * ps
		if off+ps > final {
			continue // beyond the committed size: never reaches the database
		}
		if off+ps > len(img) {
			img = append(img, make([]byte, off+ps-len(img))...)
		}
		copy(img[off:], f.Data)
	}
	if len(img) > final {
		img = img[:final]
	} else if len(img) < final {
		img = append(img, make([]byte, final-len(img))...)
	}
	return img
}

// c05SQLiteCheckpoint lets SQLite recover wal next to base and run a TRUNCATE
// checkpoint; returns the bytes of the database file afterwards.
func c05SQLiteCheckpoint(dir string, base, wal []byte) ([]byte, error) {
	p := filepath.Join(dir, "oracle.db")
	for _, sfx := range []string{"", "-wal", "-shm", "-journal"} {
		os.Remove(p + sfx)
	}
	if err := os.WriteFile(p, base, 0o644); err != nil {
		return nil, err
	}
	if err := os.WriteFile(p+"-wal", wal, 0o644); err != nil {
		return nil, err
	}
	db, err := vsql.Open(p)
	if err != nil {
		return nil, fmt.Errorf("open: %w", err)
	}
	var busy, nlog, nckpt int
	if err := db.QueryRow("PRAGMA wal_checkpoint(TRUNCATE)").Scan(&busy, &nlog, &nckpt); err != nil {
		db.Close()
		return nil, fmt.Errorf("wal_checkpoint: %w", err)
	}
	if err := db.Close(); err != nil {
		return nil, err
	}
	if busy != 0 {
		return nil, fmt.Errorf("wal_checkpoint busy=%d", busy)
	}
	return os.ReadFile(p)
}

func c05FirstDiff(a, b []byte, ps int) string {
	if len(a) != len(b) {
		return fmt.Sprintf("sizes differ: %d vs %d bytes (%d vs %d pages)", len(a), len(b), len(a)/ps, len(b)/ps)
	}
	for i := range a {
		if a[i] != b[i] {
			return fmt.Sprintf("first difference at byte %d (page %d)", i, i/ps+1)
		}
	}
	return "equal"
}

// c05CheckCompacted judges one compacted WAL image against the reference:
// it must be a completely valid WAL (every byte part of the salt+checksum chain,
// ending in a commit frame unless empty) and applying it to baseK must give want.
func c05CheckCompacted(c []byte, ps int, baseK, want []byte, expectFrames bool) error {
	pc := c05Parse(c)
	if !pc.HeaderOK {
		return fmt.Errorf("compacted WAL has no valid header (%d bytes)", len(c))
	}
	if pc.PageSize != ps {
		return fmt.Errorf("compacted WAL page size %d, want %d", pc.PageSize, ps)
	}
	if pc.TailLen != 0 {
		return fmt.Errorf("compacted WAL: %d bytes after the valid frame chain (%d valid frames)", pc.TailLen, len(pc.Frames))
	}
	if pc.Open() {
		return fmt.Errorf("compacted WAL does not end in a commit frame (%d frames, last commit at %d)", len(pc.Frames), pc.LastCommit)
	}
	if expectFrames && len(pc.Frames) == 0 {
		return fmt.Errorf("compacted WAL is empty but the original has committed frames after the resume point")
	}
	got := c05Apply(baseK, ps, pc.Frames)
	if !bytes.Equal(got, want) {
		return fmt.Errorf("checkpointing the compacted WAL (%d frames) differs from checkpointing the original: %s", len(pc.Frames), c05FirstDiff(got, want, ps))
	}
	return nil
}
