package wal

// C05: WAL compaction is equivalent to the original WAL.
//
// Two generators:
//   Synth  - WAL images built frame by frame (random page numbers, commit
//            markers, database sizes, salts, both checksum byte orders) with a
//            tail that SQLite would ignore (bad checksum, foreign salt, stale
//            same-salt frames, truncation, garbage) or an unterminated
//            transaction.
//   SQLite - WALs written by SQLite itself for generated workloads.
// Oracles: the reference applier in zz_verif_c05_ref_test.go and SQLite's own
// recovery + checkpoint (raw driver).
// For every resume offset k at a commit boundary the compacted WAL produced by
// rqlite for frames k.. is checkpointed into B_k (= base + first k frames) and
// must give the same file as checkpointing the original committed frames k..
// into B_k. A WAL whose valid chain ends inside a transaction must give
// ErrOpenTransaction; anything after the valid chain must have no influence.

import (
	"bytes"
	"database/sql"
	"encoding/binary"
	"errors"
	"fmt"
	"os"
	"path/filepath"
	"strings"
	"sync"
	"testing"

	"github.com/rqlite/rqlite/v10/internal/verif/vsql"
	"github.com/rqlite/rqlite/v10/internal/verif/vstat"
	"pgregory.net/rapid"
)

const (
	c05SigUnvalidated = "C05/nonfull-scan-unvalidated-tail"
	c05WhatUnvalid    = "fullScan=false (the production mode) accepts salt-matching frames after the end of the checksum-valid WAL (stale frames of a rolled-back spilled transaction, bad checksum, cut frame): ErrOpenTransaction, a read error or stale pages instead of the committed prefix"
)

// ---------------------------------------------------------------- rqlite side

type c05Run struct {
	k     int
	full  bool
	bytes bool // use scanner.Bytes() instead of Writer.WriteTo
}

func (r c05Run) String() string {
	return fmt.Sprintf("start=%d fullScan=%v via=%s", r.k, r.full, map[bool]string{false: "Writer.WriteTo", true: "Bytes"}[r.bytes])
}

func c05Compact(w []byte, r c05Run) ([]byte, error) {
	sc, err := NewCompactingFrameScanner(bytes.NewReader(w), int64(r.k), r.full)
	if err != nil {
		return nil, err
	}
	if r.bytes {
		return sc.Bytes()
	}
	ww, err := NewWriter(sc)
	if err != nil {
		return nil, err
	}
	var buf bytes.Buffer
	n, err := ww.WriteTo(&buf)
	if err != nil {
		return nil, err
	}
	if int(n) != buf.Len() {
		return nil, fmt.Errorf("WriteTo reported %d bytes, wrote %d", n, buf.Len())
	}
	return buf.Bytes(), nil
}

// c05Case is one (base, WAL) pair with its description.
type c05Case struct {
	base  []byte
	wal   []byte
	desc  string // canonical description (no page payloads)
	notes []string
}

type c05Judge struct {
	rec    *vstat.Rec
	dir    string
	sqlite int // how many (k,mode) runs per case get the SQLite oracle in addition to the reference
}

// judge runs every resume offset and scan mode of one case. It returns a
// violation message ("" if none). drawPick chooses which runs also get the
// SQLite oracle.
func (j *c05Judge) judge(c *c05Case, pick func(n int) int) (sig, msg string) {
	rec := j.rec
	p := c05Parse(c.wal)
	if !p.HeaderOK {
		rec.Label("skip:invalid-header")
		return "", ""
	}
	ps := p.PageSize
	committed := p.Frames[:p.LastCommit]

	// cross-check of the two oracles on the original WAL: SQLite(base, wal) == ref(base, committed)
	refAll := c05Apply(c.base, ps, committed)
	sqlAll, err := c05SQLiteCheckpoint(j.dir, c.base, c.wal)
	if err != nil {
		rec.Label("ORACLE-PROBLEM:sqlite-rejects-original")
		return "ORACLE", fmt.Sprintf("SQLite could not checkpoint the original WAL: %v (%s)", err, c.desc)
	}
	if !bytes.Equal(refAll, sqlAll) {
		rec.Label("ORACLE-PROBLEM:reference-vs-sqlite")
		return "ORACLE", fmt.Sprintf("reference applier and SQLite disagree on the original WAL: %s (%s)", c05FirstDiff(refAll, sqlAll, ps), c.desc)
	}

	// classification
	shared, shrink := false, false
	seen := map[uint32]int{}
	tx, prevSize := 0, uint32(len(c.base)/ps)
	for _, f := range committed {
		if t, ok := seen[f.Pgno]; ok && t != tx {
			shared = true
		}
		seen[f.Pgno] = tx
		if f.Commit != 0 {
			if f.Commit < prevSize {
				shrink = true
			}
			prevSize = f.Commit
			tx++
		}
	}
	invalidTail := p.TailLen > 0
	nontrivial := shared || shrink || len(p.Commits) >= 2 || invalidTail || p.Open()
	rec.Case(nontrivial, c.desc)
	rec.Label(fmt.Sprintf("pagesize:%d", ps))
	rec.Label(fmt.Sprintf("commits:%s", c05Bucket(len(p.Commits))))
	if shared {
		rec.Label("page-overwritten-across-tx")
	}
	if shrink {
		rec.Label("shrinking-commit")
	}
	if p.Open() {
		rec.Label("tail:open-transaction(valid chain)")
	}
	if invalidTail && !p.Open() {
		rec.Label("tail:bytes-beyond-valid-prefix")
	}
	if p.TailSaltMatch {
		rec.Label("tail:salt-matching-frame-beyond-chain")
	}
	if len(committed) == 0 {
		rec.Label("no-committed-frames")
	}
	for _, n := range c.notes {
		rec.Label(n)
	}

	// resume offsets
	offsets := append([]int{0}, p.Commits...)
	var runs []c05Run
	for _, k := range offsets {
		if k == 0 {
			runs = append(runs, c05Run{0, true, false}, c05Run{0, true, true})
		}
		runs = append(runs, c05Run{k, false, false}, c05Run{k, false, true})
	}
	sqlPick := map[int]bool{}
	for i := 0; i < j.sqlite && i < len(runs); i++ {
		sqlPick[pick(len(runs))] = true
	}
	baseK := map[int][]byte{}
	wantK := map[int][]byte{}
	for _, k := range offsets {
		baseK[k] = c05Apply(c.base, ps, committed[:k])
		wantK[k] = c05Apply(baseK[k], ps, committed[k:])
	}

	var knownMsg string
	for ri, r := range runs {
		fail := func(format string, a ...any) (string, string) {
			m := fmt.Sprintf("%s: ", r) + fmt.Sprintf(format, a...) + " :: " + c.desc
			if !r.full && p.TailSaltMatch {
				return c05SigUnvalidated, m
			}
			if p.Open() {
				return "C05/open-transaction-not-reported", m
			}
			if r.k > 0 {
				return "C05/resume-offset-mismatch", m
			}
			return "C05/compaction-mismatch", m
		}
		out, err := c05Compact(c.wal, r)
		var s, m string
		switch {
		case p.Open():
			rec.Label("run:expect-ErrOpenTransaction")
			if err == nil {
				s, m = fail("valid chain ends inside a transaction (%d frames after the last commit) but no error was reported (%d bytes of output)", len(p.Frames)-p.LastCommit, len(out))
			} else if !errors.Is(err, ErrOpenTransaction) {
				s, m = fail("valid chain ends inside a transaction; want ErrOpenTransaction, got %v", err)
			}
		case err != nil:
			rec.Label("run:expect-equivalent")
			s, m = fail("unexpected error %v for a WAL whose valid prefix ends at a commit (%d committed frames, %d tail bytes)", err, p.LastCommit, p.TailLen)
		default:
			rec.Label("run:expect-equivalent")
			if e := c05CheckCompacted(out, ps, baseK[r.k], wantK[r.k], r.k < p.LastCommit); e != nil {
				s, m = fail("%v", e)
			} else if sqlPick[ri] {
				rec.Label("run:sqlite-oracle")
				got, e := c05SQLiteCheckpoint(j.dir, baseK[r.k], out)
				if e != nil {
					s, m = fail("SQLite cannot checkpoint the compacted WAL: %v", e)
				} else if !bytes.Equal(got, wantK[r.k]) {
					s, m = fail("SQLite checkpoint of the compacted WAL differs from the original: %s", c05FirstDiff(got, wantK[r.k], ps))
				} else if r.k == 0 && !bytes.Equal(got, sqlAll) {
					s, m = fail("SQLite(base, compacted) != SQLite(base, original): %s", c05FirstDiff(got, sqlAll, ps))
				}
			}
		}
		if s == "" {
			continue
		}
		if s == c05SigUnvalidated && rec.Known(s) {
			knownMsg = m
			continue // keep judging the other runs of this case
		}
		return s, m
	}
	if knownMsg != "" {
		return c05SigUnvalidated, knownMsg
	}
	return "", ""
}

// c05OracleVerdict: cases where the two oracles disagree cannot be judged. That
// is a defect of the check, not of rqlite: the process exits non-zero without a
// test verdict, which the driver reports as inconclusive.
func c05OracleVerdict(rec *vstat.Rec, problems int) {
	if problems == 0 {
		return
	}
	rec.Flush()
	fmt.Printf("BROKEN CHECK: %d cases where the reference applier and SQLite disagreed on the original WAL (see ORACLE-PROBLEM labels)\n", problems)
	os.Exit(3)
}

func c05Bucket(n int) string {
	switch {
	case n == 0:
		return "0"
	case n == 1:
		return "1"
	case n <= 3:
		return "2-3"
	case n <= 8:
		return "4-8"
	}
	return "9+"
}

func c05Finish(rt *rapid.T, rec *vstat.Rec, oracleProblems *int, sig, msg string) {
	switch sig {
	case "":
	case "ORACLE":
		// the two oracles disagree: the case cannot be judged. Never a
		// violation; reported as a broken check after the run.
		*oracleProblems++
		if os.Getenv("VERIF_C05_DEBUG") != "" {
			rt.Fatalf("ORACLE PROBLEM: %s", msg)
		}
		rt.Logf("ORACLE PROBLEM: %s", msg)
	default:
		if rec.KnownHit(sig, c05WhatUnvalid) {
			return
		}
		rt.Fatalf("%s", rec.Violation(sig, "%s", msg))
	}
}

// ------------------------------------------------------------ base images

var (
	c05BaseMu    sync.Mutex
	c05BaseCache = map[int][]byte{}
)

// c05BaseImage returns a real (SQLite-made) database image with the given page
// size: empty schema, a handful of (free) pages. Its "version-valid-for" field is
// made different from the change counter so that SQLite takes the database size
// from the file/WAL rather than from the header (synthetic WALs change the size
// without rewriting page 1). Deterministic, immutable, cached per page size.
func c05BaseImage(dir string, ps int) ([]byte, error) {
	c05BaseMu.Lock()
	defer c05BaseMu.Unlock()
	if b, ok := c05BaseCache[ps]; ok {
		return b, nil
	}
	p := filepath.Join(dir, fmt.Sprintf("mkbase-%d.db", ps))
	for _, sfx := range []string{"", "-wal", "-shm"} {
		os.Remove(p + sfx)
	}
	db, err := vsql.Open(p)
	if err != nil {
		return nil, err
	}
	stmts := []string{
		fmt.Sprintf("PRAGMA page_size=%d", ps),
		"PRAGMA journal_mode=WAL",
		"CREATE TABLE t(a INTEGER PRIMARY KEY, b BLOB)",
	}
	for i := 0; i < 8; i++ {
		stmts = append(stmts, fmt.Sprintf("INSERT INTO t(b) VALUES(zeroblob(%d))", ps))
	}
	// drop the table again: the schema is empty (SQLite validates root page
	// numbers against the database size when it loads the schema, and synthetic
	// WALs choose sizes freely); the pages stay in the file as free pages
	stmts = append(stmts, "DROP TABLE t", "PRAGMA wal_checkpoint(TRUNCATE)")
	for _, s := range stmts {
		if s[:6] == "PRAGMA" {
			rows, err := db.Query(s)
			if err != nil {
				db.Close()
				return nil, fmt.Errorf("%s: %w", s, err)
			}
			for rows.Next() {
			}
			rows.Close()
			continue
		}
		if _, err := db.Exec(s); err != nil {
			db.Close()
			return nil, fmt.Errorf("%s: %w", s, err)
		}
	}
	db.Close()
	b, err := os.ReadFile(p)
	if err != nil {
		return nil, err
	}
	if len(b) < 6*ps {
		return nil, fmt.Errorf("base image too small: %d bytes", len(b))
	}
	cc := binary.BigEndian.Uint32(b[24:])
	binary.BigEndian.PutUint32(b[92:], cc+1)
	c05BaseCache[ps] = b
	return b, nil
}

// ------------------------------------------------------- synthetic builder

type c05Builder struct {
	ps     int
	be     bool
	salt1  uint32
	salt2  uint32
	s0, s1 uint32
	buf    []byte
	page1  []byte
	rnd    uint64
}

func (b *c05Builder) next() uint64 {
	b.rnd ^= b.rnd << 13
	b.rnd ^= b.rnd >> 7
	b.rnd ^= b.rnd << 17
	return b.rnd
}

func (b *c05Builder) header(seq uint32) {
	h := make([]byte, 32)
	magic := uint32(0x377f0682)
	if b.be {
		magic = 0x377f0683
	}
	binary.BigEndian.PutUint32(h[0:], magic)
	binary.BigEndian.PutUint32(h[4:], 3007000)
	binary.BigEndian.PutUint32(h[8:], uint32(b.ps))
	binary.BigEndian.PutUint32(h[12:], seq)
	binary.BigEndian.PutUint32(h[16:], b.salt1)
	binary.BigEndian.PutUint32(h[20:], b.salt2)
	b.s0, b.s1 = c05Cksum(b.be, 0, 0, h[:24])
	binary.BigEndian.PutUint32(h[24:], b.s0)
	binary.BigEndian.PutUint32(h[28:], b.s1)
	b.buf = append(b.buf, h...)
}

func (b *c05Builder) pageData(pgno uint32) []byte {
	d := make([]byte, b.ps)
	if pgno == 1 {
		// a valid page 1: the base's, with a fresh change counter and a
		// different version-valid-for (database size comes from the WAL)
		copy(d, b.page1)
		cc := uint32(b.next())
		binary.BigEndian.PutUint32(d[24:], cc)
		binary.BigEndian.PutUint32(d[92:], cc+1)
		return d
	}
	for i := 0; i+8 <= len(d); i += 8 {
		binary.LittleEndian.PutUint64(d[i:], b.next())
	}
	return d
}

// frame appends a frame continuing the builder's checksum chain.
func (b *c05Builder) frame(pgno, commit uint32) {
	h := make([]byte, 24)
	binary.BigEndian.PutUint32(h[0:], pgno)
	binary.BigEndian.PutUint32(h[4:], commit)
	binary.BigEndian.PutUint32(h[8:], b.salt1)
	binary.BigEndian.PutUint32(h[12:], b.salt2)
	d := b.pageData(pgno)
	b.s0, b.s1 = c05Cksum(b.be, b.s0, b.s1, h[:8])
	b.s0, b.s1 = c05Cksum(b.be, b.s0, b.s1, d)
	binary.BigEndian.PutUint32(h[16:], b.s0)
	binary.BigEndian.PutUint32(h[20:], b.s1)
	b.buf = append(b.buf, h...)
	b.buf = append(b.buf, d...)
}

var c05PageSizes = []int{512, 512, 512, 512, 512, 512, 1024, 1024, 1024, 2048, 4096, 4096, 8192, 16384, 32768, 65536}

type c05Tx struct {
	pg     []uint32
	commit uint32
}

// c05GenTx draws one transaction. prevSize is the database size (pages) before
// it, maxPg the cap on the database size. As in any WAL SQLite writes, a commit
// that grows the database contains a frame for every page it adds (SQLite's
// checkpoint rejects a WAL that claims more pages than base + WAL can hold).
func c05GenTx(rt *rapid.T, prevSize, maxPg int, label string) c05Tx {
	grow := rapid.SampledFrom([]int{0, 0, 1, 2, 3, 6, 40}).Draw(rt, label+"-maxgrow")
	hi := prevSize + grow
	if hi > maxPg {
		hi = maxPg
	}
	if hi < 1 {
		hi = 1
	}
	size := rapid.IntRange(1, hi).Draw(rt, label+"-dbsize")
	top := prevSize
	if size > top {
		top = size
	}
	n := rapid.IntRange(0, 5).Draw(rt, label+"-frames")
	tx := c05Tx{commit: uint32(size)}
	for i := 0; i < n; i++ {
		tx.pg = append(tx.pg, uint32(rapid.IntRange(1, top+1).Draw(rt, label+"-pgno")))
	}
	for pg := prevSize + 1; pg <= size; pg++ {
		// insert the mandatory new page at a drawn position
		at := rapid.IntRange(0, len(tx.pg)).Draw(rt, label+"-growpos")
		tx.pg = append(tx.pg, 0)
		copy(tx.pg[at+1:], tx.pg[at:])
		tx.pg[at] = uint32(pg)
	}
	if len(tx.pg) == 0 {
		tx.pg = append(tx.pg, uint32(rapid.IntRange(1, top).Draw(rt, label+"-pgno")))
	}
	return tx
}

func c05GenSynth(rt *rapid.T, dir string) (*c05Case, error) {
	ps := rapid.SampledFrom(c05PageSizes).Draw(rt, "pagesize")
	img, err := c05BaseImage(dir, ps)
	if err != nil {
		return nil, err
	}
	nBase := rapid.IntRange(1, len(img)/ps).Draw(rt, "basepages")
	base := append([]byte(nil), img[:nBase*ps]...)
	b := &c05Builder{ps: ps, page1: img[:ps]}
	b.be = rapid.Bool().Draw(rt, "bigendian-checksums")
	b.salt1 = rapid.Uint32().Draw(rt, "salt1")
	b.salt2 = rapid.Uint32().Draw(rt, "salt2")
	b.rnd = rapid.Uint64().Draw(rt, "payload-seed") | 1
	maxPg := rapid.SampledFrom([]int{2, 3, 4, 6, 8, 12, 12, 40, 300}).Draw(rt, "maxdbsize")
	if ps >= 16384 && maxPg > 40 {
		maxPg = 40
	}
	size := nBase // database size in pages after the last committed transaction
	var desc strings.Builder
	fmt.Fprintf(&desc, "synth ps=%d be=%v base=%dp maxpg=%d txs=[", ps, b.be, nBase, maxPg)
	b.header(uint32(rapid.IntRange(0, 3).Draw(rt, "ckptseq")))
	nTx := rapid.IntRange(0, 6).Draw(rt, "ntx")
	addTx := func(tx c05Tx, committed bool) {
		for i, pg := range tx.pg {
			cm := uint32(0)
			if committed && i == len(tx.pg)-1 {
				cm = tx.commit
			}
			b.frame(pg, cm)
		}
		fmt.Fprintf(&desc, "%v", tx.pg)
		if committed {
			fmt.Fprintf(&desc, "c%d ", tx.commit)
		} else {
			desc.WriteString("open ")
		}
	}
	for i := 0; i < nTx; i++ {
		tx := c05GenTx(rt, size, maxPg, "tx")
		addTx(tx, true)
		size = int(tx.commit)
	}
	desc.WriteString("] tail=")

	c := &c05Case{base: base}
	tail := rapid.SampledFrom([]string{"none", "none", "open-tx", "bad-checksum", "foreign-salt", "stale-same-salt", "cut-frame", "garbage", "zeros"}).Draw(rt, "tail")
	c.notes = append(c.notes, "synth-tail:"+tail)
	desc.WriteString(tail)
	frameSz := 24 + ps
	switch tail {
	case "none":
	case "open-tx":
		// frames of a transaction that never committed, valid chain
		tx := c05GenTx(rt, size, maxPg, "open")
		addTx(tx, false)
		if rapid.Bool().Draw(rt, "garbage-after-open") {
			b.buf = append(b.buf, make([]byte, rapid.IntRange(1, frameSz+40).Draw(rt, "ngarbage"))...)
			desc.WriteString("+zeros")
		}
	case "bad-checksum":
		// further valid transactions, then damage one frame of them: SQLite's
		// valid prefix ends just before the damaged frame
		start := len(b.buf)
		n := rapid.IntRange(1, 3).Draw(rt, "ntailtx")
		for i := 0; i < n; i++ {
			tx := c05GenTx(rt, size, maxPg, "tailtx")
			addTx(tx, true)
			size = int(tx.commit)
		}
		nf := (len(b.buf) - start) / frameSz
		which := rapid.IntRange(0, nf-1).Draw(rt, "damaged-frame")
		off := start + which*frameSz
		switch rapid.SampledFrom([]string{"data", "cksum", "pgno"}).Draw(rt, "damage") {
		case "data":
			b.buf[off+24+rapid.IntRange(0, ps-1).Draw(rt, "byte")] ^= 0x40
		case "cksum":
			b.buf[off+16+rapid.IntRange(0, 7).Draw(rt, "byte")] ^= 0x01
		case "pgno":
			b.buf[off+3] ^= 0x02 // page number changed without fixing the checksum
			if binary.BigEndian.Uint32(b.buf[off:]) == 0 {
				b.buf[off+3] = 0x07
			}
		}
		fmt.Fprintf(&desc, "(frame %d of %d damaged)", which, nf)
	case "foreign-salt":
		// frames left over from an earlier WAL generation: own salt, own chain
		ob := &c05Builder{ps: ps, be: b.be, page1: b.page1, rnd: b.rnd ^ 0x9e3779b97f4a7c15}
		ob.salt1, ob.salt2 = b.salt1-1, rapid.Uint32().Draw(rt, "oldsalt2")
		if rapid.Bool().Draw(rt, "same-salt1") {
			ob.salt1 = b.salt1
			if ob.salt2 == b.salt2 {
				ob.salt2++
			}
		}
		ob.s0, ob.s1 = rapid.Uint32().Draw(rt, "olds0"), rapid.Uint32().Draw(rt, "olds1")
		if rapid.Bool().Draw(rt, "checksum-chain-continues") {
			// the frame checksum does not cover the salt fields: frames whose
			// checksums continue the chain but whose salts differ are still
			// not part of the WAL
			ob.s0, ob.s1 = b.s0, b.s1
			desc.WriteString("(checksums continue the chain)")
		}
		n := rapid.IntRange(1, 6).Draw(rt, "nold")
		for i := 0; i < n; i++ {
			cm := uint32(0)
			if rapid.Bool().Draw(rt, "oldcommit") {
				cm = uint32(rapid.IntRange(1, maxPg+2).Draw(rt, "olddbsize"))
			}
			ob.frame(uint32(rapid.IntRange(1, maxPg).Draw(rt, "oldpgno")), cm)
		}
		b.buf = append(b.buf, ob.buf...)
	case "stale-same-salt":
		// what a rolled-back transaction that spilled to the WAL leaves behind
		// once a shorter transaction has been written over its beginning: same
		// salts, checksums from a chain that no longer exists
		ob := &c05Builder{ps: ps, be: b.be, page1: b.page1, rnd: b.rnd ^ 0x517cc1b727220a95, salt1: b.salt1, salt2: b.salt2}
		ob.s0, ob.s1 = rapid.Uint32().Draw(rt, "stales0"), rapid.Uint32().Draw(rt, "stales1")
		if ob.s0 == b.s0 && ob.s1 == b.s1 {
			ob.s0++
		}
		n := rapid.IntRange(1, 6).Draw(rt, "nstale")
		anyCommit := rapid.IntRange(0, 3).Draw(rt, "stale-with-commit") == 0
		for i := 0; i < n; i++ {
			cm := uint32(0)
			if anyCommit && rapid.Bool().Draw(rt, "stalecommit") {
				cm = uint32(rapid.IntRange(1, maxPg+2).Draw(rt, "staledbsize"))
			}
			ob.frame(uint32(rapid.IntRange(1, maxPg).Draw(rt, "stalepgno")), cm)
		}
		b.buf = append(b.buf, ob.buf...)
		if anyCommit {
			desc.WriteString("(some commit markers)")
		}
	case "cut-frame":
		// a further valid committed transaction whose last frame is cut short
		start := len(b.buf)
		tx := c05GenTx(rt, size, maxPg, "cuttx")
		addTx(tx, true)
		lastOff := start + (len(tx.pg)-1)*frameSz
		keep := rapid.IntRange(0, frameSz-1).Draw(rt, "keepbytes")
		if rapid.Bool().Draw(rt, "cut-in-header") {
			keep = rapid.IntRange(0, 24).Draw(rt, "keephdr")
		}
		b.buf = b.buf[:lastOff+keep]
		fmt.Fprintf(&desc, "(kept %d bytes of the commit frame)", keep)
	case "garbage":
		n := rapid.IntRange(1, 2*frameSz).Draw(rt, "ngarbage")
		for i := 0; i < n; i++ {
			b.buf = append(b.buf, byte(b.next()))
		}
	case "zeros":
		b.buf = append(b.buf, make([]byte, rapid.IntRange(1, 2*frameSz).Draw(rt, "nzeros"))...)
	}
	c.wal = b.buf
	c.desc = desc.String()
	return c, nil
}

func TestVerif_C05_Synth(t *testing.T) {
	rec := vstat.New(t, "C05", "synth",
		"WAL images built frame by frame over a real base database image: page size 512..65536, both checksum byte orders, random salts, 0-6 committed transactions of 1-5 frames over 2..300 page numbers with random commit sizes (growing and shrinking), then a tail: none / unterminated transaction / frame with bad checksum / frames with a foreign salt / stale same-salt frames / cut frame / garbage / zeros. Every commit boundary is tried as resume offset with fullScan=false, offset 0 also with fullScan=true, output via Writer.WriteTo and via Bytes(). Non-trivial = a page rewritten by a later transaction, a shrinking commit, >=2 commits (resume offset > 0), bytes beyond the valid prefix, or an unterminated transaction. Distinct = structure (page numbers, commit sizes, tail kind), payload excluded.")
	dir := t.TempDir()
	oracleProblems := 0
	j := &c05Judge{rec: rec, dir: dir, sqlite: 2}
	rapid.Check(t, func(rt *rapid.T) {
		c, err := c05GenSynth(rt, dir)
		if err != nil {
			rt.Skipf("cannot build base image: %v", err)
		}
		rec.Sample(c.desc)
		sig, msg := j.judge(c, func(n int) int { return rapid.IntRange(0, n-1).Draw(rt, "sqlite-oracle-run") })
		c05Finish(rt, rec, &oracleProblems, sig, msg)
	})
	rec.Extra("oracle_problems", oracleProblems)
	c05OracleVerdict(rec, oracleProblems)
}

// ---------------------------------------------------- SQLite-produced WALs

type c05Live struct {
	db     *sql.DB
	rt     *rapid.T
	ps     int
	tables []string
	nextT  int
	rnd    uint64
	ops    []string
	err    error
}

func (l *c05Live) exec(q string, args ...any) {
	if l.err != nil {
		return
	}
	if _, err := l.db.Exec(q, args...); err != nil {
		l.err = fmt.Errorf("%s: %w", q, err)
	}
}

func (l *c05Live) pragma(q string) {
	if l.err != nil {
		return
	}
	rows, err := l.db.Query(q)
	if err != nil {
		l.err = fmt.Errorf("%s: %w", q, err)
		return
	}
	for rows.Next() {
	}
	rows.Close()
}

func (l *c05Live) blob(n int) []byte {
	b := make([]byte, n)
	for i := range b {
		if i%8 == 0 {
			l.rnd ^= l.rnd << 13
			l.rnd ^= l.rnd >> 7
			l.rnd ^= l.rnd << 17
		}
		b[i] = byte(l.rnd >> (8 * uint(i%8)))
	}
	return b
}

func (l *c05Live) blobLen(label string) int {
	switch rapid.IntRange(0, 3).Draw(l.rt, label+"-blobkind") {
	case 0:
		return rapid.IntRange(0, 40).Draw(l.rt, label+"-bloblen")
	case 1:
		return rapid.IntRange(40, l.ps/2+10).Draw(l.rt, label+"-bloblen")
	}
	return rapid.IntRange(l.ps/2, 3*l.ps).Draw(l.rt, label+"-bloblen")
}

func (l *c05Live) rowBudget() int {
	// keep WALs within a few hundred KB for the big page sizes
	switch {
	case l.ps >= 32768:
		return 4
	case l.ps >= 8192:
		return 10
	}
	return 40
}

func (l *c05Live) insertRows(tbl string, n, blen int) {
	for i := 0; i < n && l.err == nil; i++ {
		l.exec(fmt.Sprintf("INSERT INTO %s(k,v) VALUES(?,?)", tbl), i, l.blob(blen))
	}
}

func (l *c05Live) op(phase string) {
	rt := l.rt
	kinds := []string{"insert", "insert", "update", "delete", "create", "drop", "vacuum", "rollback-big", "rollback-big", "savepoint-tx", "multi-insert-tx"}
	k := rapid.SampledFrom(kinds).Draw(rt, phase+"-op")
	if len(l.tables) == 0 && k != "vacuum" {
		k = "create"
	}
	pickT := func() string { return rapid.SampledFrom(l.tables).Draw(rt, "table") }
	switch k {
	case "create":
		name := fmt.Sprintf("t%d", l.nextT)
		l.nextT++
		l.exec(fmt.Sprintf("CREATE TABLE %s(id INTEGER PRIMARY KEY, k INT, v BLOB)", name))
		if rapid.Bool().Draw(rt, "with-index") {
			l.exec(fmt.Sprintf("CREATE INDEX %s_k ON %s(k)", name, name))
		}
		l.tables = append(l.tables, name)
		l.ops = append(l.ops, "create")
	case "insert":
		n, bl := rapid.IntRange(1, l.rowBudget()).Draw(rt, "nrows"), l.blobLen("ins")
		tb := pickT()
		// one transaction per statement (autocommit) or one for all rows
		if rapid.Bool().Draw(rt, "single-tx") {
			l.exec("BEGIN")
			l.insertRows(tb, n, bl)
			l.exec("COMMIT")
			l.ops = append(l.ops, fmt.Sprintf("insert-tx(%d,%d)", n, bl))
		} else {
			if n > 6 {
				n = 6
			}
			l.insertRows(tb, n, bl)
			l.ops = append(l.ops, fmt.Sprintf("insert-auto(%d,%d)", n, bl))
		}
	case "update":
		bl := l.blobLen("upd")
		m := rapid.IntRange(1, 5).Draw(rt, "modulus")
		l.exec(fmt.Sprintf("UPDATE %s SET v=?, k=k+1 WHERE id%%%d=0", pickT(), m), l.blob(bl))
		l.ops = append(l.ops, fmt.Sprintf("update(%d,%%%d)", bl, m))
	case "delete":
		m := rapid.IntRange(1, 4).Draw(rt, "modulus")
		l.exec(fmt.Sprintf("DELETE FROM %s WHERE id%%%d=0", pickT(), m))
		l.ops = append(l.ops, fmt.Sprintf("delete(%%%d)", m))
	case "drop":
		i := rapid.IntRange(0, len(l.tables)-1).Draw(rt, "droptable")
		l.exec("DROP TABLE " + l.tables[i])
		l.tables = append(l.tables[:i], l.tables[i+1:]...)
		l.ops = append(l.ops, "drop")
	case "vacuum":
		l.exec("VACUUM")
		l.ops = append(l.ops, "vacuum")
	case "rollback-big":
		// a transaction larger than the page cache spills frames to the WAL
		// before it is rolled back
		n, bl := rapid.IntRange(5, 3*l.rowBudget()).Draw(rt, "nrows"), rapid.IntRange(l.ps/2, 2*l.ps).Draw(rt, "bloblen")
		tb := pickT()
		l.exec("BEGIN")
		l.insertRows(tb, n, bl)
		l.exec("ROLLBACK")
		l.ops = append(l.ops, fmt.Sprintf("rollback-big(%d,%d)", n, bl))
	case "savepoint-tx":
		tb := pickT()
		n, bl := rapid.IntRange(1, l.rowBudget()).Draw(rt, "nrows"), l.blobLen("sp")
		l.exec("BEGIN")
		l.insertRows(tb, 2, 20)
		l.exec("SAVEPOINT s1")
		l.insertRows(tb, n, bl)
		l.exec("ROLLBACK TO s1")
		l.insertRows(tb, 1, 10)
		l.exec("COMMIT")
		l.ops = append(l.ops, fmt.Sprintf("savepoint-tx(%d,%d)", n, bl))
	case "multi-insert-tx":
		l.exec("BEGIN")
		for i := 0; i < 3 && len(l.tables) > 0; i++ {
			l.insertRows(pickT(), rapid.IntRange(1, 5).Draw(rt, "nrows"), l.blobLen("mi"))
		}
		l.exec("COMMIT")
		l.ops = append(l.ops, "multi-insert-tx")
	}
}

func c05GenSQLite(rt *rapid.T, dir string) (*c05Case, error) {
	ps := rapid.SampledFrom([]int{512, 512, 1024, 1024, 2048, 4096, 4096, 8192, 16384, 32768, 65536}).Draw(rt, "pagesize")
	p := filepath.Join(dir, "live.db")
	for _, sfx := range []string{"", "-wal", "-shm", "-journal"} {
		os.Remove(p + sfx)
	}
	db, err := vsql.Open(p)
	if err != nil {
		return nil, err
	}
	defer db.Close()
	l := &c05Live{db: db, rt: rt, ps: ps, rnd: rapid.Uint64().Draw(rt, "payload-seed") | 1}
	cache := rapid.SampledFrom([]int{1, 2, 5, 10, 10, 50, 2000}).Draw(rt, "cache_size")
	autovac := rapid.SampledFrom([]int{0, 0, 0, 1, 2}).Draw(rt, "auto_vacuum")
	l.pragma(fmt.Sprintf("PRAGMA page_size=%d", ps))
	l.pragma(fmt.Sprintf("PRAGMA auto_vacuum=%d", autovac))
	l.pragma("PRAGMA journal_mode=WAL")
	l.pragma("PRAGMA wal_autocheckpoint=0")
	l.pragma("PRAGMA synchronous=OFF")
	l.pragma(fmt.Sprintf("PRAGMA cache_size=%d", cache))
	l.ops = append(l.ops, fmt.Sprintf("sqlite ps=%d cache=%d autovac=%d pre:", ps, cache, autovac))
	l.op("pre") // at least a table
	nPre := rapid.IntRange(0, 4).Draw(rt, "npre")
	for i := 0; i < nPre; i++ {
		l.op("pre")
	}
	// start a new WAL generation: TRUNCATE leaves an empty file, RESTART leaves
	// the old frames in place to be overwritten from the start
	mode := rapid.SampledFrom([]string{"TRUNCATE", "RESTART", "RESTART"}).Draw(rt, "generation-change")
	l.pragma("PRAGMA wal_checkpoint(" + mode + ")")
	l.ops = append(l.ops, "| "+mode+" |")
	if l.err != nil {
		return nil, l.err
	}
	base, err := os.ReadFile(p)
	if err != nil {
		return nil, err
	}
	n := rapid.IntRange(0, 7).Draw(rt, "nops")
	for i := 0; i < n; i++ {
		l.op("main")
	}
	if l.err != nil {
		return nil, l.err
	}
	w, err := os.ReadFile(p + "-wal")
	if err != nil {
		return nil, err
	}
	c := &c05Case{base: base, wal: w, desc: strings.Join(l.ops, " ")}
	c.notes = append(c.notes, "sqlite-generation-change:"+mode)
	seen := map[string]bool{}
	for _, o := range l.ops[1:] {
		name := o
		if i := strings.IndexByte(o, '('); i >= 0 {
			name = o[:i]
		}
		if name != "" && name[0] != '|' && !seen[name] {
			seen[name] = true
			c.notes = append(c.notes, "sqlite-op:"+name)
		}
	}
	return c, nil
}

func TestVerif_C05_SQLite(t *testing.T) {
	rec := vstat.New(t, "C05", "sqlite",
		"WALs written by SQLite (raw driver): page size 512..65536, auto_vacuum none/full/incremental, cache_size 1..2000 pages; a pre-phase of operations, a TRUNCATE or RESTART checkpoint (RESTART leaves the old generation's frames in the file), then 0-7 operations from {insert autocommit/transaction, update, delete, create table(+index), drop table, VACUUM, big transaction rolled back after spilling to the WAL, transaction with savepoint rollback, multi-table transaction}. Base = database file at the generation change, WAL = file bytes at the end. All commit boundaries as resume offsets, both scan modes, both output paths. Non-trivial as in synth. Distinct = operation list.")
	dir := t.TempDir()
	oracleProblems := 0
	j := &c05Judge{rec: rec, dir: dir, sqlite: 3}
	rapid.Check(t, func(rt *rapid.T) {
		c, err := c05GenSQLite(rt, dir)
		if err != nil {
			rec.Label("skip:generator-error")
			rt.Logf("generator: %v", err)
			return
		}
		rec.Sample(c.desc)
		sig, msg := j.judge(c, func(n int) int { return rapid.IntRange(0, n-1).Draw(rt, "sqlite-oracle-run") })
		c05Finish(rt, rec, &oracleProblems, sig, msg)
	})
	rec.Extra("oracle_problems", oracleProblems)
	c05OracleVerdict(rec, oracleProblems)
}
