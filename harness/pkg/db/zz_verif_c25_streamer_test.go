package db

// C25, db-level unit: the CDCStreamer labels every committed row change with the
// index of the log entry being applied. The streamer is wired to a real DB the
// way Store.fsmApply does it (pre-update hook + commit hook + rollback hook
// registered once; Reset(index) before every request). Requests are generated
// (1..5 statements, insert / multi-row insert / update / delete over two tables
// plus failing statements at any position -- PK / UNIQUE / NOT NULL / CHECK
// violation, partially applied multi-row insert, syntax error, missing table --
// with and without transaction, through Execute or the unified Request path;
// without a transaction a failing statement changes nothing and the rest still
// run, with a transaction the first failure rolls the request back); the expected
// change set per index comes from an independent model (same statements on a
// raw-driver database, tables diffed around every statement). Every expected
// (index, op, table, rowid) must be found in a group carrying that index.

import (
	"database/sql"
	"fmt"
	"os"
	"path/filepath"
	"sort"
	"strings"
	"testing"

	command "github.com/rqlite/rqlite/v10/command/proto"
	"github.com/rqlite/rqlite/v10/internal/verif/vsql"
	"github.com/rqlite/rqlite/v10/internal/verif/vstat"
	"pgregory.net/rapid"
)

type c25sChange struct {
	Index uint64
	Op    string
	Table string
	RowID int64
	Stmt  int
}

func c25sRows(db *sql.DB, table string) (map[int64]string, error) {
	rows, err := db.Query("SELECT id, coalesce(v,'') FROM " + table)
	if err != nil {
		return nil, err
	}
	defer rows.Close()
	m := map[int64]string{}
	for rows.Next() {
		var id int64
		var v string
		if err := rows.Scan(&id, &v); err != nil {
			return nil, err
		}
		m[id] = v
	}
	return m, rows.Err()
}

func c25sApply(db *sql.DB, stmt string) ([]c25sChange, error) {
	var out []c25sChange
	tables := []string{"t1", "t2"}
	before := map[string]map[int64]string{}
	for _, t := range tables {
		m, err := c25sRows(db, t)
		if err != nil {
			return nil, err
		}
		before[t] = m
	}
	if _, err := db.Exec(stmt); err != nil {
		return nil, err
	}
	for _, t := range tables {
		after, err := c25sRows(db, t)
		if err != nil {
			return nil, err
		}
		ids := map[int64]bool{}
		for id := range after {
			ids[id] = true
		}
		for id := range before[t] {
			ids[id] = true
		}
		var sorted []int64
		for id := range ids {
			sorted = append(sorted, id)
		}
		sort.Slice(sorted, func(i, j int) bool { return sorted[i] < sorted[j] })
		for _, id := range sorted {
			b, inB := before[t][id]
			a, inA := after[id]
			switch {
			case inA && !inB:
				out = append(out, c25sChange{Op: "INSERT", Table: t, RowID: id})
			case inB && !inA:
				out = append(out, c25sChange{Op: "DELETE", Table: t, RowID: id})
			case a != b:
				out = append(out, c25sChange{Op: "UPDATE", Table: t, RowID: id})
			}
		}
	}
	return out, nil
}

// c25sApplyReq applies a request to the model with rqlite's documented request
// semantics and returns the committed changes per statement and the failures.
func c25sApplyReq(db *sql.DB, stmts []string, tx bool) ([][]c25sChange, []bool, error) {
	changes := make([][]c25sChange, len(stmts))
	failed := make([]bool, len(stmts))
	if tx {
		if _, err := db.Exec("BEGIN"); err != nil {
			return nil, nil, err
		}
	}
	for j, s := range stmts {
		chs, serr := c25sApply(db, s)
		if serr != nil {
			failed[j] = true
			if tx {
				if _, err := db.Exec("ROLLBACK"); err != nil {
					return nil, nil, err
				}
				return make([][]c25sChange, len(stmts)), failed, nil
			}
			continue
		}
		changes[j] = chs
	}
	if tx {
		if _, err := db.Exec("COMMIT"); err != nil {
			return nil, nil, err
		}
	}
	return changes, failed, nil
}

type c25sReq struct {
	Index   uint64
	Stmts   []string
	Tx      bool
	Unified bool
}

func (r c25sReq) String() string {
	return fmt.Sprintf("@%d tx=%v unified=%v [%s]", r.Index, r.Tx, r.Unified, strings.Join(r.Stmts, "; "))
}

func c25sGen(rt *rapid.T) []c25sReq {
	n := rapid.IntRange(1, vstat.Scale(8, 20)).Draw(rt, "nReqs")
	idx := uint64(rapid.IntRange(1, 50).Draw(rt, "firstIndex"))
	serial := 0
	var reqs []c25sReq
	for i := 0; i < n; i++ {
		r := c25sReq{Index: idx, Tx: rapid.Bool().Draw(rt, "tx"), Unified: rapid.IntRange(0, 3).Draw(rt, "unified") == 0}
		k := rapid.SampledFrom([]int{1, 1, 2, 2, 3, 5}).Draw(rt, "nStmts")
		for j := 0; j < k; j++ {
			serial++
			t := rapid.SampledFrom([]string{"t1", "t1", "t2"}).Draw(rt, "table")
			switch rapid.IntRange(0, 8).Draw(rt, "kind") {
			case 0, 1, 2:
				r.Stmts = append(r.Stmts, fmt.Sprintf("INSERT INTO %s(v) VALUES('a%d')", t, serial))
			case 3:
				r.Stmts = append(r.Stmts, fmt.Sprintf("INSERT INTO %s(v) VALUES('b%d'),('c%d')", t, serial, serial))
			case 4:
				r.Stmts = append(r.Stmts, fmt.Sprintf("UPDATE %s SET v='u%d' WHERE id=(SELECT max(id) FROM %s)", t, serial, t))
			case 5:
				r.Stmts = append(r.Stmts, fmt.Sprintf("UPDATE %s SET v=v||'x%d' WHERE id IN (SELECT id FROM %s ORDER BY id DESC LIMIT 3)", t, serial, t))
			case 6:
				r.Stmts = append(r.Stmts, fmt.Sprintf("DELETE FROM %s WHERE id=(SELECT min(id) FROM %s)", t, t))
			default:
				var f string
				switch rapid.IntRange(0, 6).Draw(rt, "failKind") {
				case 0:
					f = fmt.Sprintf("INSERT INTO %s(id, v) VALUES((SELECT max(id) FROM %s), 'dup%d')", t, t, serial)
				case 1:
					f = fmt.Sprintf("INSERT INTO %s(v, u) VALUES('q%d', 'same')", t, serial)
				case 2:
					f = fmt.Sprintf("INSERT INTO %s(v) VALUES(NULL)", t)
				case 3:
					f = fmt.Sprintf("INSERT INTO %s(v) VALUES('bad')", t)
				case 4:
					f = fmt.Sprintf("INSERT INTO %s(id, v) SELECT 500000+%d, 'p%d' UNION ALL SELECT (SELECT min(id) FROM %s), 'dup'", t, serial, serial, t)
				case 5:
					f = fmt.Sprintf("INSERT INTO %s(v) VALUEZ('s%d')", t, serial)
				default:
					f = fmt.Sprintf("INSERT INTO no_such_table_%s(v) VALUES('n%d')", t, serial)
				}
				r.Stmts = append(r.Stmts, f)
			}
		}
		reqs = append(reqs, r)
		idx += uint64(rapid.IntRange(1, 3).Draw(rt, "indexGap"))
	}
	return reqs
}

func TestVerif_C25_Streamer(t *testing.T) {
	rec := vstat.New(t, "C25", "streamer",
		"1..8 (thorough ..20) requests of 1..5 statements (insert/multi-row insert/update/delete over t1,t2), tx or not, Execute or unified Request, applied to a real DB with the CDCStreamer hooks registered as the Store does and Reset(index) before each; with failing statements (constraint violations, syntax errors) at any position and the rollback hook registered; non-trivial = some non-transactional request has >=2 statements that change rows, or a failing statement plus one that changes rows; distinct by the request list")
	rapid.Check(t, func(rt *rapid.T) {
		defer c25sRecoverInfra(rec, t)
		reqs := c25sGen(rt)
		dir, err := os.MkdirTemp("", "c25s-")
		if err != nil {
			c25sInfra("tempdir")
		}
		defer os.RemoveAll(dir)
		d, err := Open(filepath.Join(dir, "db.sqlite"), false, true)
		if err != nil {
			c25sInfra("open")
		}
		defer d.Close()
		model, err := vsql.OpenMem()
		if err != nil {
			c25sInfra("model")
		}
		defer model.Close()
		schema := []string{
			"CREATE TABLE t1(id INTEGER PRIMARY KEY, v TEXT NOT NULL CHECK(v <> 'bad'), u TEXT UNIQUE)",
			"CREATE TABLE t2(id INTEGER PRIMARY KEY, v TEXT NOT NULL CHECK(v <> 'bad'), u TEXT UNIQUE)"}
		mk := func(stmts []string, tx bool) *command.Request {
			ss := make([]*command.Statement, len(stmts))
			for i := range stmts {
				ss[i] = &command.Statement{Sql: stmts[i]}
			}
			return &command.Request{Statements: ss, Transaction: tx}
		}
		if _, err := d.Execute(mk(schema, true), false); err != nil {
			c25sInfra("schema")
		}
		for _, s := range schema {
			if _, err := model.Exec(s); err != nil {
				t.Fatalf("harness: %v", err)
			}
		}
		ch := make(chan *command.CDCIndexedEventGroup, 4096)
		streamer, err := NewCDCStreamer(ch, d)
		if err != nil {
			t.Fatalf("harness: %v", err)
		}
		if err := d.RegisterPreUpdateHook(streamer.PreupdateHook, nil, false); err != nil {
			t.Fatalf("harness: %v", err)
		}
		if err := d.RegisterCommitHook(streamer.CommitHook); err != nil {
			t.Fatalf("harness: %v", err)
		}
		if err := d.RegisterRollbackHook(streamer.RollbackHook); err != nil {
			t.Fatalf("harness: %v", err)
		}
		defer d.RegisterRollbackHook(nil)
		defer d.RegisterCommitHook(nil)
		defer d.RegisterPreUpdateHook(nil, nil, false)

		var expected []c25sChange
		var groups []*command.CDCIndexedEventGroup
		nontrivial := false
		for _, r := range reqs {
			streamer.Reset(r.Index)
			var res []*command.ExecuteQueryResponse
			if r.Unified {
				res, err = d.Request(mk(r.Stmts, r.Tx), false)
			} else {
				res, err = d.Execute(mk(r.Stmts, r.Tx), false)
			}
			if err != nil {
				t.Fatalf("harness: request failed: %v (%s)", err, r)
			}
			changes, failed, err := c25sApplyReq(model, r.Stmts, r.Tx)
			if err != nil {
				t.Fatalf("harness: model: %v", err)
			}
			for j, x := range res {
				gotFailed := x.GetError() != "" || x.GetE().GetError() != ""
				if j < len(failed) && gotFailed != failed[j] {
					rec.Label("model-disagrees-on-failure")
					rt.Skip("rqlite and SQLite disagree about a statement failure (C13's business)")
				}
			}
			changing, anyFailed := 0, false
			for j := range r.Stmts {
				if failed[j] {
					anyFailed = true
				}
				if len(changes[j]) > 0 {
					changing++
				}
				for _, c := range changes[j] {
					c.Index, c.Stmt = r.Index, j
					expected = append(expected, c)
				}
			}
			if anyFailed {
				rec.Label(fmt.Sprintf("req-with-failing-stmt/tx=%v", r.Tx))
				if !r.Tx && changing >= 1 {
					rec.Label("nontx-failure-and-commit-in-one-request")
				}
			}
			if !r.Tx && (changing >= 2 || (anyFailed && changing >= 1)) {
				nontrivial = true
			}
		drain:
			for {
				select {
				case g := <-ch:
					groups = append(groups, g)
				default:
					break drain
				}
			}
		}
		canon := ""
		for _, r := range reqs {
			canon += r.String() + "|"
		}
		rec.Case(nontrivial, canon)
		if nontrivial {
			rec.Label("has-nontx-multi-change")
		}
		rec.LabelN("expected-changes", len(expected))
		rec.Sample(canon)

		find := func(c c25sChange, anyIndex bool) (bool, uint64) {
			for _, g := range groups {
				if !anyIndex && g.Index != c.Index {
					continue
				}
				for _, e := range g.Events {
					if e.Op.String() != c.Op || e.Table != c.Table {
						continue
					}
					if (c.Op == "DELETE" && e.OldRowId == c.RowID) || (c.Op != "DELETE" && e.NewRowId == c.RowID) {
						return true, g.Index
					}
				}
			}
			return false, 0
		}
		for _, c := range expected {
			if ok, _ := find(c, false); ok {
				continue
			}
			found, at := find(c, true)
			sig, what := "C25/streamer-change-missing", "a committed row change is not emitted under its log index"
			if found && at == 0 {
				sig, what = "C25/later-statement-labelled-index-0", "events of the 2nd+ statement of a non-transactional request are delivered with index 0"
			}
			if rec.KnownHit(sig, what) {
				return
			}
			var gs []string
			for _, g := range groups {
				gs = append(gs, fmt.Sprintf("#%d(%d events)", g.Index, len(g.Events)))
			}
			rt.Fatalf("%s", rec.Violation(sig, "change %d/%s/%s/%d (statement %d) not emitted under index %d (same change seen under index %d: %v); requests: %s; groups: %s",
				c.Index, c.Op, c.Table, c.RowID, c.Stmt+1, c.Index, at, found, canon, strings.Join(gs, " ")))
		}
	})
}

// c25sInfraSkip unwinds a case that hit infrastructure trouble (a store that did
// not come up, a request that could not be served): the case is counted as
// inconclusive, it is neither a pass nor a violation.
type c25sInfraSkip struct{ why string }

func c25sInfra(why string) { panic(c25sInfraSkip{why}) }

func c25sRecoverInfra(rec *vstat.Rec, t *testing.T) {
	if r := recover(); r != nil {
		if s, ok := r.(c25sInfraSkip); ok {
			rec.Label("inconclusive:infrastructure")
			t.Logf("inconclusive (infrastructure): %s", s.why)
			return
		}
		panic(r)
	}
}
