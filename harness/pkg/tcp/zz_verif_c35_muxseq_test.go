package tcp

// C35 unit "mux-seq": sequence-level view of the mux. A node must not keep
// anything per finished connection ("exhaust its memory beyond what the client
// actually sent"): after hundreds of connections of generated kinds -- first
// byte with no registered listener, garbage, nothing at all (closed at once, or
// held open until the header timeout), registered header followed by payload --
// have been opened against a real Mux.Serve on a loopback listener and have all
// finished, the mux's set of tracked connections must be empty again. The
// moment of judgement is event based (listener closed -> Serve has waited for
// every demultiplexing goroutine and returned; every acceptor has closed what
// it was handed), not time based.
//
// TestVerif_C35_MuxHeap adds a coarse memory measurement: live heap after GC
// must not grow with the number of finished connections.

import (
	"crypto/tls"
	"os"

	"fmt"
	"github.com/rqlite/rqlite/v10/testdata/x509"
	"io"
	"math/rand"
	"net"
	"runtime"
	"sync"
	"testing"
	"time"

	"github.com/rqlite/rqlite/v10/internal/verif/vstat"
	"pgregory.net/rapid"
)

type c35SeqMux struct {
	ln      net.Listener
	mux     *Mux
	served  chan struct{}
	accWG   sync.WaitGroup
	handled int
	mu      sync.Mutex
}

// c35SeqTLS, when set (cert, key), makes c35StartSeqMux build a TLS mux.
type c35SeqTLS struct{ cert, key string }

func c35StartSeqMux(headers []byte, timeout time.Duration, tlsFiles ...c35SeqTLS) (*c35SeqMux, error) {
	ln, err := c35Listen()
	if err != nil {
		return nil, err
	}
	var mux *Mux
	if len(tlsFiles) > 0 {
		mux, err = NewTLSMux(ln, nil, tlsFiles[0].cert, tlsFiles[0].key)
	} else {
		mux, err = NewMux(ln, nil)
	}
	if err != nil {
		ln.Close()
		return nil, err
	}
	mux.Logger.SetOutput(io.Discard)
	mux.Timeout = timeout
	m := &c35SeqMux{ln: ln, mux: mux, served: make(chan struct{})}
	for _, h := range headers {
		l := mux.Listen(h)
		m.accWG.Add(1)
		go func(l net.Listener) {
			defer m.accWG.Done()
			for {
				c, err := l.Accept()
				if err != nil {
					return
				}
				// a sub-service: consume what the peer sends, then close
				c.SetReadDeadline(time.Now().Add(30 * time.Second))
				io.Copy(io.Discard, c)
				c.Close()
				m.mu.Lock()
				m.handled++
				m.mu.Unlock()
			}
		}(l)
	}
	go func() { mux.Serve(); close(m.served) }()
	return m, nil
}

// finish closes the listener and waits for Serve and the acceptors; returns
// the number of connections still tracked by the mux.
func (m *c35SeqMux) finish() int {
	m.ln.Close()
	<-m.served
	m.accWG.Wait()
	m.mux.connsMu.Lock()
	defer m.mux.connsMu.Unlock()
	return len(m.mux.conns)
}

func (m *c35SeqMux) tracked() int {
	m.mux.connsMu.Lock()
	defer m.mux.connsMu.Unlock()
	return len(m.mux.conns)
}

// c35Connect opens one connection of the given kind and finishes it from the
// client side; hold = keep it open without sending until the mux gives up.
func c35Connect(addr string, first []byte, hold bool) error {
	c, err := c35Dial(addr)
	if err != nil {
		return err
	}
	defer c.Close()
	if len(first) > 0 {
		if _, err := c.Write(first); err != nil {
			return nil
		}
	}
	if hold {
		// wait for the mux to close its side (header timeout)
		c.SetReadDeadline(time.Now().Add(30 * time.Second))
		io.Copy(io.Discard, c)
		return nil
	}
	c.(*net.TCPConn).CloseWrite()
	c.SetReadDeadline(time.Now().Add(30 * time.Second))
	io.Copy(io.Discard, c)
	return nil
}

// c35ConnectTLS is a well-behaved TLS peer: handshake, payload, orderly close.
func c35ConnectTLS(addr string, payload []byte) error {
	raw, err := c35Dial(addr)
	if err != nil {
		return err
	}
	defer raw.Close()
	c := tls.Client(raw, &tls.Config{InsecureSkipVerify: true})
	c.SetDeadline(time.Now().Add(30 * time.Second))
	if _, err := c.Write(payload); err != nil {
		return nil
	}
	c.CloseWrite()
	io.Copy(io.Discard, c)
	return nil
}

// c35TLSJunk are first bytes for a TLS port that can never become a session.
var c35TLSJunk = [][]byte{
	{0x16, 0x03, 0x01, 0xff, 0xff}, {0x16, 0x03, 0x01, 0x00, 0x05, 1, 2, 3, 4, 5}, {0x80, 0x2e, 0x01, 0x03, 0x01},
	{0x15, 0x03, 0x03, 0x00, 0x02, 0x02, 0x28}, {0x17, 0x03, 0x03, 0x40, 0x01}, {2, 0, 0, 0, 0, 0, 0, 0, 0}, []byte("GET / HTTP/1.0\r\n\r\n"), {0x16},
}

func TestVerif_C35_MuxSeq(t *testing.T) {
	rec := vstat.New(t, "C35", "mux-seq",
		"rapid: a real Mux.Serve (plaintext or TLS via NewTLSMux; on the TLS port the generated kinds become TLS-record-shaped junk / plaintext / real TLS sessions with unregistered or registered header) on 127.0.0.1:0 with listeners for headers 1 and 2 and a 40 ms header timeout; 50-400 sequential connections, each of a generated kind {unregistered first byte (0, 3..255), unregistered byte + garbage, registered byte + payload, registered byte only, no byte then close, no byte held open until the header timeout}; then the listener is closed and Serve/acceptors are awaited; oracle: the mux tracks 0 connections afterwards; non-trivial = the sequence contains at least 10 connections with an unregistered first byte and at least one of every other kind group; distinct by kind sequence")
	dir, derr := os.MkdirTemp("", "c35seqtls")
	if derr != nil {
		t.Skipf("infrastructure: %v", derr)
	}
	defer os.RemoveAll(dir)
	tlsCert, tlsKey := x509.CertExampleDotComFile(dir), x509.KeyExampleDotComFile(dir)
	rapid.Check(t, func(rt *rapid.T) {
		n := rapid.IntRange(50, 400).Draw(rt, "connections")
		weights := rapid.SampledFrom([][]int{{6, 2, 1, 1}, {1, 1, 1, 1}, {9, 0, 1, 0}, {3, 3, 3, 1}}).Draw(rt, "mix") // unregistered, registered, empty, held
		kinds := make([]byte, n)
		count := [4]int{}
		tot := weights[0] + weights[1] + weights[2] + weights[3]
		for i := range kinds {
			x := rapid.IntRange(0, tot-1).Draw(rt, "kind")
			k := 0
			for x >= weights[k] {
				x -= weights[k]
				k++
			}
			if k == 3 && count[3] >= 5 {
				k = 2 // at most five connections wait for the header timeout
			}
			kinds[i] = byte(k)
			count[k]++
		}
		canon := fmt.Sprintf("%v", kinds)
		rec.Case(count[0] >= 10 && count[1] > 0 && count[2]+count[3] > 0, canon)
		rec.Sample(fmt.Sprintf("n=%d unregistered=%d registered=%d empty=%d held=%d", n, count[0], count[1], count[2], count[3]))
		rec.LabelN("conn:unregistered-header", count[0])
		rec.LabelN("conn:registered-header", count[1])
		rec.LabelN("conn:no-byte", count[2])
		rec.LabelN("conn:held-until-timeout", count[3])

		useTLS := rapid.Bool().Draw(rt, "tls-mux")
		var m *c35SeqMux
		var err error
		if useTLS {
			rec.Label("mux:tls")
			m, err = c35StartSeqMux([]byte{1, 2}, 40*time.Millisecond, c35SeqTLS{tlsCert, tlsKey})
		} else {
			rec.Label("mux:plain")
			m, err = c35StartSeqMux([]byte{1, 2}, 40*time.Millisecond)
		}
		if err != nil {
			rec.Label("inconclusive:infrastructure")
			return
		}
		addr := m.ln.Addr().String()
		for i, k := range kinds {
			if useTLS && k <= 1 {
				// TLS port: "unregistered" = bytes that never become a TLS session, or a
				// real session whose first byte has no listener; "registered" = a real
				// TLS peer with header 1/2
				var cerr error
				switch {
				case k == 0 && i%4 == 0:
					cerr = c35ConnectTLS(addr, []byte{byte(3 + i%200), 'x'})
				case k == 0:
					cerr = c35Connect(addr, c35TLSJunk[i%len(c35TLSJunk)], false)
				default:
					cerr = c35ConnectTLS(addr, []byte{byte(1 + i%2), 'p', 'a', 'y'})
				}
				if cerr != nil {
					m.finish()
					rec.Label("inconclusive:infrastructure")
					return
				}
				continue
			}
			var first []byte
			hold := false
			switch k {
			case 0:
				b := byte(rapid.IntRange(3, 255).Draw(rt, "hdr"))
				if i%7 == 0 {
					b = 0
				}
				first = []byte{b}
				if i%3 == 0 {
					first = append(first, []byte("garbage-after-header")...)
				}
			case 1:
				first = []byte{byte(1 + i%2)}
				if i%2 == 0 {
					first = append(first, []byte("payload")...)
				}
			case 3:
				hold = true
			}
			if err := c35Connect(addr, first, hold); err != nil {
				m.finish()
				rec.Label("inconclusive:infrastructure")
				return
			}
		}
		left := m.finish()
		if left != 0 {
			sig := "C35/mux-tracks-finished-connections"
			what := fmt.Sprintf("%d of %d finished connections are still in the mux's tracking set (memory grows with every such connection for the life of the node)", left, n)
			if rec.KnownHit(sig, what) {
				return
			}
			rt.Fatalf("%s", rec.Violation(sig, "%s :: unregistered=%d registered=%d empty=%d held=%d", what, count[0], count[1], count[2], count[3]))
		}
	})
}

func c35LiveHeap() uint64 {
	runtime.GC()
	runtime.GC()
	var ms runtime.MemStats
	runtime.ReadMemStats(&ms)
	return ms.HeapAlloc
}

// TestVerif_C35_MuxHeap: one mux, rounds of connections with an unregistered
// first byte; live heap after GC is compared between rounds.
func TestVerif_C35_MuxHeap(t *testing.T) {
	rec := vstat.New(t, "C35", "mux-heap",
		"deterministic: one Mux.Serve, a warm-up round and then 2 rounds of N connections (N=1500 quick, 10000 thorough) whose first byte has no registered listener (plus every 10th with a registered one); live heap after two GCs is sampled after each round; oracle: growth over the measured rounds < 96 bytes per finished connection and the tracking set is empty after each round; one evaluation per round")
	n := vstat.Scale(1500, 10000)
	m, err := c35StartSeqMux([]byte{1, 2}, time.Second)
	if err != nil {
		t.Skipf("infrastructure: %v", err)
	}
	addr := m.ln.Addr().String()
	round := func() bool {
		for i := 0; i < n; i++ {
			first := []byte{byte(3 + i%250)}
			if i%10 == 0 {
				first = []byte{1, 'x'}
			}
			if err := c35Connect(addr, first, false); err != nil {
				return false
			}
		}
		// every connection was closed by the node before c35Connect returned
		// (read until EOF); registered ones are closed by the acceptor
		deadline := time.Now().Add(20 * time.Second)
		for m.tracked() != 0 && time.Now().Before(deadline) {
			time.Sleep(5 * time.Millisecond)
		}
		return true
	}
	var heaps []uint64
	for r := 0; r < 3; r++ {
		if !round() {
			m.finish()
			t.Skip("infrastructure: dial failed")
		}
		rec.Case(true, fmt.Sprintf("round-%d", r))
		heaps = append(heaps, c35LiveHeap())
		if tr := m.tracked(); tr != 0 {
			m.finish()
			t.Fatalf("%s", rec.Violation("C35/mux-tracks-finished-connections", "after round %d (%d finished connections) the mux still tracks %d connections", r, (r+1)*n, tr))
		}
	}
	m.finish()
	growth := int64(heaps[2]) - int64(heaps[0])
	per := float64(growth) / float64(2*n)
	rec.Extra("live_heap_after_rounds", heaps)
	rec.Extra("growth_bytes_per_connection", per)
	rec.SetExhaustive(true)
	if per > 96 {
		t.Fatalf("%s", rec.Violation("C35/mux-heap-grows-with-connections", "live heap grew by %d bytes over %d finished connections (%.0f bytes each): %v", growth, 2*n, per, heaps))
	}
}

// ---- infrastructure helpers (not part of any oracle) ----

// c35Dial connects to addr from a random loopback source address 127.x.y.z.
// Sockets of a client that closes (or half-closes) first stay in TIME_WAIT for
// 60 s; with 127.0.0.1 as the only source address, thousands of short
// connections per second from many check processes would leave no free port
// for bind(127.0.0.1:0), i.e. for every new listener on the machine. Spreading
// the client side over 127/8 keeps those sockets away from 127.0.0.1. A few
// retries with back-off absorb transient failures.
func c35Dial(addr string) (net.Conn, error) {
	var last error
	for try := 0; try < 5; try++ {
		d := net.Dialer{Timeout: 10 * time.Second, LocalAddr: &net.TCPAddr{IP: net.IPv4(127, byte(1+rand.Intn(250)), byte(rand.Intn(256)), byte(1+rand.Intn(250)))}}
		c, err := d.Dial("tcp", addr)
		if err == nil {
			return c, nil
		}
		last = err
		time.Sleep(time.Duration(25*(try+1)) * time.Millisecond)
	}
	return nil, last
}

// c35Listen listens on 127.0.0.1:0, retrying a few times.
func c35Listen() (net.Listener, error) {
	var last error
	for try := 0; try < 5; try++ {
		ln, err := net.Listen("tcp", "127.0.0.1:0")
		if err == nil {
			return ln, nil
		}
		last = err
		time.Sleep(time.Duration(50*(try+1)) * time.Millisecond)
	}
	return nil, last
}

// c35Retry runs f up to five times with a short back-off.
func c35Retry(f func() error) error {
	var last error
	for try := 0; try < 5; try++ {
		if last = f(); last == nil {
			return nil
		}
		time.Sleep(time.Duration(50*(try+1)) * time.Millisecond)
	}
	return last
}
