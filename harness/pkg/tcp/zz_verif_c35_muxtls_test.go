package tcp

// C35 unit "mux-tls": the inter-node port with TLS (NewTLSMux) and mutual TLS
// (NewMutualTLSMux). The connection handed to Mux.handleConn is what the TLS
// listener would accept -- tls.Server(conn, mux.tlsConfig) -- over a scripted
// in-memory conn carrying a generated hostile byte stream: TLS-record-shaped
// input (content types handshake/alert/application-data/change-cipher/garbage,
// versions 0300..0304/0000/ffff, record lengths 0 / small / 16384 / oversize /
// ffff, truncated or random bodies), SSLv2-style hellos (first byte 0x80..),
// mutated and truncated real ClientHello messages, and plaintext (mux header
// byte + cluster frames, HTTP) sent to the TLS port. handleConn runs under
// recover in the test goroutine. A few cases are a legitimate TLS client
// (net.Pipe) as a vacuity guard.
// Oracle: no panic; a stream that does not complete a handshake is closed and
// delivered to nobody; memory is not judged here (units frames/node/mux-seq).

import (
	"bytes"
	"crypto/tls"
	"encoding/binary"
	"encoding/hex"
	"fmt"
	"io"
	"net"
	"os"
	"testing"
	"time"

	"github.com/rqlite/rqlite/v10/internal/rtls"
	"github.com/rqlite/rqlite/v10/internal/verif/vstat"
	"github.com/rqlite/rqlite/v10/testdata/x509"
	"pgregory.net/rapid"
)

// c35ClientHello captures the first flight of a real crypto/tls client.
func c35ClientHello() []byte {
	a, b := net.Pipe()
	done := make(chan []byte, 1)
	go func() {
		buf := make([]byte, 4096)
		b.SetReadDeadline(time.Now().Add(5 * time.Second))
		n, _ := b.Read(buf)
		b.Close()
		done <- buf[:n]
	}()
	c := tls.Client(a, &tls.Config{InsecureSkipVerify: true, ServerName: "example.com"})
	c.SetDeadline(time.Now().Add(5 * time.Second))
	c.Handshake()
	a.Close()
	return <-done
}

func c35GenTLSStream(rt *rapid.T, hello []byte) ([]byte, string) {
	switch rapid.IntRange(0, 7).Draw(rt, "stream-kind") {
	case 0, 1: // record-shaped
		typ := rapid.SampledFrom([]byte{0x16, 0x16, 0x15, 0x17, 0x14, 0x18, 0x00, 0xff}).Draw(rt, "content-type")
		ver := rapid.SampledFrom([]uint16{0x0301, 0x0303, 0x0300, 0x0304, 0x0000, 0xffff, 0x0302}).Draw(rt, "version")
		ln := rapid.SampledFrom([]uint16{0, 1, 5, 64, 16384, 16385, 18433, 0x4001, 0xffff, 0x8000}).Draw(rt, "record-length")
		body := rapid.SliceOfN(rapid.Byte(), 0, 80).Draw(rt, "body")
		b := []byte{typ}
		b = binary.BigEndian.AppendUint16(b, ver)
		b = binary.BigEndian.AppendUint16(b, ln)
		return append(b, body...), "tls-record"
	case 2: // SSLv2-style hello
		b := []byte{byte(0x80 | rapid.IntRange(0, 0x7f).Draw(rt, "v2-len-hi")), rapid.Byte().Draw(rt, "v2-len-lo"), 0x01, 0x03, 0x01}
		return append(b, rapid.SliceOfN(rapid.Byte(), 0, 40).Draw(rt, "v2-body")...), "sslv2-hello"
	case 3: // truncated real ClientHello
		return append([]byte(nil), hello[:rapid.IntRange(0, len(hello)).Draw(rt, "cut")]...), "truncated-client-hello"
	case 4: // mutated real ClientHello
		b := append([]byte(nil), hello...)
		for i, n := 0, rapid.IntRange(1, 4).Draw(rt, "flips"); i < n && len(b) > 0; i++ {
			b[rapid.IntRange(0, len(b)-1).Draw(rt, "pos")] ^= byte(rapid.IntRange(1, 255).Draw(rt, "bits"))
		}
		return b, "mutated-client-hello"
	case 5: // plaintext inter-node traffic on the TLS port
		hdr := rapid.SampledFrom([]byte{1, 2, 0, 3}).Draw(rt, "mux-header")
		p := rapid.SliceOfN(rapid.Byte(), 0, 24).Draw(rt, "payload")
		b := []byte{hdr}
		b = binary.LittleEndian.AppendUint64(b, uint64(len(p)))
		return append(b, p...), "plaintext-internode"
	case 6:
		return []byte(rapid.SampledFrom([]string{"GET / HTTP/1.1\r\nHost: x\r\n\r\n", "SSH-2.0-OpenSSH_9.0\r\n", "\x00", ""}).Draw(rt, "text")), "plaintext-other"
	default:
		return rapid.SliceOfN(rapid.Byte(), 0, 64).Draw(rt, "random"), "random-bytes"
	}
}

func TestVerif_C35_MuxTLS(t *testing.T) {
	rec := vstat.New(t, "C35", "mux-tls",
		"rapid: mux configuration {TLS, mutual TLS with CA} x byte stream {TLS-record-shaped with generated content type / version / record length (0..0xffff incl. oversize) / body, SSLv2-style hello, truncated real ClientHello, bit-flipped real ClientHello, plaintext inter-node frame, plaintext HTTP/SSH/NUL/empty, random bytes} fed through tls.Server(scripted conn, mux.tlsConfig) to Mux.handleConn under recover; ~8% legitimate TLS clients over net.Pipe; non-trivial = hostile stream of at least 3 bytes; distinct by (config, stream)")
	dir, err := os.MkdirTemp("", "c35tls")
	if err != nil {
		t.Skipf("infrastructure: %v", err)
	}
	defer os.RemoveAll(dir)
	cert, key, ca := x509.CertExampleDotComFile(dir), x509.KeyExampleDotComFile(dir), x509.CertMyCAFile(dir)
	hello := c35ClientHello()
	if len(hello) < 50 {
		t.Skipf("infrastructure: could not capture a ClientHello (%d bytes)", len(hello))
	}
	newMux := func(mutual bool) (*Mux, error) {
		if mutual {
			return NewMutualTLSMux(c35Listener{}, c35Addr{}, cert, key, ca, rtls.NoVerifyCN)
		}
		return NewTLSMux(c35Listener{}, c35Addr{}, cert, key)
	}
	rapid.Check(t, func(rt *rapid.T) {
		mutual := rapid.Bool().Draw(rt, "mutual-tls")
		legit := rapid.IntRange(0, 11).Draw(rt, "legit") == 0
		mux, err := newMux(mutual)
		if err != nil {
			rec.Label("inconclusive:infrastructure")
			return
		}
		mux.Logger.SetOutput(io.Discard)
		ln := mux.Listen(2).(*listener)
		delivered := make(chan net.Conn, 1)
		stop := make(chan struct{})
		accDone := make(chan struct{})
		go func() {
			defer close(accDone)
			select {
			case c := <-ln.c:
				delivered <- c
			case <-stop:
			}
		}()
		defer func() { close(stop); <-accDone }()
		cfgName := "tls"
		if mutual {
			cfgName = "mutual-tls"
		}
		rec.Label("config:" + cfgName)

		if legit {
			// a well-behaved peer: handshake, header byte 2, payload
			rec.Label("stream:legitimate-client")
			rec.Case(false, cfgName+"|legit")
			a, b := net.Pipe()
			cliDone := make(chan error, 1)
			go func() {
				c := tls.Client(a, &tls.Config{InsecureSkipVerify: true})
				c.SetDeadline(time.Now().Add(20 * time.Second))
				// net.Pipe is unbuffered: keep reading (session tickets etc.) while
				// writing, as a real socket's buffers would allow
				go io.Copy(io.Discard, c)
				_, err := c.Write([]byte{2, 'o', 'k'})
				cliDone <- err
			}()
			var pv any
			mux.wg.Add(1)
			func() {
				defer func() { pv = recover() }()
				b.SetDeadline(time.Now().Add(20 * time.Second))
				mux.handleConn(tls.Server(b, mux.tlsConfig))
			}()
			if pv != nil {
				rt.Fatalf("%s", rec.Violation("C35/mux-tls-panic", "Mux.handleConn panics for a legitimate TLS client (%s): %v", cfgName, pv))
			}
			// handleConn has returned: either it closed the connection or its hand-off
			// to the listener is complete and the acceptor goroutine is about to tell us
			wait := 20 * time.Second
			if mutual {
				wait = 150 * time.Millisecond // no client certificate: must be refused
			}
			select {
			case c := <-delivered:
				rest := make([]byte, 2)
				c.SetReadDeadline(time.Now().Add(20 * time.Second))
				_, rerr := io.ReadFull(c, rest)
				c.Close()
				if mutual {
					rt.Fatalf("%s", rec.Violation("C35/mux-mutual-tls-accepts-client-without-certificate", "client without a certificate was handed to a listener"))
				}
				if rerr != nil || string(rest) != "ok" {
					rt.Fatalf("%s", rec.Violation("C35/mux-tls-legitimate-client-broken", "payload after the header byte: %q %v", rest, rerr))
				}
				rec.Label("legit:delivered")
			case <-time.After(wait):
				if !mutual {
					rt.Fatalf("%s", rec.Violation("C35/mux-tls-legitimate-client-broken", "legitimate TLS client was not delivered to the listener"))
				}
				rec.Label("legit:refused-no-client-cert")
			}
			a.Close()
			b.Close()
			<-cliDone
			return
		}

		stream, kind := c35GenTLSStream(rt, hello)
		rec.Label("stream:" + kind)
		canon := cfgName + "|" + hex.EncodeToString(stream)
		rec.Case(len(stream) >= 3, canon)
		rec.Sample(kind + " " + canon)
		raw := &c35Conn{r: bytes.NewReader(stream)}
		var pv any
		mux.wg.Add(1)
		func() {
			defer func() { pv = recover() }()
			mux.handleConn(tls.Server(raw, mux.tlsConfig))
		}()
		desc := fmt.Sprintf("config=%s kind=%s stream=%s", cfgName, kind, hex.EncodeToString(stream))
		if pv != nil {
			sig := "C35/mux-tls-panic{stream=" + kind + "}"
			what := fmt.Sprintf("Mux.handleConn panics on a TLS-enabled port (would kill the node): %v", pv)
			if rec.KnownHit(sig, what) {
				return
			}
			rt.Fatalf("%s", rec.Violation(sig, "%s :: %s", what, desc))
		}
		if !raw.closed {
			// not closed: then it was handed to a listener (the acceptor reports it at
			// once) -- or simply leaked
			select {
			case c := <-delivered:
				c.Close()
				rt.Fatalf("%s", rec.Violation("C35/mux-tls-hostile-stream-delivered", "stream that cannot have completed a TLS handshake was handed to a listener :: %s", desc))
			case <-time.After(10 * time.Second):
				rt.Fatalf("%s", rec.Violation("C35/mux-tls-connection-not-closed", "rejected connection left open :: %s", desc))
			}
		}
	})
}
