package tcp

// C35 unit "mux": the first byte of every inter-node connection selects the
// sub-service. Arbitrary byte streams are fed to the real Mux.handleConn over a
// scripted in-memory conn. Oracle (from the mux contract in tcp/mux.go's own
// documentation: "Any connection accepted by mux is multiplexed based on the
// initial header byte"): no panic; a stream whose first byte has no registered
// listener is closed and delivered to nobody; a stream whose first byte is
// registered is delivered to exactly that listener with the remaining bytes
// intact; an empty stream is closed.

import (
	"bytes"
	"encoding/hex"
	"fmt"
	"io"
	"net"
	"testing"
	"time"

	"github.com/rqlite/rqlite/v10/internal/verif/vstat"
	"pgregory.net/rapid"
)

type c35Addr struct{}

func (c35Addr) Network() string { return "mem" }
func (c35Addr) String() string  { return "mem:0" }

type c35Conn struct {
	r      *bytes.Reader
	closed bool
}

func (c *c35Conn) Read(p []byte) (int, error) {
	if c.closed {
		return 0, io.ErrClosedPipe
	}
	return c.r.Read(p)
}
func (c *c35Conn) Write(p []byte) (int, error)        { return len(p), nil }
func (c *c35Conn) Close() error                       { c.closed = true; return nil }
func (c *c35Conn) LocalAddr() net.Addr                { return c35Addr{} }
func (c *c35Conn) RemoteAddr() net.Addr               { return c35Addr{} }
func (c *c35Conn) SetDeadline(t time.Time) error      { return nil }
func (c *c35Conn) SetReadDeadline(t time.Time) error  { return nil }
func (c *c35Conn) SetWriteDeadline(t time.Time) error { return nil }

type c35Listener struct{}

func (c35Listener) Accept() (net.Conn, error) { select {} }
func (c35Listener) Close() error              { return nil }
func (c35Listener) Addr() net.Addr            { return c35Addr{} }

func TestVerif_C35_Mux(t *testing.T) {
	rec := vstat.New(t, "C35", "mux",
		"rapid: a set of 1-3 registered header bytes (always including 1=Raft and/or 2=cluster style values) and a byte stream of 0-40 bytes whose first byte is registered in about half of the cases; fed to Mux.handleConn over a scripted conn. non-trivial = non-empty stream; distinct by (registered set, stream)")
	rapid.Check(t, func(rt *rapid.T) {
		regs := rapid.SliceOfNDistinct(rapid.SampledFrom([]byte{1, 2, 0, 255, 'G', 22}), 1, 3, rapid.ID[byte]).Draw(rt, "registered")
		var stream []byte
		if rapid.Bool().Draw(rt, "use-registered") {
			stream = append(stream, rapid.SampledFrom(regs).Draw(rt, "first"))
			stream = append(stream, rapid.SliceOfN(rapid.Byte(), 0, 40).Draw(rt, "rest")...)
		} else {
			stream = rapid.SliceOfN(rapid.Byte(), 0, 40).Draw(rt, "stream")
		}
		canon := hex.EncodeToString(regs) + "|" + hex.EncodeToString(stream)
		rec.Case(len(stream) > 0, canon)
		rec.Sample(canon)

		mux, err := NewMux(c35Listener{}, c35Addr{})
		if err != nil {
			rec.Label("inconclusive:infrastructure")
			return
		}
		mux.Logger.SetOutput(io.Discard)
		type got struct {
			h    byte
			conn net.Conn
		}
		delivered := make(chan got, 8)
		stop := make(chan struct{})
		done := make(chan struct{}, len(regs))
		for _, h := range regs {
			ln := mux.Listen(h).(*listener)
			go func(h byte, ln *listener) {
				defer func() { done <- struct{}{} }()
				for {
					select {
					case c := <-ln.c:
						delivered <- got{h, c}
					case <-stop:
						return
					}
				}
			}(h, ln)
		}
		defer func() {
			close(stop)
			for range regs {
				<-done
			}
		}()

		conn := &c35Conn{r: bytes.NewReader(stream)}
		var pv any
		mux.wg.Add(1)
		func() {
			defer func() { pv = recover() }()
			mux.handleConn(conn)
		}()
		desc := fmt.Sprintf("registered=%v stream=%s", regs, hex.EncodeToString(stream))
		if pv != nil {
			rt.Fatalf("%s", rec.Violation("C35/mux-panic", "Mux.handleConn panics: %v :: %s", pv, desc))
		}
		registered := len(stream) > 0 && bytes.IndexByte(regs, stream[0]) >= 0
		var d []got
		if registered && !conn.closed {
			// handleConn returned without closing: its hand-off to a listener has
			// completed, so the delivery is on its way to us.
			d = append(d, <-delivered)
		}
		for more := true; more; {
			select {
			case g := <-delivered:
				d = append(d, g)
			default:
				more = false
			}
		}
		if !registered {
			rec.Label("unregistered-or-empty")
			if len(d) != 0 || !conn.closed {
				rt.Fatalf("%s", rec.Violation("C35/mux-unregistered-header-not-rejected", "delivered=%d closed=%v :: %s", len(d), conn.closed, desc))
			}
			return
		}
		rec.Label("registered")
		if len(d) != 1 || d[0].h != stream[0] {
			rt.Fatalf("%s", rec.Violation("C35/mux-misrouted", "deliveries=%v :: %s", d, desc))
		}
		rest, _ := io.ReadAll(d[0].conn)
		if !bytes.Equal(rest, stream[1:]) || conn.closed {
			rt.Fatalf("%s", rec.Violation("C35/mux-stream-not-intact", "rest=%x closed=%v :: %s", rest, conn.closed, desc))
		}
	})
}
