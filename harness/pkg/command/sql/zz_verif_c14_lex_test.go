package sql

// C14 harness, part 1: an independent tokenizer for SQLite's lexical syntax and
// a scanner that finds calls to non-deterministic functions in a SQL text.
// Nothing here uses github.com/rqlite/sql or rqlite's processor.

import (
	"strconv"
	"strings"
)

type c14TokKind int

const (
	c14TWs     c14TokKind = iota // whitespace or comment
	c14TIdent                    // bare identifier / keyword
	c14TQIdent                   // "x", `x`, [x]
	c14TString                   // 'x'
	c14TNumber                   // 12, 1.5, 0x1F, 1e3
	c14TBlob                     // x'AB'
	c14TVar                      // ?1 :a @a $a
	c14TPunct                    // operators and punctuation
	c14TIllegal
)

type c14Tok struct {
	Kind c14TokKind
	Text string // exact source text
	Val  string // identifier name without quotes / string contents without quotes
	Pos  int
}

func c14IsIdStart(c byte) bool {
	return c == '_' || c >= 0x80 || (c >= 'a' && c <= 'z') || (c >= 'A' && c <= 'Z')
}
func c14IsIdChar(c byte) bool { return c14IsIdStart(c) || c == '$' || (c >= '0' && c <= '9') }
func c14IsDigit(c byte) bool  { return c >= '0' && c <= '9' }
func c14IsHex(c byte) bool {
	return c14IsDigit(c) || (c >= 'a' && c <= 'f') || (c >= 'A' && c <= 'F')
}
func c14IsSpace(c byte) bool {
	return c == ' ' || c == '\t' || c == '\n' || c == '\r' || c == '\f'
}

// c14Lex tokenizes s following https://sqlite.org/lang.html lexical rules
// (tokenize.c): comments are whitespace; quotes inside quoted tokens are escaped by doubling.
func c14Lex(s string) []c14Tok {
	var out []c14Tok
	i := 0
	n := len(s)
	emit := func(k c14TokKind, from, to int, val string) {
		out = append(out, c14Tok{Kind: k, Text: s[from:to], Val: val, Pos: from})
	}
	quoted := func(from int, q byte) (int, string) {
		// s[from]==opening quote; returns index after closing quote and the value
		var sb strings.Builder
		j := from + 1
		for j < n {
			if s[j] == q {
				if j+1 < n && s[j+1] == q {
					sb.WriteByte(q)
					j += 2
					continue
				}
				return j + 1, sb.String()
			}
			sb.WriteByte(s[j])
			j++
		}
		return n, sb.String() // unterminated
	}
	for i < n {
		c := s[i]
		switch {
		case c14IsSpace(c):
			j := i
			for j < n && c14IsSpace(s[j]) {
				j++
			}
			emit(c14TWs, i, j, "")
			i = j
		case c == '-' && i+1 < n && s[i+1] == '-':
			j := i
			for j < n && s[j] != '\n' {
				j++
			}
			emit(c14TWs, i, j, "")
			i = j
		case c == '/' && i+1 < n && s[i+1] == '*':
			j := strings.Index(s[i+2:], "*/")
			if j < 0 {
				emit(c14TWs, i, n, "")
				i = n
			} else {
				emit(c14TWs, i, i+2+j+2, "")
				i = i + 2 + j + 2
			}
		case c == '\'':
			j, v := quoted(i, '\'')
			emit(c14TString, i, j, v)
			i = j
		case c == '"' || c == '`':
			j, v := quoted(i, c)
			emit(c14TQIdent, i, j, v)
			i = j
		case c == '[':
			j := strings.IndexByte(s[i:], ']')
			if j < 0 {
				emit(c14TIllegal, i, n, "")
				i = n
			} else {
				emit(c14TQIdent, i, i+j+1, s[i+1:i+j])
				i = i + j + 1
			}
		case (c == 'x' || c == 'X') && i+1 < n && s[i+1] == '\'':
			j := i + 2
			for j < n && s[j] != '\'' {
				j++
			}
			if j < n {
				j++
			}
			emit(c14TBlob, i, j, s[i+2:max(i+2, j-1)])
			i = j
		case c14IsDigit(c) || (c == '.' && i+1 < n && c14IsDigit(s[i+1])):
			j := i
			if c == '0' && i+1 < n && (s[i+1] == 'x' || s[i+1] == 'X') {
				j = i + 2
				for j < n && (c14IsHex(s[j]) || s[j] == '_') {
					j++
				}
			} else {
				for j < n && (c14IsDigit(s[j]) || s[j] == '_') {
					j++
				}
				if j < n && s[j] == '.' {
					j++
					for j < n && (c14IsDigit(s[j]) || s[j] == '_') {
						j++
					}
				}
				if j < n && (s[j] == 'e' || s[j] == 'E') {
					k := j + 1
					if k < n && (s[k] == '+' || s[k] == '-') {
						k++
					}
					if k < n && c14IsDigit(s[k]) {
						for k < n && c14IsDigit(s[k]) {
							k++
						}
						j = k
					}
				}
			}
			emit(c14TNumber, i, j, "")
			i = j
		case c14IsIdStart(c):
			j := i
			for j < n && c14IsIdChar(s[j]) {
				j++
			}
			emit(c14TIdent, i, j, s[i:j])
			i = j
		case c == '?':
			j := i + 1
			for j < n && c14IsDigit(s[j]) {
				j++
			}
			emit(c14TVar, i, j, "")
			i = j
		case (c == ':' || c == '@' || c == '$') && i+1 < n && c14IsIdChar(s[i+1]):
			j := i + 1
			for j < n && c14IsIdChar(s[j]) {
				j++
			}
			emit(c14TVar, i, j, "")
			i = j
		default:
			// multi-character operators first
			ops := []string{"->>", "->", "||", "<<", ">>", "<=", ">=", "==", "!=", "<>"}
			done := false
			for _, op := range ops {
				if strings.HasPrefix(s[i:], op) {
					emit(c14TPunct, i, i+len(op), "")
					i += len(op)
					done = true
					break
				}
			}
			if !done {
				emit(c14TPunct, i, i+1, "")
				i++
			}
		}
	}
	return out
}

// c14Sig returns the significant (non-whitespace) tokens.
func c14Sig(toks []c14Tok) []c14Tok {
	out := make([]c14Tok, 0, len(toks))
	for _, t := range toks {
		if t.Kind != c14TWs {
			out = append(out, t)
		}
	}
	return out
}

// c14Call is one function call found in a text.
type c14Call struct {
	Name      string // lower-cased function name
	NameTok   int    // index into the significant-token slice
	Open      int    // index of '('
	Close     int    // index of matching ')' (len(toks) if unterminated)
	Args      [][]c14Tok
	InOrderBy bool // lexically inside an ORDER BY clause (at any nesting depth)
	Stmt      int  // index of the statement (split at top-level ';') the call is in
}

var c14TimeFns = map[string]bool{"date": true, "time": true, "datetime": true, "julianday": true,
	"unixepoch": true, "strftime": true, "timediff": true}

func c14IsKw(t c14Tok, kw string) bool {
	return t.Kind == c14TIdent && strings.EqualFold(t.Text, kw)
}

// c14FindCalls scans a token stream for calls `name (` and records for each its
// arguments (split at top-level commas) and whether it sits inside ORDER BY.
// ORDER BY tracking: "ORDER BY" at paren depth d opens an order-by region at d
// which ends at the ')' closing depth d, at a top-level ';', or at LIMIT / a
// window-frame keyword (ROWS, RANGE, GROUPS) / RETURNING at depth d.
func c14FindCalls(toks []c14Tok) []c14Call {
	var calls []c14Call
	orderAt := map[int]bool{}
	depth := 0
	stmt := 0
	inOrder := func() bool {
		for d := 0; d <= depth; d++ {
			if orderAt[d] {
				return true
			}
		}
		return false
	}
	for i := 0; i < len(toks); i++ {
		t := toks[i]
		switch {
		case t.Kind == c14TPunct && t.Text == "(":
			depth++
		case t.Kind == c14TPunct && t.Text == ")":
			delete(orderAt, depth)
			if depth > 0 {
				depth--
			}
		case t.Kind == c14TPunct && t.Text == ";":
			if depth == 0 {
				stmt++
				orderAt = map[int]bool{}
			}
		case c14IsKw(t, "order") && i+1 < len(toks) && c14IsKw(toks[i+1], "by"):
			orderAt[depth] = true
		case c14IsKw(t, "limit") || c14IsKw(t, "rows") || c14IsKw(t, "range") || c14IsKw(t, "groups") || c14IsKw(t, "returning"):
			if !(i+1 < len(toks) && toks[i+1].Text == "(") { // not a function/column named like that
				delete(orderAt, depth)
			}
		}
		if (t.Kind == c14TIdent || t.Kind == c14TQIdent) && i+1 < len(toks) && toks[i+1].Kind == c14TPunct && toks[i+1].Text == "(" {
			// `x.name(` is not a function call in SQLite; a preceding '.' cannot occur before a call.
			if i > 0 && toks[i-1].Kind == c14TPunct && toks[i-1].Text == "." {
				continue
			}
			c := c14Call{Name: strings.ToLower(t.Val), NameTok: i, Open: i + 1, InOrderBy: inOrder(), Stmt: stmt}
			// split args
			d := 0
			var cur []c14Tok
			j := i + 1
			for ; j < len(toks); j++ {
				x := toks[j]
				if x.Kind == c14TPunct && x.Text == "(" {
					d++
					if d == 1 {
						continue
					}
				} else if x.Kind == c14TPunct && x.Text == ")" {
					d--
					if d == 0 {
						break
					}
				} else if x.Kind == c14TPunct && x.Text == "," && d == 1 {
					c.Args = append(c.Args, cur)
					cur = nil
					continue
				}
				cur = append(cur, x)
			}
			c.Close = j
			if len(cur) > 0 || len(c.Args) > 0 {
				c.Args = append(c.Args, cur)
			}
			calls = append(calls, c)
		}
	}
	return calls
}

// c14ArgIsNow reports whether the argument is literally the time value 'now':
// a string literal (or a double-quoted token, which SQLite reads as a string
// when no such column exists) equal to "now" ignoring case, optionally wrapped
// in parentheses.
func c14ArgIsNow(arg []c14Tok) bool {
	for len(arg) >= 3 && arg[0].Text == "(" && arg[len(arg)-1].Text == ")" {
		arg = arg[1 : len(arg)-1]
	}
	if len(arg) != 1 {
		return false
	}
	a := arg[0]
	if a.Kind == c14TString || (a.Kind == c14TQIdent && a.Text[0] == '"') {
		return strings.EqualFold(a.Val, "now")
	}
	return false
}

// c14ArgIsLiteral reports whether the argument is a single literal-value token
// (https://sqlite.org/syntax/literal-value.html without CURRENT_*).
func c14ArgIsLiteral(arg []c14Tok) bool {
	if len(arg) != 1 {
		return false
	}
	a := arg[0]
	switch a.Kind {
	case c14TNumber, c14TString, c14TBlob:
		return true
	case c14TIdent:
		return c14IsKw(a, "null") || c14IsKw(a, "true") || c14IsKw(a, "false")
	}
	return false
}

// c14TimeArgIdx returns the positions of the time-value arguments of a
// date/time function call and whether the time value is left implicit.
func c14TimeArgIdx(name string, nargs int) (idx []int, implicit bool) {
	switch name {
	case "date", "time", "datetime", "julianday", "unixepoch":
		if nargs == 0 {
			return nil, true
		}
		return []int{0}, false
	case "strftime":
		if nargs == 1 {
			return nil, true
		}
		if nargs >= 2 {
			return []int{1}, false
		}
	case "timediff":
		if nargs == 2 {
			return []int{0, 1}, false
		}
	}
	return nil, false
}

// c14Remaining describes a non-deterministic call covered by C14 that is still
// present in a text.
type c14Remaining struct {
	Call c14Call
	Why  string
}

// c14CoveredCalls returns every call in the text that the property says must
// have been replaced: random() outside ORDER BY, randomblob(<literal>), and
// date/time functions whose time value is 'now' explicitly or implicitly.
func c14CoveredCalls(text string) []c14Remaining {
	toks := c14Sig(c14Lex(text))
	var out []c14Remaining
	for _, c := range c14FindCalls(toks) {
		switch {
		case c.Name == "random":
			if !c.InOrderBy && len(c.Args) == 0 {
				out = append(out, c14Remaining{c, "random() outside ORDER BY"})
			}
		case c.Name == "randomblob":
			// the property exempts only RANDOM() inside ORDER BY
			// and a literal beyond SQLite's maximum blob size makes the statement fail everywhere
			if len(c.Args) == 1 && c14ArgIsLiteral(c.Args[0]) && !c14TooBig(c.Args[0][0]) {
				out = append(out, c14Remaining{c, "randomblob(literal)"})
			}
		case c14TimeFns[c.Name]:
			idx, implicit := c14TimeArgIdx(c.Name, len(c.Args))
			if implicit {
				out = append(out, c14Remaining{c, c.Name + " with implicit now"})
				continue
			}
			for _, k := range idx {
				if c14ArgIsNow(c.Args[k]) {
					out = append(out, c14Remaining{c, c.Name + " with explicit 'now'"})
					break
				}
			}
		}
	}
	return out
}

func c14JoinToks(ts []c14Tok) string {
	var sb strings.Builder
	for i, t := range ts {
		if i > 0 {
			sb.WriteByte(' ')
		}
		sb.WriteString(t.Text)
	}
	return sb.String()
}

// c14TooBig reports whether a numeric literal exceeds SQLite's maximum blob
// length (1 000 000 000): randomblob() of it fails with "string or blob too big".
func c14TooBig(t c14Tok) bool {
	if t.Kind != c14TNumber {
		return false
	}
	v := strings.ReplaceAll(t.Text, "_", "")
	if len(v) > 2 && (v[1] == 'x' || v[1] == 'X') {
		n, err := strconv.ParseUint(v[2:], 16, 64)
		return err != nil || n > 1000000000
	}
	f, err := strconv.ParseFloat(v, 64)
	return err == nil && f > 1000000000
}
