package sql

// C14 harness, part 2: generator of SQL statement templates with spliced
// non-deterministic call sites. The generator keeps, for every site, how it
// was written and where it sits, so that the oracles know what the property
// claims for it and failures can be given a narrow signature.

import (
	"fmt"
	"strconv"
	"strings"

	"math/rand/v2"
)

type c14Site struct {
	Idx     int
	Fn      string // canonical lower-case function name
	NameTxt string // as written (case variants, quoting)
	Quote   string // "", "dq", "bt", "br"
	Gap     string // text between the name and '('
	GapKind string // "", "ws", "comment"
	Inner   string // whitespace inside an empty argument list

	// randomblob
	NKind string // int, zero, hex, float, string, null | signed, expr, column (not claimed)
	NLen  int    // expected blob length for claimed forms

	// date/time
	Form     string   // explicit-now, case-now, dq-now, paren-now, zero-arg, fmt-only, fixed
	Args     []string // arguments as written
	NowIdx   []int    // positions in Args holding the time value 'now'
	Implicit bool     // time value left implicit
	Mods     []string // modifier kinds used

	Covered   bool // the property says this call must be replaced
	InOrderBy bool
	Ctx       []string // enclosing constructs, outermost first
	Stmt      int      // statement index inside the text
}

func (s *c14Site) kind() string {
	switch s.Fn {
	case "random", "randomblob":
		return s.Fn
	}
	return "time"
}

// original text of the call
func (s *c14Site) orig() string {
	if len(s.Args) == 0 {
		return s.NameTxt + s.Gap + "(" + s.Inner + ")"
	}
	return s.NameTxt + s.Gap + "(" + strings.Join(s.Args, ", ") + ")"
}

// text of the call with the concrete values v substituted (harness renderer).
// random: v[0] is an integer literal; randomblob: v[0] is a blob literal;
// time: v[i] is the literal for the i-th 'now' (or the implicit one).
func (s *c14Site) subst(v []string) string {
	switch s.kind() {
	case "random":
		if strings.HasPrefix(v[0], "-") {
			return "(" + v[0] + ")"
		}
		return v[0]
	case "randomblob":
		return v[0]
	}
	args := append([]string(nil), s.Args...)
	if s.Implicit {
		args = append(args, v[0])
	} else {
		for i, k := range s.NowIdx {
			args[k] = v[i]
		}
	}
	return s.NameTxt + s.Gap + "(" + strings.Join(args, ", ") + ")"
}

func (s *c14Site) hasCtx(c string) bool {
	for _, x := range s.Ctx {
		if x == c {
			return true
		}
	}
	return false
}

// c14Text is one SQL text (possibly several statements) with its sites.
type c14Text struct {
	Marked    string // text with \x01<idx>\x02 markers at call sites
	Sites     []*c14Site
	NStmts    int
	Feats     map[string]bool // syntax features used anywhere in the text
	Unordered bool            // result row order is not determined (ORDER BY random())
	Kinds     []string        // statement kinds
}

func c14Marker(i int) string { return "\x01" + strconv.Itoa(i) + "\x02" }

func (t *c14Text) render(f func(*c14Site) string) string {
	var sb strings.Builder
	s := t.Marked
	for {
		i := strings.IndexByte(s, 1)
		if i < 0 {
			sb.WriteString(s)
			break
		}
		sb.WriteString(s[:i])
		j := strings.IndexByte(s[i:], 2)
		idx, _ := strconv.Atoi(s[i+1 : i+j])
		sb.WriteString(f(t.Sites[idx]))
		s = s[i+j+1:]
	}
	return sb.String()
}

func (t *c14Text) original() string { return t.render((*c14Site).orig) }

func (t *c14Text) covered() []*c14Site {
	var out []*c14Site
	for _, s := range t.Sites {
		if s.Covered {
			out = append(out, s)
		}
	}
	return out
}

// ---------------------------------------------------------------------------

type c14Gen struct {
	rng       *rand.Rand
	txt       *c14Text
	ctx       []string
	orderBy   int
	stmt      int
	budget    int  // remaining call sites for this text
	noRandOrd bool // forbid random() inside ORDER BY here (would make results non-deterministic)
}

func (g *c14Gen) pick(label string, n int) int { return g.rng.IntN(n) }
func (g *c14Gen) between(lo, hi int) int       { return lo + g.rng.IntN(hi-lo+1) }
func (g *c14Gen) chance(label string, pct int) bool {
	return g.rng.IntN(100) < pct
}
func (g *c14Gen) oneOf(label string, xs ...string) string {
	return xs[g.pick(label, len(xs))]
}
func (g *c14Gen) feat(f string) { g.txt.Feats[f] = true }

func (g *c14Gen) with(c string, f func() string) string {
	g.ctx = append(g.ctx, c)
	defer func() { g.ctx = g.ctx[:len(g.ctx)-1] }()
	return f()
}

func c14CaseVariant(g *c14Gen, name string) string {
	switch g.pick("case", 5) {
	case 0:
		return strings.ToUpper(name)
	case 1:
		b := []byte(name)
		for i := range b {
			if i%2 == 0 {
				b[i] = byte(strings.ToUpper(string(b[i]))[0])
			}
		}
		return string(b)
	case 2:
		return strings.ToUpper(name[:1]) + name[1:]
	}
	return name
}

func (g *c14Gen) newSite(fn string) *c14Site {
	s := &c14Site{Idx: len(g.txt.Sites), Fn: fn, Stmt: g.stmt, InOrderBy: g.orderBy > 0}
	s.Ctx = append([]string(nil), g.ctx...)
	s.NameTxt = c14CaseVariant(g, fn)
	// exotic spellings, each with low probability so that most cases have at most one
	switch r := g.pick("spell", 100); {
	case r < 5:
		s.Gap, s.GapKind = g.oneOf("gapws", " ", "  ", "\t", "\n"), "ws"
	case r < 8:
		s.Gap, s.GapKind = g.oneOf("gapc", "/**/", " /* c */ ", "/* random( */"), "comment"
	case r < 11:
		s.Quote, s.NameTxt = "dq", `"`+s.NameTxt+`"`
	case r < 13:
		s.Quote, s.NameTxt = "bt", "`"+s.NameTxt+"`"
	case r < 15:
		s.Quote, s.NameTxt = "br", "["+s.NameTxt+"]"
	}
	g.txt.Sites = append(g.txt.Sites, s)
	g.budget--
	return s
}

var c14TimeNames = []string{"date", "time", "datetime", "julianday", "unixepoch", "strftime", "timediff"}

// site generates one call site and returns its marker text (possibly wrapped
// so that calls the property does not claim cannot influence results).
func (g *c14Gen) site(scope []string) string {
	switch r := g.pick("sitekind", 100); {
	case r < 35:
		return g.randomSite()
	case r < 55:
		return g.randomblobSite(scope)
	default:
		return g.timeSite(scope)
	}
}

func (g *c14Gen) randomSite() string {
	if g.orderBy > 0 && g.noRandOrd {
		return "'z'"
	}
	s := g.newSite("random")
	s.Inner = g.oneOf("inner", "", "", "", " ")
	s.Covered = !s.InOrderBy
	if s.InOrderBy {
		g.txt.Unordered = true
	}
	return c14Marker(s.Idx)
}

func (g *c14Gen) randomblobSite(scope []string) string {
	s := g.newSite("randomblob")
	wrap := false
	switch r := g.pick("nkind", 100); {
	// The expected blob length (NLen) of the claimed forms is not computed here: the
	// check asks SQLite itself for length(randomblob(<literal>)).
	case r < 34:
		n := g.between(1, 24)
		s.NKind, s.Args = "int", []string{strconv.Itoa(n)}
	case r < 38:
		s.NKind, s.Args = "zero", []string{g.oneOf("z", "0", "00", "0x0", "0.0")}
	case r < 46:
		// leading zeros are decimal in SQLite, never octal
		s.NKind, s.Args = "leading-zero", []string{g.oneOf("lz", "010", "007", "0012", "08", "020", "0100")}
	case r < 54:
		n := g.between(1, 40)
		s.NKind, s.Args = "hex", []string{fmt.Sprintf(g.oneOf("hx", "0x%X", "0X%X", "0x%x", "0x0%X", "0X00%x"), n)}
	case r < 62:
		n := g.between(1, 12)
		s.NKind, s.Args = "float", []string{g.oneOf("ff", fmt.Sprintf("%d.5", n), fmt.Sprintf("%d.0", n), fmt.Sprintf("%de0", n), fmt.Sprintf("%d.", n),
			fmt.Sprintf(".%de1", n%10), fmt.Sprintf("%dE1", n%4), fmt.Sprintf("%d.99", n), fmt.Sprintf("%d0e-1", n), fmt.Sprintf("0%d.5", n))}
	case r < 70:
		n := g.between(1, 12)
		s.NKind, s.Args = "string", []string{g.oneOf("sf", fmt.Sprintf("'%d'", n), fmt.Sprintf("'0%d'", n), fmt.Sprintf("' %d'", n), fmt.Sprintf("'%dabc'", n),
			fmt.Sprintf("'%d.9'", n), fmt.Sprintf("'+%d'", n), "'0x10'", "'abc'", "''", "'-3'", "'1e1'")}
	case r < 74:
		s.NKind, s.Args = "null", []string{g.oneOf("null", "NULL", "null")}
	case r < 77:
		s.NKind, s.Args = "bool", []string{g.oneOf("bl", "TRUE", "false", "true")}
	case r < 79:
		s.NKind, s.Args = "blob", []string{g.oneOf("bb", "x'3130'", "X'37'", "x''")}
	case r < 82:
		s.NKind, s.Args = "large", []string{g.oneOf("lg", "300", "1000", "4096", "0x200")}
	case r < 84:
		// more than SQLite's maximum blob length: the statement fails on every node, nothing is claimed
		s.NKind, s.Args = "too-big", []string{g.oneOf("tb", "1000000001", "2000000000", "0x7fffffffffffffff", "99999999999999999999", "1e10")}
		wrap = true
	case r < 87:
		s.NKind, s.Args = "signed", []string{g.oneOf("sg", "-1", "+2", "- 3")}
		wrap = true
	case r < 94:
		s.NKind, s.Args = "expr", []string{g.oneOf("ex", "1+1", "(2)", "abs(3)", "2*2")}
		wrap = true
	default:
		if len(scope) > 0 {
			s.NKind, s.Args = "column", []string{scope[g.pick("nbcol", len(scope))]}
		} else {
			s.NKind, s.Args = "expr", []string{"1+2"}
		}
		wrap = true
	}
	s.Covered = !wrap
	if wrap {
		// not claimed by the property: stays non-deterministic, so only its type is observed
		return "typeof(" + c14Marker(s.Idx) + ")"
	}
	return c14Marker(s.Idx)
}

func (g *c14Gen) timeMods(s *c14Site) []string {
	var mods []string
	n := g.pick("nmods", 4)
	if n > 2 {
		n = 0
	}
	for i := 0; i < n; i++ {
		switch r := g.pick("mod", 100); {
		case r < 30:
			mods = append(mods, g.oneOf("m1", "'+1 day'", "'-2 hours'", "'+3 months'", "'-1 year'", "'+90 minutes'"))
			s.Mods = append(s.Mods, "offset")
		case r < 50:
			mods = append(mods, g.oneOf("m2", "'start of month'", "'start of year'", "'start of day'"))
			s.Mods = append(s.Mods, "startof")
		case r < 60:
			mods = append(mods, "'weekday 0'")
			s.Mods = append(s.Mods, "weekday")
		case r < 72:
			mods = append(mods, g.oneOf("m3", "'localtime'", "'utc'"))
			s.Mods = append(s.Mods, "tz")
		case r < 84:
			mods = append(mods, "'subsec'")
			s.Mods = append(s.Mods, "subsec")
		case r < 90:
			if i == 0 {
				mods = append(mods, "'auto'")
				s.Mods = append(s.Mods, "auto")
			}
		case r < 95:
			if i == 0 {
				mods = append(mods, "'unixepoch'")
				s.Mods = append(s.Mods, "unixepoch")
			}
		default:
			if i == 0 {
				mods = append(mods, "'julianday'")
				s.Mods = append(s.Mods, "julianday")
			}
		}
	}
	return mods
}

// timeValue returns the text of a time-value argument and its form.
func (g *c14Gen) timeValue(scope []string, allowImplicit bool) (txt, form string) {
	switch r := g.pick("tv", 100); {
	case r < 38:
		return "'now'", "explicit-now"
	case r < 46:
		return g.oneOf("nowcase", "'NOW'", "'Now'", "'nOw'"), "case-now"
	case r < 51:
		return `"now"`, "dq-now"
	case r < 56:
		return "('now')", "paren-now"
	case r < 76:
		if allowImplicit {
			return "", "implicit"
		}
		return "'now'", "explicit-now"
	case r < 94 || len(scope) == 0:
		return g.oneOf("fixed", "'2024-02-29 12:30:00'", "'2001-09-09'", "2460000.5", "'12:00'", "0", "'nowhere'", "'now '", "NULL"), "fixed"
	default:
		return scope[g.pick("tvcol", len(scope))], "fixed"
	}
}

func (g *c14Gen) timeSite(scope []string) string {
	fn := c14TimeNames[g.pick("tfn", len(c14TimeNames))]
	s := g.newSite(fn)
	switch fn {
	case "timediff":
		a, fa := g.timeValue(scope, false)
		b, fb := g.timeValue(scope, false)
		s.Args = []string{a, b}
		s.Form = "fixed"
		// the form of the call is the most unusual spelling of 'now' among its arguments
		rank := map[string]int{"fixed": 0, "explicit-now": 1, "case-now": 2, "dq-now": 3, "paren-now": 4}
		for i, f := range []string{fa, fb} {
			if f != "fixed" {
				s.NowIdx = append(s.NowIdx, i)
			}
			if rank[f] > rank[s.Form] {
				s.Form = f
			}
		}
	case "strftime":
		format := g.oneOf("fmt", "'%Y-%m-%d'", "'%s'", "'%H:%M:%f'", "'%J'", "'%j %w'", "'%Y now date('")
		v, f := g.timeValue(scope, true)
		if f == "implicit" {
			s.Args, s.Implicit, s.Form = []string{format}, true, "fmt-only"
		} else {
			s.Args, s.Form = []string{format, v}, f
			if f != "fixed" {
				s.NowIdx = []int{1}
			}
			s.Args = append(s.Args, g.timeMods(s)...)
		}
	default:
		v, f := g.timeValue(scope, true)
		if f == "implicit" {
			s.Implicit, s.Form = true, "zero-arg"
			s.Inner = g.oneOf("inner", "", "", " ")
		} else {
			s.Args, s.Form = []string{v}, f
			if f != "fixed" {
				s.NowIdx = []int{0}
			}
			s.Args = append(s.Args, g.timeMods(s)...)
		}
	}
	s.Covered = s.Implicit || len(s.NowIdx) > 0
	return c14Marker(s.Idx)
}

// ---------------------------------------------------------------------------
// expressions. Precedence levels (higher binds tighter), after
// https://sqlite.org/lang_expr.html:
const (
	c14POr = iota
	c14PAnd
	c14PNot
	c14PEq   // = == <> != IS IN LIKE GLOB BETWEEN ISNULL NOTNULL NOT NULL
	c14PCmp  // < <= > >=
	c14PBit  // & | << >>
	c14PAdd  // + -
	c14PMul  // * / %
	c14PCat  // ||
	c14PColl // COLLATE
	c14PUn   // - + ~
	c14PAtom
)

type c14E struct {
	s string
	p int
}

func (e c14E) at(min int) string {
	if e.p < min {
		return "(" + e.s + ")"
	}
	return e.s
}

func (g *c14Gen) leaf(scope []string) c14E {
	if g.budget > 0 && g.chance("leafsite", 60) {
		return c14E{g.site(scope), c14PAtom}
	}
	switch r := g.pick("leaf", 100); {
	case r < 30:
		return c14E{strconv.Itoa(g.between(0, 20)), c14PAtom}
	case r < 36:
		return c14E{strconv.Itoa(g.between(21, 999999)), c14PAtom}
	case r < 43:
		return c14E{g.oneOf("flt", "1.5", ".5", "2.", "1e2", "0.25", "3.0E+1"), c14PAtom}
	case r < 46:
		return c14E{g.oneOf("hexlit", "0x1F", "0X10"), c14PAtom}
	case r < 62:
		// strings, including trap words that must never be touched
		return c14E{g.oneOf("str", "'x'", "'it''s'", "'now'", "'random()'", "'date(''now'')'", "'%Y'", "''", "'randomblob(4)'", "'a b'", "'é'"), c14PAtom}
	case r < 67:
		return c14E{g.oneOf("nul", "NULL", "null"), c14PAtom}
	case r < 70:
		g.feat("bool-lit")
		return c14E{g.oneOf("bool", "TRUE", "false"), c14PAtom}
	case r < 71:
		g.feat("digit-sep")
		return c14E{"1_000", c14PAtom}
	default:
		if len(scope) == 0 {
			return c14E{strconv.Itoa(g.between(0, 9)), c14PAtom}
		}
		c := scope[g.pick("col", len(scope))]
		if g.chance("qcol", 10) && !strings.Contains(c, ".") {
			c = `"` + c + `"`
		}
		return c14E{c, c14PAtom}
	}
}

func (g *c14Gen) expr(d int, scope []string) c14E {
	if d <= 0 || g.chance("isleaf", 35) {
		return g.leaf(scope)
	}
	sub := func() c14E { return g.expr(d-1, scope) }
	switch r := g.pick("ekind", 100); {
	case r < 14: // arithmetic / concat / bitwise
		ops := []struct {
			op string
			p  int
		}{{"+", c14PAdd}, {"-", c14PAdd}, {"*", c14PMul}, {"/", c14PMul}, {"%", c14PMul}, {"||", c14PCat}, {"&", c14PBit}, {"|", c14PBit}, {"<<", c14PBit}, {">>", c14PBit}}
		o := ops[g.pick("aop", len(ops))]
		return g.withE("binary", func() c14E {
			l, rr := sub(), sub()
			sp := g.oneOf("sp", " ", " ", "")
			if o.op == "-" {
				sp = " " // never produce "--"
			}
			return c14E{l.at(o.p) + sp + o.op + sp + rr.at(o.p+1), o.p}
		})
	case r < 24: // comparison
		ops := []struct {
			op string
			p  int
		}{{"=", c14PEq}, {"==", c14PEq}, {"<>", c14PEq}, {"!=", c14PEq}, {"IS", c14PEq}, {"IS NOT", c14PEq}, {"<", c14PCmp}, {"<=", c14PCmp}, {">", c14PCmp}, {">=", c14PCmp}}
		o := ops[g.pick("cop", len(ops))]
		return g.withE("binary", func() c14E {
			before := len(g.txt.Sites)
			l := sub()
			mid := len(g.txt.Sites)
			rr := sub()
			if up := strings.ToUpper(rr.s); strings.HasPrefix(o.op, "IS") && strings.HasPrefix(up, "NULL") && (len(up) == 4 || !c14IsIdChar(up[4])) {
				// "x IS [NOT] NULL" is a null test whichever way it was produced; rqlite/sql also reads
				// "x IS NULL >= 1" as "(x IS NULL) >= 1" (SQLite: x IS (NULL >= 1)), a Null node again
				for _, s := range g.txt.Sites[before:mid] {
					s.Ctx = append(s.Ctx, "nulltest")
				}
			}
			return c14E{l.at(o.p) + " " + o.op + " " + rr.at(o.p+1), o.p}
		})
	case r < 30: // logical
		return g.withE("binary", func() c14E {
			l, rr := sub(), sub()
			if g.chance("and", 50) {
				return c14E{l.at(c14PAnd) + " AND " + rr.at(c14PAnd+1), c14PAnd}
			}
			return c14E{l.at(c14POr) + " OR " + rr.at(c14POr+1), c14POr}
		})
	case r < 33:
		return g.withE("unary", func() c14E { return c14E{"NOT " + sub().at(c14PNot), c14PNot} })
	case r < 39: // unary - + ~
		return g.withE("unary", func() c14E {
			op := g.oneOf("uop", "-", "-", "+", "~")
			x := sub()
			if op == "-" && x.p == c14PUn && strings.HasPrefix(x.s, "-") {
				g.feat("nested-minus")
				return c14E{"- " + x.s, c14PUn}
			}
			return c14E{op + x.at(c14PUn), c14PUn}
		})
	case r < 44:
		return g.withE("paren", func() c14E { return c14E{"(" + sub().s + ")", c14PAtom} })
	case r < 56: // function wrappers
		return g.withE("func-arg", func() c14E {
			switch g.pick("fw", 10) {
			case 0:
				return c14E{"abs(" + sub().s + ")", c14PAtom}
			case 1:
				return c14E{"coalesce(" + sub().s + ", " + sub().s + ")", c14PAtom}
			case 2:
				return c14E{"length(" + sub().s + ")", c14PAtom}
			case 3:
				return c14E{"typeof(" + sub().s + ")", c14PAtom}
			case 4:
				return c14E{"hex(" + sub().s + ")", c14PAtom}
			case 5:
				return c14E{"max(" + sub().s + ", " + sub().s + ")", c14PAtom}
			case 6:
				return c14E{"iif(" + sub().s + ", " + sub().s + ", " + sub().s + ")", c14PAtom}
			case 7:
				return c14E{"quote(" + sub().s + ")", c14PAtom}
			case 8:
				return c14E{"printf('%s|%s', " + sub().s + ", " + sub().s + ")", c14PAtom}
			}
			return c14E{"LOWER(" + sub().s + ")", c14PAtom}
		})
	case r < 61:
		return g.withE("cast", func() c14E {
			ty := g.oneOf("ty", "INTEGER", "TEXT", "REAL", "BLOB", "NUMERIC", "VARCHAR(10)")
			return c14E{"CAST(" + sub().s + " AS " + ty + ")", c14PAtom}
		})
	case r < 68:
		return g.withE("case", func() c14E {
			if g.chance("casebase", 40) {
				return c14E{"CASE " + sub().s + " WHEN " + sub().s + " THEN " + sub().s + " ELSE " + sub().s + " END", c14PAtom}
			}
			if g.chance("caseelse", 70) {
				return c14E{"CASE WHEN " + sub().s + " THEN " + sub().s + " ELSE " + sub().s + " END", c14PAtom}
			}
			return c14E{"CASE WHEN " + sub().s + " THEN " + sub().s + " END", c14PAtom}
		})
	case r < 72:
		g.feat("between")
		return g.withE("between", func() c14E {
			not := g.oneOf("bnot", "", "", "NOT ")
			return c14E{sub().at(c14PEq) + " " + not + "BETWEEN " + sub().at(c14PCmp) + " AND " + sub().at(c14PCmp), c14PEq}
		})
	case r < 76:
		return g.withE("in-list", func() c14E {
			not := g.oneOf("inot", "", "", "NOT ")
			return c14E{sub().at(c14PEq+1) + " " + not + "IN (" + sub().s + ", " + sub().s + ")", c14PEq}
		})
	case r < 83:
		return g.withE("nulltest", func() c14E {
			form := g.oneOf("nt", "IS NULL", "IS NOT NULL", "NOT NULL", "ISNULL", "NOTNULL")
			return c14E{sub().at(c14PEq+1) + " " + form, c14PEq}
		})
	case r < 89:
		return g.withE("scalar-subquery", func() c14E {
			if g.chance("ssfrom", 50) {
				return c14E{"(SELECT " + g.expr(d-1, c14ColsT).s + " FROM t WHERE id = " + strconv.Itoa(1+g.pick("rid", 4)) + ")", c14PAtom}
			}
			return c14E{"(SELECT " + sub().s + ")", c14PAtom}
		})
	case r < 93:
		l := sub()
		return g.withE("in-subquery", func() c14E {
			not := g.oneOf("isnot", "", "NOT ")
			return c14E{l.at(c14PEq+1) + " " + not + "IN (SELECT " + g.expr(d-1, c14ColsT).s + " FROM t)", c14PEq}
		})
	case r < 96:
		return g.withE("exists", func() c14E {
			return c14E{"EXISTS (SELECT 1 FROM t WHERE " + g.expr(d-1, c14ColsT).s + ")", c14PAtom}
		})
	case r < 98:
		return g.withE("like", func() c14E {
			op := g.oneOf("lop", "LIKE", "NOT LIKE", "GLOB")
			return c14E{sub().at(c14PEq+1) + " " + op + " " + g.oneOf("pat", "'x%'", "'%1%'", "'*2*'"), c14PEq}
		})
	default:
		return g.withE("collate", func() c14E {
			return c14E{sub().at(c14PColl+1) + " COLLATE " + g.oneOf("coll", "NOCASE", "nocase", "BINARY", "RTRIM"), c14PColl}
		})
	}
}

func (g *c14Gen) withE(c string, f func() c14E) c14E {
	g.ctx = append(g.ctx, c)
	defer func() { g.ctx = g.ctx[:len(g.ctx)-1] }()
	return f()
}

func (g *c14Gen) ex(d int, scope []string) string { return g.expr(d, scope).s }

// ---------------------------------------------------------------------------
// statements

var (
	c14ColsT = []string{"id", "a", "b", "c", "d"}
	c14ColsU = []string{"k", "v", "w"}
)

const c14Schema = `
CREATE TABLE t (id INTEGER PRIMARY KEY, a, b TEXT, c REAL, d BLOB);
CREATE TABLE u (k TEXT PRIMARY KEY, v, w INTEGER DEFAULT 0);
INSERT INTO t VALUES (1, 10, 'x', 1.5, NULL), (2, -3, '2020-01-02', 2.25, zeroblob(2)), (3, NULL, 'random()', NULL, NULL), (4, 1000000, 'yy', 0.0, 'txt');
INSERT INTO u VALUES ('k1', 1, 0), ('k2', 'two', 5);
`

func (g *c14Gen) depth() int { return g.between(0, 3) }

func (g *c14Gen) exprList(n int, scope []string, ctx string) string {
	parts := make([]string, n)
	for i := range parts {
		parts[i] = g.with(ctx, func() string { return g.ex(g.depth(), scope) })
	}
	return strings.Join(parts, ", ")
}

func (g *c14Gen) where(scope []string, pct int) string {
	if !g.chance("where", pct) {
		return ""
	}
	return " WHERE " + g.with("where", func() string { return g.ex(g.depth(), scope) })
}

func (g *c14Gen) returning(scope []string, kind string) string {
	if !g.chance("returning", 25) {
		return ""
	}
	g.feat(kind + "-returning")
	if g.chance("retstar", 30) {
		return " RETURNING *"
	}
	s := " RETURNING " + g.with("returning", func() string { return g.ex(g.depth(), scope) })
	if g.chance("retalias", 30) {
		s += " AS " + g.oneOf("ralias", "r", `"random()"`, `"date('now')"`)
	}
	return s
}

func (g *c14Gen) cte() string {
	if !g.chance("cte", 18) {
		return ""
	}
	g.feat("cte")
	// calls inside a CTE body only in a third of the CTEs (known walker gap; keep it from dominating)
	if !g.chance("ctesite", 33) {
		saved := g.budget
		g.budget = 0
		defer func() { g.budget = saved }()
	}
	return g.with("cte-body", func() string {
		switch g.pick("ctekind", 4) {
		case 0:
			return "WITH cte(v) AS (SELECT " + g.ex(g.depth(), nil) + ") "
		case 1:
			return "WITH cte AS (SELECT " + g.ex(g.depth(), c14ColsT) + " AS v FROM t) "
		case 2:
			return "WITH cte(v) AS (VALUES (" + g.ex(g.depth(), nil) + ")) "
		}
		g.feat("cte-recursive")
		return "WITH RECURSIVE cte(v) AS (SELECT 1 UNION ALL SELECT v+1 FROM cte WHERE v < " + g.oneOf("rl", "2", "3") + ") "
	})
}

func (g *c14Gen) selectStmt(allowOrderRandom bool) string {
	var sb strings.Builder
	sb.WriteString(g.cte())
	hasCTE := sb.Len() > 0
	switch r := g.pick("selform", 100); {
	case r < 8:
		// VALUES / compound
		if g.chance("values", 50) {
			sb.WriteString("VALUES (" + g.exprList(1+g.pick("nv", 2), nil, "values-row") + ")")
			return sb.String()
		}
		op := g.oneOf("cop", "UNION ALL", "UNION", "EXCEPT", "INTERSECT")
		sb.WriteString("SELECT " + g.with("compound-arm", func() string { return g.ex(g.depth(), nil) }) + " " + op + " SELECT " + g.with("compound-arm", func() string { return g.ex(g.depth(), nil) }))
		return sb.String()
	case r < 18:
		// aggregate / group by
		// "+ 0" keeps a bare integer from being read as a result-column index
		key := g.with("group-by", func() string { return g.expr(g.depth(), c14ColsT).at(c14PAdd+1) + " + 0" })
		sb.WriteString("SELECT count(*)")
		if g.chance("filter", 40) {
			sb.WriteString(" FILTER (WHERE " + g.with("filter", func() string { return g.ex(g.depth(), c14ColsT) }) + ")")
		}
		sb.WriteString(", max(" + g.with("func-arg", func() string { return g.ex(g.depth(), c14ColsT) }) + ") FROM t")
		sb.WriteString(g.where(c14ColsT, 30))
		sb.WriteString(" GROUP BY " + key)
		if g.chance("having", 40) {
			sb.WriteString(" HAVING count(*) > " + g.with("having", func() string { return g.expr(g.depth(), nil).at(c14PCmp + 1) }))
		}
		return sb.String()
	case r < 23:
		// window
		g.feat("window")
		sb.WriteString("SELECT id, sum(id) OVER (PARTITION BY " + g.with("window-partition", func() string { return g.ex(g.depth(), c14ColsT) }) + " ORDER BY id) FROM t")
		return sb.String()
	}
	scope := c14ColsT
	from := " FROM t"
	switch r := g.pick("from", 100); {
	case r < 20:
		scope, from = nil, ""
	case r < 30:
		from = " FROM t AS tt"
		scope = []string{"tt.id", "tt.a", "b", "c"}
	case r < 40:
		from = " FROM (SELECT " + g.with("from-subquery", func() string { return g.ex(g.depth(), c14ColsT) }) + " AS x, id FROM t) AS s"
		scope = []string{"x", "id", "s.x"}
	case r < 50:
		jt := g.oneOf("jt", "JOIN", "LEFT JOIN", "INNER JOIN", "CROSS JOIN")
		from = " FROM t " + jt + " u ON " + g.with("join-on", func() string { return g.ex(g.depth(), []string{"t.id", "a", "u.k", "v", "w"}) })
		scope = []string{"t.id", "a", "b", "k", "v", "u.w"}
	case r < 55 && hasCTE:
		from = " FROM cte"
		scope = []string{"v"}
	case r < 60:
		g.feat("table-fn")
		from = " FROM json_each('[1,2,3]')"
		scope = []string{"value", "key"}
	}
	sb.WriteString("SELECT ")
	if g.chance("distinct", 8) {
		sb.WriteString(g.oneOf("dist", "DISTINCT ", "ALL "))
	}
	nrc := 1 + g.pick("nrc", 3)
	for i := 0; i < nrc; i++ {
		if i > 0 {
			sb.WriteString(", ")
		}
		sb.WriteString(g.with("result-col", func() string { return g.ex(g.depth(), scope) }))
		if g.chance("alias", 20) {
			sb.WriteString(g.oneOf("as", " AS ", " ") + g.oneOf("alias", "r1", `"random()"`, `"time('now')"`, "random_col", "date_", "`r 2`"))
		}
	}
	sb.WriteString(from)
	if from != "" {
		sb.WriteString(g.where(scope, 50))
	}
	ordRandom := false
	if from != "" && g.chance("orderby", 35) {
		g.orderBy++
		old := g.noRandOrd
		g.noRandOrd = !allowOrderRandom
		before := len(g.txt.Sites)
		n := 1 + g.pick("nord", 2)
		var terms []string
		for i := 0; i < n; i++ {
			term := g.with("order-by", func() string { return g.ex(g.pick("od", 2), scope) })
			if _, err := strconv.Atoi(term); err == nil {
				term = "1" // a bare integer is a result-column index
			}
			term += g.oneOf("dir", "", "", " ASC", " DESC", " DESC NULLS LAST", " ASC NULLS FIRST")
			terms = append(terms, term)
		}
		g.noRandOrd = old
		g.orderBy--
		for _, s := range g.txt.Sites[before:] {
			if s.Fn == "random" || !s.Covered {
				ordRandom = true
			}
		}
		sb.WriteString(" ORDER BY " + strings.Join(terms, ", "))
	}
	if !ordRandom && from != "" && g.chance("limit", 25) {
		lim := func(ctx string) string {
			if g.budget > 0 && g.chance("limsite", 30) {
				return g.with(ctx, func() string { return "abs(" + g.randomSite() + ") % 4" })
			}
			return strconv.Itoa(g.pick("lim", 5))
		}
		switch g.pick("limform", 4) {
		case 0, 1:
			sb.WriteString(" LIMIT " + lim("limit"))
		case 2:
			sb.WriteString(" LIMIT " + lim("limit") + " OFFSET " + lim("offset"))
		case 3:
			g.feat("limit-comma")
			sb.WriteString(" LIMIT " + strconv.Itoa(g.pick("off", 3)) + ", " + strconv.Itoa(g.pick("lim", 5)))
		}
	}
	return sb.String()
}

func (g *c14Gen) insertStmt() string {
	var sb strings.Builder
	sb.WriteString(g.cte())
	hasCTE := sb.Len() > 0
	switch r := g.pick("insform", 100); {
	case r < 45:
		verb := g.oneOf("iverb", "INSERT INTO", "INSERT INTO", "insert into", "INSERT OR REPLACE INTO", "INSERT OR IGNORE INTO", "REPLACE INTO")
		cols := [][]string{{"a"}, {"a", "b"}, {"a", "b", "c"}, {"a", "b", "c", "d"}, {"b", "d"}}[g.pick("icols", 5)]
		tbl := g.oneOf("itbl", "t", "t", "main.t", `"t"`)
		sb.WriteString(verb + " " + tbl + g.oneOf("isp", "", " ") + "(" + strings.Join(cols, ", ") + ") VALUES ")
		nrows := 1 + g.pick("nrows", 3)
		for i := 0; i < nrows; i++ {
			if i > 0 {
				sb.WriteString(", ")
			}
			sb.WriteString("(" + g.exprList(len(cols), nil, "values-row") + ")")
		}
		sb.WriteString(g.returning(c14ColsT, "insert"))
	case r < 65:
		src, scope := "t", c14ColsT
		if hasCTE && g.chance("fromcte", 60) {
			src, scope = "cte", []string{"v"}
		}
		sb.WriteString("INSERT INTO t (a, b) SELECT " + g.exprList(2, scope, "insert-select") + " FROM " + src)
		sb.WriteString(g.where(scope, 40))
		sb.WriteString(g.returning(c14ColsT, "insert"))
	default:
		// UPSERT on u
		g.feat("upsert")
		key := g.oneOf("ukey", "'k1'", "'k2'", "'k3'", "'k1'")
		sb.WriteString("INSERT INTO u (k, v) VALUES (" + key + ", " + g.with("values-row", func() string { return g.ex(g.depth(), nil) }) + ")")
		switch g.pick("upform", 4) {
		case 0:
			sb.WriteString(" ON CONFLICT DO NOTHING")
		case 1:
			sb.WriteString(" ON CONFLICT (k) DO NOTHING")
		default:
			sb.WriteString(" ON CONFLICT (k) DO UPDATE SET v = " + g.with("upsert-set", func() string { return g.ex(g.depth(), []string{"v", "w", "excluded.v", "k"}) }))
			if g.chance("upset2", 30) {
				sb.WriteString(", w = w + 1")
			}
			if g.chance("upwhere", 30) {
				sb.WriteString(" WHERE " + g.with("upsert-where", func() string { return g.ex(g.depth(), []string{"v", "w", "excluded.v"}) }))
			}
		}
		sb.WriteString(g.returning(c14ColsU, "insert"))
	}
	return sb.String()
}

func (g *c14Gen) updateStmt() string {
	var sb strings.Builder
	sb.WriteString(g.cte())
	verb := g.oneOf("uverb", "UPDATE", "UPDATE", "update", "UPDATE OR IGNORE", "UPDATE OR REPLACE")
	sb.WriteString(verb + " t SET ")
	switch g.pick("setform", 5) {
	case 0:
		g.feat("set-tuple")
		sb.WriteString("(a, b) = (" + g.exprList(2, c14ColsT, "update-set") + ")")
	case 1:
		sb.WriteString("a = " + g.with("update-set", func() string { return g.ex(g.depth(), c14ColsT) }) + ", c = " + g.with("update-set", func() string { return g.ex(g.depth(), c14ColsT) }))
	default:
		col := g.oneOf("ucol", "a", "b", "c", "d")
		sb.WriteString(col + " = " + g.with("update-set", func() string { return g.ex(g.depth(), c14ColsT) }))
	}
	sb.WriteString(g.where(c14ColsT, 60))
	sb.WriteString(g.returning(c14ColsT, "update"))
	return sb.String()
}

func (g *c14Gen) deleteStmt() string {
	var sb strings.Builder
	sb.WriteString(g.cte())
	sb.WriteString(g.oneOf("dverb", "DELETE FROM t", "delete from t", "DELETE FROM main.t"))
	sb.WriteString(g.where(c14ColsT, 85))
	sb.WriteString(g.returning(c14ColsT, "delete"))
	return sb.String()
}

func (g *c14Gen) statement(single bool) string {
	switch r := g.pick("skind", 100); {
	case r < 30:
		g.txt.Kinds = append(g.txt.Kinds, "insert")
		return g.insertStmt()
	case r < 50:
		g.txt.Kinds = append(g.txt.Kinds, "update")
		return g.updateStmt()
	case r < 62:
		g.txt.Kinds = append(g.txt.Kinds, "delete")
		return g.deleteStmt()
	default:
		g.txt.Kinds = append(g.txt.Kinds, "select")
		return g.selectStmt(single)
	}
}

// c14GenText generates one SQL text: usually one statement, sometimes two or
// three separated by ';', optionally decorated with comments and whitespace.
func c14GenText(rng *rand.Rand) *c14Text {
	g := &c14Gen{rng: rng, txt: &c14Text{Feats: map[string]bool{}}}
	// number of call sites wanted in this text: 0 (identity class) .. 4
	g.budget = []int{0, 1, 1, 1, 2, 2, 3, 4}[g.pick("budget", 8)]
	n := 1
	if g.chance("multi", 12) {
		n = 2 + g.pick("nst", 2)
		g.feat("multi-stmt")
	}
	var sb strings.Builder
	switch g.pick("lead", 20) {
	case 0:
		sb.WriteString("  ")
		g.feat("lead-ws")
	case 1:
		sb.WriteString("/* lead */ ")
		g.feat("lead-comment")
	case 2:
		sb.WriteString("-- random()\n")
		g.feat("lead-comment")
	}
	for i := 0; i < n; i++ {
		g.stmt = i
		if i > 0 {
			sb.WriteString(g.oneOf("sep", ";", "; ", ";\n", " ; "))
		}
		sb.WriteString(g.statement(n == 1))
	}
	switch g.pick("trail", 20) {
	case 0:
		sb.WriteString(";")
		g.feat("trail-semi")
	case 1:
		sb.WriteString(" -- date('now')")
		g.feat("trail-comment")
	case 2:
		sb.WriteString(" ; ")
		g.feat("trail-semi")
	case 3:
		sb.WriteString(" /* random() */")
		g.feat("trail-comment")
	}
	g.txt.Marked = sb.String()
	g.txt.NStmts = n
	return g.txt
}
