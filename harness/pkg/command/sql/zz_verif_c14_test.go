package sql

// C14: non-deterministic SQL is fully and faithfully rewritten.
//
// Unit under test: Process(stmts, true, true) — the function the HTTP layer
// calls on every execute/request body before the statements are replicated.
//
// Oracles (none of them uses the rewriter or the rqlite/sql parser):
//  1. completeness: an independent tokenizer finds, in the rewritten text, no
//     random() outside ORDER BY, no randomblob(<literal>), and no date/time
//     call whose time value is 'now' (explicit) or missing (implicit);
//  2. faithfulness: the concrete values the rewriter chose are read back from
//     its output, substituted into the generator's own template, and both
//     texts are executed on identical scratch SQLite databases: same error
//     status, same rows, same logical dump. The chosen time value must be the
//     current time (as SQLite reads the literal) and a random blob must have
//     the length SQLite's randomblob(n) would give;
//  3. identity: a text without a claimed call comes back byte-identical.
//
// The rqlite/sql parser is used only to *classify* failures (does the
// statement parse at all?) so that dependency gaps get their own signatures.

import (
	"database/sql"
	"fmt"
	"math/rand/v2"
	"sort"
	"strings"
	"testing"
	"time"

	"github.com/rqlite/rqlite/v10/command/proto"
	"github.com/rqlite/rqlite/v10/internal/verif/vsql"
	"github.com/rqlite/rqlite/v10/internal/verif/vstat"
	rsql "github.com/rqlite/sql"
	"pgregory.net/rapid"
)

// sites of a text in textual order
func (t *c14Text) textOrder() []*c14Site {
	var out []*c14Site
	s := t.Marked
	for {
		i := strings.IndexByte(s, 1)
		if i < 0 {
			return out
		}
		j := strings.IndexByte(s[i:], 2)
		idx := 0
		fmt.Sscanf(s[i+1:i+j], "%d", &idx)
		out = append(out, t.Sites[idx])
		s = s[i+j+1:]
	}
}

func c14IsNDName(n string) bool { return n == "random" || n == "randomblob" || c14TimeFns[n] }

// calls to the nine function names, in textual order
func c14NDCalls(toks []c14Tok) []c14Call {
	var out []c14Call
	for _, c := range c14FindCalls(toks) {
		if c14IsNDName(c.Name) {
			out = append(out, c)
		}
	}
	return out
}

// number of non-empty statements in a text (split at top-level ';')
func c14CountStmts(toks []c14Tok) int {
	n, depth, seen := 0, 0, false
	for _, t := range toks {
		if t.Kind == c14TPunct {
			switch t.Text {
			case "(":
				depth++
			case ")":
				depth--
			case ";":
				if depth == 0 {
					if seen {
						n++
					}
					seen = false
					continue
				}
			}
		}
		seen = true
	}
	if seen {
		n++
	}
	return n
}

func c14OperandEnd(t c14Tok) bool {
	switch t.Kind {
	case c14TNumber, c14TString, c14TBlob, c14TVar, c14TQIdent:
		return true
	case c14TPunct:
		return t.Text == ")"
	case c14TIdent:
		return c14IsKw(t, "null") || c14IsKw(t, "end") || c14IsKw(t, "true") || c14IsKw(t, "false")
	}
	return false
}

// number of unary '-' tokens immediately before token i
func c14UnaryMinusBefore(toks []c14Tok, i int) int {
	n := 0
	j := i - 1
	for j >= 0 && toks[j].Kind == c14TPunct && toks[j].Text == "-" {
		n++
		j--
	}
	if n > 0 && j >= 0 && c14OperandEnd(toks[j]) {
		n-- // the outermost one is a binary minus
	}
	return n
}

func c14IsBigInt(t c14Tok) bool {
	if t.Kind != c14TNumber || len(t.Text) < 8 {
		return false
	}
	for i := 0; i < len(t.Text); i++ {
		if !c14IsDigit(t.Text[i]) {
			return false
		}
	}
	return true
}

// c14Extract reads the concrete values chosen by the rewriter back from its
// output r, for every claimed site of the text. problem != "" when the output
// cannot be accounted for.
func c14Extract(txt *c14Text, s, r string) (vals map[int][]string, problem string) {
	vals = map[int][]string{}
	st, rt := c14Sig(c14Lex(s)), c14Sig(c14Lex(r))
	order := txt.textOrder()
	scalls := c14NDCalls(st)
	if len(scalls) != len(order) {
		return nil, "HARNESS: template/tokenizer disagree on calls"
	}
	// random(): integer literals of >= 8 digits (template integers are < 10^6)
	var bigs []int
	var blobs []c14Tok
	inInput := map[string]bool{} // large integer literals the input itself contains (too-big randomblob sizes)
	for _, t := range st {
		if c14IsBigInt(t) {
			inInput[t.Text] = true
		}
	}
	for i, t := range rt {
		if c14IsBigInt(t) && !inInput[t.Text] {
			bigs = append(bigs, i)
		}
		if t.Kind == c14TBlob {
			blobs = append(blobs, t)
		}
	}
	var rtime []c14Call
	for _, c := range c14NDCalls(rt) {
		if c14TimeFns[c.Name] {
			rtime = append(rtime, c)
		}
	}
	bi, bl, ti := 0, 0, 0
	for k, site := range order {
		switch site.kind() {
		case "random":
			if !site.Covered {
				continue
			}
			if bi >= len(bigs) {
				return nil, "fewer integer literals in the output than random() calls replaced"
			}
			tok := rt[bigs[bi]]
			v := tok.Text
			if c14UnaryMinusBefore(rt, bigs[bi]) == c14UnaryMinusBefore(st, scalls[k].NameTok)+1 {
				v = "-" + v
			}
			vals[site.Idx] = []string{v}
			bi++
		case "randomblob":
			if !site.Covered {
				continue
			}
			if bl >= len(blobs) {
				return nil, "fewer blob literals in the output than randomblob() calls replaced"
			}
			vals[site.Idx] = []string{blobs[bl].Text}
			if len(blobs[bl].Val) != 2*site.NLen {
				return nil, fmt.Sprintf("LENGTH: randomblob(%s) replaced by a blob of %d hex digits, SQLite gives %d bytes", site.Args[0], len(blobs[bl].Val), site.NLen)
			}
			bl++
		default:
			if ti >= len(rtime) {
				return nil, "fewer date/time calls in the output than in the input"
			}
			c := rtime[ti]
			ti++
			if !site.Covered {
				continue
			}
			if c.Name != site.Fn {
				return nil, "date/time calls in the output do not line up with the input"
			}
			idx, implicit := c14TimeArgIdx(c.Name, len(c.Args))
			if implicit || len(idx) == 0 {
				return nil, "date/time call in the output still has no time value"
			}
			want := site.NowIdx
			if site.Implicit {
				want = idx[:1]
			}
			var vs []string
			for _, a := range want {
				if a >= len(c.Args) || !c14ArgIsLiteral(c.Args[a]) || c14ArgIsNow(c.Args[a]) {
					return nil, "time value in the output is not a concrete literal"
				}
				vs = append(vs, c14JoinToks(c.Args[a]))
			}
			vals[site.Idx] = vs
		}
	}
	if bi != len(bigs) {
		return nil, "more large integer literals in the output than random() calls replaced"
	}
	if bl != len(blobs) {
		return nil, "more blob literals in the output than randomblob() calls replaced"
	}
	if ti != len(rtime) {
		return nil, "more date/time calls in the output than in the input"
	}
	return vals, ""
}

type c14Run struct {
	err  error
	rows []string
	dump string
}

func c14OpenScratch() (*sql.DB, error) {
	db, err := vsql.OpenMem()
	if err != nil {
		return nil, err
	}
	if _, err := db.Exec(c14Schema); err != nil {
		db.Close()
		return nil, err
	}
	return db, nil
}

// c14Execute runs text on a fresh scratch database. Single statements go
// through Query so that result rows are observed; multi-statement texts
// through Exec (the driver then runs every statement, as rqlite's execute
// path does).
func c14Execute(text string, single bool) (c14Run, error) {
	var out c14Run
	db, err := c14OpenScratch()
	if err != nil {
		return out, err
	}
	defer db.Close()
	if single {
		rows, err := db.Query(text)
		if err != nil {
			out.err = err
		} else {
			cols, _ := rows.Columns()
			for rows.Next() {
				vals := make([]any, len(cols))
				ptrs := make([]any, len(cols))
				for i := range vals {
					ptrs[i] = &vals[i]
				}
				if err := rows.Scan(ptrs...); err != nil {
					out.err = err
					break
				}
				parts := make([]string, len(vals))
				for i, v := range vals {
					parts[i] = fmt.Sprintf("%T:%v", v, v)
				}
				out.rows = append(out.rows, strings.Join(parts, "|"))
			}
			if err := rows.Err(); err != nil && out.err == nil {
				out.err = err
			}
			rows.Close()
		}
	} else {
		_, out.err = db.Exec(text)
	}
	d, err := vsql.DumpDB(db)
	if err != nil {
		return out, err
	}
	out.dump = d
	return out, nil
}

// c14ParseFailures reports, per statement index, whether rqlite/sql fails to
// parse that statement (a failure also hides every later statement). Used only
// to choose the signature of a failure, never to decide one.
func c14ParseFailures(text string) map[int]bool {
	out := map[int]bool{}
	p := rsql.NewParser(strings.NewReader(text))
	for i := 0; i < 8; i++ {
		_, err := p.ParseStatement()
		if err == nil {
			continue
		}
		if err.Error() != "EOF" {
			for k := i; k < 8; k++ {
				out[k] = true
			}
		}
		break
	}
	return out
}

// contexts the dependency's AST walker is known not to descend into
var c14WalkGapCtx = []string{"cte-body", "nulltest", "scalar-subquery", "in-subquery"}

// c14BlameSite gives the narrow signature for a claimed site that was left in
// the output. Static priority: parse failure, walker gap, statement position,
// spelling, argument form.
func c14BlameSite(txt *c14Text, s *c14Site, parseErr bool) (sig, what string) {
	if parseErr {
		f := "other"
		if txt.Feats["between"] {
			f = "between-then-operator"
		}
		if c14CollateAfterNulltest(c14Sig(c14Lex(txt.original()))) {
			// probed: rqlite/sql rejects COLLATE directly after IS [NOT] NULL / ISNULL / NOTNULL / NOT NULL
			// ("expected semicolon or EOF, found 'COLLATE'"); every other continuation after a null test parses
			f = "collate-after-nulltest"
		}
		if txt.Feats["digit-sep"] {
			f = "digit-separator"
		}
		for _, x := range txt.Sites {
			if x.Quote == "br" {
				f = "bracket-identifier"
			}
		}
		return "C14/parser-gap{form=parse-error:" + f + "}", "rqlite/sql cannot parse the text (" + f + "), so nothing in it is rewritten"
	}
	for _, c := range c14WalkGapCtx {
		if s.hasCtx(c) {
			return "C14/parser-gap{form=walk:" + c + "}", "rqlite/sql's Walk does not descend into " + c + ", calls there are not rewritten"
		}
	}
	if s.Stmt > 0 {
		return "C14/unrewritten{form=later-statement}", "calls in the second and later statements of a multi-statement text are not rewritten"
	}
	if s.Quote != "" {
		return "C14/unrewritten{form=quoted-name:" + s.Quote + "}", "call written with a quoted function name is not rewritten"
	}
	if s.GapKind != "" {
		return "C14/unrewritten{form=gap-before-paren:" + s.GapKind + "}", "call with whitespace/comment between the name and '(' is not rewritten"
	}
	switch s.kind() {
	case "randomblob":
		if s.NKind != "int" && s.NKind != "zero" {
			return "C14/unrewritten{fn=randomblob,n=" + s.NKind + "}", "randomblob with a " + s.NKind + " literal n is not rewritten"
		}
		if s.InOrderBy {
			return "C14/unrewritten{fn=randomblob,form=in-order-by}", "randomblob(literal) inside ORDER BY is not rewritten"
		}
	case "time":
		if s.Form != "explicit-now" {
			return "C14/unrewritten{fn=time,form=" + s.Form + "}", "date/time call with time value written as " + s.Form + " is not rewritten"
		}
	}
	ctx := "top"
	if len(s.Ctx) > 0 {
		ctx = s.Ctx[len(s.Ctx)-1]
	}
	return "C14/unrewritten{fn=" + s.kind() + ",form=plain,ctx=" + ctx + "}", "plainly written call is not rewritten"
}

// features of a text that are known hazards for the re-serialisation of the
// parsed statement, in blame priority order
var c14SerialHazards = []string{"update-returning", "delete-returning", "nested-minus", "digit-sep", "limit-comma"}

func c14BlameUnfaithful(txt *c14Text) string {
	for _, h := range c14SerialHazards {
		if txt.Feats[h] {
			return "C14/parser-gap{form=serialize:" + h + "}"
		}
	}
	if c14NulltestThenOperator(c14Sig(c14Lex(txt.original()))) {
		// `0 IS NOT NULL & 6` is `0 IS NOT (NULL & 6)` in SQLite; rqlite/sql reads a null test and prints
		// `0 NOT NULL & 6`, which SQLite reads as `(0 NOT NULL) & 6`. Likewise `x ISNULL + 1` is printed
		// `x IS NULL + 1`, i.e. `x IS (NULL + 1)`.
		return "C14/parser-gap{form=serialize:nulltest-then-operator}"
	}
	for _, s := range txt.Sites {
		if s.Covered {
			for _, m := range s.Mods {
				if m == "unixepoch" || m == "julianday" {
					return "C14/unfaithful{form=now-with-modifier:" + m + "}"
				}
			}
		}
	}
	return "C14/unfaithful{form=other}"
}

var c14Zones = []*time.Location{time.UTC, time.FixedZone("p0530", 5*3600+1800), time.FixedZone("m0800", -8*3600), time.FixedZone("p1300", 13*3600)}

func TestVerif_C14_Rewrite(t *testing.T) {
	rec := vstat.New(t, "C14", "rewrite",
		"rapid: SQL texts (INSERT/UPSERT/UPDATE/DELETE/SELECT/CTE/RETURNING/compound, 1-3 statements) with 0-4 spliced calls to random/randomblob/date/time/datetime/julianday/unixepoch/strftime/timediff in every arity, name case, quoting, gap before '(', nesting context, plus trap words in strings/identifiers/comments; run through Process(true,true) in a generated process time zone; non-trivial = at least one call the property claims (outside ORDER BY for random, literal n, time value now/implicit); distinct by text")
	defer func(l *time.Location) { time.Local = l }(time.Local)
	rapid.Check(t, func(rt *rapid.T) {
		// One rapid draw seeds a PCG stream that makes every structural choice:
		// rapid's own integer generators are biased towards small values, which
		// skews a weighted grammar badly (measured: a 5 % alternative drawn 33 %).
		seeds := rapid.SliceOfN(rapid.Uint64(), 3, 3).Draw(rt, "seed") // three draws: one biased draw repeats too often
		rng := rand.New(rand.NewPCG(seeds[0]^(seeds[1]*0x9E3779B97F4A7C15), seeds[2]+14))
		zone := c14Zones[rng.IntN(len(c14Zones))]
		time.Local = zone
		ntexts := 1
		if rng.IntN(10) == 0 {
			ntexts = 2
		}
		texts := make([]*c14Text, ntexts)
		stmts := make([]*proto.Statement, ntexts)
		origs := make([]string, ntexts)
		nontrivial := false
		for i := range texts {
			texts[i] = c14GenText(rng)
			origs[i] = texts[i].original()
			stmts[i] = &proto.Statement{Sql: origs[i]}
			if len(texts[i].covered()) > 0 {
				nontrivial = true
			}
		}
		rec.Case(nontrivial, strings.Join(origs, "\x00"))
		rec.Sample(strings.Join(origs, " ### "))
		rec.Label("zone:" + zone.String())

		t0 := time.Now()
		perr := Process(stmts, true, true)
		t1 := time.Now()
		if perr != nil {
			// the request is rejected and nothing is replicated: allowed
			rec.Label("outcome:rejected")
			return
		}
		for i, txt := range texts {
			if !c14CheckText(rt, rec, txt, origs[i], stmts[i].Sql, t0, t1, zone) {
				return
			}
		}
	})
}

// c14CheckText applies the three oracles to one text. It returns false when a
// known finding was hit (the case is finished).
func c14CheckText(rt *rapid.T, rec *vstat.Rec, txt *c14Text, s, r string, t0, t1 time.Time, zone *time.Location) bool {
	fail := func(sig, what, format string, args ...any) bool {
		if rec.KnownHit(sig, what) {
			return false
		}
		rt.Fatalf("%s", rec.Violation(sig, format, args...))
		return false
	}
	order := txt.textOrder()
	covered := txt.covered()
	for _, k := range txt.Kinds {
		rec.Label("stmt:" + k)
	}
	if txt.NStmts > 1 {
		rec.Label("text:multi-statement")
	}

	// harness self-check: the tokenizer must see exactly the calls the generator planted
	stoks := c14Sig(c14Lex(s))
	planted := c14CoveredCalls(s)
	var wantCovered []*c14Site
	for _, site := range order {
		if site.Covered {
			wantCovered = append(wantCovered, site)
		}
	}
	if len(planted) != len(wantCovered) || len(c14NDCalls(stoks)) != len(order) || c14CountStmts(stoks) != txt.NStmts {
		rt.Fatalf("HARNESS-BUG: tokenizer sees %d claimed calls / %d calls / %d statements, generator planted %d / %d / %d in: %s",
			len(planted), len(c14NDCalls(stoks)), c14CountStmts(stoks), len(wantCovered), len(order), txt.NStmts, s)
	}
	for i := range planted {
		if planted[i].Call.Name != wantCovered[i].Fn {
			rt.Fatalf("HARNESS-BUG: call order mismatch in: %s", s)
		}
	}

	if len(covered) == 0 {
		// oracle 3: identity
		if len(order) == 0 {
			rec.Label("class:no-call")
		} else {
			rec.Label("class:only-unclaimed-calls")
		}
		if r != s {
			hasTime := false
			for _, site := range order {
				if site.kind() == "time" {
					hasTime = true
				}
			}
			if hasTime {
				return fail("C14/changed-without-claimed-call{form=time-call-not-now}",
					"a statement whose date/time calls do not use 'now' is re-serialised instead of being replicated unchanged",
					"text without any claimed call was changed:\n in: %s\nout: %s", s, r)
			}
			return fail("C14/changed-without-claimed-call{form=other}", "a statement without claimed calls is changed",
				"text without any claimed call was changed:\n in: %s\nout: %s", s, r)
		}
		rec.Label("outcome:identity-ok")
		return true
	}

	for _, site := range covered {
		rec.Label("site:" + site.kind())
		switch site.kind() {
		case "randomblob":
			rec.Label("n:" + site.NKind)
		case "time":
			rec.Label("timeform:" + site.Form)
			rec.Label("timefn:" + site.Fn)
		}
		if site.GapKind != "" {
			rec.Label("spelling:gap-" + site.GapKind)
		}
		if site.Quote != "" {
			rec.Label("spelling:quoted-" + site.Quote)
		}
		if len(site.Ctx) > 0 {
			rec.Label("ctx:" + site.Ctx[len(site.Ctx)-1])
		}
		if site.InOrderBy {
			rec.Label("ctx:in-order-by")
		}
	}

	// oracle 1: completeness
	rtoks := c14Sig(c14Lex(r))
	if rem := c14CoveredCalls(r); len(rem) > 0 {
		parseFails := c14ParseFailures(s) // classification only
		// pick the site to blame: isolate each claimed site in turn (all other
		// claimed sites replaced by a constant) and ask the rewriter again; the
		// first site that is still left alone is the one to describe.
		first := rem[0]
		var blame *c14Site
		for _, cand := range wantCovered {
			variant := txt.render(func(site *c14Site) string {
				if site == cand || !site.Covered {
					return site.orig()
				}
				return "0"
			})
			vs := []*proto.Statement{{Sql: variant}}
			if err := Process(vs, true, true); err != nil {
				continue
			}
			if len(c14CoveredCalls(vs[0].Sql)) > 0 {
				blame = cand
				break
			}
		}
		if blame == nil {
			for _, site := range wantCovered {
				if site.Fn == first.Call.Name {
					blame = site
					break
				}
			}
		}
		if blame == nil {
			blame = wantCovered[0]
		}
		// which feature of that site is responsible? Neutralise one at a time (quoting,
		// gap, argument spelling); if the call is then rewritten, describe the site by
		// that feature alone. Otherwise fall back to the static priority.
		described := blame
		neutral := func(site *c14Site, quote, gap, arg bool) *c14Site {
			c := *site
			if quote {
				c.Quote, c.NameTxt = "", strings.Trim(site.NameTxt, "\"`[]")
			}
			if gap {
				c.Gap, c.GapKind = "", ""
			}
			if arg {
				switch c.kind() {
				case "randomblob":
					c.NKind, c.Args = "int", []string{"4"}
				case "time":
					c.Implicit, c.Form = false, "explicit-now"
					switch c.Fn {
					case "strftime":
						c.Args, c.NowIdx = []string{"'%s'", "'now'"}, []int{1}
					case "timediff":
						c.Args, c.NowIdx = []string{"'now'", "'2020-01-01'"}, []int{0}
					default:
						c.Args, c.NowIdx = []string{"'now'"}, []int{0}
					}
				}
			}
			return &c
		}
		rewrittenWith := func(v *c14Site) bool {
			variant := txt.render(func(site *c14Site) string {
				if site == blame {
					return v.orig()
				}
				if !site.Covered {
					return site.orig()
				}
				return "0"
			})
			vs := []*proto.Statement{{Sql: variant}}
			return Process(vs, true, true) == nil && len(c14CoveredCalls(vs[0].Sql)) == 0
		}
		for _, f := range [][3]bool{{true, false, false}, {false, true, false}, {false, false, true}} {
			if rewrittenWith(neutral(blame, f[0], f[1], f[2])) {
				described = neutral(blame, !f[0], !f[1], !f[2])
				break
			}
		}
		sig, what := c14BlameSite(txt, described, len(parseFails) > 0)
		return fail(sig, what, "%s left in the replicated text (%d claimed calls remain):\n in: %s\nout: %s", first.Why, len(rem), s, r)
	}

	// meaning: no statement may disappear
	if n := c14CountStmts(rtoks); n != txt.NStmts {
		if txt.Feats["nested-minus"] && strings.Contains(r, "--") {
			// "- -x" serialised as "--x" turns the rest of the text into a comment
			return fail("C14/parser-gap{form=serialize:nested-minus}", "rqlite/sql serialises '- -x' as '--x', which SQLite reads as a comment",
				"input has %d statements, replicated text has %d:\n in: %s\nout: %s", txt.NStmts, n, s, r)
		}
		return fail("C14/multistmt-truncated", "when the first statement of a multi-statement text is rewritten the remaining statements are dropped",
			"input has %d statements, replicated text has %d:\n in: %s\nout: %s", txt.NStmts, n, s, r)
	}

	// oracle 2: faithfulness
	// expected blob lengths come from SQLite itself: length(randomblob(<the literal as written>))
	for _, site := range covered {
		if site.kind() != "randomblob" {
			continue
		}
		db, err := c14OpenScratch()
		if err != nil {
			fmt.Printf("VERIF-INFRA: "+"scratch database trouble: %v"+"\n", err)
			rec.Label("inconclusive:infrastructure")
			return false
		}
		err = db.QueryRow("SELECT length(randomblob(" + site.Args[0] + "))").Scan(&site.NLen)
		db.Close()
		if err != nil {
			rt.Fatalf("HARNESS-BUG: SQLite cannot evaluate randomblob(%s): %v", site.Args[0], err)
		}
	}
	vals, problem := c14Extract(txt, s, r)
	if strings.HasPrefix(problem, "HARNESS") {
		rt.Fatalf("HARNESS-BUG: %s: %s", problem, s)
	}
	if strings.HasPrefix(problem, "LENGTH") && strings.HasSuffix(c14BlameUnfaithful(txt), "form=other}") {
		// (with a known serialisation hazard in the text the values may simply be misaligned)
		kind := "int"
		for _, site := range covered {
			// the first claimed randomblob site whose literal is not a plain decimal integer names the class
			if site.kind() == "randomblob" && site.NKind != "int" && strings.Contains(problem, "randomblob("+site.Args[0]+")") {
				kind = site.NKind
				break
			}
		}
		sig := "C14/unfaithful{form=randomblob-length}"
		if kind != "int" {
			sig = "C14/unfaithful{form=randomblob-length,n=" + kind + "}"
		}
		return fail(sig, "randomblob(n) replaced by a blob of the wrong length", "%s:\n in: %s\nout: %s", problem, s, r)
	}
	if problem != "" {
		sig := c14BlameUnfaithful(txt)
		return fail(sig, "rewritten text cannot be accounted for by substituting values into the input", "%s:\n in: %s\nout: %s", problem, s, r)
	}
	sub := txt.render(func(site *c14Site) string {
		if v, ok := vals[site.Idx]; ok {
			return site.subst(v)
		}
		return site.orig()
	})
	single := txt.NStmts == 1
	want, err1 := c14Execute(sub, single)
	got, err2 := c14Execute(r, single)
	if err1 != nil || err2 != nil {
		fmt.Printf("VERIF-INFRA: "+"scratch database trouble: %v %v"+"\n", err1, err2)
		rec.Label("inconclusive:infrastructure")
		return false
	}
	if txt.Unordered {
		sort.Strings(want.rows)
		sort.Strings(got.rows)
	}
	wr, gr := strings.Join(want.rows, "\n"), strings.Join(got.rows, "\n")
	if (want.err != nil) != (got.err != nil) || wr != gr || want.dump != got.dump {
		sig := c14BlameUnfaithful(txt)
		return fail(sig, "rewritten statement does not mean the same as the input with the chosen values substituted",
			"executing the replicated text differs from executing the input with the same values substituted:\n   in: %s\n  out: %s\nsubst: %s\n out err=%v rows=%q\nsubst err=%v rows=%q\ndump equal=%v",
			s, r, sub, got.err, gr, want.err, wr, want.dump == got.dump)
	}
	if want.err != nil {
		rec.Label("exec:error-both")
	} else {
		rec.Label("exec:ok")
	}

	// the time value must be the current time
	for _, site := range covered {
		if site.kind() != "time" {
			continue
		}
		for _, v := range vals[site.Idx] {
			db, err := c14OpenScratch()
			if err != nil {
				fmt.Printf("VERIF-INFRA: "+"scratch database trouble: %v"+"\n", err)
				rec.Label("inconclusive:infrastructure")
				return false
			}
			var ts sql.NullFloat64
			err = db.QueryRow("SELECT unixepoch(" + v + ", 'subsec')").Scan(&ts)
			db.Close()
			lo := float64(t0.UnixNano())/1e9 - 2
			hi := float64(t1.UnixNano())/1e9 + 2
			if err != nil || !ts.Valid || ts.Float64 < lo || ts.Float64 > hi {
				form := "utc"
				if _, off := t0.In(zone).Zone(); off != 0 {
					form = "non-utc-zone"
				}
				return fail("C14/wrong-time-value{zone="+form+"}", "the literal substituted for 'now' is not the current time",
					"'now' was replaced by %s which SQLite reads as unix time %v (err=%v); the clock was in [%f, %f]; process zone %s:\n in: %s\nout: %s",
					v, ts, err, lo+2, hi-2, zone, s, r)
			}
		}
	}
	rec.Label("outcome:rewritten-ok")
	return true
}

// c14CollateAfterNulltest recognises a null test (IS NULL, IS NOT NULL, NOT NULL, ISNULL, NOTNULL)
// immediately followed by COLLATE, e.g. `x IS NOT NULL COLLATE BINARY` — valid SQLite that
// github.com/rqlite/sql cannot parse. Used only to name a parse failure.
func c14CollateAfterNulltest(toks []c14Tok) bool {
	for i := 1; i < len(toks); i++ {
		if !c14IsKw(toks[i], "collate") {
			continue
		}
		p := toks[i-1]
		if c14IsKw(p, "isnull") || c14IsKw(p, "notnull") {
			return true
		}
		if c14IsKw(p, "null") && i >= 2 && (c14IsKw(toks[i-2], "is") || c14IsKw(toks[i-2], "not")) {
			return true
		}
	}
	return false
}

// c14NulltestThenOperator recognises a null test (IS NULL, IS NOT NULL, NOT NULL, ISNULL, NOTNULL)
// immediately followed by a binary operator that binds tighter than IS in SQLite.
func c14NulltestThenOperator(toks []c14Tok) bool {
	tight := map[string]bool{"&": true, "|": true, "<<": true, ">>": true, "+": true, "-": true, "*": true, "/": true, "%": true, "||": true,
		"<": true, "<=": true, ">": true, ">=": true}
	for i := 1; i < len(toks); i++ {
		if toks[i].Kind != c14TPunct || !tight[toks[i].Text] {
			continue
		}
		p := toks[i-1]
		if c14IsKw(p, "isnull") || c14IsKw(p, "notnull") {
			return true
		}
		if c14IsKw(p, "null") && i >= 2 && (c14IsKw(toks[i-2], "is") || c14IsKw(toks[i-2], "not")) {
			return true
		}
	}
	return false
}
