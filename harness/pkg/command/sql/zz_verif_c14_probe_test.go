package sql

import (
	"bufio"
	"fmt"
	rsql "github.com/rqlite/sql"
	"os"
	"strings"
	"testing"

	"github.com/rqlite/rqlite/v10/command/proto"
	_ "github.com/rqlite/rqlite/v10/internal/verif/vstat"
)

func TestVerifProbe_C14(t *testing.T) {
	f, err := os.Open(os.Getenv("C14_PROBE"))
	if err != nil {
		t.Skip()
	}
	sc := bufio.NewScanner(f)
	for sc.Scan() {
		s := sc.Text()
		if s == "" {
			continue
		}
		st := []*proto.Statement{{Sql: s}}
		err := Process(st, true, true)
		_, perr := rsql.NewParser(strings.NewReader(s)).ParseStatement()
		if perr != nil {
			fmt.Printf("PARSE-ERR: %v\n", perr)
		}
		fmt.Printf("IN : %s\nOUT: %s   (err=%v fq=%v ex=%v same=%v)\n\n", s, st[0].Sql, err, st[0].ForceQuery, st[0].SqlExplain, s == st[0].Sql)
	}
}
