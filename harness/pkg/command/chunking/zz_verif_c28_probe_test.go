package chunking

import (
	"os"
	"testing"
)

func TestVerif_C28_ProbeEOF(t *testing.T) {
	dir := t.TempDir()
	for _, c := range []c28Case{
		{Len: 8, Chunk: 4, Style: "random", EOFWith: true, Mode: "stream", Disturb: "none", Seed: 3},
		{Len: 8, Chunk: 4, Style: "random", EOFWith: false, Mode: "stream", Disturb: "none", Seed: 3},
		{Len: 4, Chunk: 4, Style: "random", EOFWith: true, Mode: "wire", Disturb: "none", Seed: 3},
	} {
		n, _, f := c28Run(c, dir)
		t.Logf("%s -> chunks=%d fail=%v", c.canon(), n, f)
	}
	_ = os.Remove
}
