package command

// C29: commands survive encoding into the log unchanged.
//
// Real side: RequestMarshaler.Marshal -> proto.Command{Type, SubCommand,
// Compressed} -> Marshal -> (bytes of the log entry) -> Unmarshal ->
// UnmarshalSubCommand into a fresh message; MarshalLoadRequest /
// MarshalLoadChunkRequest / MarshalNoop with their Unmarshal counterparts.
//
// Oracle: the decoded message must be proto.Equal to the original (which was
// cloned before marshalling and must itself be unchanged), the decoded Command
// must carry the same type, and "compressed => smaller than the plain
// encoding, or compression forced". Independently of the implementation's
// decompressor, a compressed sub-command is also inflated with compress/gzip
// directly and must be byte-identical to the plain protobuf encoding. A
// compressed flag that lies (set on plain bytes / clear on gzip bytes) shows
// up as a decode error or inequality.

import (
	"bytes"
	"compress/gzip"
	"fmt"
	"io"
	"math"
	"strings"
	"testing"

	"github.com/rqlite/rqlite/v10/command/proto"
	"github.com/rqlite/rqlite/v10/internal/verif/vstat"
	pb "google.golang.org/protobuf/proto"
	"pgregory.net/rapid"
)

type c29Shape struct {
	Kind        string // execute query execute-query
	Batch, Size int    // thresholds
	Force       bool
	NStmts      int
	SQLLens     []int
	Compressib  string
}

func c29GenSQL(rt *rapid.T, n int, style string) string {
	if n <= 0 {
		return ""
	}
	switch style {
	case "repeat":
		unit := rapid.SampledFrom([]string{"a", "INSERT INTO foo(name) VALUES('fiona');", "é", "漢字", " "}).Draw(rt, "unit")
		s := strings.Repeat(unit, n/len(unit)+1)
		// cut at a rune boundary at or below n bytes, then pad with 'x'
		cut := n
		for cut > 0 && !isRuneStart(s[cut]) {
			cut--
		}
		s = s[:cut]
		return s + strings.Repeat("x", n-len(s))
	default: // "random": high-entropy printable ASCII
		const alpha = "ABCDEFGHIJKLMNOPQRSTUVWXYZabcdefghijklmnopqrstuvwxyz0123456789+/"
		seed := rapid.Uint64().Draw(rt, "sqlseed")
		b := make([]byte, n)
		x := seed | 1
		for i := range b {
			x ^= x << 13
			x ^= x >> 7
			x ^= x << 17
			b[i] = alpha[x%64]
		}
		return string(b)
	}
}

func isRuneStart(b byte) bool { return b&0xC0 != 0x80 }

func c29GenParam(rt *rapid.T) *proto.Parameter {
	p := &proto.Parameter{}
	if rapid.IntRange(0, 3).Draw(rt, "named") == 0 {
		p.Name = rapid.SampledFrom([]string{"a", "name", "é", "$x", ""}).Draw(rt, "pname")
	}
	switch rapid.IntRange(0, 6).Draw(rt, "pkind") {
	case 0:
		p.Value = &proto.Parameter_I{I: rapid.SampledFrom([]int64{0, 1, -1, math.MaxInt64, math.MinInt64, 1 << 53, -(1 << 31)}).Draw(rt, "pi")}
	case 1:
		p.Value = &proto.Parameter_I{I: rapid.Int64().Draw(rt, "pir")}
	case 2:
		p.Value = &proto.Parameter_D{D: rapid.SampledFrom([]float64{0, math.Copysign(0, -1), 1.5, math.MaxFloat64, math.SmallestNonzeroFloat64, math.Inf(1), math.Inf(-1), math.NaN()}).Draw(rt, "pd")}
	case 3:
		p.Value = &proto.Parameter_B{B: rapid.Bool().Draw(rt, "pb")}
	case 4:
		p.Value = &proto.Parameter_Y{Y: rapid.SliceOfN(rapid.Byte(), 0, 64).Draw(rt, "py")}
	case 5:
		p.Value = &proto.Parameter_S{S: rapid.SampledFrom([]string{"", "x", "héllo", "漢字😀", "line\nbreak", "\x00nul", strings.Repeat("s", 300)}).Draw(rt, "ps")}
	case 6:
		// null parameter: no value
	}
	return p
}

// c29Around picks a value at or next to a threshold, or far from it.
func c29Around(rt *rapid.T, th int, label string) int {
	cands := []int{0, 1, th - 1, th, th + 1, 2 * th, th / 2, 2*th + 1, 3 * th}
	v := rapid.SampledFrom(cands).Draw(rt, label)
	if v < 0 {
		v = 0
	}
	return v
}

func c29GenRequest(rt *rapid.T, sh *c29Shape) *proto.Request {
	req := &proto.Request{
		Transaction:     rapid.Bool().Draw(rt, "tx"),
		RollbackOnError: rapid.Bool().Draw(rt, "roe"),
		QualifyColumns:  rapid.Bool().Draw(rt, "qc"),
		DbTimeout:       rapid.SampledFrom([]int64{0, 1, 1e9, math.MaxInt64, -1}).Draw(rt, "dbt"),
	}
	// number of statements around the batch threshold (bounded for cost)
	n := c29Around(rt, sh.Batch, "nstmts")
	if n > 1100 {
		n = 1100
	}
	sh.NStmts = n
	sh.Compressib = rapid.SampledFrom([]string{"repeat", "random"}).Draw(rt, "style")
	// when there are many statements keep them short, except possibly one
	bigAt := -1
	if n > 0 {
		bigAt = rapid.IntRange(0, n-1).Draw(rt, "bigat")
	}
	for i := 0; i < n; i++ {
		l := 0
		switch {
		case i == bigAt:
			l = c29Around(rt, sh.Size, "sqllen")
		case n <= 8:
			l = rapid.SampledFrom([]int{0, 1, 7, sh.Size - 1, 30}).Draw(rt, "sqllen2")
		default:
			l = i % 5
		}
		if l < 0 {
			l = 0
		}
		if l > 20000 {
			l = 20000
		}
		sh.SQLLens = append(sh.SQLLens, l)
		st := &proto.Statement{
			Sql:        c29GenSQL(rt, l, sh.Compressib),
			ForceQuery: i%3 == 0 && rapid.Bool().Draw(rt, "fq"),
			ForceStall: false,
			SqlExplain: i%4 == 0 && rapid.Bool().Draw(rt, "ex"),
		}
		if n <= 8 || i == bigAt {
			np := rapid.IntRange(0, 4).Draw(rt, "nparams")
			for j := 0; j < np; j++ {
				st.Parameters = append(st.Parameters, c29GenParam(rt))
			}
		}
		req.Statements = append(req.Statements, st)
	}
	return req
}

func c29Levels() []proto.ConsistencyLevel {
	return []proto.ConsistencyLevel{proto.ConsistencyLevel_NONE, proto.ConsistencyLevel_WEAK, proto.ConsistencyLevel_STRONG, proto.ConsistencyLevel_AUTO, proto.ConsistencyLevel_LINEARIZABLE}
}

func c29Gunzip(b []byte) ([]byte, error) {
	r, err := gzip.NewReader(bytes.NewReader(b))
	if err != nil {
		return nil, err
	}
	defer r.Close()
	return io.ReadAll(r)
}

func TestVerif_C29_Requests(t *testing.T) {
	rec := vstat.New(t, "C29", "requests",
		"rapid: Execute/Query/ExecuteQuery requests with 0..3x batch-threshold statements (counts at threshold-1/threshold/threshold+1), one statement whose SQL length is at size-threshold-1/threshold/threshold+1/2x (repetitive and high-entropy text, multi-byte runes), parameters of every kind incl. int64 extremes, NaN/Inf/-0, empty blobs, named and null parameters, all request flags, every consistency level; default thresholds (512/4096) and small custom thresholds, forced compression on/off; non-trivial = statement count or an SQL length within 1 of its threshold; distinct by kind, thresholds, counts and lengths plus a hash of the encoded request")
	rapid.Check(t, func(rt *rapid.T) {
		sh := &c29Shape{}
		if rapid.IntRange(0, 2).Draw(rt, "defaults") == 0 {
			sh.Batch, sh.Size = defaultBatchThreshold, defaultSizeThreshold
		} else {
			sh.Batch = rapid.SampledFrom([]int{1, 2, 3, 5, 8, 16}).Draw(rt, "batch")
			sh.Size = rapid.SampledFrom([]int{1, 2, 4, 16, 31, 64, 200}).Draw(rt, "size")
		}
		sh.Force = rapid.IntRange(0, 3).Draw(rt, "force") == 0
		sh.Kind = rapid.SampledFrom([]string{"execute", "query", "execute-query"}).Draw(rt, "kind")
		req := c29GenRequest(rt, sh)

		var msg Requester
		var fresh pb.Message
		var typ proto.Command_Type
		switch sh.Kind {
		case "execute":
			msg = &proto.ExecuteRequest{Request: req, Timings: rapid.Bool().Draw(rt, "timings")}
			fresh = &proto.ExecuteRequest{}
			typ = proto.Command_COMMAND_TYPE_EXECUTE
		case "query":
			msg = &proto.QueryRequest{Request: req, Timings: rapid.Bool().Draw(rt, "timings"),
				Level:               rapid.SampledFrom(c29Levels()).Draw(rt, "level"),
				Freshness:           rapid.SampledFrom([]int64{0, 1, 1e9, math.MaxInt64}).Draw(rt, "fresh"),
				FreshnessStrict:     rapid.Bool().Draw(rt, "strict"),
				LinearizableTimeout: rapid.SampledFrom([]int64{0, 5e9}).Draw(rt, "lt")}
			fresh = &proto.QueryRequest{}
			typ = proto.Command_COMMAND_TYPE_QUERY
		default:
			msg = &proto.ExecuteQueryRequest{Request: req, Timings: rapid.Bool().Draw(rt, "timings"),
				Level:               rapid.SampledFrom(c29Levels()).Draw(rt, "level"),
				Freshness:           rapid.SampledFrom([]int64{0, 1, 1e9, math.MaxInt64}).Draw(rt, "fresh"),
				FreshnessStrict:     rapid.Bool().Draw(rt, "strict"),
				LinearizableTimeout: rapid.SampledFrom([]int64{0, 5e9}).Draw(rt, "lt")}
			fresh = &proto.ExecuteQueryRequest{}
			typ = proto.Command_COMMAND_TYPE_EXECUTE_QUERY
		}
		orig := pb.Clone(msg)
		plain, perr := pb.MarshalOptions{Deterministic: true}.Marshal(orig)
		if perr != nil {
			rec.Label("inconclusive:infrastructure") // generated message is not encodable
			return
		}

		nearBatch := sh.NStmts >= sh.Batch-1 && sh.NStmts <= sh.Batch+1
		nearSize := false
		maxLen := 0
		for _, l := range sh.SQLLens {
			if l >= sh.Size-1 && l <= sh.Size+1 {
				nearSize = true
			}
			if l > maxLen {
				maxLen = l
			}
		}
		canon := fmt.Sprintf("%s b=%d s=%d f=%v n=%d max=%d %s h=%x", sh.Kind, sh.Batch, sh.Size, sh.Force, sh.NStmts, maxLen, sh.Compressib, c29Hash(plain))
		rec.Case(nearBatch || nearSize, canon)
		rec.Sample(canon)
		rec.Label("kind=" + sh.Kind)
		if sh.Batch == defaultBatchThreshold {
			rec.Label("thresholds=default")
		} else {
			rec.Label("thresholds=custom")
		}
		if nearBatch {
			rec.Label("count-within-1-of-batch-threshold")
		}
		if nearSize {
			rec.Label("sql-length-within-1-of-size-threshold")
		}
		if sh.Force {
			rec.Label("forced")
		}

		m := &RequestMarshaler{BatchThreshold: sh.Batch, SizeThreshold: sh.Size, ForceCompression: sh.Force}
		b, compressed, err := m.Marshal(msg)
		fail := func(sig, format string, args ...any) {
			rt.Fatalf("%s", rec.Violation(sig, format+" ;; case: %s", append(args, canon)...))
		}
		if err != nil {
			fail("C29/marshal-error", "Marshal failed: %v", err)
		}
		if !pb.Equal(msg, orig) {
			fail("C29/marshal-mutates-request", "the request was changed by Marshal")
		}
		if compressed {
			rec.Label("compressed")
			if !sh.Force && len(b) >= len(plain) {
				fail("C29/compressed-not-smaller", "compressed entry has %d bytes, plain encoding %d bytes, compression not forced", len(b), len(plain))
			}
			// independent inflate: must be a protobuf encoding of the same message
			u, gerr := c29Gunzip(b)
			if gerr != nil {
				fail("C29/compressed-not-gzip", "sub-command flagged compressed does not inflate: %v", gerr)
			}
			chk := fresh.ProtoReflect().New().Interface()
			if uerr := pb.Unmarshal(u, chk); uerr != nil || !pb.Equal(chk, orig) {
				fail("C29/compressed-content-differs", "inflated sub-command does not decode to the request (%v)", uerr)
			}
		} else {
			rec.Label("plain")
			wouldTry := sh.NStmts >= sh.Batch
			for _, l := range sh.SQLLens {
				if l >= sh.Size {
					wouldTry = true
				}
			}
			if wouldTry {
				rec.Label("plain-though-threshold-reached")
			}
		}
		cmd := &proto.Command{Type: typ, SubCommand: b, Compressed: compressed}
		entry, err := Marshal(cmd)
		if err != nil {
			fail("C29/marshal-error", "Marshal(Command) failed: %v", err)
		}
		// "another node": decode from the bytes only
		var got proto.Command
		if err := Unmarshal(entry, &got); err != nil {
			fail("C29/unmarshal-error", "Unmarshal(Command) failed: %v", err)
		}
		if got.Type != typ {
			fail("C29/type-changed", "command type %v decoded as %v", typ, got.Type)
		}
		if err := UnmarshalSubCommand(&got, fresh); err != nil {
			fail("C29/unmarshal-error", "UnmarshalSubCommand failed (compressed=%v): %v", compressed, err)
		}
		if !pb.Equal(fresh, orig) {
			fail("C29/roundtrip-differs", "decoded request differs from the original (compressed=%v)", compressed)
		}
	})
}

func c29Hash(b []byte) uint64 {
	var h uint64 = 1469598103934665603
	for _, c := range b {
		h ^= uint64(c)
		h *= 1099511628211
	}
	return h
}

func TestVerif_C29_Others(t *testing.T) {
	rec := vstat.New(t, "C29", "others",
		"rapid: Load requests (data 0..64 KiB, compressible and random), LoadChunk requests (stream id, sequence numbers incl. extremes, last/abort flags, data 0..32 KiB), Noop (ids incl. empty and non-ASCII) through their Marshal functions, wrapped in a Command, encoded, decoded from bytes and unmarshalled; non-trivial = payload of at least 1 byte; distinct by kind and encoded bytes hash")
	rapid.Check(t, func(rt *rapid.T) {
		kind := rapid.SampledFrom([]string{"load", "load-chunk", "noop"}).Draw(rt, "kind")
		genData := func(max int) []byte {
			n := rapid.SampledFrom([]int{0, 1, 2, 100, 4095, 4096, 4097, max}).Draw(rt, "dlen")
			b := make([]byte, n)
			if rapid.Bool().Draw(rt, "rnd") {
				x := rapid.Uint64().Draw(rt, "dseed") | 1
				for i := range b {
					x ^= x << 13
					x ^= x >> 7
					x ^= x << 17
					b[i] = byte(x)
				}
			}
			return b
		}
		fail := func(sig, format string, args ...any) {
			rt.Fatalf("%s", rec.Violation(sig, format+" ;; kind=%s", append(args, kind)...))
		}
		var orig, fresh pb.Message
		var sub []byte
		var err error
		var typ proto.Command_Type
		nontrivial := false
		switch kind {
		case "load":
			lr := &proto.LoadRequest{Data: genData(65536)}
			nontrivial = len(lr.Data) > 0
			orig = pb.Clone(lr)
			sub, err = MarshalLoadRequest(lr)
			typ = proto.Command_COMMAND_TYPE_LOAD
			if !pb.Equal(lr, orig) {
				fail("C29/marshal-mutates-request", "load request changed by marshalling")
			}
		case "load-chunk":
			lc := &proto.LoadChunkRequest{
				StreamId:    rapid.SampledFrom([]string{"", "s1", "6ba7b810-9dad-11d1-80b4-00c04fd430c8", "é"}).Draw(rt, "sid"),
				SequenceNum: rapid.SampledFrom([]int64{0, 1, 2, math.MaxInt64, -1}).Draw(rt, "seq"),
				IsLast:      rapid.Bool().Draw(rt, "last"),
				Abort:       rapid.Bool().Draw(rt, "abort"),
				Data:        genData(32768),
			}
			nontrivial = len(lc.Data) > 0
			orig = pb.Clone(lc)
			sub, err = MarshalLoadChunkRequest(lc)
			typ = proto.Command_COMMAND_TYPE_LOAD_CHUNK
			if !pb.Equal(lc, orig) {
				fail("C29/marshal-mutates-request", "load-chunk request changed by marshalling")
			}
		default:
			n := &proto.Noop{Id: rapid.SampledFrom([]string{"", "node1", "é漢", strings.Repeat("n", 5000)}).Draw(rt, "nid")}
			nontrivial = n.Id != ""
			orig = pb.Clone(n)
			sub, err = MarshalNoop(n)
			typ = proto.Command_COMMAND_TYPE_NOOP
		}
		if err != nil {
			fail("C29/marshal-error", "marshal failed: %v", err)
		}
		entry, err := Marshal(&proto.Command{Type: typ, SubCommand: sub})
		if err != nil {
			fail("C29/marshal-error", "Marshal(Command) failed: %v", err)
		}
		rec.Case(nontrivial, fmt.Sprintf("%s %x", kind, c29Hash(entry)))
		rec.Label("kind=" + kind)
		var got proto.Command
		if err := Unmarshal(entry, &got); err != nil {
			fail("C29/unmarshal-error", "Unmarshal(Command) failed: %v", err)
		}
		if got.Type != typ || got.Compressed {
			fail("C29/type-changed", "command decoded as type %v compressed=%v", got.Type, got.Compressed)
		}
		switch kind {
		case "load":
			lr := &proto.LoadRequest{}
			fresh = lr
			err = UnmarshalLoadRequest(got.SubCommand, lr)
		case "load-chunk":
			lc := &proto.LoadChunkRequest{}
			fresh = lc
			err = UnmarshalLoadChunkRequest(got.SubCommand, lc)
		default:
			n := &proto.Noop{}
			fresh = n
			err = UnmarshalNoop(got.SubCommand, n)
		}
		if err != nil {
			fail("C29/unmarshal-error", "unmarshal failed: %v", err)
		}
		if !pb.Equal(fresh, orig) {
			fail("C29/roundtrip-differs", "decoded %s differs from the original", kind)
		}
	})
}

// ---------------------------------------------------------------- large compressed requests

var c29SizeClasses = []struct {
	name  string
	total int
}{
	{"1MiB-", 1<<20 - 4096}, {"1MiB+", 1<<20 + 4096}, {"4MiB-", 4<<20 - 4096}, {"4MiB+", 4<<20 + 4096},
	{"16MiB-", 16<<20 - 4096}, {"16MiB+", 16<<20 + 4096}, {"32MiB-", 32<<20 - 4096}, {"32MiB+", 32<<20 + 4096},
	{"64MiB-", 64<<20 - 4096}, {"64MiB+", 64<<20 + 4096},
}

// c29LargeRoundTrip builds a request of nstmts statements of highly
// compressible SQL with the given total text size and sends it through
// Marshal -> Command -> bytes -> Unmarshal -> UnmarshalSubCommand.
func c29LargeRoundTrip(kind string, total, nstmts int, unit string) (compressed bool, sig, msg string) {
	req := &proto.Request{Transaction: true}
	per := total / nstmts
	for i := 0; i < nstmts; i++ {
		n := per
		if i == nstmts-1 {
			n = total - per*(nstmts-1)
		}
		req.Statements = append(req.Statements, &proto.Statement{Sql: strings.Repeat(unit, n/len(unit)+1)[:n]})
	}
	var msgIn Requester
	var fresh pb.Message
	var typ proto.Command_Type
	switch kind {
	case "execute":
		msgIn, fresh, typ = &proto.ExecuteRequest{Request: req}, &proto.ExecuteRequest{}, proto.Command_COMMAND_TYPE_EXECUTE
	case "query":
		msgIn, fresh, typ = &proto.QueryRequest{Request: req, Level: proto.ConsistencyLevel_STRONG}, &proto.QueryRequest{}, proto.Command_COMMAND_TYPE_QUERY
	default:
		msgIn, fresh, typ = &proto.ExecuteQueryRequest{Request: req}, &proto.ExecuteQueryRequest{}, proto.Command_COMMAND_TYPE_EXECUTE_QUERY
	}
	b, compressed, err := NewRequestMarshaler().Marshal(msgIn)
	if err != nil {
		return compressed, "C29/marshal-error", err.Error()
	}
	entry, err := Marshal(&proto.Command{Type: typ, SubCommand: b, Compressed: compressed})
	if err != nil {
		return compressed, "C29/marshal-error", err.Error()
	}
	var got proto.Command
	if err := Unmarshal(entry, &got); err != nil {
		return compressed, "C29/unmarshal-error", err.Error()
	}
	if err := UnmarshalSubCommand(&got, fresh); err != nil {
		return compressed, "C29/large-request-does-not-decode", fmt.Sprintf("UnmarshalSubCommand failed (compressed=%v, %d bytes of SQL): %v", compressed, total, err)
	}
	if !pb.Equal(fresh, msgIn) {
		return compressed, "C29/roundtrip-differs", fmt.Sprintf("decoded request differs from the original (compressed=%v, %d bytes of SQL)", compressed, total)
	}
	return compressed, "", ""
}

func TestVerif_C29_Large(t *testing.T) {
	rec := vstat.New(t, "C29", "large",
		"compressed requests with total SQL size just below/above 1, 4, 16, 32 and 64 MiB (1-4 statements of repetitive SQL, Execute/Query/ExecuteQuery) round-tripped through Marshal -> Command -> UnmarshalSubCommand with proto.Equal; every run does the largest class once (any size cap below it shows there) plus rapid-drawn classes; non-trivial = the request was stored compressed; distinct by class, kind and statement count")
	one := func(class int, kind string, nstmts int, unit string) string {
		sc := c29SizeClasses[class]
		compressed, sig, msg := c29LargeRoundTrip(kind, sc.total, nstmts, unit)
		canon := fmt.Sprintf("size-class=%s kind=%s stmts=%d unit=%q", sc.name, kind, nstmts, unit)
		rec.Case(compressed, canon)
		rec.Sample(canon)
		rec.Label("size-class=" + sc.name)
		if sig != "" {
			return rec.Violation(sig, "%s ;; case: %s", msg, canon)
		}
		return ""
	}
	if m := one(len(c29SizeClasses)-1, "execute", 2, "INSERT INTO foo(name) VALUES('fiona');\n"); m != "" {
		t.Fatalf("%s", m)
	}
	rapid.Check(t, func(rt *rapid.T) {
		class := rapid.IntRange(0, len(c29SizeClasses)-1).Draw(rt, "class")
		kind := rapid.SampledFrom([]string{"execute", "query", "execute-query"}).Draw(rt, "kind")
		n := rapid.IntRange(1, 4).Draw(rt, "nstmts")
		unit := rapid.SampledFrom([]string{"INSERT INTO foo(name) VALUES('fiona');\n", "a", "SELECT 1; "}).Draw(rt, "unit")
		if m := one(class, kind, n, unit); m != "" {
			rt.Fatalf("%s", m)
		}
	})
}
