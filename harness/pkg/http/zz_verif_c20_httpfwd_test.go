package http

// C20 unit "http-forward": a real http.Service with the real proxy.Proxy on a
// follower (the local store answers ErrNotLeader) in front of a fake remote
// node whose answer is generated: success, or an error string as it comes off
// the wire ("not leader" when leadership has just moved, "leadership lost while
// committing log", "unauthorized", "leader not found", an arbitrary failure).
//
// Oracle (property text: "either redirected (when the client asks for
// redirects) or executed once on the leader ..., the leader's results ...
// returned unchanged"):
//   * redirect requested            -> 301 to the leader's API URL + path + query, nothing forwarded;
//   * no redirect, remote succeeded -> exactly one forward carrying the caller's basic-auth credentials, 200, and
//     (execute / query / request / backup) the remote node's results in the body;
//   * no redirect, remote failed    -> exactly one forward and the caller is TOLD: status >= 300, or a JSON body
//     whose "error" carries the remote node's message. A 2xx answer without results and without an error
//     (request neither redirected nor executed, remote answer swallowed) is a violation.

import (
	"bytes"
	"context"
	"encoding/json"
	"errors"
	"fmt"
	"io"
	"math/rand"
	"net"
	nethttp "net/http"
	"strings"
	"sync"
	"testing"
	"time"

	clstrPB "github.com/rqlite/rqlite/v10/cluster/proto"
	command "github.com/rqlite/rqlite/v10/command/proto"
	"github.com/rqlite/rqlite/v10/internal/verif/vstat"
	"github.com/rqlite/rqlite/v10/proxy"
	"github.com/rqlite/rqlite/v10/store"
	"pgregory.net/rapid"
)

const c20Marker = "c20-remote-marker"

type c20Follower struct{}

func (c20Follower) Execute(ctx context.Context, er *command.ExecuteRequest) ([]*command.ExecuteQueryResponse, uint64, error) {
	return nil, 0, store.ErrNotLeader
}
func (c20Follower) Query(ctx context.Context, qr *command.QueryRequest) ([]*command.QueryRows, command.ConsistencyLevel, uint64, error) {
	return nil, 0, 0, store.ErrNotLeader
}
func (c20Follower) Request(ctx context.Context, eqr *command.ExecuteQueryRequest) ([]*command.ExecuteQueryResponse, uint64, uint64, error) {
	return nil, 0, 0, store.ErrNotLeader
}
func (c20Follower) Load(ctx context.Context, lr *command.LoadRequest) error {
	return store.ErrNotLeader
}
func (c20Follower) Backup(ctx context.Context, br *command.BackupRequest, dst io.Writer) error {
	return store.ErrNotLeader
}
func (c20Follower) Remove(ctx context.Context, rn *command.RemoveNodeRequest) error {
	return store.ErrNotLeader
}
func (c20Follower) Stepdown(wait bool, id string) error { return store.ErrNotLeader }
func (c20Follower) LeaderAddr() (string, error)         { return "leader-raft:4002", nil }
func (c20Follower) Leader() (*store.Server, error) {
	return &store.Server{ID: "n1", Addr: "leader-raft:4002"}, nil
}
func (c20Follower) Nodes() ([]*store.Server, error)           { return nil, nil }
func (c20Follower) Ready() bool                               { return true }
func (c20Follower) Committed(t time.Duration) (uint64, error) { return 0, nil }
func (c20Follower) Stats() (map[string]any, error)            { return map[string]any{}, nil }
func (c20Follower) Snapshot(n uint64) error                   { return nil }
func (c20Follower) Reap() (int, int, error)                   { return 0, 0, nil }
func (c20Follower) ReadFrom(r io.Reader) (int64, error)       { return 0, nil }

type c20Remote struct {
	mu    sync.Mutex
	err   error
	calls []string
	creds []*clstrPB.Credentials
}

func (r *c20Remote) rec(op string, creds *clstrPB.Credentials) error {
	r.mu.Lock()
	defer r.mu.Unlock()
	r.calls = append(r.calls, op)
	r.creds = append(r.creds, creds)
	return r.err
}
func (r *c20Remote) GetNodeMeta(ctx context.Context, addr string, retries int, timeout time.Duration) (*clstrPB.NodeMeta, error) {
	// every node publishes its own API URL: <name>-raft:4002 -> http://<name>-api:4001
	return &clstrPB.NodeMeta{Url: "http://" + strings.Replace(strings.TrimSuffix(addr, ":4002"), "-raft", "-api", 1) + ":4001"}, nil
}
func (r *c20Remote) Stats() (map[string]any, error) { return map[string]any{}, nil }
func (r *c20Remote) Execute(ctx context.Context, er *command.ExecuteRequest, nodeAddr string, creds *clstrPB.Credentials, timeout time.Duration, retries int) ([]*command.ExecuteQueryResponse, uint64, error) {
	if err := r.rec("execute", creds); err != nil {
		return nil, 0, err
	}
	return []*command.ExecuteQueryResponse{{Result: &command.ExecuteQueryResponse_E{E: &command.ExecuteResult{LastInsertId: 4242, RowsAffected: 1}}}}, 9, nil
}
func c20Rows() *command.QueryRows {
	return &command.QueryRows{Columns: []string{c20Marker}, Types: []string{"text"}, Values: []*command.Values{{Parameters: []*command.Parameter{{Value: &command.Parameter_S{S: c20Marker}}}}}}
}
func (r *c20Remote) Query(ctx context.Context, qr *command.QueryRequest, nodeAddr string, creds *clstrPB.Credentials, timeout time.Duration, retries int) ([]*command.QueryRows, uint64, error) {
	if err := r.rec("query", creds); err != nil {
		return nil, 0, err
	}
	return []*command.QueryRows{c20Rows()}, 9, nil
}
func (r *c20Remote) Request(ctx context.Context, eqr *command.ExecuteQueryRequest, nodeAddr string, creds *clstrPB.Credentials, timeout time.Duration, retries int) ([]*command.ExecuteQueryResponse, uint64, uint64, error) {
	if err := r.rec("request", creds); err != nil {
		return nil, 0, 0, err
	}
	return []*command.ExecuteQueryResponse{{Result: &command.ExecuteQueryResponse_Q{Q: c20Rows()}}}, 1, 9, nil
}
func (r *c20Remote) Backup(ctx context.Context, br *command.BackupRequest, nodeAddr string, creds *clstrPB.Credentials, timeout time.Duration, w io.Writer) error {
	if err := r.rec("backup", creds); err != nil {
		return err
	}
	_, err := w.Write([]byte("SQLite format 3\x00" + c20Marker))
	return err
}
func (r *c20Remote) Load(ctx context.Context, lr *command.LoadRequest, nodeAddr string, creds *clstrPB.Credentials, timeout time.Duration, retries int) error {
	return r.rec("load", creds)
}
func (r *c20Remote) RemoveNode(ctx context.Context, rn *command.RemoveNodeRequest, nodeAddr string, creds *clstrPB.Credentials, timeout time.Duration) error {
	return r.rec("remove", creds)
}
func (r *c20Remote) Stepdown(ctx context.Context, sr *command.StepdownRequest, nodeAddr string, creds *clstrPB.Credentials, timeout time.Duration) error {
	return r.rec("stepdown", creds)
}

type c20HTTPOp struct {
	Name, Method, Path, CT, Body string
	Remote                       string // operation expected at the remote node
	Marker                       string // text of the remote result that must reach the caller on success ("" = no body expected)
}

var c20HTTPOps = []c20HTTPOp{
	{"execute", "POST", "/db/execute", "application/json", `["INSERT INTO t VALUES(1)"]`, "execute", "4242"},
	{"query-strong", "GET", "/db/query?level=strong&q=SELECT%201", "", "", "query", c20Marker},
	{"query-weak-post", "POST", "/db/query?level=weak", "application/json", `["SELECT 1"]`, "query", c20Marker},
	{"request", "POST", "/db/request", "application/json", `["INSERT INTO t VALUES(1)", "SELECT 1"]`, "request", c20Marker},
	{"backup", "GET", "/db/backup", "", "", "backup", c20Marker},
	{"load-sql", "POST", "/db/load", "text/plain", "CREATE TABLE z(a);", "execute", "4242"},
	{"load-binary", "POST", "/db/load", "application/octet-stream", "SQLite format 3\x00 0123456789abcdef0123456789abcdef", "load", ""},
	{"remove", "DELETE", "/remove", "application/json", `{"id":"n2"}`, "remove", ""},
	{"stepdown", "POST", "/leader", "", "", "stepdown", ""},
}

func TestVerif_C20_HTTPForward(t *testing.T) {
	rec := vstat.New(t, "C20", "http-forward",
		"rapid: operation in {execute, strong query, weak query, unified request, backup, load (SQL text), load (SQLite bytes), remove, stepdown} x {redirect requested, not requested} x remote outcome {ok, 'not leader', 'leadership lost while committing log', 'unauthorized', 'leader not found', 'disk I/O error'} x credentials {none, basic auth}; real http.Service + real proxy.Proxy on a follower store fake, fake remote node; non-trivial = no redirect requested and the remote node answers with an error; distinct by the case")
	rapid.Check(t, func(rt *rapid.T) {
		op := c20HTTPOps[rapid.IntRange(0, len(c20HTTPOps)-1).Draw(rt, "op")]
		redirect := rapid.IntRange(0, 3).Draw(rt, "redirect") == 0
		remoteKind := rapid.SampledFrom([]string{"ok", "ok", "not leader", "not leader", "leadership lost while committing log", "unauthorized", "leader not found", "disk I/O error"}).Draw(rt, "remote")
		withCreds := rapid.Bool().Draw(rt, "creds")
		canon := fmt.Sprintf("op=%s redirect=%v remote=%q creds=%v", op.Name, redirect, remoteKind, withCreds)
		rec.Case(!redirect && remoteKind != "ok", canon)
		rec.Sample(canon)
		rec.Label("op:" + op.Name)
		rec.Label("remote:" + remoteKind)

		remote := &c20Remote{}
		if remoteKind != "ok" {
			remote.err = errors.New(remoteKind)
		}
		st := c20Follower{}
		svc := New("127.0.0.1:0", st, remote, proxy.New(st, remote), nil)
		svc.logger.SetOutput(io.Discard)
		if err := c20Retry(svc.Start); err != nil {
			rec.Label("inconclusive:infrastructure")
			return
		}
		defer svc.Close()
		target := op.Path
		if redirect {
			if strings.Contains(target, "?") {
				target += "&redirect"
			} else {
				target += "?redirect"
			}
		}
		req, _ := nethttp.NewRequest(op.Method, "http://"+svc.Addr().String()+target, bytes.NewReader([]byte(op.Body)))
		if op.CT != "" {
			req.Header.Set("Content-Type", op.CT)
		}
		if withCreds {
			req.SetBasicAuth("alice", "secret")
		}
		hc := &nethttp.Client{CheckRedirect: func(*nethttp.Request, []*nethttp.Request) error { return nethttp.ErrUseLastResponse },
			Transport: &nethttp.Transport{DisableKeepAlives: true, DialContext: func(ctx context.Context, network, addr string) (net.Conn, error) { return c20Dial(addr) }}, Timeout: 60 * time.Second}
		resp, err := hc.Do(req)
		if err != nil {
			rec.Label("inconclusive:infrastructure")
			return
		}
		body, _ := io.ReadAll(resp.Body)
		resp.Body.Close()
		remote.mu.Lock()
		calls, creds := append([]string(nil), remote.calls...), append([]*clstrPB.Credentials(nil), remote.creds...)
		remote.mu.Unlock()

		fail := func(sig, format string, a ...any) {
			msg := fmt.Sprintf(format, a...)
			full := "C20/http-" + sig + "{op=" + op.Name + "}"
			if rec.KnownHit(full, msg) {
				return
			}
			rt.Fatalf("%s", rec.Violation(full, "%s :: %s -> status=%d location=%q body=%.300q forwarded=%v", msg, canon, resp.StatusCode, resp.Header.Get("Location"), string(body), calls))
		}
		if redirect {
			rec.Label("path:redirect")
			if len(calls) != 0 {
				fail("forwarded-despite-redirect", "request forwarded although the client asked for a redirect")
				return
			}
			if resp.StatusCode != 301 || resp.Header.Get("Location") != "http://leader-api:4001"+target {
				fail("no-redirect", "want 301 to the leader's API URL with the original path and query")
			}
			return
		}
		if len(calls) != 1 || calls[0] != op.Remote {
			fail("not-forwarded-once", "want exactly one forward of kind %s", op.Remote)
			return
		}
		if withCreds != (creds[0] != nil) || (withCreds && (creds[0].GetUsername() != "alice" || creds[0].GetPassword() != "secret")) {
			fail("credentials-not-carried", "forwarded with credentials %v", creds[0])
			return
		}
		var jr struct {
			Results []json.RawMessage `json:"results"`
			Error   string            `json:"error"`
		}
		isJSON := json.Unmarshal(body, &jr) == nil
		if remoteKind == "ok" {
			rec.Label("path:forwarded-ok")
			if resp.StatusCode != 200 || (isJSON && jr.Error != "") {
				fail("remote-success-lost", "remote node succeeded but the caller is not told so")
				return
			}
			if op.Marker != "" && !bytes.Contains(body, []byte(op.Marker)) {
				fail("remote-result-lost", "remote node's result (%q) is not in the response", op.Marker)
			}
			return
		}
		rec.Label("path:forwarded-error")
		told := resp.StatusCode >= 300 || (isJSON && strings.Contains(jr.Error, remoteKind)) ||
			(remoteKind == "unauthorized" && isJSON && jr.Error != "")
		if !told {
			fail("remote-error-swallowed", "the node the request was forwarded to answered %q (nothing executed), but the caller gets a success status without results and without that error", remoteKind)
		}
	})
}

// c20MovingFollower is a follower whose view of the leader can be changed.
type c20MovingFollower struct {
	c20Follower
	mu     sync.Mutex
	leader string // raft address
}

func (f *c20MovingFollower) set(addr string)             { f.mu.Lock(); f.leader = addr; f.mu.Unlock() }
func (f *c20MovingFollower) get() string                 { f.mu.Lock(); defer f.mu.Unlock(); return f.leader }
func (f *c20MovingFollower) LeaderAddr() (string, error) { return f.get(), nil }
func (f *c20MovingFollower) Leader() (*store.Server, error) {
	return &store.Server{ID: "n", Addr: f.get()}, nil
}

// TestVerif_C20_RedirectSeq: "redirected (when the client asks for
// redirects)" must name the CURRENT leader. One follower service answers a
// sequence of ?redirect requests (generated operation kinds, gaps 0-500 ms)
// while its view of the leader changes at a generated position, possibly
// twice; every 301 must carry the API URL of the node that is the leader at the
// time of the request, and nothing may be forwarded.
func TestVerif_C20_RedirectSeq(t *testing.T) {
	rec := vstat.New(t, "C20", "http-redirect-seq",
		"rapid: 3-8 requests with ?redirect to one follower http.Service (operation kinds as in http-forward), gaps {0,0,20,100,500} ms, leadership moves to another node before 1-2 generated positions; oracle: every response is 301 to the API URL of the leader known to the store at that moment + original path and query, nothing forwarded; non-trivial = at least one request follows a leadership change; distinct by (kinds, gaps, change positions)")
	rapid.Check(t, func(rt *rapid.T) {
		n := rapid.IntRange(3, 8).Draw(rt, "requests")
		type step struct {
			op    c20HTTPOp
			gapMs int
			move  bool
		}
		steps := make([]step, n)
		moves := 0
		for i := range steps {
			steps[i] = step{op: c20HTTPOps[rapid.IntRange(0, len(c20HTTPOps)-1).Draw(rt, "op")], gapMs: rapid.SampledFrom([]int{0, 0, 20, 100, 500}).Draw(rt, "gap-ms")}
			if i > 0 && moves < 2 && rapid.IntRange(0, 2).Draw(rt, "leader-moves-before") == 0 {
				steps[i].move = true
				moves++
			}
		}
		var sb strings.Builder
		for _, s := range steps {
			fmt.Fprintf(&sb, "[%s gap=%d move=%v]", s.op.Name, s.gapMs, s.move)
		}
		canon := sb.String()
		rec.Case(moves > 0, canon)
		rec.Sample(canon)

		st := &c20MovingFollower{leader: "leader0-raft:4002"}
		remote := &c20Remote{}
		svc := New("127.0.0.1:0", st, remote, proxy.New(st, remote), nil)
		svc.logger.SetOutput(io.Discard)
		if err := c20Retry(svc.Start); err != nil {
			rec.Label("inconclusive:infrastructure")
			return
		}
		defer svc.Close()
		hc := &nethttp.Client{CheckRedirect: func(*nethttp.Request, []*nethttp.Request) error { return nethttp.ErrUseLastResponse },
			Transport: &nethttp.Transport{DisableKeepAlives: true, DialContext: func(ctx context.Context, network, addr string) (net.Conn, error) { return c20Dial(addr) }}, Timeout: 60 * time.Second}
		gen := 0
		for i, s := range steps {
			if s.gapMs > 0 {
				time.Sleep(time.Duration(s.gapMs) * time.Millisecond)
			}
			if s.move {
				gen++
				st.set(fmt.Sprintf("leader%d-raft:4002", gen))
				rec.Label("leader-moved")
			}
			target := s.op.Path
			if strings.Contains(target, "?") {
				target += "&redirect"
			} else {
				target += "?redirect"
			}
			req, _ := nethttp.NewRequest(s.op.Method, "http://"+svc.Addr().String()+target, bytes.NewReader([]byte(s.op.Body)))
			if s.op.CT != "" {
				req.Header.Set("Content-Type", s.op.CT)
			}
			resp, err := hc.Do(req)
			if err != nil {
				rec.Label("inconclusive:infrastructure")
				return
			}
			io.Copy(io.Discard, resp.Body)
			resp.Body.Close()
			want := fmt.Sprintf("http://leader%d-api:4001%s", gen, target)
			got := resp.Header.Get("Location")
			remote.mu.Lock()
			nf := len(remote.calls)
			remote.mu.Unlock()
			rec.Label("op:" + s.op.Name)
			if resp.StatusCode != 301 || got != want || nf != 0 {
				sig := "C20/http-redirect-not-to-current-leader{op=" + s.op.Name + "}"
				if nf != 0 {
					sig = "C20/http-forwarded-despite-redirect{op=" + s.op.Name + "}"
				}
				what := fmt.Sprintf("request %d: status %d Location %q, want 301 to %q (leader changed %d time(s) so far); forwarded calls=%d", i, resp.StatusCode, got, want, gen, nf)
				if rec.KnownHit(sig, what) {
					return
				}
				rt.Fatalf("%s", rec.Violation(sig, "%s :: %s", what, canon))
			}
		}
	})
}

// ---- infrastructure helpers (not part of any oracle) ----

// c20Dial connects to addr from a random loopback source address 127.x.y.z.
// Sockets of a client that closes (or half-closes) first stay in TIME_WAIT for
// 60 s; with 127.0.0.1 as the only source address, thousands of short
// connections per second from many check processes would leave no free port
// for bind(127.0.0.1:0), i.e. for every new listener on the machine. Spreading
// the client side over 127/8 keeps those sockets away from 127.0.0.1. A few
// retries with back-off absorb transient failures.
func c20Dial(addr string) (net.Conn, error) {
	var last error
	for try := 0; try < 5; try++ {
		d := net.Dialer{Timeout: 10 * time.Second, LocalAddr: &net.TCPAddr{IP: net.IPv4(127, byte(1+rand.Intn(250)), byte(rand.Intn(256)), byte(1+rand.Intn(250)))}}
		c, err := d.Dial("tcp", addr)
		if err == nil {
			return c, nil
		}
		last = err
		time.Sleep(time.Duration(25*(try+1)) * time.Millisecond)
	}
	return nil, last
}

// c20Listen listens on 127.0.0.1:0, retrying a few times.
func c20Listen() (net.Listener, error) {
	var last error
	for try := 0; try < 5; try++ {
		ln, err := net.Listen("tcp", "127.0.0.1:0")
		if err == nil {
			return ln, nil
		}
		last = err
		time.Sleep(time.Duration(50*(try+1)) * time.Millisecond)
	}
	return nil, last
}

// c20Retry runs f up to five times with a short back-off.
func c20Retry(f func() error) error {
	var last error
	for try := 0; try < 5; try++ {
		if last = f(); last == nil {
			return nil
		}
		time.Sleep(time.Duration(50*(try+1)) * time.Millisecond)
	}
	return last
}
