package http

// C23: statements accepted on the queued-write path (/db/execute?queue) are
// applied in acceptance order, each request's statements together and in their
// original order, none dropped while the node runs and a leader is reachable;
// a `wait` request returns success only after its statements were applied.
//
// Set-up: a real http.Service (real queue, real runQueue, real proxy.Proxy) on
// 127.0.0.1:0 with generated batch size / timeout / capacity / transaction
// flag, over a recording Store fake that is either the leader (applies
// locally) or a follower (answers ErrNotLeader; the proxy forwards to a fake
// leader reachable through the fake cluster client). Generated: 2-4 concurrent
// clients x 1-5 requests of 0-3 tagged statements, with/without wait, some
// with a tiny wait timeout; injected transient failures for generated apply
// attempts (leadership lost / not leader / no leader known). With a credential
// store configured every client presents valid credentials holding `execute`,
// and the fake leader enforces the same credential rule on what is forwarded.
//
// Oracle (acceptance order = returned sequence numbers):
//   * sequence numbers are distinct;
//   * once the service reports (its own sequence counter, the value /status
//     publishes) that everything up to the highest accepted sequence number has
//     been written, the applied statement log equals the concatenation, in
//     sequence-number order, of the statements of all accepted requests (requests
//     whose sequence number is unknown to the client -- wait timeout -- must
//     appear exactly once, contiguous and in order, anywhere);
//   * at the moment a `wait` request gets its 200 response all its statements
//     are in the applied log.

import (
	"bytes"
	"context"
	"encoding/json"
	"errors"
	"fmt"
	"io"
	"math/rand"
	"net"
	nethttp "net/http"
	"sort"
	"strings"
	"sync"
	"sync/atomic"
	"testing"
	"time"

	"github.com/rqlite/rqlite/v10/auth"
	clstrPB "github.com/rqlite/rqlite/v10/cluster/proto"
	command "github.com/rqlite/rqlite/v10/command/proto"
	"github.com/rqlite/rqlite/v10/internal/verif/vstat"
	"github.com/rqlite/rqlite/v10/proxy"
	"github.com/rqlite/rqlite/v10/store"
	"pgregory.net/rapid"
)

const c23SigNoCreds = "C23/queued-write-forwarded-without-credentials"

const c23CredFile = `[{"username":"w","password":"wpw","perms":["execute"]},{"username":"s","password":"spw","perms":["status"]}]`

// c23World is the fake store + fake leader.
type c23World struct {
	mu       sync.Mutex
	follower bool
	auth     bool // the (fake) leader enforces credentials on forwarded requests
	applied  []string
	batches  [][]string
	attempts int            // apply attempts seen (local or forwarded)
	failAt   map[int]string // attempt number -> failure kind
	rejected int            // forwarded attempts refused as unauthorized
	rejCreds string
	tx       []bool

	lastAttempt time.Time // end of the most recent apply attempt
	ctxErrs     int       // attempts that arrived with an already expired / cancelled context
}

// ctxDead mirrors what the real Store.Execute and cluster.Client.Execute do
// first: an expired or cancelled context fails the call.
func (w *c23World) ctxDead(ctx context.Context) error {
	if err := ctx.Err(); err != nil {
		w.ctxErrs++
		w.lastAttempt = time.Now()
		return err
	}
	return nil
}

// healthy reports whether no injected failure is outstanding any more.
func (w *c23World) healthy() bool {
	for k := range w.failAt {
		if k > w.attempts {
			return false
		}
	}
	return true
}

func (w *c23World) tags(er *command.ExecuteRequest) []string {
	var out []string
	for _, s := range er.GetRequest().GetStatements() {
		out = append(out, s.Sql)
	}
	return out
}

// attempt decides the fate of one apply attempt. Returns the failure kind or "".
func (w *c23World) attempt() string {
	w.attempts++
	w.lastAttempt = time.Now()
	return w.failAt[w.attempts]
}

func (w *c23World) apply(er *command.ExecuteRequest) {
	t := w.tags(er)
	w.applied = append(w.applied, t...)
	w.batches = append(w.batches, t)
	w.tx = append(w.tx, er.GetRequest().GetTransaction())
}

// release makes the fake leader accept everything from now on (used to let a
// blocked queue drain before the service is closed, and after a violation has
// been established).
func (w *c23World) release() {
	w.mu.Lock()
	w.auth = false
	w.failAt = nil
	w.mu.Unlock()
}

// --- http.Store + proxy.Store ---

func (w *c23World) Execute(ctx context.Context, er *command.ExecuteRequest) ([]*command.ExecuteQueryResponse, uint64, error) {
	w.mu.Lock()
	defer w.mu.Unlock()
	if err := w.ctxDead(ctx); err != nil {
		return nil, 0, err
	}
	if w.follower {
		return nil, 0, store.ErrNotLeader
	}
	switch w.attempt() {
	case "leadership-lost":
		return nil, 0, errors.New("leadership lost while committing log")
	case "not-leader", "no-leader":
		// a leader that has just lost leadership and does not know the new one
		return nil, 0, errors.New("not leader")
	}
	w.apply(er)
	return make([]*command.ExecuteQueryResponse, len(er.Request.Statements)), 1, nil
}
func (w *c23World) Query(ctx context.Context, qr *command.QueryRequest) ([]*command.QueryRows, command.ConsistencyLevel, uint64, error) {
	return nil, 0, 0, errors.New("unused")
}
func (w *c23World) Request(ctx context.Context, eqr *command.ExecuteQueryRequest) ([]*command.ExecuteQueryResponse, uint64, uint64, error) {
	return nil, 0, 0, errors.New("unused")
}
func (w *c23World) Load(ctx context.Context, lr *command.LoadRequest) error {
	return errors.New("unused")
}
func (w *c23World) Backup(ctx context.Context, br *command.BackupRequest, dst io.Writer) error {
	return errors.New("unused")
}
func (w *c23World) Remove(ctx context.Context, rn *command.RemoveNodeRequest) error {
	return errors.New("unused")
}
func (w *c23World) Stepdown(wait bool, id string) error { return errors.New("unused") }
func (w *c23World) LeaderAddr() (string, error) {
	w.mu.Lock()
	defer w.mu.Unlock()
	if w.follower && w.failAt[w.attempts+1] == "no-leader" {
		w.attempts++ // this attempt ends here: leader unknown
		return "", nil
	}
	return "127.0.0.1:4002", nil
}
func (w *c23World) Leader() (*store.Server, error) {
	return &store.Server{ID: "n1", Addr: "127.0.0.1:4002"}, nil
}
func (w *c23World) Nodes() ([]*store.Server, error)           { return nil, nil }
func (w *c23World) Ready() bool                               { return true }
func (w *c23World) Committed(t time.Duration) (uint64, error) { return 0, nil }
func (w *c23World) Stats() (map[string]any, error)            { return map[string]any{}, nil }
func (w *c23World) Snapshot(n uint64) error                   { return nil }
func (w *c23World) Reap() (int, int, error)                   { return 0, 0, nil }
func (w *c23World) ReadFrom(r io.Reader) (int64, error)       { return 0, nil }

// --- http.Cluster + proxy.Cluster (the fake leader) ---

type c23Leader struct{ w *c23World }

func (l c23Leader) GetNodeMeta(ctx context.Context, addr string, retries int, timeout time.Duration) (*clstrPB.NodeMeta, error) {
	return &clstrPB.NodeMeta{Url: "http://127.0.0.1:4001"}, nil
}
func (l c23Leader) Stats() (map[string]any, error) { return map[string]any{}, nil }
func (l c23Leader) Execute(ctx context.Context, er *command.ExecuteRequest, nodeAddr string, creds *clstrPB.Credentials, timeout time.Duration, retries int) ([]*command.ExecuteQueryResponse, uint64, error) {
	w := l.w
	w.mu.Lock()
	defer w.mu.Unlock()
	if err := w.ctxDead(ctx); err != nil {
		return nil, 0, err
	}
	if w.auth {
		// the leader applies the credential rule of c23CredFile to the forwarded command
		if !(creds.GetUsername() == "w" && creds.GetPassword() == "wpw") {
			w.rejected++
			w.rejCreds = fmt.Sprintf("%v", creds)
			return nil, 0, errors.New("unauthorized")
		}
	}
	switch w.attempt() {
	case "leadership-lost":
		return nil, 0, errors.New("leadership lost while committing log")
	case "not-leader":
		return nil, 0, errors.New("not leader")
	}
	w.apply(er)
	return make([]*command.ExecuteQueryResponse, len(er.Request.Statements)), 1, nil
}
func (l c23Leader) Query(ctx context.Context, qr *command.QueryRequest, nodeAddr string, creds *clstrPB.Credentials, timeout time.Duration, retries int) ([]*command.QueryRows, uint64, error) {
	return nil, 0, errors.New("unused")
}
func (l c23Leader) Request(ctx context.Context, eqr *command.ExecuteQueryRequest, nodeAddr string, creds *clstrPB.Credentials, timeout time.Duration, retries int) ([]*command.ExecuteQueryResponse, uint64, uint64, error) {
	return nil, 0, 0, errors.New("unused")
}
func (l c23Leader) Backup(ctx context.Context, br *command.BackupRequest, nodeAddr string, creds *clstrPB.Credentials, timeout time.Duration, w io.Writer) error {
	return errors.New("unused")
}
func (l c23Leader) Load(ctx context.Context, lr *command.LoadRequest, nodeAddr string, creds *clstrPB.Credentials, timeout time.Duration, retries int) error {
	return errors.New("unused")
}
func (l c23Leader) RemoveNode(ctx context.Context, rn *command.RemoveNodeRequest, nodeAddr string, creds *clstrPB.Credentials, timeout time.Duration) error {
	return errors.New("unused")
}
func (l c23Leader) Stepdown(ctx context.Context, sr *command.StepdownRequest, nodeAddr string, creds *clstrPB.Credentials, timeout time.Duration) error {
	return errors.New("unused")
}

// ----------------------------------------------------------------- plan ----

type c23Req struct {
	Stmts    int
	Wait     bool
	TinyWait bool // wait with a 30 ms timeout (may end in 408 while still accepted)
	PauseMs  int  // client think time before the request
}

type c23Plan struct {
	Follower, Auth, Tx bool
	Batch, Cap         int
	TimeoutMs          int
	Clients            [][]c23Req
	FailAt             map[int]string
	Trickle            bool // shape: consumer stalled by a failure while a few small requests trickle in, then silence
}

func c23GenPlan(rt *rapid.T) c23Plan {
	p := c23Plan{
		Follower:  rapid.Bool().Draw(rt, "follower"),
		Auth:      rapid.Bool().Draw(rt, "auth"),
		Tx:        rapid.Bool().Draw(rt, "queue-tx"),
		Batch:     rapid.SampledFrom([]int{1, 2, 3, 4, 5, 6, 6, 16, 128}).Draw(rt, "batch-size"),
		Cap:       rapid.SampledFrom([]int{1, 2, 8, 64}).Draw(rt, "capacity"),
		TimeoutMs: rapid.SampledFrom([]int{1, 3, 10, 40}).Draw(rt, "batch-timeout-ms"),
		FailAt:    map[int]string{},
	}
	nc := rapid.IntRange(2, 4).Draw(rt, "clients")
	for c := 0; c < nc; c++ {
		nr := rapid.IntRange(1, 7).Draw(rt, "requests")
		var rs []c23Req
		for r := 0; r < nr; r++ {
			q := c23Req{Stmts: rapid.IntRange(0, 3).Draw(rt, "stmts"), PauseMs: rapid.SampledFrom([]int{0, 0, 1, 5, 15}).Draw(rt, "pause-ms")}
			switch rapid.IntRange(0, 5).Draw(rt, "wait") {
			case 0, 1:
				q.Wait = true
			case 2:
				q.Wait, q.TinyWait = true, true
			}
			if q.Stmts == 0 {
				q.Wait = true // an empty request is only accepted as a wait marker
			}
			rs = append(rs, q)
		}
		p.Clients = append(p.Clients, rs)
	}
	// at most two transient failures (each costs the service's fixed 1 s retry delay)
	nf := rapid.SampledFrom([]int{0, 0, 0, 1, 1, 2}).Draw(rt, "failures")
	for i := 0; i < nf; i++ {
		p.FailAt[rapid.IntRange(1, 6).Draw(rt, "fail-attempt")] = rapid.SampledFrom([]string{"leadership-lost", "not-leader", "no-leader"}).Draw(rt, "fail-kind")
	}
	if rapid.IntRange(0, 4).Draw(rt, "shape-stall-then-trickle") == 0 {
		// The consumer is kept busy (first apply attempt fails -> 1 s retry sleep)
		// for many queue timeouts while 3-5 single-statement requests arrive more
		// than one timeout apart and far below the batch size; then no more traffic.
		p.Trickle = true
		p.Batch = rapid.SampledFrom([]int{16, 128}).Draw(rt, "trickle-batch-size")
		p.TimeoutMs = rapid.SampledFrom([]int{3, 10, 40}).Draw(rt, "trickle-timeout-ms")
		p.Cap = 64
		p.FailAt = map[int]string{1: rapid.SampledFrom([]string{"leadership-lost", "not-leader", "no-leader"}).Draw(rt, "trickle-fail-kind")}
		n := rapid.IntRange(3, 5).Draw(rt, "trickle-requests")
		var rs []c23Req
		for i := 0; i < n; i++ {
			q := c23Req{Stmts: 1}
			if i > 0 {
				q.PauseMs = p.TimeoutMs * rapid.IntRange(2, 6).Draw(rt, "trickle-gap-timeouts")
			}
			rs = append(rs, q)
		}
		p.Clients = [][]c23Req{rs}
	}
	return p
}

func (p c23Plan) String() string {
	var fs []string
	for k, v := range p.FailAt {
		fs = append(fs, fmt.Sprintf("%d:%s", k, v))
	}
	sort.Strings(fs)
	return fmt.Sprintf("follower=%v auth=%v tx=%v batch=%d cap=%d timeout=%dms fail=%v clients=%+v", p.Follower, p.Auth, p.Tx, p.Batch, p.Cap, p.TimeoutMs, fs, p.Clients)
}

type c23Issued struct {
	Client, Idx       int
	Req               c23Req
	Tags              []string
	Status            int
	Seq               int64
	Body              string
	MissingAtResponse []string // for wait requests answered 200
}

func TestVerif_C23_Queue(t *testing.T) {
	rec := vstat.New(t, "C23", "queue",
		"rapid: node role {leader, follower forwarding to a fake leader} x credential store {none, configured (clients present a user holding execute; the fake leader enforces the same rule)} x queue transaction flag x batch size 1-6 x capacity {1,2,8,64} x batch timeout {1,3,10,40} ms; 2-4 concurrent clients x 1-5 requests of 0-3 tagged statements x {no wait, wait, wait with 30 ms timeout} with think times; 0-2 injected transient failures {leadership lost, not leader, leader unknown} at generated apply attempts; every fifth plan has the shape 'consumer stalled by a failed first attempt while 3-5 single-statement requests trickle in 2-6 queue timeouts apart, far below the batch size (16/128), then silence'; non-trivial = at least two clients issued statements and (a batch boundary can fall inside the run: total statements > batch size, or a failure is injected); distinct by plan")
	rapid.Check(t, func(rt *rapid.T) {
		p := c23GenPlan(rt)
		canon := p.String()
		total, active := 0, 0
		for _, c := range p.Clients {
			n := 0
			for _, r := range c {
				n += r.Stmts
			}
			total += n
			if n > 0 {
				active++
			}
		}
		rec.Case((active >= 2 && (total > p.Batch || len(p.FailAt) > 0)) || p.Trickle, canon)
		if p.Trickle {
			rec.Label("shape:stall-then-trickle")
		}
		rec.Sample(canon)
		switch {
		case p.Follower && p.Auth:
			rec.Label("config:follower+auth")
		case p.Follower:
			rec.Label("config:follower")
		case p.Auth:
			rec.Label("config:leader+auth")
		default:
			rec.Label("config:leader")
		}
		if len(p.FailAt) > 0 {
			rec.Label("with-transient-failure")
		}
		if p.Follower && p.Auth && rec.Known(c23SigNoCreds) {
			// open known finding: every case of this configuration hits it (and costs
			// >= 2.5 s of refusals). Keep one in four as a regression reproducer,
			// count the others as excluded.
			if rapid.IntRange(0, 3).Draw(rt, "probe-known-class") != 0 {
				rec.Excluded(c23SigNoCreds)
				return
			}
		}

		w := &c23World{follower: p.Follower, auth: p.Auth, failAt: p.FailAt}
		var cs CredentialStore
		if p.Auth {
			a := auth.NewCredentialsStore()
			if err := a.Load(strings.NewReader(c23CredFile)); err != nil {
				rec.Label("inconclusive:infrastructure")
				return
			}
			cs = a
		}
		ld := c23Leader{w}
		svc := New("127.0.0.1:0", w, ld, proxy.New(w, ld), cs)
		svc.logger.SetOutput(io.Discard)
		svc.DefaultQueueBatchSz, svc.DefaultQueueCap = p.Batch, p.Cap
		svc.DefaultQueueTimeout = time.Duration(p.TimeoutMs) * time.Millisecond
		svc.DefaultQueueTx = p.Tx
		if err := c23Retry(svc.Start); err != nil {
			rec.Label("inconclusive:infrastructure")
			return
		}
		defer func() {
			// never close a service whose queue is blocked: Close waits for handlers
			// that wait for the queue
			w.release()
			svc.Close()
		}()
		base := "http://" + svc.Addr().String()
		hc := &nethttp.Client{Transport: &nethttp.Transport{DisableKeepAlives: true, DialContext: func(ctx context.Context, network, addr string) (net.Conn, error) { return c23Dial(addr) }}, Timeout: 120 * time.Second}

		// monitor: the leader is reachable and refuses the forwarded batch for lack
		// of credentials; the queue retries with the same credentials for ever. Once
		// that is established (>= 3 refusals over >= 2.5 s) the world is released so
		// that blocked clients and the service can finish, and the case fails below.
		var credViolation atomic.Value
		monDone := make(chan struct{})
		monStop := make(chan struct{})
		go func() {
			defer close(monDone)
			var first time.Time
			for {
				select {
				case <-monStop:
					return
				case <-time.After(5 * time.Millisecond):
				}
				w.mu.Lock()
				rej, rc := w.rejected, w.rejCreds
				w.mu.Unlock()
				if rej == 0 {
					continue
				}
				if first.IsZero() {
					first = time.Now()
				}
				if rej >= 3 && time.Since(first) > 2500*time.Millisecond {
					credViolation.Store(fmt.Sprintf("statements accepted from an authorized client are forwarded to the leader with credentials %s, refused %d times as unauthorized and never applied (queue blocked, retried for ever with the same credentials)", rc, rej))
					w.release()
					return
				}
			}
		}()
		defer func() { close(monStop); <-monDone }()

		var imu sync.Mutex
		var issued []*c23Issued
		var wg sync.WaitGroup
		for ci, reqs := range p.Clients {
			wg.Add(1)
			go func(ci int, reqs []c23Req) {
				defer wg.Done()
				for ri, r := range reqs {
					if r.PauseMs > 0 {
						time.Sleep(time.Duration(r.PauseMs) * time.Millisecond)
					}
					is := &c23Issued{Client: ci, Idx: ri, Req: r}
					for s := 0; s < r.Stmts; s++ {
						is.Tags = append(is.Tags, fmt.Sprintf("INSERT INTO t VALUES('c%d-r%d-s%d')", ci, ri, s))
					}
					body, _ := json.Marshal(is.Tags)
					if r.Stmts == 0 {
						body = []byte("[]")
					}
					u := base + "/db/execute?queue"
					if r.Wait {
						u += "&wait"
						if r.TinyWait {
							u += "&timeout=30ms"
						} else {
							u += "&timeout=8s"
						}
					}
					req, _ := nethttp.NewRequest("POST", u, bytes.NewReader(body))
					req.Header.Set("Content-Type", "application/json")
					if p.Auth {
						req.SetBasicAuth("w", "wpw")
					}
					resp, err := hc.Do(req)
					if err != nil {
						is.Status, is.Body = -1, err.Error()
					} else {
						b, _ := io.ReadAll(resp.Body)
						resp.Body.Close()
						is.Status, is.Body = resp.StatusCode, string(b)
						var jr struct {
							Seq int64 `json:"sequence_number"`
						}
						if resp.StatusCode == 200 && json.Unmarshal(b, &jr) == nil {
							is.Seq = jr.Seq
						}
						if resp.StatusCode == 200 && r.Wait {
							// the response promises that the statements have been applied
							w.mu.Lock()
							have := map[string]bool{}
							for _, a := range w.applied {
								have[a] = true
							}
							w.mu.Unlock()
							for _, tg := range is.Tags {
								if !have[tg] {
									is.MissingAtResponse = append(is.MissingAtResponse, tg)
								}
							}
						}
					}
					imu.Lock()
					issued = append(issued, is)
					imu.Unlock()
				}
			}(ci, reqs)
		}
		// Clients finish on their own: waits carry a timeout, and the http client one of 120 s.
		wg.Wait()

		fail := func(sig, format string, a ...any) {
			msg := fmt.Sprintf(format, a...)
			if rec.KnownHit(sig, msg) {
				return
			}
			w.mu.Lock()
			ap := fmt.Sprintf("%v", w.batches)
			w.mu.Unlock()
			var sb strings.Builder
			for _, is := range issued {
				fmt.Fprintf(&sb, "[c%d-r%d stmts=%d wait=%v tiny=%v status=%d seq=%d] ", is.Client, is.Idx, is.Req.Stmts, is.Req.Wait, is.Req.TinyWait, is.Status, is.Seq)
			}
			rt.Fatalf("%s", rec.Violation(sig, "%s :: plan: %s :: responses: %s :: applied batches: %s", msg, canon, sb.String(), ap))
		}

		if v := credViolation.Load(); v != nil {
			fail(c23SigNoCreds, "%s", v.(string))
			return
		}

		// ---- responses ----
		var maxSeq int64
		seen := map[int64]bool{}
		var known, unknown []*c23Issued
		for _, is := range issued {
			switch {
			case is.Status == 200:
				if is.Seq == 0 {
					fail("C23/no-sequence-number", "accepted request c%d-r%d has no sequence number: %s", is.Client, is.Idx, is.Body)
					return
				}
				if seen[is.Seq] {
					fail("C23/duplicate-sequence-number", "sequence number %d returned twice", is.Seq)
					return
				}
				seen[is.Seq] = true
				if is.Seq > maxSeq {
					maxSeq = is.Seq
				}
				known = append(known, is)
				if len(is.MissingAtResponse) > 0 {
					fail("C23/wait-returned-before-apply", "wait request c%d-r%d got 200 (seq %d) while %v was not applied yet", is.Client, is.Idx, is.Seq, is.MissingAtResponse)
					return
				}
				rec.Label("response:accepted")
			case is.Status == 408 && is.Req.Wait:
				// accepted, sequence number unknown to the client
				unknown = append(unknown, is)
				rec.Label("response:wait-timeout")
			default:
				rec.Label("response:other")
				if p.Auth && is.Status == 401 {
					fail("C23/authorized-client-refused", "client with valid credentials refused: %d %s", is.Status, is.Body)
					return
				}
				// any other refusal (e.g. leader unknown) means: not accepted
				rec.Label(fmt.Sprintf("response:status-%d", is.Status))
			}
		}

		// ---- wait until the service itself says everything accepted was written ----
		expected := 0
		for _, is := range append(append([]*c23Issued{}, known...), unknown...) {
			expected += len(is.Tags)
		}
		// The documented bounds: an entry waits at most the queue timeout (<= 40 ms
		// here) for its batch to be sent, a failed batch is retried after 1 s. With
		// at most two injected failures everything accepted is applied within ~2.1 s
		// of the last request; we wait more than five times that.
		deadline := time.Now().Add(12*time.Second + time.Duration(len(p.FailAt))*2*time.Second)
		drained := func() bool {
			w.mu.Lock()
			n := len(w.applied)
			w.mu.Unlock()
			if len(unknown) > 0 || maxSeq == 0 {
				// no usable sequence number: fall back to the statement count
				return n >= expected && svc.stmtQueue.Depth() == 0
			}
			return atomic.LoadInt64(&svc.seqNum) >= maxSeq
		}
		for !drained() {
			if v := credViolation.Load(); v != nil {
				fail(c23SigNoCreds, "%s", v.(string))
				return
			}
			if time.Now().After(deadline) {
				w.mu.Lock()
				healthy, idle, ctxErrs, n := w.healthy(), time.Since(w.lastAttempt), w.ctxErrs, len(w.applied)
				w.mu.Unlock()
				switch {
				case healthy && ctxErrs >= 3:
					fail("C23/queue-retries-with-dead-context", "the leader is reachable again, yet %d apply attempts arrived with an expired context and %d of %d accepted statements are still not applied", ctxErrs, expected-n, expected)
				case healthy && idle > 5*time.Second:
					fail("C23/accepted-statements-stuck-in-idle-queue", "%d of %d accepted statements are not applied although the leader is reachable, no failure is outstanding and the queue consumer has made no apply attempt for %v (queue timeout %d ms): they sit in the queue for ever", expected-n, expected, idle.Round(time.Second), p.TimeoutMs)
				default:
					rec.Label("inconclusive:not-drained-in-time")
				}
				return
			}
			time.Sleep(5 * time.Millisecond)
		}

		// ---- applied log vs acceptance order ----
		w.mu.Lock()
		applied := append([]string(nil), w.applied...)
		txs := append([]bool(nil), w.tx...)
		w.mu.Unlock()
		for _, x := range txs {
			if x != p.Tx {
				fail("C23/transaction-flag", "batch applied with transaction=%v, configured %v", x, p.Tx)
				return
			}
		}
		sort.Slice(known, func(i, j int) bool { return known[i].Seq < known[j].Seq })
		// remove the statements of unknown-position requests (each must be present once, contiguous, in order)
		rest := applied
		for _, is := range unknown {
			if len(is.Tags) == 0 {
				continue
			}
			at := -1
			for i := range rest {
				if rest[i] == is.Tags[0] {
					at = i
					break
				}
			}
			if at < 0 || at+len(is.Tags) > len(rest) || strings.Join(rest[at:at+len(is.Tags)], "|") != strings.Join(is.Tags, "|") {
				fail("C23/accepted-statements-missing-or-split", "statements of accepted request c%d-r%d (wait timed out) are not applied contiguously in order", is.Client, is.Idx)
				return
			}
			rest = append(append([]string(nil), rest[:at]...), rest[at+len(is.Tags):]...)
		}
		var want []string
		for _, is := range known {
			want = append(want, is.Tags...)
		}
		if strings.Join(rest, "|") != strings.Join(want, "|") {
			// classify
			sig := "C23/applied-order-differs-from-acceptance-order"
			cnt := map[string]int{}
			for _, a := range rest {
				cnt[a]++
			}
			for _, x := range want {
				if cnt[x] == 0 {
					sig = "C23/accepted-statement-dropped"
				}
			}
			for _, n := range cnt {
				if n > 1 && sig != "C23/accepted-statement-dropped" {
					sig = "C23/statement-applied-twice"
				}
			}
			fail(sig, "applied log differs from the acceptance order: applied=%v want=%v", rest, want)
			return
		}
		rec.Label("drained-and-equal")
	})
}

// TestVerif_C23_Burst: the same composite (real queue + real runQueue + real
// proxy over the recording store fake) under DENSE concurrency. HTTP parsing
// spreads arrivals ~100 us apart, which hides races inside the accept step
// (sequence number vs. position in the queue); here 4-32 writer goroutines call
// what the handler calls after parsing -- Service.stmtQueue.Write -- back to
// back, hundreds of times each, so that the accept step itself is contended.
// Oracle: once the service's sequence counter has reached the highest returned
// sequence number, the applied log equals the statements ordered by the
// sequence numbers their writers were given.
func TestVerif_C23_Burst(t *testing.T) {
	rec := vstat.New(t, "C23", "burst",
		"rapid: 4-32 writer goroutines x 50-400 single-statement queued writes each, issued back to back through Service.stmtQueue.Write (the call the /db/execute?queue handler makes), queue capacity {1,4,64,1024}, batch size 1-16, batch timeout 1 ms, leader role, no failures; non-trivial = always (>= 4 concurrent writers); distinct by plan")
	rapid.Check(t, func(rt *rapid.T) {
		writers := rapid.IntRange(4, 32).Draw(rt, "writers")
		per := rapid.IntRange(50, 400).Draw(rt, "writes-per-writer")
		capacity := rapid.SampledFrom([]int{1, 4, 64, 1024}).Draw(rt, "capacity")
		batch := rapid.IntRange(1, 16).Draw(rt, "batch-size")
		canon := fmt.Sprintf("writers=%d per=%d cap=%d batch=%d", writers, per, capacity, batch)
		rec.Case(true, canon)
		rec.Sample(canon)

		w := &c23World{}
		ld := c23Leader{w}
		svc := New("127.0.0.1:0", w, ld, proxy.New(w, ld), nil)
		svc.logger.SetOutput(io.Discard)
		svc.DefaultQueueBatchSz, svc.DefaultQueueCap = batch, capacity
		svc.DefaultQueueTimeout = time.Millisecond
		if err := c23Retry(svc.Start); err != nil {
			rec.Label("inconclusive:infrastructure")
			return
		}
		defer func() { w.release(); svc.Close() }()

		type acc struct {
			seq int64
			tag string
		}
		all := make([][]acc, writers)
		var wg sync.WaitGroup
		start := make(chan struct{})
		for wi := 0; wi < writers; wi++ {
			wg.Add(1)
			go func(wi int) {
				defer wg.Done()
				<-start
				mine := make([]acc, 0, per)
				for k := 0; k < per; k++ {
					tag := fmt.Sprintf("w%d-k%d", wi, k)
					seq, err := svc.stmtQueue.Write([]*command.Statement{{Sql: tag}}, nil)
					if err != nil {
						break
					}
					mine = append(mine, acc{seq, tag})
				}
				all[wi] = mine
			}(wi)
		}
		close(start)
		wg.Wait()
		var accepted []acc
		var maxSeq int64
		for _, m := range all {
			accepted = append(accepted, m...)
		}
		sort.Slice(accepted, func(i, j int) bool { return accepted[i].seq < accepted[j].seq })
		for i, a := range accepted {
			if i > 0 && accepted[i-1].seq == a.seq {
				rt.Fatalf("%s", rec.Violation("C23/duplicate-sequence-number", "sequence number %d returned twice (%s, %s) :: %s", a.seq, accepted[i-1].tag, a.tag, canon))
			}
			maxSeq = a.seq
		}
		deadline := time.Now().Add(60 * time.Second)
		for {
			w.mu.Lock()
			n := len(w.applied)
			w.mu.Unlock()
			if n >= len(accepted) && atomic.LoadInt64(&svc.seqNum) >= maxSeq {
				break
			}
			if time.Now().After(deadline) {
				rec.Label("inconclusive:not-drained-in-time")
				return
			}
			time.Sleep(2 * time.Millisecond)
		}
		w.mu.Lock()
		applied := append([]string(nil), w.applied...)
		w.mu.Unlock()
		if len(applied) != len(accepted) {
			rt.Fatalf("%s", rec.Violation("C23/accepted-statement-dropped", "%d statements accepted, %d applied :: %s", len(accepted), len(applied), canon))
		}
		for i := range applied {
			if applied[i] != accepted[i].tag {
				sig := "C23/applied-order-differs-from-acceptance-order"
				what := fmt.Sprintf("position %d: applied %s, but acceptance order (sequence numbers) has %s (seq %d) there", i, applied[i], accepted[i].tag, accepted[i].seq)
				if rec.KnownHit(sig, what) {
					return
				}
				rt.Fatalf("%s", rec.Violation(sig, "%s :: %s", what, canon))
			}
		}
		rec.Label("drained-and-equal")
	})
}

// ---- infrastructure helpers (not part of any oracle) ----

// c23Dial connects to addr from a random loopback source address 127.x.y.z.
// Sockets of a client that closes (or half-closes) first stay in TIME_WAIT for
// 60 s; with 127.0.0.1 as the only source address, thousands of short
// connections per second from many check processes would leave no free port
// for bind(127.0.0.1:0), i.e. for every new listener on the machine. Spreading
// the client side over 127/8 keeps those sockets away from 127.0.0.1. A few
// retries with back-off absorb transient failures.
func c23Dial(addr string) (net.Conn, error) {
	var last error
	for try := 0; try < 5; try++ {
		d := net.Dialer{Timeout: 10 * time.Second, LocalAddr: &net.TCPAddr{IP: net.IPv4(127, byte(1+rand.Intn(250)), byte(rand.Intn(256)), byte(1+rand.Intn(250)))}}
		c, err := d.Dial("tcp", addr)
		if err == nil {
			return c, nil
		}
		last = err
		time.Sleep(time.Duration(25*(try+1)) * time.Millisecond)
	}
	return nil, last
}

// c23Listen listens on 127.0.0.1:0, retrying a few times.
func c23Listen() (net.Listener, error) {
	var last error
	for try := 0; try < 5; try++ {
		ln, err := net.Listen("tcp", "127.0.0.1:0")
		if err == nil {
			return ln, nil
		}
		last = err
		time.Sleep(time.Duration(50*(try+1)) * time.Millisecond)
	}
	return nil, last
}

// c23Retry runs f up to five times with a short back-off.
func c23Retry(f func() error) error {
	var last error
	for try := 0; try < 5; try++ {
		if last = f(); last == nil {
			return nil
		}
		time.Sleep(time.Duration(50*(try+1)) * time.Millisecond)
	}
	return last
}

// TestVerif_C23_LongOutage: "none are dropped while the node keeps running and
// a leader is reachable" must also hold after a LONG leader outage. The apply
// attempts of one batch fail for 31-34 consecutive attempts (runQueue retries
// once per second, so the outage outlasts the service's 30 s default timeout),
// then the leader is healthy again. The batch, and what was queued behind it,
// must then be applied. The fakes honour the context they are given exactly as
// Store.Execute and cluster.Client.Execute do (an expired context fails the
// call), so per-batch state that does not survive a long outage is observable.
func TestVerif_C23_LongOutage(t *testing.T) {
	rec := vstat.New(t, "C23", "long-outage",
		"seeded pseudo-random, not rapid (a failing 35 s case must not be re-run by a shrinker); 1 case in quick, 6 per process in thorough: role {leader, follower} x outage of 31-34 failed apply attempts {not leader, leadership lost, leader unknown} x 2-3 queued requests, one of them posted in the middle of the outage; oracle: after the outage every accepted statement is applied in acceptance order, and no apply attempt arrives with an expired context; non-trivial = always; distinct by plan")
	rng := rand.New(rand.NewSource(int64(vstat.Seed())))
	for ci, cases := 0, vstat.Scale(1, 6); ci < cases && !t.Failed(); ci++ {
		c23LongOutageCase(t, rec, rng)
	}
}

func c23LongOutageCase(rt *testing.T, rec *vstat.Rec, rng *rand.Rand) {
	{
		follower := rng.Intn(2) == 0
		n := 31 + rng.Intn(4)
		kind := []string{"not-leader", "leadership-lost", "no-leader"}[rng.Intn(3)]
		nreq := 2 + rng.Intn(2)
		canon := fmt.Sprintf("follower=%v outage=%d x %s requests=%d", follower, n, kind, nreq)
		rec.Case(true, canon)
		rec.Sample(canon)
		w := &c23World{follower: follower, failAt: map[int]string{}}
		for i := 1; i <= n; i++ {
			w.failAt[i] = kind
		}
		ld := c23Leader{w}
		svc := New("127.0.0.1:0", w, ld, proxy.New(w, ld), nil)
		svc.logger.SetOutput(io.Discard)
		svc.DefaultQueueBatchSz, svc.DefaultQueueCap = 4, 64
		svc.DefaultQueueTimeout = 5 * time.Millisecond
		if err := c23Retry(svc.Start); err != nil {
			rec.Label("inconclusive:infrastructure")
			return
		}
		defer func() { w.release(); svc.Close() }()
		base := "http://" + svc.Addr().String()
		hc := &nethttp.Client{Transport: &nethttp.Transport{DisableKeepAlives: true, DialContext: func(ctx context.Context, network, addr string) (net.Conn, error) { return c23Dial(addr) }}, Timeout: 60 * time.Second}
		var want []string
		post := func(i int) bool {
			tag := fmt.Sprintf("INSERT INTO t VALUES('long-%d')", i)
			body, _ := json.Marshal([]string{tag})
			resp, err := hc.Post(base+"/db/execute?queue", "application/json", bytes.NewReader(body))
			if err != nil {
				return false
			}
			io.Copy(io.Discard, resp.Body)
			resp.Body.Close()
			if resp.StatusCode != 200 {
				return false
			}
			want = append(want, tag)
			return true
		}
		if !post(0) {
			rec.Label("inconclusive:infrastructure")
			return
		}
		time.Sleep(200 * time.Millisecond) // let the first batch be taken off the queue on its own
		for i := 1; i < nreq-1; i++ {
			post(i)
		}
		time.Sleep(10 * time.Second)
		post(nreq - 1) // in the middle of the outage
		deadline := time.Now().Add(time.Duration(n)*time.Second + 25*time.Second)
		for {
			w.mu.Lock()
			applied, attempts, ctxErrs := append([]string(nil), w.applied...), w.attempts, w.ctxErrs
			w.mu.Unlock()
			desc := fmt.Sprintf("%s :: attempts=%d expired-context attempts=%d applied=%v want=%v", canon, attempts, ctxErrs, applied, want)
			if ctxErrs >= 3 {
				sig := "C23/queue-retries-with-dead-context"
				what := "after a leader outage longer than the default timeout the queued batch is retried with an expired context for ever: it and everything behind it are never applied"
				if rec.KnownHit(sig, what) {
					return
				}
				rt.Fatalf("%s", rec.Violation(sig, "%s :: %s", what, desc))
			}
			if len(applied) >= len(want) {
				if strings.Join(applied, "|") != strings.Join(want, "|") {
					rt.Fatalf("%s", rec.Violation("C23/applied-order-differs-from-acceptance-order", "after a long outage :: %s", desc))
				}
				rec.Label("applied-after-outage")
				return
			}
			if time.Now().After(deadline) {
				if attempts > n {
					rt.Fatalf("%s", rec.Violation("C23/accepted-statements-stuck-in-idle-queue", "leader healthy again for >= 20 s but accepted statements are not applied :: %s", desc))
				}
				rec.Label("inconclusive:outage-not-over-in-time")
				return
			}
			time.Sleep(50 * time.Millisecond)
		}
	}
}
