package http

// C18 (HTTP half): every HTTP endpoint performs its action, and returns any
// database content, only if the request's credentials are authorized for the
// endpoint's permission(s).
//
// Set-up: a real http.Service listening on 127.0.0.1:0 with a real
// auth.CredentialsStore (generated credentials file) over recording fakes for
// Store / Cluster whose every result carries a sentinel secret. The node is
// either the leader (operations succeed locally) or a follower (operations
// return ErrNotLeader and are forwarded through the real proxy.Proxy to the
// fake cluster client). Requests are written on a raw TCP connection and every
// byte until the server closes is read.
//
// Oracle: endpoint -> permission table written from the documented security
// model (DESIGN.md Appendix C), and the C19 credential rule restated below.

import (
	"bytes"
	"compress/gzip"
	"context"
	"encoding/base64"
	"encoding/json"
	"fmt"
	"io"
	"math/rand"
	"net"
	"sort"
	"strconv"
	"strings"
	"sync"
	"testing"
	"time"

	"github.com/rqlite/rqlite/v10/auth"
	clstrPB "github.com/rqlite/rqlite/v10/cluster/proto"
	command "github.com/rqlite/rqlite/v10/command/proto"
	"github.com/rqlite/rqlite/v10/internal/verif/vstat"
	"github.com/rqlite/rqlite/v10/proxy"
	"github.com/rqlite/rqlite/v10/store"
	"pgregory.net/rapid"
)

const c18Sentinel = "VERIF-SENTINEL-5ecRe7-c18h"

// ---------------------------------------------------------------- fakes ----

type c18Recorder struct {
	mu    sync.Mutex
	calls []string
}

func (r *c18Recorder) add(s string) { r.mu.Lock(); r.calls = append(r.calls, s); r.mu.Unlock() }
func (r *c18Recorder) take() []string {
	r.mu.Lock()
	defer r.mu.Unlock()
	c := r.calls
	r.calls = nil
	return c
}

func c18Rows() *command.QueryRows {
	return &command.QueryRows{
		Columns: []string{"secret"},
		Types:   []string{"text"},
		Values: []*command.Values{{Parameters: []*command.Parameter{
			{Value: &command.Parameter_S{S: c18Sentinel}},
		}}},
	}
}

func c18ExecResp() []*command.ExecuteQueryResponse {
	return []*command.ExecuteQueryResponse{{Result: &command.ExecuteQueryResponse_E{
		E: &command.ExecuteResult{LastInsertId: 7, RowsAffected: 1, Error: c18Sentinel}}}}
}

// c18Store implements http.Store and proxy.Store.
type c18Store struct {
	rec      *c18Recorder
	follower bool
}

func (s *c18Store) nl() error {
	if s.follower {
		return store.ErrNotLeader
	}
	return nil
}

func (s *c18Store) Execute(ctx context.Context, er *command.ExecuteRequest) ([]*command.ExecuteQueryResponse, uint64, error) {
	s.rec.add("store.Execute")
	if err := s.nl(); err != nil {
		return nil, 0, err
	}
	return c18ExecResp(), 11, nil
}
func (s *c18Store) Query(ctx context.Context, qr *command.QueryRequest) ([]*command.QueryRows, command.ConsistencyLevel, uint64, error) {
	s.rec.add("store.Query")
	if s.follower && qr.Level != command.ConsistencyLevel_NONE {
		return nil, 0, 0, store.ErrNotLeader
	}
	return []*command.QueryRows{c18Rows()}, qr.Level, 12, nil
}
func (s *c18Store) Request(ctx context.Context, eqr *command.ExecuteQueryRequest) ([]*command.ExecuteQueryResponse, uint64, uint64, error) {
	s.rec.add("store.Request")
	if err := s.nl(); err != nil {
		return nil, 0, 0, err
	}
	return []*command.ExecuteQueryResponse{{Result: &command.ExecuteQueryResponse_Q{Q: c18Rows()}}}, 1, 13, nil
}
func (s *c18Store) Load(ctx context.Context, lr *command.LoadRequest) error {
	s.rec.add("store.Load")
	return s.nl()
}
func (s *c18Store) Backup(ctx context.Context, br *command.BackupRequest, dst io.Writer) error {
	s.rec.add("store.Backup")
	if s.follower && br.Leader {
		return store.ErrNotLeader
	}
	_, err := dst.Write([]byte("SQLite format 3\x00" + c18Sentinel))
	return err
}
func (s *c18Store) Remove(ctx context.Context, rn *command.RemoveNodeRequest) error {
	s.rec.add("store.Remove")
	return s.nl()
}
func (s *c18Store) Stepdown(wait bool, id string) error { s.rec.add("store.Stepdown"); return s.nl() }
func (s *c18Store) LeaderAddr() (string, error) {
	s.rec.add("store.LeaderAddr")
	return "127.0.0.1:4002", nil
}
func (s *c18Store) Leader() (*store.Server, error) {
	s.rec.add("store.Leader")
	return &store.Server{ID: "n1", Addr: "127.0.0.1:4002", Suffrage: command.Suffrage_VOTER}, nil
}
func (s *c18Store) Nodes() ([]*store.Server, error) {
	s.rec.add("store.Nodes")
	return []*store.Server{
		{ID: "n1", Addr: "127.0.0.1:4002", Suffrage: command.Suffrage_VOTER},
		{ID: c18Sentinel, Addr: "127.0.0.1:4004", Suffrage: command.Suffrage_VOTER},
	}, nil
}
func (s *c18Store) Ready() bool { s.rec.add("store.Ready"); return true }
func (s *c18Store) Committed(timeout time.Duration) (uint64, error) {
	s.rec.add("store.Committed")
	return 9, nil
}
func (s *c18Store) Stats() (map[string]any, error) {
	s.rec.add("store.Stats")
	return map[string]any{"secret": c18Sentinel}, nil
}
func (s *c18Store) Snapshot(n uint64) error { s.rec.add("store.Snapshot"); return nil }
func (s *c18Store) Reap() (int, int, error) { s.rec.add("store.Reap"); return 1, 1, nil }
func (s *c18Store) ReadFrom(r io.Reader) (int64, error) {
	s.rec.add("store.ReadFrom")
	n, _ := io.Copy(io.Discard, r)
	return n, nil
}

// c18Cluster implements http.Cluster and proxy.Cluster.
type c18Cluster struct{ rec *c18Recorder }

func (c *c18Cluster) GetNodeMeta(ctx context.Context, addr string, retries int, timeout time.Duration) (*clstrPB.NodeMeta, error) {
	c.rec.add("cluster.GetNodeMeta")
	return &clstrPB.NodeMeta{Url: "http://127.0.0.1:4001", Version: "v"}, nil
}
func (c *c18Cluster) Stats() (map[string]any, error) {
	c.rec.add("cluster.Stats")
	return map[string]any{"secret": c18Sentinel}, nil
}
func (c *c18Cluster) Execute(ctx context.Context, er *command.ExecuteRequest, nodeAddr string, creds *clstrPB.Credentials, timeout time.Duration, retries int) ([]*command.ExecuteQueryResponse, uint64, error) {
	c.rec.add("cluster.Execute")
	return c18ExecResp(), 21, nil
}
func (c *c18Cluster) Query(ctx context.Context, qr *command.QueryRequest, nodeAddr string, creds *clstrPB.Credentials, timeout time.Duration, retries int) ([]*command.QueryRows, uint64, error) {
	c.rec.add("cluster.Query")
	return []*command.QueryRows{c18Rows()}, 22, nil
}
func (c *c18Cluster) Request(ctx context.Context, eqr *command.ExecuteQueryRequest, nodeAddr string, creds *clstrPB.Credentials, timeout time.Duration, retries int) ([]*command.ExecuteQueryResponse, uint64, uint64, error) {
	c.rec.add("cluster.Request")
	return []*command.ExecuteQueryResponse{{Result: &command.ExecuteQueryResponse_Q{Q: c18Rows()}}}, 1, 23, nil
}
func (c *c18Cluster) Backup(ctx context.Context, br *command.BackupRequest, nodeAddr string, creds *clstrPB.Credentials, timeout time.Duration, w io.Writer) error {
	c.rec.add("cluster.Backup")
	_, err := w.Write([]byte("SQLite format 3\x00" + c18Sentinel))
	return err
}
func (c *c18Cluster) Load(ctx context.Context, lr *command.LoadRequest, nodeAddr string, creds *clstrPB.Credentials, timeout time.Duration, retries int) error {
	c.rec.add("cluster.Load")
	return nil
}
func (c *c18Cluster) RemoveNode(ctx context.Context, rn *command.RemoveNodeRequest, nodeAddr string, creds *clstrPB.Credentials, timeout time.Duration) error {
	c.rec.add("cluster.RemoveNode")
	return nil
}
func (c *c18Cluster) Stepdown(ctx context.Context, sr *command.StepdownRequest, nodeAddr string, creds *clstrPB.Credentials, timeout time.Duration) error {
	c.rec.add("cluster.Stepdown")
	return nil
}

// Calls that are neither an action nor a source of database content / node
// state (used for redirects and liveness only).
var c18Benign = map[string]bool{
	"store.Leader": true, "store.LeaderAddr": true, "store.Ready": true, "store.Committed": true,
	"cluster.GetNodeMeta": true,
}

func c18Actions(calls []string) []string {
	var out []string
	for _, c := range calls {
		if !c18Benign[c] {
			out = append(out, c)
		}
	}
	return out
}

// ------------------------------------------------------- reference model ----

// c18User is one ENTRY of the credentials file, in file order. A key may be
// omitted from the entry (HasPw / HasPerms false) and a username may occur in
// several entries. Meaning of the file (documented rule, Appendix C): an entry
// defines its user completely -- absent password = empty password, absent
// perms = no permissions -- and the last entry for a username wins.
type c18User struct {
	Name     string
	HasPw    bool
	Pw       string
	HasPerms bool
	Perms    []string
}

type c18Model struct {
	pw    map[string]string
	perms map[string]map[string]bool
}

func c18Build(us []c18User) c18Model {
	m := c18Model{map[string]string{}, map[string]map[string]bool{}}
	for _, u := range us {
		pw := ""
		if u.HasPw {
			pw = u.Pw
		}
		m.pw[u.Name] = pw
		ps := map[string]bool{}
		if u.HasPerms {
			for _, p := range u.Perms {
				ps[p] = true
			}
		}
		m.perms[u.Name] = ps // a later entry replaces an earlier one completely
	}
	return m
}

func (m c18Model) grant(u, p string) bool {
	ps, ok := m.perms[u]
	return ok && (ps[p] || ps["all"])
}

func (m c18Model) aa(u, pw, p string) bool {
	if m.grant("*", p) {
		return true
	}
	if u == "" {
		return false
	}
	stored, ok := m.pw[u]
	if !ok || stored != pw {
		return false
	}
	return m.grant(u, p)
}

// c18CredFile renders the entries as the TEXT of a credentials file; omitted
// keys are really absent from the JSON.
func c18CredFile(us []c18User) string {
	var es []string
	for _, u := range us {
		n, _ := json.Marshal(u.Name)
		parts := []string{`"username":` + string(n)}
		if u.HasPw {
			b, _ := json.Marshal(u.Pw)
			parts = append(parts, `"password":`+string(b))
		}
		if u.HasPerms {
			ps := u.Perms
			if ps == nil {
				ps = []string{}
			}
			b, _ := json.Marshal(ps)
			parts = append(parts, `"perms":`+string(b))
		}
		es = append(es, "{"+strings.Join(parts, ",")+"}")
	}
	return "[" + strings.Join(es, ",") + "]"
}

var c18PermVocab = []string{"execute", "query", "backup", "load", "remove", "join", "join-read-only",
	"join-read-replica", "leader-ops", "status", "ready", "snapshot", "ui"}

func c18GenUsers(rt *rapid.T) []c18User {
	n := rapid.IntRange(0, 5).Draw(rt, "entries")
	us := make([]c18User, 0, n)
	for i := 0; i < n; i++ {
		// usernames repeat: later entries redefine earlier ones
		u := c18User{Name: rapid.SampledFrom([]string{"u1", "u1", "u2", "u2", "*"}).Draw(rt, "name")}
		u.HasPw = rapid.IntRange(0, 3).Draw(rt, "has-password") > 0
		if u.HasPw {
			u.Pw = rapid.SampledFrom([]string{"p1", "p2", ""}).Draw(rt, "password")
		}
		u.HasPerms = rapid.IntRange(0, 3).Draw(rt, "has-perms") > 0
		if u.HasPerms {
			switch k := rapid.IntRange(0, 9).Draw(rt, "perm-kind"); {
			case k == 0:
				u.Perms = []string{"all"}
			case k == 1:
				u.Perms = nil
			default:
				u.Perms = rapid.SliceOfNDistinct(rapid.SampledFrom(c18PermVocab), 1, 5, rapid.ID[string]).Draw(rt, "perms")
			}
		}
		us = append(us, u)
	}
	return us
}

// presentation of credentials on an HTTP request
type c18Pres struct {
	Name   string
	Header string // value of Authorization, "" = absent
	User   string // what the server should understand (anonymous = "")
	Pw     string
	Strict bool // true: both directions checked; false (malformed header): only "unauthorized => refused"
}

func c18Basic(u, p string) string {
	return "Basic " + base64.StdEncoding.EncodeToString([]byte(u+":"+p))
}

func c18Presentations(m c18Model) []c18Pres {
	pwOf := func(u string) string {
		if pw, ok := m.pw[u]; ok {
			return pw
		}
		return "p1"
	}
	return []c18Pres{
		{"none", "", "", "", true},
		{"u1-right", c18Basic("u1", pwOf("u1")), "u1", pwOf("u1"), true},
		{"u1-wrong", c18Basic("u1", pwOf("u1")+"x"), "u1", pwOf("u1") + "x", true},
		{"u2-right", c18Basic("u2", pwOf("u2")), "u2", pwOf("u2"), true},
		{"u2-wrong", c18Basic("u2", "nope"), "u2", "nope", true},
		{"unknown", c18Basic("mallory", "p1"), "mallory", "p1", true},
		{"star", c18Basic("*", ""), "*", "", true},
		{"empty-user", c18Basic("", pwOf("u1")), "", pwOf("u1"), true},
		{"malformed-b64", "Basic !!!not-base64!!!", "", "", false},
		{"bearer", "Bearer " + base64.StdEncoding.EncodeToString([]byte("u1:"+pwOf("u1"))), "", "", false},
	}
}

// ----------------------------------------------------------------- routes ----

type c18Route struct {
	Name    string
	Target  string   // request target
	Perms   []string // all required (conjunction); nil = no documented permission
	Methods []string // methods the endpoint serves
	CT      string
	Body    string
}

const c18SQLiteBody = "SQLite format 3\x00" + "0123456789abcdef0123456789abcdef"

func c18Routes() []c18Route {
	js := "application/json"
	return []c18Route{
		{"execute", "/db/execute", []string{"execute"}, []string{"POST"}, js, `["INSERT INTO t(x) VALUES(1)"]`},
		{"execute-queue-wait", "/db/execute?queue&wait&timeout=20s", []string{"execute"}, []string{"POST"}, js, `["INSERT INTO t(x) VALUES(2)"]`},
		{"execute-redirect", "/db/execute?redirect", []string{"execute"}, []string{"POST"}, js, `["INSERT INTO t(x) VALUES(3)"]`},
		{"query-get", "/db/query?q=SELECT%20*%20FROM%20t", []string{"query"}, []string{"GET", "POST"}, js, `["SELECT * FROM t"]`},
		{"query-strong", "/db/query?level=strong&q=SELECT%20*%20FROM%20t", []string{"query"}, []string{"GET", "POST"}, js, `["SELECT * FROM t"]`},
		{"query-none", "/db/query?level=none&q=SELECT%20*%20FROM%20t", []string{"query"}, []string{"GET", "POST"}, js, `["SELECT * FROM t"]`},
		{"request", "/db/request", []string{"query", "execute"}, []string{"POST"}, js, `["SELECT * FROM t", "INSERT INTO t(x) VALUES(4)"]`},
		{"backup", "/db/backup", []string{"backup"}, []string{"GET"}, "", ""},
		{"backup-sql-noleader", "/db/backup?fmt=sql&noleader", []string{"backup"}, []string{"GET"}, "", ""},
		{"load-sql", "/db/load", []string{"load"}, []string{"POST"}, "text/plain", "CREATE TABLE z(a); INSERT INTO z VALUES(1);"},
		{"load-binary", "/db/load", []string{"load"}, []string{"POST"}, "application/octet-stream", c18SQLiteBody},
		{"sql-analyze", "/db/sql?q=SELECT%20random()", []string{"query"}, []string{"GET", "POST"}, js, `["SELECT random()"]`},
		{"boot", "/boot", []string{"load"}, []string{"POST"}, "application/octet-stream", c18SQLiteBody},
		{"snapshot", "/snapshot", []string{"snapshot"}, []string{"POST"}, "", ""},
		{"reap", "/reap", []string{"snapshot"}, []string{"POST"}, "", ""},
		{"remove", "/remove", []string{"remove"}, []string{"DELETE"}, js, `{"id":"n2"}`},
		{"status", "/status", []string{"status"}, []string{"GET"}, "", ""},
		{"status-key", "/status?key=store&pretty", []string{"status"}, []string{"GET"}, "", ""},
		{"nodes", "/nodes?nonvoters&ver=2", []string{"status"}, []string{"GET"}, "", ""},
		{"leader", "/leader", []string{"leader-ops"}, []string{"GET", "POST"}, js, `{"id":"n2"}`},
		{"readyz", "/readyz", []string{"ready"}, []string{"GET"}, "", ""},
		{"readyz-noleader", "/readyz?noleader", []string{"ready"}, []string{"GET"}, "", ""},
		{"readyz-sync", "/readyz?sync&timeout=5s", []string{"ready"}, []string{"GET"}, "", ""},
		{"licenses", "/licenses", []string{"status"}, []string{"GET"}, "", ""},
		{"debug-vars", "/debug/vars", []string{"status"}, []string{"GET", "POST", "DELETE", "PUT", "HEAD"}, "", ""},
		{"debug-pprof", "/debug/pprof/", []string{"status"}, []string{"GET", "POST", "DELETE", "PUT", "HEAD"}, "", ""},
		{"debug-pprof-cmdline", "/debug/pprof/cmdline", []string{"status"}, []string{"GET", "POST", "DELETE", "PUT", "HEAD"}, "", ""},
		{"debug-pprof-goroutine", "/debug/pprof/goroutine?debug=1", []string{"status"}, []string{"GET", "POST", "DELETE", "PUT", "HEAD"}, "", ""},
		{"console", "/console/", []string{"ui"}, []string{"GET", "HEAD"}, "", ""},
		{"console-file", "/console/index.html", []string{"ui"}, []string{"GET", "HEAD"}, "", ""},
		// no documented permission: nothing to enforce, but nothing may be performed either
		{"root", "/", nil, nil, "", ""},
		{"console-redirect", "/console", nil, nil, "", ""},
		{"unknown", "/db/unknown-endpoint", nil, nil, "", ""},
	}
}

var c18Methods = []string{"GET", "POST", "DELETE", "PUT", "HEAD", "OPTIONS"}

func c18Has(l []string, s string) bool {
	for _, x := range l {
		if x == s {
			return true
		}
	}
	return false
}

// ------------------------------------------------------------ raw client ----

func c18RawHTTP(addr, method string, rt c18Route, authz string) (status int, all []byte, err error) {
	conn, err := c18Dial(addr)
	if err != nil {
		return 0, nil, err
	}
	defer conn.Close()
	var b bytes.Buffer
	fmt.Fprintf(&b, "%s %s HTTP/1.1\r\nHost: %s\r\nConnection: close\r\n", method, rt.Target, addr)
	if authz != "" {
		fmt.Fprintf(&b, "Authorization: %s\r\n", authz)
	}
	if rt.CT != "" {
		fmt.Fprintf(&b, "Content-Type: %s\r\n", rt.CT)
	}
	fmt.Fprintf(&b, "Content-Length: %d\r\n\r\n%s", len(rt.Body), rt.Body)
	if _, err := conn.Write(b.Bytes()); err != nil {
		return 0, nil, err
	}
	conn.SetReadDeadline(time.Now().Add(60 * time.Second))
	all, err = io.ReadAll(conn)
	if len(all) >= 12 && bytes.HasPrefix(all, []byte("HTTP/1.")) {
		status, _ = strconv.Atoi(string(all[9:12]))
	}
	return status, all, err
}

func c18ContainsSentinel(b []byte) bool {
	if bytes.Contains(b, []byte(c18Sentinel)) {
		return true
	}
	for i := 0; i+2 < len(b); i++ {
		if b[i] == 0x1f && b[i+1] == 0x8b {
			if zr, err := gzip.NewReader(bytes.NewReader(b[i:])); err == nil {
				out, _ := io.ReadAll(io.LimitReader(zr, 1<<20))
				if bytes.Contains(out, []byte(c18Sentinel)) {
					return true
				}
			}
		}
	}
	return false
}

// ------------------------------------------------------------------ test ----

func TestVerif_C18_HTTP(t *testing.T) {
	rec := vstat.New(t, "C18", "http",
		"rapid draws the TEXT of a credentials file: 0-5 entries over usernames {u1,u2,*} (repeats = redefinitions), each entry with the password key present (p1/p2/'') or absent and the perms key present (all / [] / 1-5 of the 13 documented perms) or absent; the real auth.CredentialsStore loads the text, the oracle evaluates the documented file meaning (absent password = '', absent perms = none, last entry wins) and the node role (leader / follower forwarding through proxy.Proxy); per draw EVERY route of ServeHTTP (33 targets incl. variants of /db/*, /boot, /snapshot, /reap, /remove, /status, /nodes, /leader, /readyz, /licenses, /debug/*, /console) x {GET,POST,DELETE,PUT,HEAD,OPTIONS} x 10 presentations {none, u1/u2 right+wrong password, unknown user, '*', empty user, malformed base64, bearer} is sent on a raw TCP connection and read until close; one evaluation = one request; non-trivial = route has a documented permission, method is not OPTIONS, and the expected decision for this route depends on the presentation under this file; distinct by (file, role, route, method, presentation)")
	routes := c18Routes()
	rapid.Check(t, func(rt *rapid.T) {
		users := c18GenUsers(rt)
		follower := rapid.Bool().Draw(rt, "follower")
		file := c18CredFile(users)
		{
			seen, omitted, redefined := map[string]bool{}, false, false
			for _, u := range users {
				if !u.HasPw || !u.HasPerms {
					omitted = true
				}
				if seen[u.Name] {
					redefined = true
				}
				seen[u.Name] = true
			}
			if omitted {
				rec.Label("file:entry-omits-a-key")
			}
			if redefined {
				rec.Label("file:username-redefined")
			}
		}
		m := c18Build(users)
		cs := auth.NewCredentialsStore()
		if err := cs.Load(strings.NewReader(file)); err != nil {
			rt.Fatalf("%s", rec.Violation("C18/credentials-load", "valid credentials file rejected: %v %s", err, file))
		}
		calls := &c18Recorder{}
		st := &c18Store{rec: calls, follower: follower}
		cl := &c18Cluster{rec: calls}
		svc := New("127.0.0.1:0", st, cl, proxy.New(st, cl), cs)
		svc.logger.SetOutput(io.Discard)
		svc.DefaultQueueBatchSz = 1
		svc.DefaultQueueTimeout = 5 * time.Millisecond
		if err := c18Retry(svc.Start); err != nil {
			rec.Label("inconclusive:infrastructure")
			return
		}
		defer svc.Close()
		addr := svc.Addr().String()
		press := c18Presentations(m)
		role := "leader"
		if follower {
			role = "follower"
		}

		decide := func(r c18Route, p c18Pres) bool {
			for _, perm := range r.Perms {
				if !m.aa(p.User, p.Pw, perm) {
					return false
				}
			}
			return true
		}

		for _, r := range routes {
			nAuth := 0
			for _, p := range press {
				if decide(r, p) {
					nAuth++
				}
			}
			depends := r.Perms != nil && nAuth > 0 && nAuth < len(press)
			for _, method := range c18Methods {
				for pi, p := range press {
					if (method == "OPTIONS" || r.Perms == nil) && pi > 1 {
						continue // credentials are irrelevant here: two presentations suffice
					}
					authorized := decide(r, p)
					canon := strings.Join([]string{file, role, r.Name, method, p.Name}, "|")
					rec.Case(depends && method != "OPTIONS", canon)
					calls.take()
					status, all, xerr := c18RawHTTP(addr, method, r, p.Header)
					if xerr != nil || status == 0 {
						rec.Label("exchange-error")
						continue
					}
					got := calls.take()
					actions := c18Actions(got)
					desc := fmt.Sprintf("%s %s (%s) role=%s presentation=%s status=%d calls=%v bytes=%d file=%s", method, r.Target, r.Name, role, p.Name, status, got, len(all), file)
					rec.Sample(desc)
					rec.Label("role:" + role)
					switch {
					case r.Perms == nil:
						rec.Label("no-permission-route")
						if len(actions) > 0 || c18ContainsSentinel(all) {
							sig := "C18/http-unprotected-route-acts{route=" + r.Name + "}"
							what := "route without a documented permission performs an action or returns data"
							if rec.KnownHit(sig, what) {
								continue
							}
							rt.Fatalf("%s", rec.Violation(sig, "%s :: %s", what, desc))
						}
					case method == "OPTIONS":
						rec.Label("options")
						if len(actions) > 0 || c18ContainsSentinel(all) {
							sig := "C18/http-options-acts{route=" + r.Name + "}"
							what := "OPTIONS request performs an action or returns data"
							if rec.KnownHit(sig, what) {
								continue
							}
							rt.Fatalf("%s", rec.Violation(sig, "%s :: %s", what, desc))
						}
					case !authorized:
						rec.Label("unauthorized")
						rec.Label("unauthorized:" + r.Name)
						var problems []string
						if len(actions) > 0 {
							problems = append(problems, fmt.Sprintf("method(s) %v invoked", actions))
						}
						if c18ContainsSentinel(all) {
							problems = append(problems, "sentinel present in the bytes received")
						}
						if !(status == 401 || (status == 405 && !c18Has(r.Methods, method))) {
							problems = append(problems, fmt.Sprintf("status %d, want 401", status))
						}
						if len(problems) > 0 {
							sort.Strings(problems)
							sig := "C18/http-unauthorized{route=" + r.Name + "}"
							what := "unauthorized HTTP request is not refused cleanly: " + strings.Join(problems, "; ")
							if rec.KnownHit(sig, what) {
								continue
							}
							rt.Fatalf("%s", rec.Violation(sig, "%s :: %s", what, desc))
						}
					default:
						rec.Label("authorized")
						rec.Label("authorized:" + r.Name)
						if len(actions) > 0 {
							rec.Label("authorized-and-acted")
						}
						if p.Strict && status == 401 {
							sig := "C18/http-authorized-refused{route=" + r.Name + "}"
							what := "request authorized by the documented model is refused with 401"
							if rec.KnownHit(sig, what) {
								continue
							}
							rt.Fatalf("%s", rec.Violation(sig, "%s :: %s", what, desc))
						}
					}
				}
			}
		}
	})
}

// ---- infrastructure helpers (not part of any oracle) ----

// c18Dial connects to addr from a random loopback source address 127.x.y.z.
// Sockets of a client that closes (or half-closes) first stay in TIME_WAIT for
// 60 s; with 127.0.0.1 as the only source address, thousands of short
// connections per second from many check processes would leave no free port
// for bind(127.0.0.1:0), i.e. for every new listener on the machine. Spreading
// the client side over 127/8 keeps those sockets away from 127.0.0.1. A few
// retries with back-off absorb transient failures.
func c18Dial(addr string) (net.Conn, error) {
	var last error
	for try := 0; try < 5; try++ {
		d := net.Dialer{Timeout: 10 * time.Second, LocalAddr: &net.TCPAddr{IP: net.IPv4(127, byte(1+rand.Intn(250)), byte(rand.Intn(256)), byte(1+rand.Intn(250)))}}
		c, err := d.Dial("tcp", addr)
		if err == nil {
			return c, nil
		}
		last = err
		time.Sleep(time.Duration(25*(try+1)) * time.Millisecond)
	}
	return nil, last
}

// c18Listen listens on 127.0.0.1:0, retrying a few times.
func c18Listen() (net.Listener, error) {
	var last error
	for try := 0; try < 5; try++ {
		ln, err := net.Listen("tcp", "127.0.0.1:0")
		if err == nil {
			return ln, nil
		}
		last = err
		time.Sleep(time.Duration(50*(try+1)) * time.Millisecond)
	}
	return nil, last
}

// c18Retry runs f up to five times with a short back-off.
func c18Retry(f func() error) error {
	var last error
	for try := 0; try < 5; try++ {
		if last = f(); last == nil {
			return nil
		}
		time.Sleep(time.Duration(50*(try+1)) * time.Millisecond)
	}
	return last
}
