package cdc

// C25: every row change committed by a log entry, on a table matching the
// filter, is delivered to the configured endpoint at least once, labelled with
// the index of that log entry, across endpoint failures, leader changes, node
// restarts and snapshotting. Within one leader's tenure, deliveries are in
// non-decreasing index order.
//
// System under test: a real single-node store.Store wired to a real
// cdc.Service exactly as rqlited does (service created, started and enabled on
// the store *before* the store is opened; shutdown = Store.Close then the
// service goes away), delivering to a recording HTTP endpoint.
//
// Generator: operation sequences
//   req      Execute request of 1..4 statements (single/multi-row INSERT,
//            UPDATE one/all rows, DELETE, and statements that fail: PK / UNIQUE /
//            NOT NULL / CHECK violation, partially applied multi-row insert,
//            syntax error, missing table -- at any position) over tables
//            t1,t2; with / without transaction
//   snap     user snapshot (drives the snapshot-sync flush)
//   down/up  endpoint outage begins / ends (503, or the connection is dropped
//            without a response)
//   failn    the next n POSTs fail
//   flap     the service is told it lost and regained leadership
//   restart  Store.Close, service stop, everything re-created on the same
//            directories
// plus generated service configuration: batch size {1,2,3,10}, batch delay
// {5,40 ms}, table filter {none, ^t1$}.
//
// Oracle: the expected change set per log index comes from an independent model
// (the same statements on a raw-driver in-memory database, table contents
// diffed around every statement) and the raft index returned by Execute. After
// a final sentinel insert has been delivered (the leader loop sends in FIFO
// order, so everything older has been sent or will never be), every expected
// (index, op, table, rowid) must have been received in a 200-acknowledged POST
// carrying that index. Per tenure (between restarts / flaps) acknowledged
// message indexes are non-decreasing. The documented drop when the hand-off
// channel is full is excluded by waiting for the channel to drain after every
// request.

import (
	"context"
	"database/sql"
	"encoding/json"
	"fmt"
	"io"
	"log"
	"net"
	"net/http"
	"net/http/httptest"
	"os"
	"path/filepath"
	"regexp"
	"sort"
	"strings"
	"sync"
	"testing"
	"time"

	cdcregexp "github.com/rqlite/rqlite/v10/cdc/regexp"
	"github.com/rqlite/rqlite/v10/command/proto"
	"github.com/rqlite/rqlite/v10/internal/verif/vsql"
	"github.com/rqlite/rqlite/v10/internal/verif/vstat"
	"github.com/rqlite/rqlite/v10/store"
	"pgregory.net/rapid"
)

// ---- recording endpoint -------------------------------------------------------

type c25Msg struct {
	Index  uint64 `json:"index"`
	Events []struct {
		Op       string `json:"op"`
		Table    string `json:"table"`
		NewRowID int64  `json:"new_row_id"`
		OldRowID int64  `json:"old_row_id"`
		Error    string `json:"error"`
	} `json:"events"`
}

type c25Envelope struct {
	NodeID  string   `json:"node_id"`
	Payload []c25Msg `json:"payload"`
}

type c25Delivery struct {
	Tenure int // -1: ambiguous (around a leadership flap)
	Msg    c25Msg
}

type c25Endpoint struct {
	srv *httptest.Server

	mu         sync.Mutex
	down       bool
	hang       bool
	failNext   int
	tenure     int
	deliveries []c25Delivery
	nFailed    int
	lastFailAt time.Time
	hangFor    time.Duration
}

func c25NewEndpoint(hangFor time.Duration) *c25Endpoint {
	e := &c25Endpoint{hangFor: hangFor}
	e.srv = httptest.NewServer(http.HandlerFunc(func(w http.ResponseWriter, r *http.Request) {
		body, err := io.ReadAll(r.Body)
		r.Body.Close()
		e.mu.Lock()
		fail := e.down || e.failNext > 0
		hang := e.hang && e.down
		if e.failNext > 0 {
			e.failNext--
		}
		if fail {
			e.nFailed++
			e.lastFailAt = time.Now()
		}
		e.mu.Unlock()
		if fail || err != nil {
			if hang {
				// drop the connection without any response
				if hj, ok := w.(http.Hijacker); ok {
					if c, _, herr := hj.Hijack(); herr == nil {
						c.Close()
						return
					}
				}
			}
			w.WriteHeader(http.StatusServiceUnavailable)
			return
		}
		var env c25Envelope
		if err := json.Unmarshal(body, &env); err != nil {
			w.WriteHeader(http.StatusBadRequest)
			return
		}
		e.mu.Lock()
		for _, m := range env.Payload {
			e.deliveries = append(e.deliveries, c25Delivery{e.tenure, m})
		}
		e.mu.Unlock()
		w.WriteHeader(http.StatusOK)
	}))
	return e
}

func (e *c25Endpoint) snapshot() []c25Delivery {
	e.mu.Lock()
	defer e.mu.Unlock()
	return append([]c25Delivery(nil), e.deliveries...)
}

func (e *c25Endpoint) setTenure(t int) { e.mu.Lock(); e.tenure = t; e.mu.Unlock() }

// ---- node = store + service -----------------------------------------------------

type c25Layer struct{ ln net.Listener }

func (l *c25Layer) Dial(addr string, timeout time.Duration) (net.Conn, error) {
	return net.DialTimeout("tcp", addr, timeout)
}
func (l *c25Layer) Accept() (net.Conn, error) { return l.ln.Accept() }
func (l *c25Layer) Close() error              { return l.ln.Close() }
func (l *c25Layer) Addr() net.Addr            { return l.ln.Addr() }

func c25Logger(prefix string) *log.Logger {
	if os.Getenv("VERIF_DEBUG") != "" {
		return log.New(os.Stderr, prefix, log.LstdFlags|log.Lmicroseconds)
	}
	return log.New(io.Discard, prefix, 0)
}

// c25Cluster bridges the service to the store like cdc.CDCCluster does; there
// are no other nodes, so high-watermark broadcast has nobody to reach.
type c25Cluster struct{ s *store.Store }

func (c *c25Cluster) RegisterLeaderChange(ch chan<- bool)          { c.s.RegisterLeaderChange(ch) }
func (c *c25Cluster) RegisterSnapshotSync(ch chan<- chan struct{}) { c.s.RegisterSnapshotSync(ch) }
func (c *c25Cluster) RegisterHWMUpdate(ch chan<- uint64)           {}
func (c *c25Cluster) BroadcastHighWatermark(v uint64) error        { return nil }

type c25Node struct {
	s   *store.Store
	ly  *c25Layer
	svc *Service
}

type c25Conf struct {
	BatchSz    int
	BatchDelay time.Duration
	Filter     string
}

func c25Open(dir string, url string, cf c25Conf) (*c25Node, error) {
	// a few attempts; a directory that held nothing before is wiped in between
	_, statErr := os.Stat(filepath.Join(dir, "raft.db"))
	fresh := statErr != nil
	var n *c25Node
	var err error
	for attempt := 0; attempt < 3; attempt++ {
		if n, err = c25OpenOnce(dir, url, cf); err == nil {
			return n, nil
		}
		if fresh {
			os.RemoveAll(dir)
			os.MkdirAll(dir, 0o755)
		}
		time.Sleep(200 * time.Millisecond)
	}
	return nil, err
}

func c25OpenOnce(dir string, url string, cf c25Conf) (*c25Node, error) {
	ln, err := net.Listen("tcp", "127.0.0.1:0")
	if err != nil {
		return nil, err
	}
	ly := &c25Layer{ln}
	_, statErr := os.Stat(filepath.Join(dir, "raft.db"))
	existing := statErr == nil
	s := store.New(&store.Config{DBConf: store.NewDBConfig(), Dir: dir, ID: "n1", Logger: c25Logger("[store] ")}, ly)
	s.HeartbeatTimeout = 250 * time.Millisecond
	s.ElectionTimeout = 250 * time.Millisecond
	s.LeaderLeaseTimeout = 250 * time.Millisecond

	cfg := DefaultConfig()
	cfg.Endpoint = url
	cfg.MaxBatchSz = cf.BatchSz
	cfg.MaxBatchDelay = cf.BatchDelay
	cfg.HighWatermarkInterval = 30 * time.Millisecond
	cfg.TransmitTimeout = 30 * time.Second // never expires: a delivery recorded by the endpoint is always seen as delivered by the service
	cfg.TransmitMinBackoff = 10 * time.Millisecond
	cfg.TransmitMaxBackoff = 20 * time.Millisecond
	var re *regexp.Regexp
	if cf.Filter != "" {
		rx := cdcregexp.MustCompile(cf.Filter)
		cfg.TableFilter = &rx
		re = rx.Regexp
	}
	svc, err := NewService("n1", dir, &c25Cluster{s}, cfg)
	if err != nil {
		ln.Close()
		return nil, fmt.Errorf("new service: %w", err)
	}
	svc.logger = c25Logger("[cdc-service] ")
	if err := svc.Start(); err != nil {
		ln.Close()
		return nil, fmt.Errorf("service start: %w", err)
	}
	if err := s.EnableCDC(svc.C(), re, false); err != nil {
		svc.Stop()
		ln.Close()
		return nil, fmt.Errorf("enable cdc: %w", err)
	}
	n := &c25Node{s, ly, svc}
	if err := s.Open(); err != nil {
		svc.Stop()
		ln.Close()
		return nil, fmt.Errorf("open: %w", err)
	}
	if !existing {
		if err := s.Bootstrap(store.NewServer(s.ID(), s.Addr(), true)); err != nil {
			n.close()
			return nil, fmt.Errorf("bootstrap: %w", err)
		}
	}
	if _, err := s.WaitForLeader(30 * time.Second); err != nil {
		n.close()
		return nil, fmt.Errorf("leader: %w", err)
	}
	// the service learns about leadership through the store's observer
	deadline := time.Now().Add(30 * time.Second)
	for !svc.IsLeader() {
		if time.Now().After(deadline) {
			n.close()
			return nil, fmt.Errorf("service never became leader")
		}
		time.Sleep(2 * time.Millisecond)
	}
	return n, nil
}

// close follows the process shutdown order: the store is closed (pre-close
// snapshot flushes CDC, then the hand-off channel is closed), then the service
// disappears with the process.
func (n *c25Node) close() {
	n.s.Close(true)
	n.svc.Stop()
	n.ly.Close()
}

// ---- model ------------------------------------------------------------------------

type c25Change struct {
	Index uint64
	Op    string
	Table string
	RowID int64
	Stmt  int  // statement number inside its request
	Tx    bool // request was transactional
	NStmt int
}

func (c c25Change) key() string { return fmt.Sprintf("%d/%s/%s/%d", c.Index, c.Op, c.Table, c.RowID) }

func c25Rows(db *sql.DB, table string) (map[int64]string, error) {
	rows, err := db.Query("SELECT id, coalesce(v,'') FROM " + table)
	if err != nil {
		return nil, err
	}
	defer rows.Close()
	m := map[int64]string{}
	for rows.Next() {
		var id int64
		var v string
		if err := rows.Scan(&id, &v); err != nil {
			return nil, err
		}
		m[id] = v
	}
	return m, rows.Err()
}

// c25Apply executes one statement on the model and returns the row changes.
func c25Apply(db *sql.DB, stmt string) ([]c25Change, error) {
	var out []c25Change
	before := map[string]map[int64]string{}
	for _, t := range []string{"t1", "t2"} {
		m, err := c25Rows(db, t)
		if err != nil {
			return nil, err
		}
		before[t] = m
	}
	if _, err := db.Exec(stmt); err != nil {
		return nil, err
	}
	for _, t := range []string{"t1", "t2"} {
		after, err := c25Rows(db, t)
		if err != nil {
			return nil, err
		}
		var ids []int64
		for id := range after {
			ids = append(ids, id)
		}
		for id := range before[t] {
			if _, ok := after[id]; !ok {
				ids = append(ids, id)
			}
		}
		sort.Slice(ids, func(i, j int) bool { return ids[i] < ids[j] })
		for _, id := range ids {
			b, inB := before[t][id]
			a, inA := after[id]
			switch {
			case inA && !inB:
				out = append(out, c25Change{Op: "INSERT", Table: t, RowID: id})
			case inB && !inA:
				out = append(out, c25Change{Op: "DELETE", Table: t, RowID: id})
			case a != b:
				out = append(out, c25Change{Op: "UPDATE", Table: t, RowID: id})
			}
		}
	}
	return out, nil
}

// c25ApplyReq applies a whole request to the model with rqlite's documented
// request semantics: without a transaction every statement stands alone (a
// failing statement changes nothing, the rest still run); with a transaction
// the first failing statement rolls everything back and ends the request.
// It returns the row changes that were committed, per statement, and which
// statements failed.
func c25ApplyReq(db *sql.DB, stmts []string, tx bool) (changes [][]c25Change, failed []bool, err error) {
	changes = make([][]c25Change, len(stmts))
	failed = make([]bool, len(stmts))
	if tx {
		if _, err := db.Exec("BEGIN"); err != nil {
			return nil, nil, err
		}
	}
	for j, s := range stmts {
		chs, serr := c25Apply(db, s)
		if serr != nil {
			failed[j] = true
			if tx {
				if _, err := db.Exec("ROLLBACK"); err != nil {
					return nil, nil, err
				}
				return make([][]c25Change, len(stmts)), failed, nil
			}
			continue
		}
		changes[j] = chs
	}
	if tx {
		if _, err := db.Exec("COMMIT"); err != nil {
			return nil, nil, err
		}
	}
	return changes, failed, nil
}

// ---- generator -----------------------------------------------------------------------

func c25GenStmt(rt *rapid.T, serial *int) string {
	*serial++
	t := rapid.SampledFrom([]string{"t1", "t1", "t2"}).Draw(rt, "table")
	switch rapid.IntRange(0, 8).Draw(rt, "stmtKind") {
	case 0, 1, 2:
		return fmt.Sprintf("INSERT INTO %s(v) VALUES('a%d')", t, *serial)
	case 3:
		return fmt.Sprintf("INSERT INTO %s(v) VALUES('b%d'),('c%d')", t, *serial, *serial)
	case 4:
		return fmt.Sprintf("UPDATE %s SET v='u%d' WHERE id=(SELECT max(id) FROM %s)", t, *serial, t)
	case 5:
		return fmt.Sprintf("UPDATE %s SET v=v||'x%d' WHERE id IN (SELECT id FROM %s ORDER BY id DESC LIMIT 3)", t, *serial, t)
	case 6:
		return fmt.Sprintf("DELETE FROM %s WHERE id=(SELECT min(id) FROM %s)", t, t)
	}
	// statements that (usually) fail: constraint violations of every kind, a
	// partially applied multi-row insert, a syntax error, a missing table
	switch rapid.IntRange(0, 6).Draw(rt, "failKind") {
	case 0:
		return fmt.Sprintf("INSERT INTO %s(id, v) VALUES((SELECT max(id) FROM %s), 'dup%d')", t, t, *serial)
	case 1:
		return fmt.Sprintf("INSERT INTO %s(v, u) VALUES('q%d', 'same')", t, *serial) // UNIQUE: only the first one succeeds
	case 2:
		return fmt.Sprintf("INSERT INTO %s(v) VALUES(NULL)", t)
	case 3:
		return fmt.Sprintf("INSERT INTO %s(v) VALUES('bad')", t)
	case 4:
		return fmt.Sprintf("INSERT INTO %s(id, v) SELECT 500000+%d, 'p%d' UNION ALL SELECT (SELECT min(id) FROM %s), 'dup'", t, *serial, *serial, t)
	case 5:
		return fmt.Sprintf("INSERT INTO %s(v) VALUEZ('s%d')", t, *serial)
	default:
		return fmt.Sprintf("INSERT INTO no_such_table_%s(v) VALUES('n%d')", t, *serial)
	}
}

type c25Op struct {
	Batch [][]string // backlog: one single-statement request each
	Kind  string
	Stmts []string
	Tx    bool
	N     int
	Hang  bool
}

func (o c25Op) String() string {
	switch o.Kind {
	case "req", "downflap", "downflaprestart":
		return fmt.Sprintf("%s(tx=%v %s)", o.Kind, o.Tx, strings.Join(o.Stmts, "; "))
	case "failn":
		return fmt.Sprintf("failn(%d)", o.N)
	case "backlog":
		return fmt.Sprintf("backlog(%d big requests)", len(o.Batch))
	case "down":
		return fmt.Sprintf("down(hang=%v)", o.Hang)
	}
	return o.Kind
}

func c25GenOps(rt *rapid.T) []c25Op {
	n := rapid.IntRange(3, vstat.Scale(16, 40)).Draw(rt, "nOps")
	serial := 0
	kinds := []string{"req", "req", "req", "req", "req", "req", "snap", "down", "up", "failn", "flap", "downflap", "downflaprestart", "backlog", "restart"}
	var ops []c25Op
	for i := 0; i < n; i++ {
		o := c25Op{Kind: rapid.SampledFrom(kinds).Draw(rt, "kind")}
		switch o.Kind {
		case "req", "downflap", "downflaprestart":
			k := rapid.SampledFrom([]int{1, 1, 2, 2, 3, 4}).Draw(rt, "nStmts")
			for j := 0; j < k; j++ {
				o.Stmts = append(o.Stmts, c25GenStmt(rt, &serial))
			}
			o.Tx = rapid.Bool().Draw(rt, "tx")
		case "failn":
			o.N = rapid.IntRange(1, 4).Draw(rt, "failN")
		case "backlog":
			// an outage during which a backlog of sizeable batches builds up
			k := rapid.IntRange(4, 12).Draw(rt, "backlogN")
			for j := 0; j < k; j++ {
				serial++
				seed := uint64(rapid.IntRange(1, 1<<30).Draw(rt, "bigSeed"))
				var sb strings.Builder
				for sb.Len() < 240 { // poorly compressible text
					seed = seed*6364136223846793005 + 1442695040888963407
					sb.WriteString(fmt.Sprintf("%x", seed>>20))
				}
				t := rapid.SampledFrom([]string{"t1", "t1", "t2"}).Draw(rt, "bigTable")
				o.Batch = append(o.Batch, []string{fmt.Sprintf("INSERT INTO %s(v) VALUES('big%d-%s')", t, serial, sb.String())})
			}
		case "down":
			o.Hang = rapid.IntRange(0, 3).Draw(rt, "hang") == 0
		}
		ops = append(ops, o)
	}
	return ops
}

// ---- the check ----------------------------------------------------------------------

func TestVerif_C25_Service(t *testing.T) {
	rec := vstat.New(t, "C25", "service",
		"operation sequences (3..16 ops quick, ..40 thorough) on a real Store + cdc.Service + recording HTTP endpoint: Execute requests of 1..4 statements (insert/multi-row insert/update/delete on t1,t2, plus failing statements at any position: PK/UNIQUE/NOT NULL/CHECK violations, partially applied multi-row insert, syntax error, missing table) with/without transaction, user snapshots, endpoint outages (503 / dropped connection / fail next n; also outages during which a backlog of 4..12 sizeable batches builds up), leadership flaps (also in the middle of an outage, also followed by a restart), node restarts; the high watermark is checked after every step against what the endpoint acknowledged; config batch size {1,2,3,10} x batch delay {5,40ms} x filter {none,^t1$}; non-trivial = at least one multi-statement request and at least one fault (outage, flap, restart or snapshot); distinct by config+op sequence")
	rapid.Check(t, func(rt *rapid.T) {
		defer c25RecoverInfra(rec, t)
		cf := c25Conf{
			BatchSz:    rapid.SampledFrom([]int{1, 2, 3, 10}).Draw(rt, "batchSz"),
			BatchDelay: time.Duration(rapid.SampledFrom([]int{5, 40}).Draw(rt, "batchDelayMs")) * time.Millisecond,
			Filter:     rapid.SampledFrom([]string{"", "", "^t1$"}).Draw(rt, "filter"),
		}
		ops := c25GenOps(rt)

		dir, err := os.MkdirTemp("", "c25-")
		if err != nil {
			c25Infra("tempdir")
		}
		defer os.RemoveAll(dir)
		ep := c25NewEndpoint(400 * time.Millisecond)
		defer ep.srv.Close()
		n, err := c25Open(dir, ep.srv.URL, cf)
		if err != nil {
			t.Logf("infrastructure: %v", err)
			c25Infra("node did not come up")
		}
		defer func() { n.close() }()
		model, err := vsql.OpenMem()
		if err != nil {
			c25Infra("model")
		}
		defer model.Close()

		ctx := context.Background()
		exec := func(stmts []string, tx bool) (uint64, []bool, error) {
			ss := make([]*proto.Statement, len(stmts))
			for i := range stmts {
				ss[i] = &proto.Statement{Sql: stmts[i]}
			}
			res, idx, err := n.s.Execute(ctx, &proto.ExecuteRequest{Request: &proto.Request{Statements: ss, Transaction: tx}})
			if err != nil {
				return 0, nil, err
			}
			failed := make([]bool, len(res))
			for i, r := range res {
				failed[i] = r.GetError() != "" || r.GetE().GetError() != ""
			}
			// keep the in-memory hand-off channel from filling (documented drop excluded)
			deadline := time.Now().Add(20 * time.Second)
			for len(n.svc.in) > 0 && time.Now().Before(deadline) {
				time.Sleep(time.Millisecond)
			}
			return idx, failed, nil
		}
		schema := []string{
			"CREATE TABLE t1(id INTEGER PRIMARY KEY, v TEXT NOT NULL CHECK(v <> 'bad'), u TEXT UNIQUE)",
			"CREATE TABLE t2(id INTEGER PRIMARY KEY, v TEXT NOT NULL CHECK(v <> 'bad'), u TEXT UNIQUE)"}
		if _, fl, err := exec(schema, true); err != nil || len(fl) != 2 || fl[0] || fl[1] {
			c25Infra("schema")
		}
		for _, s := range schema {
			if _, err := model.Exec(s); err != nil {
				t.Fatalf("harness: %v", err)
			}
		}
		var filterRe *regexp.Regexp
		if cf.Filter != "" {
			filterRe = regexp.MustCompile(cf.Filter)
		}

		var expected []c25Change
		var trace []string
		tenure := 0
		multi, faults := false, false
		// log indexes whose batch was at the head of the queue (oldest index with
		// nothing delivered yet) when a flap happened while the endpoint was failing
		flapHeads := map[uint64]bool{}
		doReq := func(stmts []string, tx bool) bool {
			idx, gotFailed, err := exec(stmts, tx)
			if err != nil {
				t.Logf("infrastructure: execute: %v", err)
				return false
			}
			changes, failed, err := c25ApplyReq(model, stmts, tx)
			if err != nil {
				t.Fatalf("harness: model: %v", err)
			}
			// rqlite must agree with SQLite about which statements failed (deciding
			// that is C13's business; here a disagreement only makes the expectation
			// unusable)
			anyFailed := false
			for j := range gotFailed {
				if j < len(failed) && gotFailed[j] != failed[j] {
					rec.Label("model-disagrees-on-failure")
					t.Logf("inconclusive: statement %d of %v: rqlite failed=%v model failed=%v", j+1, stmts, gotFailed[j], failed[j])
					return false
				}
			}
			for _, f := range failed {
				anyFailed = anyFailed || f
			}
			if anyFailed {
				rec.Label(fmt.Sprintf("req-with-failing-stmt/tx=%v", tx))
			}
			for j := range stmts {
				for _, c := range changes[j] {
					if filterRe != nil && !filterRe.MatchString(c.Table) {
						continue
					}
					c.Index, c.Stmt, c.Tx, c.NStmt = idx, j, tx, len(stmts)
					expected = append(expected, c)
				}
			}
			trace[len(trace)-1] += fmt.Sprintf(" @%d", idx)
			return true
		}

		hwmStart := n.svc.HighWatermark()
		doRestart := func() {
			faults = true
			n.close()
			tenure++
			ep.setTenure(tenure)
			var err error
			n, err = c25Open(dir, ep.srv.URL, cf)
			if err != nil {
				t.Logf("infrastructure: reopen: %v", err)
				n, err = c25Open(filepath.Join(dir, "spare"), ep.srv.URL, cf)
				if err != nil {
					t.Fatalf("harness: cannot open any node: %v", err)
				}
				c25Infra("node did not reopen")
			}
			hwmStart = n.svc.HighWatermark()
		}
		// Direct invariant: the high watermark only ever moves to the index of a batch
		// the endpoint has acknowledged. The endpoint records a delivery before it
		// answers 200 and the service moves the watermark only after the answer, so at
		// every instant: watermark <= max(value when this incarnation of the service
		// started, highest acknowledged message index). (The start value is the key of
		// the oldest queued batch minus one; it may lie above indexes that travel
		// inside that batch, so it is taken as given.)
		hwmViolated := false
		checkHWM := func(when string) {
			if hwmViolated {
				return
			}
			hw := n.svc.HighWatermark()
			bound := hwmStart
			ds := ep.snapshot()
			for _, d := range ds {
				if d.Msg.Index > bound {
					bound = d.Msg.Index
				}
			}
			if hw <= bound {
				return
			}
			hwmViolated = true
			sig, what := "C25/high-watermark-beyond-acknowledged", "the high watermark moves to an index the endpoint never acknowledged"
			if rec.KnownHit(sig, what) {
				return
			}
			rt.Fatalf("%s", rec.Violation(sig, "%s: high watermark is %d, but the highest index the endpoint acknowledged is %d (watermark when this service incarnation started: %d)\nconfig %+v history:\n  %s\ndeliveries: %s",
				when, hw, bound, hwmStart, cf, strings.Join(trace, "\n  "), c25Render(ds)))
		}
		doFlap := func() {
			faults = true
			ep.mu.Lock()
			// the leader loop is (or may still be) retrying a batch: the endpoint is
			// failing, or it rejected a POST a moment ago and the loop may be in its back-off
			failing := ep.down || ep.failNext > 0 || (!ep.lastFailAt.IsZero() && time.Since(ep.lastFailAt) < time.Second)
			ep.mu.Unlock()
			if failing {
				rec.Label("flap-during-outage")
				seen := map[uint64]bool{}
				for _, d := range ep.snapshot() {
					seen[d.Msg.Index] = true
				}
				for _, c := range expected { // in index order
					if !seen[c.Index] {
						flapHeads[c.Index] = true
						break
					}
				}
			}
			ep.setTenure(-1)
			n.svc.SetLeader(false)
			n.svc.SetLeader(true)
			// The service handles the two messages in order; "true" is handled (and
			// IsLeader set again) only after the old leader loop has fully stopped.
			deadline := time.Now().Add(30 * time.Second)
			for time.Now().Before(deadline) {
				if len(n.svc.leaderObCh) == 0 && n.svc.IsLeader() {
					break
				}
				time.Sleep(200 * time.Microsecond)
			}
			time.Sleep(5 * time.Millisecond)
			tenure++
			ep.setTenure(tenure)
		}
		for _, o := range ops {
			trace = append(trace, o.String())
			rec.Label("op:" + o.Kind)
			switch o.Kind {
			case "req":
				if len(o.Stmts) > 1 {
					multi = true
					rec.Label(fmt.Sprintf("req-multi/tx=%v", o.Tx))
				}
				if !doReq(o.Stmts, o.Tx) {
					c25Infra("execute failed")
				}
			case "snap":
				faults = true
				n.s.Snapshot(0)
			case "down":
				faults = true
				ep.mu.Lock()
				ep.down, ep.hang = true, o.Hang
				ep.mu.Unlock()
			case "up":
				ep.mu.Lock()
				ep.down = false
				ep.mu.Unlock()
			case "failn":
				faults = true
				ep.mu.Lock()
				ep.failNext = o.N
				ep.mu.Unlock()
			case "flap":
				doFlap()
			case "downflap":
				// an outage begins, a request is made, and while its batch is being
				// retried the service loses and regains leadership
				ep.mu.Lock()
				ep.down, ep.hang = true, false
				ep.mu.Unlock()
				if len(o.Stmts) > 1 {
					multi = true
				}
				if !doReq(o.Stmts, o.Tx) {
					c25Infra("execute failed")
				}
				time.Sleep(cf.BatchDelay + 30*time.Millisecond)
				doFlap()
			case "restart":
				doRestart()
			case "backlog":
				faults = true
				ep.mu.Lock()
				ep.down, ep.hang = true, false
				ep.mu.Unlock()
				for _, st := range o.Batch {
					if !doReq(st, false) {
						c25Infra("execute failed")
					}
				}
				time.Sleep(cf.BatchDelay + 40*time.Millisecond) // a few watermark intervals with the leader stuck
			case "downflaprestart":
				// as downflap, then the node leads again for several high-watermark
				// intervals (the watermark is broadcast and the queue pruned), then restarts
				ep.mu.Lock()
				ep.down, ep.hang = true, false
				ep.mu.Unlock()
				if len(o.Stmts) > 1 {
					multi = true
				}
				if !doReq(o.Stmts, o.Tx) {
					c25Infra("execute failed")
				}
				time.Sleep(cf.BatchDelay + 30*time.Millisecond)
				doFlap()
				time.Sleep(120 * time.Millisecond)
				checkHWM("after flap during outage")
				doRestart()
			}
			checkHWM("after " + o.Kind)
			if hwmViolated {
				return
			}
		}
		// the endpoint comes back; a sentinel marks the end of the history
		ep.mu.Lock()
		ep.down, ep.failNext = false, 0
		ep.mu.Unlock()
		trace = append(trace, "sentinel")
		nBefore := len(expected)
		if !doReq([]string{"INSERT INTO t1(id, v) VALUES(1000000, 'sentinel')"}, false) {
			c25Infra("sentinel failed")
		}
		if len(expected) != nBefore+1 {
			t.Fatalf("harness: sentinel produced %d changes", len(expected)-nBefore)
		}
		sentinel := expected[len(expected)-1]
		has := func(ds []c25Delivery, c c25Change, anyIndex bool) (bool, uint64) {
			for _, d := range ds {
				if !anyIndex && d.Msg.Index != c.Index {
					continue
				}
				for _, e := range d.Msg.Events {
					if e.Op != c.Op || e.Table != c.Table {
						continue
					}
					if (c.Op == "DELETE" && e.OldRowID == c.RowID) || (c.Op != "DELETE" && e.NewRowID == c.RowID) {
						return true, d.Msg.Index
					}
				}
			}
			return false, 0
		}
		deadline := time.Now().Add(40 * time.Second)
		for {
			// (rowid 1000000 is used by nothing else, so any index identifies it)
			if ok, _ := has(ep.snapshot(), sentinel, true); ok {
				break
			}
			if time.Now().After(deadline) {
				rec.Label("sentinel-timeout")
				t.Logf("inconclusive: sentinel not delivered in 40s; history:\n  %s", strings.Join(trace, "\n  "))
				c25Infra("sentinel not delivered in time")
			}
			time.Sleep(5 * time.Millisecond)
		}
		time.Sleep(50 * time.Millisecond)
		ds := ep.snapshot()

		canon := fmt.Sprintf("%+v ", cf)
		for _, o := range ops {
			canon += o.String() + ";"
		}
		rec.Case(multi && faults, canon)
		rec.Label(fmt.Sprintf("batchSz=%d", cf.BatchSz))
		rec.LabelN("expected-changes", len(expected))
		rec.LabelN("delivered-messages", len(ds))
		rec.Sample(strings.Join(trace, " | "))

		fail := func(sig, what, format string, args ...any) {
			if rec.KnownHit(sig, what) {
				return
			}
			rt.Fatalf("%s", rec.Violation(sig, format+"\nconfig %+v history:\n  %s\ndeliveries: %s", append(args, cf, strings.Join(trace, "\n  "), c25Render(ds))...))
		}

		// at least once, with its index
		for _, c := range expected {
			if ok, _ := has(ds, c, false); ok {
				continue
			}
			later := !c.Tx && c.Stmt > 0
			found, at := has(ds, c, true)
			indexSeen := false
			for _, d := range ds {
				if d.Msg.Index == c.Index {
					indexSeen = true
				}
			}
			switch {
			case flapHeads[c.Index] && !(found && at == 0 && later):
				// (other groups of the same log entry may have travelled in a later batch)
				fail("C25/unsent-batch-skipped-after-leader-flap", "a batch being retried when the service loses and regains leadership is never sent",
					"change %s (statement %d of %d, tx=%v) (index %d) was never delivered; its batch was at the head of the queue when the service lost and regained leadership while the endpoint was failing", c.key(), c.Stmt+1, c.NStmt, c.Tx, c.Index)
			case found && at == 0 && later:
				fail("C25/later-statement-labelled-index-0", "events of the 2nd+ statement of a non-transactional request are delivered with index 0",
					"change %s (statement %d of %d, tx=%v) was delivered labelled index %d instead of %d", c.key(), c.Stmt+1, c.NStmt, c.Tx, at, c.Index)
			case later && indexSeen: // the entry's first group arrived, a later one did not
				fail("C25/later-statement-never-delivered", "events of the 2nd+ statement of a non-transactional request are never delivered under the request's index",
					"change %s (statement %d of %d, tx=%v) was never delivered under its index", c.key(), c.Stmt+1, c.NStmt, c.Tx)
			default:
				fail("C25/change-never-delivered", "a committed row change is never delivered under its log index",
					"change %s (statement %d of %d, tx=%v) was never delivered under its index although later changes were (same op/table/rowid seen under index %d: %v)", c.key(), c.Stmt+1, c.NStmt, c.Tx, at, found)
			}
			return
		}
		// per-tenure order
		last := map[int]uint64{}
		for _, d := range ds {
			if d.Tenure < 0 {
				continue
			}
			if d.Msg.Index < last[d.Tenure] {
				if d.Msg.Index == 0 {
					fail("C25/later-statement-labelled-index-0", "events of the 2nd+ statement of a non-transactional request are delivered with index 0",
						"message with index 0 delivered after index %d in tenure %d", last[d.Tenure], d.Tenure)
				} else {
					fail("C25/order-decreases-within-tenure", "within one tenure a message with a lower index follows a higher one",
						"index %d delivered after %d within tenure %d", d.Msg.Index, last[d.Tenure], d.Tenure)
				}
				return
			}
			last[d.Tenure] = d.Msg.Index
		}
	})
}

func c25Render(ds []c25Delivery) string {
	var sb strings.Builder
	for _, d := range ds {
		fmt.Fprintf(&sb, "[t%d #%d:", d.Tenure, d.Msg.Index)
		for _, e := range d.Msg.Events {
			id := e.NewRowID
			if e.Op == "DELETE" {
				id = e.OldRowID
			}
			fmt.Fprintf(&sb, " %s %s/%d", e.Op, e.Table, id)
		}
		sb.WriteString("] ")
	}
	return sb.String()
}

// c25InfraSkip unwinds a case that hit infrastructure trouble (a store that did
// not come up, a request that could not be served): the case is counted as
// inconclusive, it is neither a pass nor a violation.
type c25InfraSkip struct{ why string }

func c25Infra(why string) { panic(c25InfraSkip{why}) }

func c25RecoverInfra(rec *vstat.Rec, t *testing.T) {
	if r := recover(); r != nil {
		if s, ok := r.(c25InfraSkip); ok {
			rec.Label("inconclusive:infrastructure")
			t.Logf("inconclusive (infrastructure): %s", s.why)
			return
		}
		panic(r)
	}
}
